package main

// locks: lockset facts. For every struct type of the listed packages that owns a sync.Mutex / sync.RWMutex field, every
// access of a method to a field of the receiver is listed with the locks held at that point (go/ast walk with inlining
// of same-receiver calls, closures start with no lock held, branches are joined conservatively). The Lean side checks by
// `decide` that a field that is written somewhere is never touched without a lock and never written under a read lock,
// up to a short list of accounted exceptions (C13/Locks.lean).

import (
	"fmt"
	"go/ast"
	"go/parser"
	"go/token"
	"os"
	"sort"
	"strings"
)

var lockDirs = []string{
	"component/storageutil/mem", "component/storageutil/cachedstore", "component/storageutil/batchedstore",
	"component/storageutil/formattedstore", "pkg/wallet", "pkg/didcomm/protocol/messagepickup", "pkg/store/did",
	"pkg/didcomm/common/service",
}

type access struct {
	method, field, rw string
	locks             string
}

type walker struct {
	recvName  string
	typeName  string
	lockFlds  map[string]bool // mutex field names of this type ("" = embedded)
	methods   map[string]*ast.FuncDecl
	out       *[]access
	calls     *[]access
	relocks   *[]access
	top       string
	held      map[string]string // lock -> "R"|"W"
	deferred  map[string]bool
	depth     int
	complexFn map[string]bool
}

func (w *walker) locksStr() string {
	var s []string
	for k, v := range w.held {
		s = append(s, k+":"+v)
	}
	sort.Strings(s)
	return "{" + strings.Join(s, ",") + "}"
}

// lockCall recognises recv.f.Lock() / recv.Lock() etc. returns (lockName, op)
func (w *walker) lockCall(e ast.Expr) (string, string, bool) {
	c, ok := e.(*ast.CallExpr)
	if !ok {
		return "", "", false
	}
	s, ok := c.Fun.(*ast.SelectorExpr)
	if !ok {
		return "", "", false
	}
	op := s.Sel.Name
	if op != "Lock" && op != "Unlock" && op != "RLock" && op != "RUnlock" {
		return "", "", false
	}
	switch x := s.X.(type) {
	case *ast.Ident:
		if x.Name == w.recvName && w.lockFlds[""] {
			return "<embedded>", op, true
		}
	case *ast.SelectorExpr:
		if id, ok := x.X.(*ast.Ident); ok && id.Name == w.recvName && w.lockFlds[x.Sel.Name] {
			return x.Sel.Name, op, true
		}
	}
	return "", "", false
}

func (w *walker) record(field, rw string) {
	if w.lockFlds[field] {
		return
	}
	*w.out = append(*w.out, access{w.top, field, rw, w.locksStr()})
}

func (w *walker) expr(e ast.Node, write bool) {
	ast.Inspect(e, func(n ast.Node) bool {
		switch v := n.(type) {
		case *ast.FuncLit:
			// closure: accesses happen later, without the locks held now
			saved := w.held
			w.held = map[string]string{}
			w.block(v.Body.List)
			w.held = saved
			return false
		case *ast.CallExpr:
			if l, op, ok := w.lockCall(v); ok {
				w.lockOp(l, op)
				return false
			}
			if s, ok := v.Fun.(*ast.SelectorExpr); ok {
				if id, ok := s.X.(*ast.Ident); ok && id.Name == w.recvName {
					if callee, ok := w.methods[s.Sel.Name]; ok && w.depth < 4 {
						for _, a := range v.Args {
							w.expr(a, false)
						}
						w.inline(callee)
						return false
					}
				}
			}
			// a call through a field of the receiver (recv.field.Method(...)): listed with the locks held, so that the Lean
			// side can require that the two halves of a multi-step operation sit in one critical section
			if s, ok := v.Fun.(*ast.SelectorExpr); ok {
				if fs, ok := s.X.(*ast.SelectorExpr); ok {
					if id, ok := fs.X.(*ast.Ident); ok && id.Name == w.recvName && w.calls != nil {
						*w.calls = append(*w.calls, access{w.top, fs.Sel.Name + "." + s.Sel.Name, "C", w.locksStr()})
					}
				}
			}
			// delete(recv.m, k) / append to recv.f are writes
			if id, ok := v.Fun.(*ast.Ident); ok && id.Name == "delete" && len(v.Args) > 0 {
				w.expr(v.Args[0], true)
				for _, a := range v.Args[1:] {
					w.expr(a, false)
				}
				return false
			}
		case *ast.SelectorExpr:
			if id, ok := v.X.(*ast.Ident); ok && id.Name == w.recvName {
				rw := "R"
				if write {
					rw = "W"
				}
				w.record(v.Sel.Name, rw)
				return false
			}
		}
		return true
	})
}

func (w *walker) lockOp(l, op string) {
	// a lock taken while the SAME lock is already held on this path: sync.Mutex / RWMutex are not reentrant. Lock under
	// Lock or RLock blocks for ever; RLock under RLock blocks as soon as a writer queues in between.
	if (op == "Lock" || op == "RLock") && w.held[l] != "" && w.relocks != nil {
		*w.relocks = append(*w.relocks, access{w.top, l, op, w.locksStr()})
	}
	switch op {
	case "Lock":
		w.held[l] = "W"
	case "RLock":
		w.held[l] = "R"
	case "Unlock", "RUnlock":
		delete(w.held, l)
	}
}

func (w *walker) inline(fd *ast.FuncDecl) {
	savedRecv := w.recvName
	if len(fd.Recv.List[0].Names) > 0 {
		w.recvName = fd.Recv.List[0].Names[0].Name
	}
	w.depth++
	savedDeferred := w.deferred
	w.deferred = map[string]bool{}
	w.block(fd.Body.List)
	// deferred unlocks of the callee (and only of this callee) release at its return
	for l := range w.deferred {
		delete(w.held, l)
	}
	w.deferred = savedDeferred
	w.depth--
	w.recvName = savedRecv
}

func (w *walker) block(list []ast.Stmt) {
	for _, s := range list {
		switch v := s.(type) {
		case *ast.DeferStmt:
			if l, op, ok := w.lockCall(v.Call); ok && (op == "Unlock" || op == "RUnlock") {
				if w.depth > 0 {
					w.deferred[l] = true
				} // released when inlined callee returns
				continue // at top level: stays held until the method returns
			}
			w.expr(v.Call, false)
		case *ast.AssignStmt:
			for _, r := range v.Rhs {
				w.expr(r, false)
			}
			for _, l := range v.Lhs {
				// recv.f = …  or recv.f[k] = …
				switch lx := l.(type) {
				case *ast.IndexExpr:
					w.expr(lx.X, true)
					w.expr(lx.Index, false)
				default:
					w.expr(l, true)
				}
			}
		case *ast.IncDecStmt:
			w.expr(v.X, true)
		case *ast.ExprStmt:
			w.expr(v.X, false)
		case *ast.ReturnStmt:
			for _, r := range v.Results {
				w.expr(r, false)
			}
		case *ast.IfStmt:
			if v.Init != nil {
				w.block([]ast.Stmt{v.Init})
			}
			w.expr(v.Cond, false)
			saved := copyMap(w.held)
			w.block(v.Body.List)
			afterThen := w.held
			w.held = copyMap(saved)
			if v.Else != nil {
				if b, ok := v.Else.(*ast.BlockStmt); ok {
					w.block(b.List)
				} else {
					w.block([]ast.Stmt{v.Else})
				}
			}
			// join: keep only locks held on both paths (a return inside a branch makes this conservative)
			w.held = meet(afterThen, w.held, endsInReturn(v.Body.List))
		case *ast.ForStmt:
			if v.Init != nil {
				w.block([]ast.Stmt{v.Init})
			}
			if v.Cond != nil {
				w.expr(v.Cond, false)
			}
			w.block(v.Body.List)
		case *ast.RangeStmt:
			w.expr(v.X, false)
			w.block(v.Body.List)
		case *ast.BlockStmt:
			w.block(v.List)
		case *ast.SwitchStmt:
			if v.Init != nil {
				w.block([]ast.Stmt{v.Init})
			}
			if v.Tag != nil {
				w.expr(v.Tag, false)
			}
			for _, c := range v.Body.List {
				saved := copyMap(w.held)
				w.block(c.(*ast.CaseClause).Body)
				w.held = saved
			}
		case *ast.TypeSwitchStmt:
			for _, c := range v.Body.List {
				saved := copyMap(w.held)
				w.block(c.(*ast.CaseClause).Body)
				w.held = saved
			}
		case *ast.SelectStmt:
			for _, c := range v.Body.List {
				saved := copyMap(w.held)
				w.block(c.(*ast.CommClause).Body)
				w.held = saved
			}
		case *ast.GoStmt:
			saved := w.held
			w.held = map[string]string{}
			w.expr(v.Call, false)
			w.held = saved
		case *ast.DeclStmt:
			ast.Inspect(v, func(n ast.Node) bool {
				if e, ok := n.(ast.Expr); ok {
					w.expr(e, false)
					return false
				}
				return true
			})
		default:
		}
	}
}

func endsInReturn(l []ast.Stmt) bool {
	if len(l) == 0 {
		return false
	}
	_, ok := l[len(l)-1].(*ast.ReturnStmt)
	return ok
}
func copyMap(m map[string]string) map[string]string {
	r := map[string]string{}
	for k, v := range m {
		r[k] = v
	}
	return r
}
func meet(a, b map[string]string, aReturns bool) map[string]string {
	if aReturns {
		return b
	}
	r := map[string]string{}
	for k, v := range a {
		if v2, ok := b[k]; ok {
			if v == "W" && v2 == "W" {
				r[k] = "W"
			} else {
				r[k] = "R"
			}
		}
	}
	return r
}

func init() {
	extractors["locks"] = func(_ []string) error {
		root := os.Getenv("VERIF_REPO")
		if root == "" {
			root = "/repo"
		}
		var rows, callRows, relockRows []string
		fset := token.NewFileSet()
		for _, dir := range lockDirs {
			pkgs, err := parser.ParseDir(fset, root+"/"+dir, func(fi os.FileInfo) bool {
				return !strings.HasSuffix(fi.Name(), "_test.go") && !strings.HasSuffix(fi.Name(), "_verif.go")
			}, 0)
			if err != nil {
				return err
			}
			for _, p := range pkgs {
				lockFields := map[string]map[string]bool{}
				methods := map[string]map[string]*ast.FuncDecl{}
				for _, f := range p.Files {
					for _, d := range f.Decls {
						switch v := d.(type) {
						case *ast.GenDecl:
							for _, sp := range v.Specs {
								ts, ok := sp.(*ast.TypeSpec)
								if !ok {
									continue
								}
								st, ok := ts.Type.(*ast.StructType)
								if !ok {
									continue
								}
								for _, fl := range st.Fields.List {
									t := fmt.Sprint(exprStr(fl.Type))
									if strings.HasSuffix(t, "sync.Mutex") || strings.HasSuffix(t, "sync.RWMutex") {
										if lockFields[ts.Name.Name] == nil {
											lockFields[ts.Name.Name] = map[string]bool{}
										}
										if len(fl.Names) == 0 {
											lockFields[ts.Name.Name][""] = true
										}
										for _, n := range fl.Names {
											lockFields[ts.Name.Name][n.Name] = true
										}
									}
								}
							}
						case *ast.FuncDecl:
							if v.Recv == nil || v.Body == nil {
								continue
							}
							rt := v.Recv.List[0].Type
							if s, ok := rt.(*ast.StarExpr); ok {
								rt = s.X
							}
							id, ok := rt.(*ast.Ident)
							if !ok {
								continue
							}
							if methods[id.Name] == nil {
								methods[id.Name] = map[string]*ast.FuncDecl{}
							}
							methods[id.Name][v.Name.Name] = v
						}
					}
				}
				for tn, lf := range lockFields {
					var acc, calls, relocks []access
					var mns []string
					for mn := range methods[tn] {
						mns = append(mns, mn)
					}
					sort.Strings(mns)
					for _, mn := range mns {
						fd := methods[tn][mn]
						if len(fd.Recv.List[0].Names) == 0 {
							continue
						}
						if mn == "Initialize" {
							continue // construction: the value is not shared yet
						}
						w := &walker{recvName: fd.Recv.List[0].Names[0].Name, typeName: tn, lockFlds: lf, methods: methods[tn], out: &acc, calls: &calls, relocks: &relocks, top: mn, held: map[string]string{}, deferred: map[string]bool{}}
						w.block(fd.Body.List)
					}
					for _, c := range calls {
						callRows = append(callRows, fmt.Sprintf("  ⟨%q, %q, %q, %q, %q, %v, %v⟩", p.Name+"."+tn, c.method, c.field, c.rw, c.locks,
							c.locks != "{}", strings.Contains(c.locks, ":W")))
					}
					for _, c := range relocks {
						relockRows = append(relockRows, fmt.Sprintf("  ⟨%q, %q, %q, %q, %q, %v, %v⟩", p.Name+"."+tn, c.method, c.field, c.rw, c.locks,
							true, strings.Contains(c.locks, ":W")))
					}
					written := map[string]bool{}
					for _, a := range acc {
						if a.rw == "W" {
							written[a.field] = true
						}
					}
					for _, a := range acc {
						if !written[a.field] {
							continue // a field that is only read after construction needs no lock
						}
						rows = append(rows, fmt.Sprintf("  ⟨%q, %q, %q, %q, %q, %v, %v⟩", p.Name+"."+tn, a.method, a.field, a.rw, a.locks,
							a.locks != "{}", strings.Contains(a.locks, ":W")))
					}
				}
			}
		}
		sort.Strings(rows)
		fmt.Println("/-! GENERATED by `extract locks` from /repo on every run — do not edit. -/")
		fmt.Println("namespace C13.Generated")
		fmt.Println("structure Access where")
		fmt.Println("  typ : String\n  method : String\n  field : String\n  rw : String\n  locks : String")
		fmt.Println("  anyLock : Bool\n  writeLock : Bool")
		fmt.Println("deriving DecidableEq, Repr")
		fmt.Println("def accesses : List Access := [")
		fmt.Println(strings.Join(dedupe(rows), ",\n"))
		fmt.Println("]")
		sort.Strings(callRows)
		fmt.Println("/-- calls through a field of the receiver (`field` = \"<field>.<Method>\"), with the locks held at the call -/")
		fmt.Println("def calls : List Access := [")
		fmt.Println(strings.Join(dedupe(callRows), ",\n"))
		fmt.Println("]")
		sort.Strings(relockRows)
		fmt.Println("/-- a lock taken while the same lock is already held on that path (`field` = the lock, `rw` = Lock | RLock) -/")
		fmt.Println("def relocks : List Access := [")
		fmt.Println(strings.Join(dedupe(relockRows), ",\n"))
		fmt.Println("]")
		fmt.Println("end C13.Generated")
		return nil
	}
}

func keys(m map[string]bool) []string {
	var r []string
	for k := range m {
		r = append(r, k)
	}
	sort.Strings(r)
	return r
}
func exprStr(e ast.Expr) string {
	switch v := e.(type) {
	case *ast.Ident:
		return v.Name
	case *ast.SelectorExpr:
		return exprStr(v.X) + "." + v.Sel.Name
	case *ast.StarExpr:
		return "*" + exprStr(v.X)
	}
	return "?"
}
