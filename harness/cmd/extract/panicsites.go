package main

// panicsites: for a fixed list of decoder functions of /repo that index, slice or type-assert data coming from another
// party, list (by parsing the CURRENT source with go/ast) every syntactic panic site and every branch condition:
//
//	site  := index expression | slice expression | type assertion without the ", ok" form | explicit panic call
//	guard := text of every if-condition (and every expression-switch case) of the function
//
// The Lean side (C03/Sites.lean) carries, for every site, the guard it relies on; `decide` checks that every listed site
// is accounted for and that every guard relied upon is still a branch condition of the function.

import (
	"bytes"
	"fmt"
	"go/ast"
	"go/parser"
	"go/printer"
	"go/token"
	"os"
	"sort"
	"strings"
)

var panicSiteTargets = []struct{ file, fn string }{
	{"pkg/didcomm/packager/packager.go", "getEncodingType"},
	{"component/kmscrypto/crypto/primitive/bbs12381g2pub/utils.go", "parsePoKPayload"},
	{"component/kmscrypto/crypto/primitive/bbs12381g2pub/utils.go", "bitvectorToIndexes"},
	{"component/kmscrypto/crypto/primitive/bbs12381g2pub/signature_proof.go", "ParseSignatureProof"},
	{"component/kmscrypto/crypto/primitive/bbs12381g2pub/signature_proof.go", "ParseProofG1"},
	{"component/kmscrypto/crypto/primitive/bbs12381g2pub/signature_proof.go", "Verify"},
	{"component/kmscrypto/crypto/primitive/bbs12381g2pub/bbs12381g2pub.go", "VerifyProof"},
	{"component/kmscrypto/doc/util/fingerprint/fingerprint.go", "PubKeyFromFingerprint"},
	{"component/models/jwt/verifier.go", "verifySignature"},
	{"component/models/did/endpoint/endpoint.go", "URI"},
	{"component/models/verifiable/common.go", "safeStringValue"},
	{"pkg/didcomm/protocol/messagepickup/service.go", "handleBatchPickup"},
	{"pkg/didcomm/protocol/messagepickup/service.go", "handleStatusRequest"},
	{"component/kmscrypto/doc/jose/jws.go", "parseCompacted"},
	{"component/kmscrypto/doc/jose/jws.go", "signingInput"},
	{"component/kmscrypto/doc/jose/decrypter.go", "extractRecipientHeaders"},
	{"component/models/did/doc.go", "populateServices"},
	{"pkg/didcomm/protocol/legacyconnection/states.go", "verifySignature"},
}

func exprText(fset *token.FileSet, n ast.Node) string {
	var b bytes.Buffer
	_ = printer.Fprint(&b, fset, n)
	return strings.Join(strings.Fields(b.String()), " ")
}

func init() {
	extractors["panicsites"] = func(_ []string) error {
		root := os.Getenv("VERIF_REPO")
		if root == "" {
			root = "/repo"
		}
		var sites, guards []string
		for _, t := range panicSiteTargets {
			fset := token.NewFileSet()
			f, err := parser.ParseFile(fset, root+"/"+t.file, nil, 0)
			if err != nil {
				return err
			}
			found := false
			for _, d := range f.Decls {
				fd, ok := d.(*ast.FuncDecl)
				if !ok || fd.Name.Name != t.fn || fd.Body == nil {
					continue
				}
				found = true
				name := t.fn
				if fd.Recv != nil && len(fd.Recv.List) == 1 {
					name = strings.TrimPrefix(exprText(fset, fd.Recv.List[0].Type), "*") + "." + t.fn
				}
				// type assertions in the comma-ok form or in a type switch do not panic
				safe := map[ast.Node]bool{}
				ast.Inspect(fd.Body, func(n ast.Node) bool {
					switch x := n.(type) {
					case *ast.AssignStmt:
						if len(x.Lhs) == 2 && len(x.Rhs) == 1 {
							if ta, ok := x.Rhs[0].(*ast.TypeAssertExpr); ok {
								safe[ta] = true
							}
						}
					case *ast.ValueSpec:
						if len(x.Names) == 2 && len(x.Values) == 1 {
							if ta, ok := x.Values[0].(*ast.TypeAssertExpr); ok {
								safe[ta] = true
							}
						}
					case *ast.TypeSwitchStmt:
						ast.Inspect(x.Assign, func(m ast.Node) bool {
							if ta, ok := m.(*ast.TypeAssertExpr); ok {
								safe[ta] = true
							}
							return true
						})
					}
					return true
				})
				ast.Inspect(fd.Body, func(n ast.Node) bool {
					switch x := n.(type) {
					case *ast.IndexExpr:
						sites = append(sites, fmt.Sprintf("  (%q, \"index\", %q)", name, exprText(fset, x)))
					case *ast.SliceExpr:
						sites = append(sites, fmt.Sprintf("  (%q, \"slice\", %q)", name, exprText(fset, x)))
					case *ast.TypeAssertExpr:
						if !safe[x] && x.Type != nil {
							sites = append(sites, fmt.Sprintf("  (%q, \"assert\", %q)", name, exprText(fset, x)))
						}
					case *ast.CallExpr:
						if id, ok := x.Fun.(*ast.Ident); ok && id.Name == "panic" {
							sites = append(sites, fmt.Sprintf("  (%q, \"panic\", %q)", name, exprText(fset, x)))
						}
					case *ast.IfStmt:
						guards = append(guards, fmt.Sprintf("  (%q, %q)", name, exprText(fset, x.Cond)))
					case *ast.CaseClause:
						for _, e := range x.List {
							guards = append(guards, fmt.Sprintf("  (%q, %q)", name, "case "+exprText(fset, e)))
						}
					case *ast.ForStmt:
						if x.Cond != nil {
							guards = append(guards, fmt.Sprintf("  (%q, %q)", name, "for "+exprText(fset, x.Cond)))
						}
					case *ast.RangeStmt:
						guards = append(guards, fmt.Sprintf("  (%q, %q)", name, "range "+exprText(fset, x.X)))
					}
					return true
				})
			}
			if !found {
				return fmt.Errorf("function %s not found in %s", t.fn, t.file)
			}
		}
		sort.Strings(sites)
		sort.Strings(guards)
		fmt.Println("/-! GENERATED by `extract panicsites` from /repo on every run — do not edit. -/")
		fmt.Println("namespace C03.Generated")
		fmt.Println("def sites : List (String × String × String) := [")
		fmt.Println(strings.Join(dedupe(sites), ",\n"))
		fmt.Println("]")
		fmt.Println("def guards : List (String × String) := [")
		fmt.Println(strings.Join(dedupe(guards), ",\n"))
		fmt.Println("]")
		fmt.Println("end C03.Generated")
		return nil
	}
}

func dedupe(xs []string) []string {
	var out []string
	for i, x := range xs {
		if i == 0 || x != xs[i-1] {
			out = append(out, x)
		}
	}
	return out
}
