// extract: translators from /repo's Go source to Lean tables (AriesVerif/Generated/*.lean).
package main

import (
	"fmt"
	"os"
)

var extractors = map[string]func(args []string) error{}

func main() {
	if len(os.Args) < 2 {
		fmt.Fprintln(os.Stderr, "usage: extract <what> [args]")
		os.Exit(2)
	}
	f := extractors[os.Args[1]]
	if f == nil {
		fmt.Fprintln(os.Stderr, "unknown extractor", os.Args[1])
		os.Exit(2)
	}
	if err := f(os.Args[2:]); err != nil {
		fmt.Fprintln(os.Stderr, "extract:", err)
		os.Exit(1)
	}
}
