package main

// C13: shared services under concurrent use. G goroutines run short operation lists on ONE shared instance; every
// operation is recorded with logical invoke / return times; a search (Wing & Gong style, in Go) proposes a sequential
// order, which the Lean side VALIDATES against its own sequential specification and the real-time order (the Go search is
// never believed: it only proposes the witness). The binary is built with -race for this property; a race report of the
// runtime goes to stderr and is picked up by the check.
//
// input  := target "|" G "|" N "|" seed
//   target: mem | cached | batched | formatted   (storage providers / wrappers: put get delete on 3 keys)
//           kms      (localkms: import under two contested ids, get)
//           session  (wallet profile: open / close with the right passphrase from many goroutines, one user)
//           pickup   (messagepickup inbox of one recipient: add, pickup 1, pickup all)
// output := "h=" EVENT (";" EVENT)* " lin=" (ORDER | NONE)
//   EVENT := <goroutine>:<op with args>@<invoke>-<return>=<result>           ORDER := comma separated event indexes

import (
	"encoding/json"
	"fmt"
	"runtime"
	"sort"
	"strconv"
	"strings"
	"sync"
	"sync/atomic"
	"time"

	"github.com/hyperledger/aries-framework-go/component/kmscrypto/doc/jose"
	"github.com/hyperledger/aries-framework-go/component/storage/edv"
	"github.com/hyperledger/aries-framework-go/component/storageutil/batchedstore"
	"github.com/hyperledger/aries-framework-go/component/storageutil/cachedstore"
	"github.com/hyperledger/aries-framework-go/component/storageutil/formattedstore"
	"github.com/hyperledger/aries-framework-go/component/storageutil/formattedstore/exampleformatters"
	"github.com/hyperledger/aries-framework-go/component/kmscrypto/kms/localkms"
	"github.com/hyperledger/aries-framework-go/component/storageutil/mem"
	"github.com/hyperledger/aries-framework-go/pkg/didcomm/protocol/messagepickup"
	mockdispatcher "github.com/hyperledger/aries-framework-go/pkg/mock/didcomm/dispatcher"
	"github.com/hyperledger/aries-framework-go/component/models/ld/testutil"
	"github.com/hyperledger/aries-framework-go/pkg/crypto/tinkcrypto"
	mockprovider "github.com/hyperledger/aries-framework-go/pkg/mock/provider"
	"github.com/hyperledger/aries-framework-go/pkg/wallet"
	kmsapi "github.com/hyperledger/aries-framework-go/spi/kms"
	spi "github.com/hyperledger/aries-framework-go/spi/storage"
)

type c13Event struct {
	g        int
	op       string
	inv, ret int64
	res      string
}

type c13Exec func(op string) string

// ---- sequential specifications used by the SEARCH (the authoritative ones are in Lean) -------------------------------

type c13Spec func(state string, op string) (string, string) // (state', result)

func c13KVSpec(state, op string) (string, string) {
	m := map[string]string{}
	for _, kv := range strings.Split(state, ",") {
		if kv != "" {
			p := strings.SplitN(kv, "=", 2)
			m[p[0]] = p[1]
		}
	}
	f := strings.Split(op, " ")
	res := "ok"
	switch f[0] {
	case "put":
		m[f[1]] = f[2]
	case "del":
		delete(m, f[1])
	case "get":
		if v, ok := m[f[1]]; ok {
			res = v
		} else {
			res = "notfound"
		}
	case "query":
		// every entry carries the tag: the keys present, sorted
		var ks []string
		for k := range m {
			ks = append(ks, k)
		}
		sort.Strings(ks)
		res = strings.Join(ks, "+")
		if res == "" {
			res = "-"
		}
	}
	var ks []string
	for k, v := range m {
		ks = append(ks, k+"="+v)
	}
	sort.Strings(ks)
	return strings.Join(ks, ","), res
}

// ids imported so far; a second import under the same id is refused
func c13KMSSpec(state, op string) (string, string) {
	f := strings.Split(op, " ")
	has := strings.Contains(","+state+",", ","+f[1]+",")
	switch f[0] {
	case "import":
		if has {
			return state, "err"
		}
		return state + "," + f[1], "ok"
	default: // get
		if has {
			return state, "ok"
		}
		return state, "err"
	}
}

// one user; state = number of the live token ("" = closed). open#n succeeds iff closed and makes token n live; close
// succeeds (true) iff open; use#n tells whether token n is the live one.
func c13SessionSpec(state, op string) (string, string) {
	switch {
	case strings.HasPrefix(op, "open#"):
		if state != "" {
			return state, "err"
		}
		return op[5:], "ok"
	case strings.HasPrefix(op, "use#"):
		if state != "" && state == op[4:] {
			return state, "live"
		}
		return state, "dead"
	default:
		if state != "" {
			return "", "true"
		}
		return state, "false"
	}
}

// wallet contents of one type: add id name (refused when the id is taken) | rm id | get id
func c13WalletSpec(state, op string) (string, string) {
	m := map[string]string{}
	for _, kv := range strings.Split(state, ",") {
		if kv != "" {
			p := strings.SplitN(kv, "=", 2)
			m[p[0]] = p[1]
		}
	}
	f := strings.Split(op, " ")
	res := "ok"
	switch f[0] {
	case "add":
		if _, ok := m[f[1]]; ok {
			res = "err"
		} else {
			m[f[1]] = f[2]
		}
	case "rm":
		delete(m, f[1])
	default:
		if v, ok := m[f[1]]; ok {
			res = v
		} else {
			res = "notfound"
		}
	}
	var ks []string
	for k, v := range m {
		ks = append(ks, k+"="+v)
	}
	sort.Strings(ks)
	return strings.Join(ks, ","), res
}

// FIFO inbox: add m | pick n -> the first n messages
func c13PickupSpec(state, op string) (string, string) {
	var q []string
	if state != "" {
		q = strings.Split(state, ",")
	}
	f := strings.Split(op, " ")
	switch f[0] {
	case "add":
		q = append(q, f[1])
		return strings.Join(q, ","), "ok"
	case "pickf":
		// the delivery fails: nothing leaves the inbox
		return state, "fail"
	default:
		n, _ := strconv.Atoi(f[1])
		if n > len(q) {
			n = len(q)
		}
		res := strings.Join(q[:n], "+")
		if res == "" {
			res = "-"
		}
		return strings.Join(q[n:], ","), res
	}
}

// search a linearization: DFS over the minimal (no pending predecessor) operations, memo on (done set, state)
// candidates are tried in the order of their return times: under a mutex that is the order in which the lock was taken,
// so a witness of a correct run is found without backtracking. The search gives up after a node budget (gaveUp): that is
// NOT a verdict.
func c13Linearize(ev []c13Event, spec c13Spec) (witness []int, gaveUp bool) {
	n := len(ev)
	memo := map[string]bool{}
	byRet := make([]int, n)
	for i := range byRet {
		byRet[i] = i
	}
	sort.Slice(byRet, func(a, b int) bool { return ev[byRet[a]].ret < ev[byRet[b]].ret })
	nodes := 0
	var order []int
	var dfs func(done uint64, state string) bool
	dfs = func(done uint64, state string) bool {
		if bitsCount(done) == n {
			return true
		}
		nodes++
		if nodes > 3000000 {
			gaveUp = true
			return false
		}
		key := fmt.Sprintf("%x|%s", done, state)
		if memo[key] {
			return false
		}
		for _, i := range byRet {
			if gaveUp {
				return false
			}
			if done&(1<<uint(i)) != 0 {
				continue
			}
			// i may come next only if no other pending operation returned before i was invoked
			ok := true
			for j := 0; j < n; j++ {
				if j != i && done&(1<<uint(j)) == 0 && ev[j].ret < ev[i].inv {
					ok = false
					break
				}
			}
			if !ok {
				continue
			}
			st, res := spec(state, ev[i].op)
			if res != ev[i].res {
				continue
			}
			order = append(order, i)
			if dfs(done|1<<uint(i), st) {
				return true
			}
			order = order[:len(order)-1]
		}
		memo[key] = true
		return false
	}
	if dfs(0, "") {
		return order, false
	}
	return nil, gaveUp
}

func bitsCount(x uint64) int {
	c := 0
	for ; x != 0; x &= x - 1 {
		c++
	}
	return c
}

// ---- targets ---------------------------------------------------------------------------------------------------------

func c13KVExec(p spi.Provider) (c13Exec, error) { return c13KVExecOpen(p, false) }

// c13OpenTogether: eight goroutines, released together, open one never-opened store name; what is written through any
// of the handles must be readable through the first (the handles are ONE store). Fresh name per round.
func c13OpenTogether(p spi.Provider, rounds int) error {
	const g = 8
	for r := 0; r < rounds; r++ {
		name := fmt.Sprintf("c13-together-%d", r)
		hs := make([]spi.Store, g)
		start := make(chan struct{})
		var wg sync.WaitGroup
		for i := 0; i < g; i++ {
			wg.Add(1)
			go func(i int) {
				defer wg.Done()
				<-start
				hs[i], _ = p.OpenStore(name)
			}(i)
		}
		close(start)
		wg.Wait()
		for i, h := range hs {
			if h == nil {
				return fmt.Errorf("OpenStore failed under concurrent first opens")
			}
			if err := h.Put(fmt.Sprintf("p%d", i), []byte("v")); err != nil {
				return err
			}
		}
		for i := range hs {
			if _, err := hs[0].Get(fmt.Sprintf("p%d", i)); err != nil {
				return fmt.Errorf("NOT-ONE-STORE: handles of store %q opened at the same moment are different stores (a write through handle %d returned ok and is invisible through handle 0)", name, i)
			}
		}
	}
	return nil
}

// lateOpen: no handle is opened beforehand; EVERY operation opens the store by name and works through the handle it got
// (several services of one agent opening the same store at the same moment): all handles are the same store
func c13KVExecOpen(p spi.Provider, lateOpen bool) (c13Exec, error) {
	var st0 spi.Store
	if !lateOpen {
		var err error
		st0, err = p.OpenStore("c13")
		if err != nil {
			return nil, err
		}
		if err := p.SetStoreConfig("c13", spi.StoreConfiguration{TagNames: []string{"t"}}); err != nil {
			return nil, err
		}
	}
	if lateOpen {
		if err := c13OpenTogether(p, 400); err != nil {
			return nil, err
		}
	}
	return func(op string) string {
		f := strings.Split(op, " ")
		st := st0
		if lateOpen {
			var err error
			st, err = p.OpenStore("c13-late")
			if err != nil {
				return "err"
			}
		}
		switch f[0] {
		case "cfg":
			// provider level calls next to the data operations (no effect on the data: the sequential result is "ok")
			_ = p.SetStoreConfig("c13", spi.StoreConfiguration{TagNames: []string{"t", "t" + f[1]}})
			_, _ = p.GetStoreConfig("c13")
			_ = p.GetOpenStores()
			if _, e := p.OpenStore("c13"); e != nil {
				return "err"
			}
			// a store that may not be open yet: the provider's table of open stores is written
			if _, e := p.OpenStore("c13-side-" + f[1]); e != nil {
				return "err"
			}
			_, _ = p.GetStoreConfig("c13-side-" + f[1])
			_ = p.GetOpenStores()
			return "ok"
		case "query":
			it, err := st.Query("t")
			if err != nil {
				return "err"
			}
			var ks []string
			for {
				more, err := it.Next()
				if err != nil {
					return "err"
				}
				if !more {
					break
				}
				k, err := it.Key()
				if err != nil {
					return "err"
				}
				ks = append(ks, k)
			}
			_ = it.Close()
			sort.Strings(ks)
			if len(ks) == 0 {
				return "-"
			}
			return strings.Join(ks, "+")
		case "put":
			if err := st.Put(f[1], []byte(f[2]), spi.Tag{Name: "t"}); err != nil {
				return "err"
			}
			return "ok"
		case "del":
			if err := st.Delete(f[1]); err != nil {
				return "err"
			}
			return "ok"
		default:
			v, err := st.Get(f[1])
			if err != nil {
				if err == spi.ErrDataNotFound || strings.Contains(err.Error(), "not found") {
					return "notfound"
				}
				return "err"
			}
			return string(v)
		}
	}, nil
}

func c13Target(name string) (c13Exec, c13Spec, func(r *Rng, g int) string, error) {
	kvGen := func(r *Rng, g int) string {
		// few keys and many deletes: contention, and cache misses for the wrappers that fill on read
		k := r.Pick([]string{"k1", "k1", "k2", "k2", "k3"})
		switch r.N(9) {
		case 8:
			return "query"
		case 7:
			return fmt.Sprintf("cfg %d", r.N(3))
		case 0, 1:
			return fmt.Sprintf("put %s v%d%d", k, g, r.N(90))
		case 2, 3:
			return "del " + k
		}
		return "get " + k
	}
	switch name {
	case "mem":
		e, err := c13KVExec(mem.NewProvider())
		return e, c13KVSpec, kvGen, err
	case "cached":
		e, err := c13KVExec(cachedstore.NewProvider(mem.NewProvider(), mem.NewProvider()))
		return e, c13KVSpec, kvGen, err
	case "edv":
		// formattedstore over the EDV encrypted formatter (ONE formatter instance serves every goroutine, as it serves every
		// store of a provider): what the formatter keeps between calls is shared state
		if c12Shared == nil {
			c12SetupReal()
		}
		// (a decrypter of its own: the C12 environment's decrypter goes through a recording crypto that is not made for
		// concurrent use)
		dec := jose.NewJWEDecrypt(nil, envCrypto, c12Shared.kms)
		e, err := c13KVExec(formattedstore.NewProvider(mem.NewProvider(), edv.NewEncryptedFormatter(c12Shared.enc, dec,
			c12Shared.mac, edv.WithDeterministicDocumentIDs())))
		return e, c13KVSpec, kvGen, err
	case "mem-open", "formatted-open":
		// (no provider level calls here: they need a store that was configured beforehand)
		gen := func(r *Rng, g int) string {
			if op := kvGen(r, g); !strings.HasPrefix(op, "cfg") {
				return op
			}
			return "get k1"
		}
		var p spi.Provider = mem.NewProvider()
		if name == "formatted-open" {
			p = formattedstore.NewProvider(mem.NewProvider(), exampleformatters.NewBase64Formatter(true))
		}
		e, err := c13KVExecOpen(p, true)
		return e, c13KVSpec, gen, err
	case "batched":
		e, err := c13KVExec(batchedstore.NewProvider(mem.NewProvider(), 3))
		return e, c13KVSpec, kvGen, err
	case "formatted":
		e, err := c13KVExec(formattedstore.NewProvider(mem.NewProvider(), exampleformatters.NewBase64Formatter(true)))
		return e, c13KVSpec, kvGen, err
	case "kms", "kms2":
		// kms2: TWO key managers over ONE store and one master key (two services of a process, or two processes over a
		// shared database): the third word of an operation names the instance. "This id is free" followed by the write
		// under it must be atomic for the store, not for the instance.
		shared := mem.NewProvider()
		kms := []kmsapi.KeyManager{c04NewKMSOver(shared)}
		if name == "kms2" {
			kms = append(kms, c04NewKMSOver(shared))
		}
		exec := func(op string) string {
			f := strings.Split(op, " ")
			km := kms[0]
			if len(f) == 3 && f[2] == "i1" && len(kms) > 1 {
				km = kms[1]
			}
			if f[0] == "import" {
				priv, _ := c04Import("ed25519")
				if _, _, err := km.ImportPrivateKey(priv, kmsapi.ED25519Type, kmsapi.WithKeyID(f[1])); err != nil {
					return "err"
				}
				return "ok"
			}
			if _, err := km.Get(f[1]); err != nil {
				return "err"
			}
			return "ok"
		}
		gen := func(r *Rng, g int) string {
			id := r.Pick([]string{"id-a", "id-b"})
			inst := ""
			if name == "kms2" {
				inst = fmt.Sprintf(" i%d", g%2)
			}
			if r.N(3) == 0 {
				return "get " + id + inst
			}
			return "import " + id + inst
		}
		return exec, c13KMSSpec, gen, nil
	case "session":
		// the wallet's session manager (one process-wide instance): scan-then-insert under its mutex, and the token check
		// with its expiry refresh. Tokens are numbered in the order of their creation; the operation recorded for the
		// history names the number it met ("open#3", "use#3": the exec returns "<recorded op>=><result>").
		user := fmt.Sprintf("user-%d", time.Now().UnixNano())
		var (
			tokMu  sync.Mutex
			tokens []string
		)
		exec := func(op string) string {
			switch op {
			case "open":
				tok, err := wallet.VerifCreateSession(user)
				if err != nil {
					return "open#0=>err"
				}
				tokMu.Lock()
				tokens = append(tokens, tok)
				n := len(tokens)
				tokMu.Unlock()
				return fmt.Sprintf("open#%d=>ok", n)
			case "use":
				// the most recently issued token (it may have been closed since)
				tokMu.Lock()
				n := len(tokens)
				tok := ""
				if n > 0 {
					tok = tokens[n-1]
				}
				tokMu.Unlock()
				if n == 0 {
					return "use#0=>dead"
				}
				if wallet.VerifSessionAlive(tok) {
					return fmt.Sprintf("use#%d=>live", n)
				}
				return fmt.Sprintf("use#%d=>dead", n)
			}
			return strconv.FormatBool(wallet.VerifCloseSession(user))
		}
		gen := func(r *Rng, g int) string { return r.Pick([]string{"open", "open", "close", "use", "use"}) }
		return exec, c13SessionSpec, gen, nil
	case "wsave":
		// one shared wallet instance: contents of one type; a second add under the same id is refused
		loader, err := testutil.DocumentLoader()
		if err != nil {
			return nil, nil, nil, err
		}
		cr, err := tinkcrypto.New()
		if err != nil {
			return nil, nil, nil, err
		}
		ctx := &mockprovider.Provider{StorageProviderValue: keepProvider{mem.NewProvider()}, DocumentLoaderValue: loader, CryptoValue: cr}
		user := fmt.Sprintf("c13-wsave-%d", time.Now().UnixNano())
		if err := wallet.CreateProfile(user, ctx, wallet.WithPassphrase("p")); err != nil {
			return nil, nil, nil, err
		}
		w, err := wallet.New(user, ctx)
		if err != nil {
			return nil, nil, nil, err
		}
		tok, err := w.Open(wallet.WithUnlockByPassphrase("p"))
		if err != nil {
			return nil, nil, nil, err
		}
		exec := func(op string) string {
			f := strings.Split(op, " ")
			switch f[0] {
			case "add":
				err := w.Add(tok, wallet.Metadata, []byte(fmt.Sprintf(`{"@context":["https://w3id.org/wallet/v1"],"id":"%s","type":"Metadata","name":"%s"}`, f[1], f[2])))
				if err != nil {
					return "err"
				}
				return "ok"
			case "rm":
				if err := w.Remove(tok, wallet.Metadata, f[1]); err != nil {
					return "err"
				}
				return "ok"
			}
			b, err := w.Get(tok, wallet.Metadata, f[1])
			if err != nil {
				return "notfound"
			}
			var m struct {
				Name string `json:"name"`
			}
			_ = json.Unmarshal(b, &m)
			return m.Name
		}
		gen := func(r *Rng, g int) string {
			id := r.Pick([]string{"urn:a", "urn:a", "urn:b"})
			switch r.N(5) {
			case 0, 1:
				return fmt.Sprintf("add %s n%d%d", id, g, r.N(90))
			case 2:
				return "rm " + id
			}
			return "get " + id
		}
		return exec, c13WalletSpec, gen, nil
	case "pickup":
		// the batch handed to the outbound dispatcher carries the id of the request (@id): results are keyed by it
		var batches, failing sync.Map
		out := &mockdispatcher.MockOutbound{ValidateSendToDID: func(msg interface{}, _, _ string) error {
			b, err := json.Marshal(msg)
			if err != nil {
				return err
			}
			var hdr struct {
				ID string `json:"@id"`
			}
			if json.Unmarshal(b, &hdr) == nil {
				if _, bad := failing.Load(hdr.ID); bad {
					runtime.Gosched()
					return fmt.Errorf("injected delivery fault")
				}
			}
			var m struct {
				ID   string `json:"@id"`
				Msgs []struct {
					Msg []byte `json:"msg"`
				} `json:"messages~attach"`
			}
			if json.Unmarshal(b, &m) != nil {
				return nil
			}
			var ids []string
			for _, x := range m.Msgs {
				ids = append(ids, string(x.Msg))
			}
			batches.Store(m.ID, strings.Join(ids, "+"))
			return nil
		}}
		svc, err := messagepickup.New(&mockprovider.Provider{StorageProviderValue: mem.NewProvider(),
			ProtocolStateStorageProviderValue: mem.NewProvider(), OutboundDispatcherValue: out})
		if err != nil {
			return nil, nil, nil, err
		}
		var seq int64
		exec := func(op string) string {
			f := strings.Split(op, " ")
			if f[0] == "add" {
				if err := svc.AddMessage([]byte(f[1]), "did:r"); err != nil {
					return "err"
				}
				return "ok"
			}
			n, _ := strconv.Atoi(f[1])
			id := fmt.Sprintf("req-%d", atomic.AddInt64(&seq, 1))
			if f[0] == "pickf" {
				failing.Store(id, true)
				_ = svc.VerifHandleBatchPickup(c14Msg(map[string]interface{}{"@id": id, "@type": messagepickup.BatchPickupMsgType,
					"batch_size": n}), "did:me", "did:r")
				return "fail"
			}
			err := svc.VerifHandleBatchPickup(c14Msg(map[string]interface{}{"@id": id, "@type": messagepickup.BatchPickupMsgType,
				"batch_size": n}), "did:me", "did:r")
			if err != nil {
				return "-" // no inbox yet: nothing to hand out
			}
			v, ok := batches.Load(id)
			if !ok || v.(string) == "" {
				return "-"
			}
			return v.(string)
		}
		var ctr int64
		gen := func(r *Rng, g int) string {
			if r.N(2) == 0 {
				return fmt.Sprintf("add m%d", atomic.AddInt64(&ctr, 1))
			}
			if r.N(4) == 0 {
				return "pickf " + r.Pick([]string{"1", "9"})
			}
			return "pick " + r.Pick([]string{"1", "1", "9"})
		}
		return exec, c13PickupSpec, gen, nil
	}
	return nil, nil, nil, fmt.Errorf("unknown target")
}

var (
	c13YieldOnce sync.Once
)

// c13InstallYields sets the verif yield points of the multi-step operations (between check and act, between the write of
// the main store and the write of the cache, ...): another goroutine gets the chance to run exactly there.
func c13InstallYields() {
	y := func() {
		// no shared counter here: an atomic would order the goroutines for the race detector
		if time.Now().UnixNano()%4 == 0 {
			time.Sleep(30 * time.Microsecond)
		} else {
			runtime.Gosched()
		}
	}
	cachedstore.VerifYield = y
	localkms.VerifYield = y
	wallet.VerifYield = y
	messagepickup.VerifYield = y
}

func c13Run(input string) string {
	f := strings.Split(input, "|")
	if len(f) != 4 {
		return "bad-input"
	}
	G, _ := strconv.Atoi(f[1])
	N, _ := strconv.Atoi(f[2])
	seed, _ := strconv.Atoi(f[3])
	if G < 1 || G > 8 || N < 1 || N > 6 || G*N > 40 {
		return "bad-input"
	}
	exec, spec, gen, err := c13Target(f[0])
	if err != nil {
		return "setup-error " + err.Error()
	}
	r := NewRng(uint64(seed))
	plans := make([][]string, G)
	for g := range plans {
		for i := 0; i < N; i++ {
			plans[g] = append(plans[g], gen(r, g))
		}
	}
	prev := runtime.GOMAXPROCS([]int{1, 2, 4, 8, 16}[seed%5])
	defer runtime.GOMAXPROCS(prev)
	c13YieldOnce.Do(c13InstallYields)
	// phase 1: the same plans on another fresh instance with NO clock and no recording: the atomic clock of phase 2 orders
	// every pair of operations that did not overlap, which hides from the race detector accesses that are unsynchronised
	// but did not happen to coincide. Here nothing but the services' own locks orders the goroutines.
	if exec1, _, _, err1 := c13Target(f[0]); err1 == nil {
		var wg1 sync.WaitGroup
		start1 := make(chan struct{})
		for g := 0; g < G; g++ {
			wg1.Add(1)
			go func(g int) {
				defer wg1.Done()
				<-start1
				for _, op := range plans[g] {
					exec1(op)
				}
			}(g)
		}
		close(start1)
		done1 := make(chan struct{})
		go func() { wg1.Wait(); close(done1) }()
		select {
		case <-done1:
		case <-time.After(20 * time.Second):
			return "DEADLOCK-OR-HANG after 20s (unrecorded phase)"
		}
	}
	var clock int64
	events := make([][]c13Event, G)
	var wg sync.WaitGroup
	start := make(chan struct{})
	for g := 0; g < G; g++ {
		wg.Add(1)
		go func(g int) {
			defer wg.Done()
			<-start
			for i, op := range plans[g] {
				if (seed+g+i)%3 == 0 {
					runtime.Gosched()
				}
				inv := atomic.AddInt64(&clock, 1)
				res := exec(op)
				ret := atomic.AddInt64(&clock, 1)
				if i := strings.Index(res, "=>"); i >= 0 {
					// the exec names what it met (e.g. the number of the token): that is the recorded operation
					op, res = res[:i], res[i+2:]
				}
				events[g] = append(events[g], c13Event{g, op, inv, ret, res})
			}
		}(g)
	}
	close(start)
	done := make(chan struct{})
	go func() { wg.Wait(); close(done) }()
	select {
	case <-done:
	case <-time.After(20 * time.Second):
		return "DEADLOCK-OR-HANG after 20s"
	}
	var all []c13Event
	for _, e := range events {
		all = append(all, e...)
	}
	sort.Slice(all, func(i, j int) bool { return all[i].inv < all[j].inv })
	var hs []string
	for _, e := range all {
		hs = append(hs, fmt.Sprintf("%d:%s@%d-%d=%s", e.g, e.op, e.inv, e.ret, e.res))
	}
	lin := "NONE"
	order, gaveUp := c13Linearize(all, spec)
	if gaveUp {
		lin = "GAVE-UP"
	}
	if order != nil {
		var os []string
		for _, i := range order {
			os = append(os, strconv.Itoa(i))
		}
		lin = strings.Join(os, ",")
	}
	return "h=" + strings.Join(hs, ";") + " lin=" + lin
}

func c13Gen(r *Rng, tier string) []string {
	n := 1400
	if tier == "thorough" {
		n = 30000
	}
	targets := []string{"mem", "cached", "batched", "formatted", "kms", "kms2", "session", "pickup", "wsave", "mem-open", "formatted-open", "edv"}
	var out []string
	for i := 0; i < n; i++ {
		g := 2 + r.N(7)
		nops := 2 + r.N(5)
		if g*nops > 32 {
			nops = 32 / g
		}
		out = append(out, fmt.Sprintf("%s|%d|%d|%d", targets[i%len(targets)], g, nops, r.N(100000)))
	}
	return out
}

func init() {
	register("C13", &Prop{Gen: c13Gen, Run: c13Run})
}
