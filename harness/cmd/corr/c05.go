package main

// C05 / C06: the local key manager over a harness-owned store.
//
// input  := <lock> "|" ops joined by ";" [ "|crash=" k ]
//   lock := raw | hkdf | pbkdf2                 (local secret lock: raw master key / passphrase protected master key)
//   op   := create KT | createexp KT | import KT (id|noid|dupid) | rotate I | get I | export I
//           KT: ed25519 | p256der | p256 | p384 | p521 | x25519kw | p256kw | aes256gcm | hmac | chacha | bbs | secp256k1
//           I : index into the list of keys returned so far (rotate replaces entry I by the new id)
//   crash=k: during the LAST op the store freezes after its k-th mutating call (put / delete): that call and all later
//            ones fail, as if the process had died; then a fresh key manager is opened over the surviving store
// output (C05) := per op ok|err ... " || puts=N scan=clean|LEAK.. wrongmaster=allfail|READABLE <id>"
// output (C06) := per op ok:<kidIsThumbprint 1|0|->|err ... " || reopen: " per key <get ok|fail>/<same key 1|0|-> ...

import (
	"math/big"
	"github.com/hyperledger/aries-framework-go/component/kmscrypto/doc/util/kmsdidkey"

	"bytes"
	"crypto/ecdsa"
	crand "crypto/rand"
	"crypto/ed25519"
	"crypto/elliptic"
	"crypto/sha256"
	"encoding/base64"
	"encoding/hex"
	"errors"
	"fmt"
	"strconv"
	"strings"
	"sync"

	"github.com/btcsuite/btcd/btcec"
	"github.com/btcsuite/btcutil/base58"
	"github.com/google/tink/go/insecurecleartextkeyset"
	"github.com/google/tink/go/keyset"
	"google.golang.org/protobuf/encoding/protowire"

	"github.com/hyperledger/aries-framework-go/component/kmscrypto/doc/util/fingerprint"
	"github.com/hyperledger/aries-framework-go/component/kmscrypto/doc/util/jwkkid"
	kmscomp "github.com/hyperledger/aries-framework-go/component/kmscrypto/kms"
	"github.com/hyperledger/aries-framework-go/component/kmscrypto/kms/localkms"
	"github.com/hyperledger/aries-framework-go/component/kmscrypto/secretlock/local"
	"github.com/hyperledger/aries-framework-go/component/kmscrypto/secretlock/noop"
	"github.com/hyperledger/aries-framework-go/component/kmscrypto/secretlock/local/masterlock/hkdf"
	"github.com/hyperledger/aries-framework-go/component/kmscrypto/secretlock/local/masterlock/pbkdf2"
	"github.com/hyperledger/aries-framework-go/component/kmscrypto/util/cryptoutil"
	kmsapi "github.com/hyperledger/aries-framework-go/spi/kms"
	"github.com/hyperledger/aries-framework-go/spi/secretlock"
	spistorage "github.com/hyperledger/aries-framework-go/spi/storage"
)

var kmsKeyTypes = map[string]kmsapi.KeyType{
	"ed25519": kmsapi.ED25519Type, "ed25519seed": kmsapi.ED25519Type, "p256der": kmsapi.ECDSAP256TypeDER, "p256": kmsapi.ECDSAP256TypeIEEEP1363,
	"p384": kmsapi.ECDSAP384TypeIEEEP1363, "p521": kmsapi.ECDSAP521TypeIEEEP1363,
	"x25519kw": kmsapi.X25519ECDHKWType, "p256kw": kmsapi.NISTP256ECDHKWType, "p384kw": kmsapi.NISTP384ECDHKWType,
	"p521kw": kmsapi.NISTP521ECDHKWType,
	"aes256gcm": kmsapi.AES256GCMType, "hmac": kmsapi.HMACSHA256Tag256Type, "chacha": kmsapi.ChaCha20Poly1305Type,
	"bbs": kmsapi.BLS12381G2Type, "secp256k1": kmsapi.ECDSASecp256k1TypeIEEEP1363,
}

var kmsAsymmetric = map[string]bool{"ed25519": true, "ed25519seed": true, "p256der": true, "p256": true, "p384": true, "p521": true,
	"x25519kw": true, "p256kw": true, "p384kw": true, "p521kw": true, "bbs": true, "secp256k1": true}

// recKMSStore: the spi/kms.Store given to localkms: records every Put, can freeze.
type recKMSStore struct {
	mu       sync.Mutex
	data     map[string][]byte
	puts     [][2]string // (id, value)
	mutCalls int
	freezeAt int // -1 = never; otherwise mutating call number (0-based) from which on everything fails
	failNextGet bool // the next read fails with a transient error (not "not found")
}

var errFrozen = errors.New("store frozen (simulated crash)")

func (s *recKMSStore) Put(id string, v []byte) error {
	s.mu.Lock()
	defer s.mu.Unlock()
	n := s.mutCalls
	s.mutCalls++
	if s.freezeAt >= 0 && n >= s.freezeAt {
		return errFrozen
	}
	s.data[id] = append([]byte{}, v...)
	s.puts = append(s.puts, [2]string{id, string(v)})
	return nil
}

func (s *recKMSStore) Get(id string) ([]byte, error) {
	s.mu.Lock()
	defer s.mu.Unlock()
	if s.failNextGet {
		s.failNextGet = false
		return nil, errors.New("transient read fault")
	}
	v, ok := s.data[id]
	if !ok {
		return nil, kmscomp.ErrKeyNotFound
	}
	return v, nil
}

func (s *recKMSStore) Delete(id string) error {
	s.mu.Lock()
	defer s.mu.Unlock()
	n := s.mutCalls
	s.mutCalls++
	if s.freezeAt >= 0 && n >= s.freezeAt {
		return errFrozen
	}
	delete(s.data, id)
	return nil
}

// c05Prov / c05Store: an spi/storage provider over the recording store, so that the framework's own adapter
// (kms.NewAriesProviderWrapper, which turns storage errors into key manager errors) sits between localkms and the store as
// it does in an agent
type c05Prov struct{ rec *recKMSStore }

func (p *c05Prov) OpenStore(string) (spistorage.Store, error)                 { return &c05Store{p.rec}, nil }
func (p *c05Prov) SetStoreConfig(string, spistorage.StoreConfiguration) error { return nil }
func (p *c05Prov) GetStoreConfig(string) (spistorage.StoreConfiguration, error) {
	return spistorage.StoreConfiguration{}, nil
}
func (p *c05Prov) GetOpenStores() []spistorage.Store { return nil }
func (p *c05Prov) Close() error                       { return nil }

type c05Store struct{ rec *recKMSStore }

func (s *c05Store) Put(k string, v []byte, _ ...spistorage.Tag) error { return s.rec.Put(k, v) }
func (s *c05Store) Get(k string) ([]byte, error) {
	v, err := s.rec.Get(k)
	if errors.Is(err, kmscomp.ErrKeyNotFound) {
		return nil, spistorage.ErrDataNotFound
	}
	return v, err
}
func (s *c05Store) GetTags(string) ([]spistorage.Tag, error) { return nil, errors.New("not used") }
func (s *c05Store) GetBulk(...string) ([][]byte, error)      { return nil, errors.New("not used") }
func (s *c05Store) Query(string, ...spistorage.QueryOption) (spistorage.Iterator, error) {
	return nil, errors.New("not used")
}
func (s *c05Store) Delete(k string) error              { return s.rec.Delete(k) }
func (s *c05Store) Batch([]spistorage.Operation) error { return errors.New("not used") }
func (s *c05Store) Flush() error                       { return nil }
func (s *c05Store) Close() error                       { return nil }

// a store whose reads fail while failReads is set (writes go through): "stored, but could not be read back"
type flakyKMSStore struct {
	recKMSStore
	armed     bool // reads start failing with the next write
	failReads bool
}

func (s *flakyKMSStore) Put(id string, v []byte) error {
	err := s.recKMSStore.Put(id, v)
	if s.armed {
		s.failReads = true
	}
	return err
}

func (s *flakyKMSStore) Get(id string) ([]byte, error) {
	if s.failReads {
		return nil, errors.New("flaky store: read failed")
	}
	return s.recKMSStore.Get(id)
}

func kmsFlakyKMS(kind string, st *flakyKMSStore, masterKey []byte) (*localkms.LocalKMS, error) {
	lock, err := kmsLock("raw", masterKey, "")
	if err != nil {
		return nil, err
	}
	return localkms.New("local-lock://verif", kmsProv{st, lock})
}

// kmsUnescape undoes C / protobuf text escapes (\xHH, \ooo, \n ...) so that key bytes printed through %v, %q or a
// proto String() are found by the scan
func kmsUnescape(s string) []byte {
	var out []byte
	for i := 0; i < len(s); i++ {
		if s[i] != '\\' || i+1 >= len(s) {
			out = append(out, s[i])
			continue
		}
		i++
		switch c := s[i]; {
		case c == 'x' && i+2 < len(s):
			if v, err := strconv.ParseUint(s[i+1:i+3], 16, 8); err == nil {
				out = append(out, byte(v))
				i += 2
			} else {
				out = append(out, '\\', c)
			}
		case c >= '0' && c <= '7':
			j := i
			for j < len(s) && j < i+3 && s[j] >= '0' && s[j] <= '7' {
				j++
			}
			v, _ := strconv.ParseUint(s[i:j], 8, 16)
			out = append(out, byte(v))
			i = j - 1
		case c == 'n':
			out = append(out, '\n')
		case c == 'r':
			out = append(out, '\r')
		case c == 't':
			out = append(out, '\t')
		default:
			out = append(out, c)
		}
	}
	return out
}

func kmsLock(kind string, masterKey []byte, pass string) (secretlock.Service, error) {
	switch kind {
	case "raw":
		return local.NewService(strings.NewReader(base64.URLEncoding.EncodeToString(masterKey)), nil)
	case "rawbin": // the master key as raw bytes (not base64url text)
		return local.NewService(bytes.NewReader(masterKey), nil)
	case "hkdf", "pbkdf2":
		var ml secretlock.Service
		var err error
		salt := []byte("salt-salt-salt-1")
		if kind == "hkdf" {
			ml, err = hkdf.NewMasterLock(pass, sha256.New, salt)
		} else {
			ml, err = pbkdf2.NewMasterLock(pass, sha256.New, 64, salt)
		}
		if err != nil {
			return nil, err
		}
		return ml, nil
	}
	return nil, fmt.Errorf("unknown lock %s", kind)
}

// kmsOpen builds (lock service, key manager) over the store; for passphrase locks `cipher` is the protected master key
// the passphrase of the passphrase-derived master locks: longer than any internal block or buffer size one may think of
const kmsPass = "correct horse battery staple - correct horse battery staple - correct horse battery staple"

func kmsOpen(kind string, st *recKMSStore, masterKey []byte, pass, cipher string) (*localkms.LocalKMS, string, error) {
	var lock secretlock.Service
	var err error
	if kind == "raw" || kind == "rawbin" {
		lock, err = kmsLock(kind, masterKey, pass)
		if err != nil {
			return nil, "", err
		}
	} else {
		ml, e := kmsLock(kind, nil, pass)
		if e != nil {
			return nil, "", e
		}
		if cipher == "" {
			enc, e2 := ml.Encrypt("", &secretlock.EncryptRequest{Plaintext: string(masterKey)})
			if e2 != nil {
				return nil, "", e2
			}
			cipher = enc.Ciphertext
		}
		lock, err = local.NewService(strings.NewReader(cipher), ml)
		if err != nil {
			return nil, cipher, err
		}
	}
	wrapped, err := kmscomp.NewAriesProviderWrapper(&c05Prov{st})
	if err != nil {
		return nil, cipher, err
	}
	k, err := localkms.New("local-lock://verif", kmsProv{wrapped, &recLock{Service: lock}})
	return k, cipher, err
}

// recLock records what the secret lock hands out, for the keystream-reuse test
type recLock struct {
	secretlock.Service
}

var lockOutputs [][]byte

// what the key manager asked the secret lock to wrap: the data keys of the stored keysets. They are secrets as well - a
// store entry that holds one of them in clear opens that keyset without the master key.
var (
	lockMu         sync.Mutex
	lockPlaintexts [][]byte
)

func (l *recLock) Encrypt(keyURI string, req *secretlock.EncryptRequest) (*secretlock.EncryptResponse, error) {
	resp, err := l.Service.Encrypt(keyURI, req)
	lockMu.Lock()
	defer lockMu.Unlock()
	if len(req.Plaintext) >= 16 {
		// (the key wrapper hands the data key over as base64url text)
		if raw, e := base64.URLEncoding.DecodeString(req.Plaintext); e == nil && len(raw) >= 16 {
			lockPlaintexts = append(lockPlaintexts, raw)
		} else {
			lockPlaintexts = append(lockPlaintexts, []byte(req.Plaintext))
		}
	}
	if err == nil {
		if b, e := base64.URLEncoding.DecodeString(resp.Ciphertext); e == nil {
			lockOutputs = append(lockOutputs, b)
		} else {
			lockOutputs = append(lockOutputs, []byte(resp.Ciphertext))
		}
	}
	return resp, err
}

// lockReuse: two outputs of a sound AEAD never share a nonce, and the XOR of two of them is not the XOR of two texts
// (all bytes below 0x80 over 32+ bytes has probability 2^-32 for independent key streams).
func lockReuse() string {
	outs := lockOutputs
	if len(outs) > 48 {
		outs = outs[:48]
	}
	for i := 0; i < len(outs); i++ {
		for j := i + 1; j < len(outs); j++ {
			a, b := outs[i], outs[j]
			n := len(a)
			if len(b) < n {
				n = len(b)
			}
			if n < 44 {
				continue
			}
			if bytes.Equal(a[:12], b[:12]) {
				return "REUSED-NONCE"
			}
			low := true
			for k := 12; k < n-16; k++ {
				if (a[k]^b[k])&0x80 != 0 {
					low = false
					break
				}
			}
			if low {
				return "REUSED-KEYSTREAM"
			}
		}
	}
	return "ok"
}

// secrets extracts the private / symmetric key bytes of a handle (harness side only: cleartext export of Tink)
func kmsSecrets(h interface{}) [][]byte {
	kh, ok := h.(*keyset.Handle)
	if !ok {
		return nil
	}
	buf := new(bytes.Buffer)
	if err := insecurecleartextkeyset.Write(kh, keyset.NewBinaryWriter(buf)); err != nil {
		return nil
	}
	// Keyset{primary_key_id=1, key=2 (repeated Keyset.Key{key_data=1{type_url=1,value=2,..}})}
	var out [][]byte
	b := buf.Bytes()
	for len(b) > 0 {
		num, typ, n := protowire.ConsumeTag(b)
		if n < 0 {
			break
		}
		b = b[n:]
		if typ == protowire.BytesType {
			v, m := protowire.ConsumeBytes(b)
			if m < 0 {
				break
			}
			b = b[m:]
			if num == 2 { // Keyset.Key
				out = append(out, kmsKeySecrets(v)...)
			}
			continue
		}
		m := protowire.ConsumeFieldValue(num, typ, b)
		if m < 0 {
			break
		}
		b = b[m:]
	}
	return out
}

func kmsKeySecrets(key []byte) [][]byte {
	// Keyset.Key.key_data (1) -> KeyData{type_url=1, value=2}
	var out [][]byte
	for len(key) > 0 {
		num, typ, n := protowire.ConsumeTag(key)
		if n < 0 {
			return out
		}
		key = key[n:]
		if typ != protowire.BytesType {
			m := protowire.ConsumeFieldValue(num, typ, key)
			if m < 0 {
				return out
			}
			key = key[m:]
			continue
		}
		v, m := protowire.ConsumeBytes(key)
		if m < 0 {
			return out
		}
		key = key[m:]
		if num != 1 {
			continue
		}
		var typeURL string
		var value []byte
		kd := v
		for len(kd) > 0 {
			n2, t2, l := protowire.ConsumeTag(kd)
			if l < 0 {
				break
			}
			kd = kd[l:]
			if t2 != protowire.BytesType {
				l2 := protowire.ConsumeFieldValue(n2, t2, kd)
				if l2 < 0 {
					break
				}
				kd = kd[l2:]
				continue
			}
			x, l2 := protowire.ConsumeBytes(kd)
			if l2 < 0 {
				break
			}
			kd = kd[l2:]
			if n2 == 1 {
				typeURL = string(x)
			}
			if n2 == 2 {
				value = x
			}
		}
		// the private / symmetric key bytes are the `key_value` field of the key proto
		field := protowire.Number(3)
		if strings.Contains(typeURL, "Ed25519PrivateKey") || strings.Contains(typeURL, "ChaCha20Poly1305Key") ||
			strings.HasSuffix(typeURL, ".HmacKey") && false {
			field = 2
		}
		if strings.HasSuffix(typeURL, ".ChaCha20Poly1305Key") {
			field = 2
		}
		pv := value
		for len(pv) > 0 {
			n3, t3, l := protowire.ConsumeTag(pv)
			if l < 0 {
				break
			}
			pv = pv[l:]
			if t3 != protowire.BytesType {
				l2 := protowire.ConsumeFieldValue(n3, t3, pv)
				if l2 < 0 {
					break
				}
				pv = pv[l2:]
				continue
			}
			x, l2 := protowire.ConsumeBytes(pv)
			if l2 < 0 {
				break
			}
			pv = pv[l2:]
			if n3 == field && len(x) >= 16 {
				out = append(out, append([]byte{}, x...))
			}
		}
	}
	return out
}

func kmsScan(secrets [][]byte, hay [][]byte) string {
	for _, s := range secrets {
		// leading zero bytes are representation, not secret: scan the significant part too
		variants := [][]byte{s, bytes.TrimLeft(s, "\x00")}
		for _, sv := range variants {
			if len(sv) < 12 {
				continue
			}
			for enc, texts := range c12Encodings(sv) {
				for _, t := range texts {
					for _, h := range hay {
						if bytes.Contains(h, []byte(t)) {
							return fmt.Sprintf("LEAK %s of secret %s...", enc, hex.EncodeToString(sv[:4]))
						}
					}
				}
			}
		}
	}
	return "clean"
}

type kmsKey struct {
	id      string
	kt      string
	pub     []byte
	live    bool
	secrets [][]byte
}

// number of keys generated for import in the CURRENT case (reset by kmsRun): the key material must not depend on what
// the worker process ran before (a byte counter shared by all cases wrapped to a seed from which no key can be made)
var kmsImportCounter int

// kmsShortCoord moves an EC key to the next scalar whose public point has a coordinate with a leading zero byte (1 key in
// 128 has one): encoders that take coordinates as minimal big-endian bytes lose the padding of exactly these keys
func kmsShortCoord(k *ecdsa.PrivateKey) *ecdsa.PrivateKey {
	size := (k.Curve.Params().BitSize + 7) / 8
	d := new(big.Int).Set(k.D)
	x, y := k.X, k.Y
	for len(x.Bytes()) == size && len(y.Bytes()) == size {
		d.Add(d, big.NewInt(1))
		x, y = k.Curve.ScalarBaseMult(d.Bytes())
	}
	return &ecdsa.PrivateKey{PublicKey: ecdsa.PublicKey{Curve: k.Curve, X: x, Y: y}, D: d}
}

// kmsNamedID: caller-chosen key ids as agents choose them: short names, and DID URLs (longer than any generated id) that
// share everything but their last characters
func kmsNamedID(n int) string {
	if n%2 == 0 {
		return fmt.Sprintf("imported-%d", n)
	}
	return fmt.Sprintf("did:example:verif-organisation-with-a-long-method-specific-id#key-%d", n)
}

func kmsImportable(kt string) (interface{}, bool) {
	key, ok := kmsImportableRaw(kt)
	if ek, isEC := key.(*ecdsa.PrivateKey); ok && isEC && kmsImportCounter%3 == 0 {
		return kmsShortCoord(ek), true
	}
	return key, ok
}

func kmsImportableRaw(kt string) (interface{}, bool) {
	kmsImportCounter++
	h1 := sha256.Sum256([]byte(fmt.Sprintf("verif-import-key-%d-a", kmsImportCounter)))
	h2 := sha256.Sum256([]byte(fmt.Sprintf("verif-import-key-%d-b", kmsImportCounter)))
	seed := append(h1[:], h2[:]...)
	switch kt {
	case "ed25519":
		return ed25519.NewKeyFromSeed(seed[:32]), true
	case "ed25519seed":
		// the 32-byte SEED handed over as the private key (a caller that keeps seeds): whatever the import makes of it, the
		// seed is a secret
		return ed25519.PrivateKey(append([]byte{}, seed[:32]...)), true
	case "p256", "p256der", "p256kw":
		k, err := ecdsa.GenerateKey(elliptic.P256(), bytes.NewReader(append(seed, seed...)))
		return k, err == nil
	case "p384":
		k, err := ecdsa.GenerateKey(elliptic.P384(), bytes.NewReader(append(seed, seed...)))
		return k, err == nil
	case "secp256k1":
		k, err := ecdsa.GenerateKey(btcec.S256(), bytes.NewReader(append(seed, seed...)))
		return k, err == nil
	}
	return nil, false
}

func kmsRun(input string, c06 bool) string {
	parts := strings.Split(input, "|")
	if len(parts) < 2 {
		return "bad-input"
	}
	crash := -1
	if len(parts) == 3 && strings.HasPrefix(parts[2], "crash=") {
		crash, _ = strconv.Atoi(strings.TrimPrefix(parts[2], "crash="))
	}
	rfault := len(parts) == 3 && parts[2] == "rfault=1"
	lockOutputs, lockPlaintexts = nil, nil
	kmsImportCounter = 0
	masterKey := bytes.Repeat([]byte{0x5a}, 32)
	for i := range masterKey {
		masterKey[i] ^= byte(i * 7)
	}
	st := &recKMSStore{data: map[string][]byte{}, freezeAt: -1}
	k, cipher, err := kmsOpen(parts[0], st, masterKey, kmsPass, "")
	if err != nil {
		return "open-error " + err.Error()
	}
	var keys []*kmsKey
	var returns [][]byte // everything the API handed back
	var importedSecrets [][]byte
	var outs []string
	ops := strings.Split(parts[1], ";")
	var opErrors []string
	noteErr := func(e error) {
		if e != nil {
			opErrors = append(opErrors, e.Error())
		}
	}
	for oi, op := range ops {
		f := strings.Split(op, " ")
		if crash >= 0 && oi == len(ops)-1 {
			st.freezeAt = st.mutCalls + crash
		}
		if rfault && oi == len(ops)-1 {
			st.failNextGet = true // the first read of the last call meets a transient storage fault
		}
		o := "err"
		switch f[0] {
		case "create", "createexp":
			kt := kmsKeyTypes[f[1]]
			var id string
			var pub []byte
			var e error
			if f[0] == "create" {
				id, _, e = k.Create(kt)
			} else {
				id, pub, e = k.CreateAndExportPubKeyBytes(kt)
			}
			noteErr(e)
			if e == nil {
				keys = append(keys, &kmsKey{id: id, kt: f[1], pub: pub, live: true})
				returns = append(returns, []byte(id), pub)
				o = "ok"
			}
		case "import":
			priv, ok := kmsImportable(f[1])
			if !ok {
				o = "skip"
				break
			}
			var opts []kmsapi.PrivateKeyOpts
			switch f[2] {
			case "id":
				opts = append(opts, kmsapi.WithKeyID(kmsNamedID(len(keys))))
			case "dupid":
				if len(keys) > 0 {
					opts = append(opts, kmsapi.WithKeyID(keys[0].id))
				}
			}
			// the harness generated this key: its secret bytes are known whatever the call returns
			switch pk := priv.(type) {
			case ed25519.PrivateKey:
				if len(pk) == ed25519.PrivateKeySize {
					importedSecrets = append(importedSecrets, append([]byte{}, pk.Seed()...))
				} else {
					importedSecrets = append(importedSecrets, append([]byte{}, pk...))
				}
			case *ecdsa.PrivateKey:
				importedSecrets = append(importedSecrets, pk.D.Bytes())
			}
			id, _, e := k.ImportPrivateKey(priv, kmsKeyTypes[f[1]], opts...)
			noteErr(e)
			if e == nil && f[2] == "id" && id != kmsNamedID(len(keys)) {
				// the caller chose an id: that is the id the key has to be under
				keys = append(keys, &kmsKey{id: id, kt: f[1] + "/named", live: true})
				returns = append(returns, []byte(id))
				outs = append(outs, "ok:idignored")
				continue
			}
			if e == nil {
				nk := &kmsKey{id: id, kt: f[1], live: true}
				if f[2] == "noid" {
					nk.kt += "/imported"
				} else {
					nk.kt += "/named"
				}
				keys = append(keys, nk)
				returns = append(returns, []byte(id))
				o = "ok"
			}
		case "box":
			// the legacy packers' CryptoBox over this key manager: seal to / open with the newest live Ed25519 key whose id is
			// its thumbprint (the box finds the key by that id). "ok" unless the box fails on such a key; what matters for
			// C05 is what the key manager writes AFTER the box has been used
			o = "ok"
			for i := len(keys) - 1; i >= 0; i-- {
				key := keys[i]
				if !key.live || strings.Split(key.kt, "/")[0] != "ed25519" {
					continue
				}
				pub := key.pub
				if pub == nil {
					pub, _, _ = k.ExportPubKeyBytes(key.id)
				}
				if want, e := jwkkid.CreateKID(pub, kmsapi.ED25519Type); e != nil || want != key.id {
					continue
				}
				cb, e := localkms.NewCryptoBox(k)
				noteErr(e)
				if e != nil {
					o = "err"
					break
				}
				encPub, e := cryptoutil.PublicEd25519toCurve25519(pub)
				noteErr(e)
				ct, e := cb.Seal([]byte("box payload"), encPub, crand.Reader)
				noteErr(e)
				pt, e := cb.SealOpen(ct, pub)
				noteErr(e)
				if e != nil || string(pt) != "box payload" {
					o = "err"
				}
				break
			}
		case "rotate", "get", "export":
			i, _ := strconv.Atoi(f[1])
			if i >= len(keys) {
				o = "skip"
				break
			}
			key := keys[i]
			if (f[0] == "rotate" || f[0] == "export") && !key.live {
				// the id of a rotated-away key is gone - or re-used by a later named import, which is then another key's
				// business: rotating or exporting it through the old entry makes no sense
				o = "skip"
				break
			}
			switch f[0] {
			case "rotate":
				nid, _, e := k.Rotate(kmsKeyTypes[strings.Split(key.kt, "/")[0]], key.id)
				noteErr(e)
				if e == nil {
					keys = append(keys, &kmsKey{id: nid, kt: strings.Split(key.kt, "/")[0] + "/rotated", live: true})
					key.live = false
					returns = append(returns, []byte(nid))
					o = "ok"
				}
			case "get":
				if _, e := k.Get(key.id); e == nil {
					o = "ok"
				}
			default:
				pub, _, e := k.ExportPubKeyBytes(key.id)
				noteErr(e)
				if e == nil {
					key.pub = pub
					returns = append(returns, pub)
					o = "ok"
				}
			}
		}
		if c06 && o == "ok" && (f[0] == "create" || f[0] == "createexp" || f[0] == "import") {
			// is the returned id the thumbprint of the public key?
			key := keys[len(keys)-1]
			base := strings.Split(key.kt, "/")[0]
			if kmsAsymmetric[base] {
				pub := key.pub
				if pub == nil {
					pub, _, _ = k.ExportPubKeyBytes(key.id)
				}
				want, e := jwkkid.CreateKID(pub, kmsKeyTypes[base])
				if e != nil {
					o += ":?"
				} else if want == key.id {
					o += ":1"
				} else {
					o += ":0"
				}
				// ... and the id another party derives from the did:key form of the exported key?
				// (key agreement keys and Ed25519, the types kmsdidkey derives key ids for; created keys only)
				if f[0] == "import" || !(base == "ed25519" || base == "x25519kw" || base == "p256kw" || base == "p384kw" || base == "p521kw") {
				} else if dk, e := kmsdidkey.BuildDIDKeyByKeyType(pub, kmsKeyTypes[base]); e != nil {
					o += "d-"
				} else if pk, e := kmsdidkey.EncryptionPubKeyFromDIDKey(dk); e != nil {
					o += "d?"
				} else if pk.KID == key.id {
					o += "d1"
				} else {
					o += "d0"
				}
				// the did:key another party builds from the public JWK is the did:key built from the key itself (NIST key
				// agreement keys; half of the P-521 keys and 1 in 256 of the others have a leading zero coordinate byte)
				if f[0] != "import" && (base == "p256kw" || base == "p384kw" || base == "p521kw") {
					dk1, e1 := kmsdidkey.BuildDIDKeyByKeyType(pub, kmsKeyTypes[base])
					j, e2 := jwkkid.BuildJWK(pub, kmsKeyTypes[base])
					switch {
					case e1 != nil || e2 != nil:
						o += "j?"
					default:
						dk2, _, e3 := fingerprint.CreateDIDKeyByJwk(j)
						if e3 == nil && dk1 == dk2 {
							o += "j1"
						} else {
							o += "j0"
						}
					}
				}
			} else {
				o += ":-"
			}
		}
		outs = append(outs, o)
	}
	if !c06 {
		// a third of the histories end with several goroutines using the one key manager at the same time (new symmetric
		// keys, reads of keys that exist): what is written under load is as well wrapped as what is written alone
		if len(input)%3 == 0 && crash < 0 {
			var wg sync.WaitGroup
			for g := 0; g < 6; g++ {
				wg.Add(1)
				go func() {
					defer wg.Done()
					defer func() { _ = recover() }()
					for it := 0; it < 3; it++ {
						if id, _, e := k.Create(kmsapi.AES256GCMType); e == nil {
							_, _ = k.Get(id)
						}
						for _, key := range keys {
							_, _ = k.Get(key.id)
						}
					}
				}()
			}
			wg.Wait()
		}
		// C05: collect the secrets through the (still open) key manager, then scan everything written and returned
		secrets := append([][]byte{}, importedSecrets...)
		lockMu.Lock()
		secrets = append(secrets, lockPlaintexts...)
		lockMu.Unlock()
		for _, key := range keys {
			if h, e := k.Get(key.id); e == nil {
				secrets = append(secrets, kmsSecrets(h)...)
			}
		}
		var hay [][]byte
		for _, p := range st.puts {
			hay = append(hay, []byte(p[0]), []byte(p[1]))
		}
		hay = append(hay, returns...)
		if cipher != "" {
			hay = append(hay, []byte(cipher))
			secrets = append(secrets, masterKey)
		}
		// error values are output too: run the storing operations once more over a store whose reads fail right after a
		// write (a flaky backend), and scan the texts of all errors - as printed, and with text escapes undone
		flaky := &flakyKMSStore{recKMSStore: recKMSStore{data: map[string][]byte{}, freezeAt: -1}}
		if lockF, ef := kmsFlakyKMS(parts[0], flaky, masterKey); ef == nil {
			for _, kt := range []string{"ed25519", "p256", "p384"} {
				priv, ok := kmsImportable(kt)
				if !ok {
					continue
				}
				switch pk := priv.(type) {
				case ed25519.PrivateKey:
					secrets = append(secrets, append([]byte{}, pk.Seed()...))
				case *ecdsa.PrivateKey:
					secrets = append(secrets, pk.D.Bytes())
				}
				flaky.armed = true
				_, _, e1 := lockF.ImportPrivateKey(priv, kmsKeyTypes[kt])
				flaky.failReads = false
				_, _, e2 := lockF.ImportPrivateKey(priv, kmsKeyTypes[kt], kmsapi.WithKeyID("named-"+kt))
				flaky.armed, flaky.failReads = false, false
				for _, e := range []error{e1, e2} {
					if e != nil {
						hay = append(hay, []byte(e.Error()), kmsUnescape(e.Error()))
					}
				}
			}
		}
		for _, e := range opErrors {
			hay = append(hay, []byte(e), kmsUnescape(e))
		}
		scan := kmsScan(secrets, hay)
		reuse := lockReuse()
		// a key manager opened with the wrong master key / passphrase must not yield any key
		// ... whatever the wrong secret looks like: unrelated, or the right one with its last / first byte changed, cut
		// short, extended, or equal to the right one on a long prefix only
		wrong := "allfail"
		flip := func(b []byte, i int) []byte {
			c := append([]byte{}, b...)
			c[i] ^= 0x01
			return c
		}
		wrongKeys := [][]byte{bytes.Repeat([]byte{0x11}, 32), flip(masterKey, 0), flip(masterKey, len(masterKey)-1)}
		wrongPass := []string{"wrong passphrase", kmsPass[:len(kmsPass)-1] + "X", "X" + kmsPass[1:], kmsPass[:len(kmsPass)-1], kmsPass + "x",
			kmsPass[:64] + strings.Repeat("#", len(kmsPass)-64), kmsPass[:32]}
		nProbe := len(wrongPass)
		if parts[0] == "raw" || parts[0] == "rawbin" {
			nProbe = len(wrongKeys)
		}
		for pi := 0; pi < nProbe && wrong == "allfail"; pi++ {
			st2 := &recKMSStore{data: st.data, freezeAt: -1}
			var k2 *localkms.LocalKMS
			var e2 error
			if parts[0] == "raw" || parts[0] == "rawbin" {
				k2, _, e2 = kmsOpen(parts[0], st2, wrongKeys[pi], "", "")
			} else {
				k2, _, e2 = kmsOpen(parts[0], st2, nil, wrongPass[pi], cipher)
			}
			if e2 == nil {
				for _, key := range keys {
					if _, e := k2.Get(key.id); e == nil {
						wrong = fmt.Sprintf("READABLE %s (wrong secret #%d)", key.kt, pi)
						break
					}
				}
			}
		}
		// ... nor may a key manager that has NO master key (the no-op lock): a keyset whose data key was stored unwrapped
		// opens with it
		if wrong == "allfail" {
			st2 := &recKMSStore{data: st.data, freezeAt: -1}
			if k2, e2 := localkms.New("local-lock://verif", kmsProv{st2, &noop.NoLock{}}); e2 == nil {
				for _, key := range keys {
					if _, e := k2.Get(key.id); e == nil {
						wrong = fmt.Sprintf("READABLE %s (no master key at all)", key.kt)
						break
					}
				}
			}
		}
		return strings.Join(outs, " ") + fmt.Sprintf(" || puts=%d secrets=%d scan=%s wrongmaster=%s lock=%s", len(st.puts), len(secrets), scan, wrong, reuse)
	}
	// C06: reopen a fresh key manager over the surviving store and probe every key
	st.freezeAt = -1
	k2, _, err := kmsOpen(parts[0], st, masterKey, kmsPass, cipher)
	if err != nil {
		return strings.Join(outs, " ") + " || reopen-error"
	}
	lastFailed := len(outs) > 0 && strings.HasPrefix(outs[len(outs)-1], "err")
	var probes []string
	for _, key := range keys {
		_, e := k2.Get(key.id)
		g := "ok"
		if e != nil {
			g = "fail"
		}
		same := "-"
		if e == nil && key.pub != nil && key.live { // the id of a rotated-away key may have been re-used by a named import
			pub2, _, e3 := k2.ExportPubKeyBytes(key.id)
			if e3 == nil && bytes.Equal(pub2, key.pub) {
				same = "1"
			} else {
				same = "0"
			}
		}
		state := "live"
		if !key.live {
			state = "rotated-away"
		}
		probes = append(probes, fmt.Sprintf("%s:%s/%s", state, g, same))
	}
	_ = base58.Encode
	return strings.Join(outs, " ") + fmt.Sprintf(" || crashed=%v reopen: %s", lastFailed && crash >= 0, strings.Join(probes, " "))
}

func kmsGen(r *Rng, tier string, c06 bool) []string {
	n := 700
	if tier == "thorough" {
		n = 12000
	}
	kts := []string{"ed25519", "p256der", "p256", "p384", "p521", "x25519kw", "p256kw", "p384kw", "p521kw", "p521kw", "aes256gcm", "hmac",
		"chacha", "bbs", "secp256k1"}
	locks := []string{"raw", "rawbin", "hkdf", "pbkdf2"}
	var out []string
	for i := 0; i < n; i++ {
		var ops []string
		nk := 0
		for j := 2 + r.N(6); j > 0; j-- {
			switch c := r.N(12); {
			case c < 4:
				ops = append(ops, "create "+r.Pick(kts))
				nk++
				if r.N(5) == 0 {
					ops = append(ops, "create ed25519", "box")
					nk++
				}
			case c < 6:
				ops = append(ops, "createexp "+r.Pick(kts))
				nk++
			case c < 8:
				ops = append(ops, "import "+r.Pick([]string{"ed25519", "p256", "p384", "p256der", "secp256k1"})+" "+r.Pick([]string{"id", "noid", "noid", "dupid"}))
				nk++
				if !c06 && r.N(6) == 0 {
					ops = append(ops, "import ed25519seed noid", fmt.Sprintf("export %d", nk))
					nk++
				}
			case c < 10 && nk > 0:
				ops = append(ops, fmt.Sprintf("rotate %d", r.N(nk)))
				nk++
			case c < 11 && nk > 0:
				ops = append(ops, fmt.Sprintf("get %d", r.N(nk)))
			case nk > 0:
				ops = append(ops, fmt.Sprintf("export %d", r.N(nk)))
			default:
				ops = append(ops, "create "+r.Pick(kts))
				nk++
			}
		}
		s := locks[i%3] + "|" + strings.Join(ops, ";")
		if c06 && r.N(8) == 0 && nk > 0 {
			// the existence probe of a named import meets a transient read fault: the import fails, the key that holds the
			// id stays what it was
			last := r.Pick([]string{"import ed25519 dupid", "import p256 dupid", "import ed25519 id", "import p256 noid"})
			out = append(out, locks[i%3]+"|"+strings.Join(append(ops, last), ";")+"|rfault=1")
			continue
		}
		if c06 && r.N(3) > 0 {
			// make the last op a mutating one and crash inside it
			last := []string{"create " + r.Pick(kts), fmt.Sprintf("rotate %d", r.N(nk)), "import p256 noid", "import ed25519 id"}[r.N(4)]
			s = locks[i%3] + "|" + strings.Join(append(ops, last), ";") + fmt.Sprintf("|crash=%d", r.N(3))
		}
		out = append(out, s)
	}
	return out
}

func init() {
	register("C05", &Prop{Gen: func(r *Rng, t string) []string { return kmsGen(r, t, false) },
		Run: func(in string) string { return kmsRun(in, false) }})
	register("C06", &Prop{Gen: func(r *Rng, t string) []string { return kmsGen(r, t, true) },
		Run: func(in string) string { return kmsRun(in, true) }})
}
