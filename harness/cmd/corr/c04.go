package main

// C04: signatures, MACs and AEAD of the crypto service (tinkcrypto over localkms handles).
//
// input := SIG | MAC | AEAD | ENC
//   SIG  := "sig|" kt "|" src "|" msg "|" how "|" neg
//     kt  : ed25519 p256der p256 p384der p384 p521der p521 k256der k256
//     src : create | import (ImportPrivateKey of a harness generated key; ed25519, p256*, p384*, p521*)
//     how : own (kh.Public()) | exp (ExportPubKeyBytes -> PubKeyBytesToHandle, by ANOTHER kms) | pkv (signature/verifier
//           PublicKeyVerifier on the exported key)
//     neg : none | msg (other message) | flip:P (bit of signature byte at permille P) | trunc | app (byte appended) |
//           pad (a zero byte in front of both halves of a P1363 signature / n.a. for DER, ed25519) | key (other key of the type)
//   MAC  := "mac|" msg "|" neg                neg: none | msg | flip:P | trunc | app | key
//   AEAD := "aead|" kt "|" msg "|" aad "|" rot "|" neg
//     kt  : a128gcm a256gcm a256gcmnp chacha xchacha  ;  rot: number of rotations applied to the keyset AFTER encrypting
//           (0..2; the rotation key type is the same kt) ; neg: none | ct:P | nonce:P | aad | key | swapnonce (nonce of
//           another encryption) | emptyn (empty nonce)
//   ENC  := "enc|" r "|" s "|" n      (P1363 / DER codecs of secp256k1/subtle, through the verif export)
// output := sign=<ok|err> len=<signature length> honest=<ok|fail> neg=<ok|fail|na>      (sig, mac)
//           enc=<ok|err> noncelen=<n> dec=<ok|fail|wrong> neg=<ok|fail|wrong|na>        (aead)

import (
	"bytes"
	"crypto/ecdsa"
	"crypto/ed25519"
	"crypto/elliptic"
	"crypto/rand"
	"fmt"
	"math/big"
	"strconv"
	"strings"

	"github.com/btcsuite/btcd/btcec"
	"github.com/google/tink/go/keyset"

	secpsubtle "github.com/hyperledger/aries-framework-go/component/kmscrypto/crypto/tinkcrypto/primitive/secp256k1/subtle"
	"github.com/hyperledger/aries-framework-go/component/kmscrypto/doc/jose/jwk"
	"github.com/hyperledger/aries-framework-go/component/kmscrypto/doc/jose/jwk/jwksupport"
	kmscomp "github.com/hyperledger/aries-framework-go/component/kmscrypto/kms"
	"github.com/hyperledger/aries-framework-go/component/kmscrypto/kms/localkms"
	"github.com/hyperledger/aries-framework-go/component/kmscrypto/secretlock/noop"
	"github.com/hyperledger/aries-framework-go/component/models/signature/verifier"
	"github.com/hyperledger/aries-framework-go/component/storageutil/mem"
	kmsapi "github.com/hyperledger/aries-framework-go/spi/kms"
	spistorage "github.com/hyperledger/aries-framework-go/spi/storage"
)

var c04Types = map[string]kmsapi.KeyType{
	"ed25519": kmsapi.ED25519Type, "p256der": kmsapi.ECDSAP256TypeDER, "p256": kmsapi.ECDSAP256TypeIEEEP1363,
	"p384der": kmsapi.ECDSAP384TypeDER, "p384": kmsapi.ECDSAP384TypeIEEEP1363, "p521der": kmsapi.ECDSAP521TypeDER,
	"p521": kmsapi.ECDSAP521TypeIEEEP1363, "k256der": kmsapi.ECDSASecp256k1DER, "k256": kmsapi.ECDSASecp256k1IEEEP1363,
	"hmac": kmsapi.HMACSHA256Tag256Type, "a128gcm": kmsapi.AES128GCMType, "a256gcm": kmsapi.AES256GCMType,
	"a256gcmnp": kmsapi.AES256GCMNoPrefixType, "chacha": kmsapi.ChaCha20Poly1305Type, "xchacha": kmsapi.XChaCha20Poly1305Type,
}

type c04Key struct {
	kid string
	kh  interface{}
	pub []byte
}

var (
	c04KMS, c04Other kmsapi.KeyManager
	c04Pool          = map[string][]*c04Key{}
)

func c04NewKMS() kmsapi.KeyManager { return c04NewKMSOver(mem.NewProvider()) }

func c04NewKMSOver(prov spistorage.Provider) kmsapi.KeyManager {
	st, e := kmscomp.NewAriesProviderWrapper(prov)
	if e != nil {
		panic(e)
	}
	km, e := localkms.New("local-lock://c04", kmsProv{st, &noop.NoLock{}})
	if e != nil {
		panic(e)
	}
	return km
}

func c04Setup() {
	c04KMS, c04Other = c04NewKMS(), c04NewKMS()
}

func c04Import(kt string) (interface{}, bool) {
	switch {
	case kt == "ed25519":
		_, priv, _ := ed25519.GenerateKey(rand.Reader)
		return priv, true
	case strings.HasPrefix(kt, "p256"):
		k, _ := ecdsa.GenerateKey(elliptic.P256(), rand.Reader)
		return k, true
	case strings.HasPrefix(kt, "p384"):
		k, _ := ecdsa.GenerateKey(elliptic.P384(), rand.Reader)
		return k, true
	case strings.HasPrefix(kt, "p521"):
		k, _ := ecdsa.GenerateKey(elliptic.P521(), rand.Reader)
		return k, true
	}
	return nil, false
}

// key i (0,1) of (kt, src); created once per run
func c04Get(kt, src string, i int) (*c04Key, error) {
	name := kt + "/" + src
	for len(c04Pool[name]) <= i {
		var (
			kid string
			kh  interface{}
			err error
		)
		if src == "importz" {
			// an imported EC key whose public point has a coordinate with a leading zero byte (1 key in 128): encoders that
			// take the coordinates as minimal big-endian bytes lose the padding
			c := map[string]elliptic.Curve{"p256": elliptic.P256(), "p384": elliptic.P384(), "p521": elliptic.P521(),
				"k256": btcec.S256()}[strings.TrimSuffix(kt, "der")]
			if c == nil {
				return nil, fmt.Errorf("not importable")
			}
			size := (c.Params().BitSize + 7) / 8
			d, _ := rand.Int(rand.Reader, new(big.Int).Rsh(c.Params().N, 8))
			d.Add(d, big.NewInt(2))
			x, y := c.ScalarBaseMult(d.Bytes())
			for len(x.Bytes()) == size && len(y.Bytes()) == size {
				d.Add(d, big.NewInt(1))
				x, y = c.ScalarBaseMult(d.Bytes())
			}
			priv := &ecdsa.PrivateKey{PublicKey: ecdsa.PublicKey{Curve: c, X: x, Y: y}, D: d}
			kid, kh, err = c04KMS.ImportPrivateKey(priv, c04Types[kt])
		} else if src == "import" {
			priv, ok := c04Import(kt)
			if !ok {
				return nil, fmt.Errorf("not importable")
			}
			kid, kh, err = c04KMS.ImportPrivateKey(priv, c04Types[kt])
		} else {
			kid, kh, err = c04KMS.Create(c04Types[kt])
		}
		if err != nil {
			return nil, err
		}
		k := &c04Key{kid: kid, kh: kh}
		if pb, _, e := c04KMS.ExportPubKeyBytes(kid); e == nil {
			k.pub = pb
		}
		c04Pool[name] = append(c04Pool[name], k)
	}
	return c04Pool[name][i], nil
}

func c04Msg(kind string) []byte {
	switch kind {
	case "e":
		return []byte{}
	case "1":
		return []byte{0}
	case "big":
		return bytes.Repeat([]byte("0123456789abcdef"), 4096)
	case "alt":
		return []byte("another message")
	}
	return []byte("message " + kind)
}

func c04Flip(b []byte, permille int) []byte {
	out := append([]byte{}, b...)
	if len(out) == 0 {
		return out
	}
	pos := permille * len(out) / 1000
	if pos >= len(out) {
		pos = len(out) - 1
	}
	out[pos] ^= 1 << uint(permille%8)
	return out
}

func c04PubVerifier(kt string) (*verifier.PublicKeyVerifier, string) {
	switch {
	case kt == "ed25519":
		return verifier.NewPublicKeyVerifier(verifier.NewEd25519SignatureVerifier()), "Ed25519VerificationKey2018"
	case strings.HasPrefix(kt, "p256"):
		return verifier.NewPublicKeyVerifier(verifier.NewECDSAES256SignatureVerifier()), "JsonWebKey2020"
	case strings.HasPrefix(kt, "p384"):
		return verifier.NewPublicKeyVerifier(verifier.NewECDSAES384SignatureVerifier()), "JsonWebKey2020"
	case strings.HasPrefix(kt, "p521"):
		return verifier.NewPublicKeyVerifier(verifier.NewECDSAES521SignatureVerifier()), "JsonWebKey2020"
	}
	return verifier.NewPublicKeyVerifier(verifier.NewECDSASecp256k1SignatureVerifier()), "EcdsaSecp256k1VerificationKey2019"
}

// raw public key bytes for the PublicKeyVerifier (uncompressed point for ECDSA)
func c04RawPub(kt string, k *c04Key) ([]byte, error) {
	if kt == "ed25519" || strings.HasPrefix(kt, "k256") {
		return k.pub, nil // raw Ed25519 key / uncompressed secp256k1 point, as exported
	}
	h, err := c04Other.PubKeyBytesToHandle(k.pub, c04Types[kt])
	if err != nil {
		return nil, err
	}
	// go through the JWK the framework builds for the exported key
	_ = h
	j, err := jwkFromExported(k.pub, c04Types[kt])
	if err != nil {
		return nil, err
	}
	pk, ok := j.Key.(*ecdsa.PublicKey)
	if !ok {
		return nil, fmt.Errorf("not an ecdsa key")
	}
	return elliptic.Marshal(pk.Curve, pk.X, pk.Y), nil
}

func c04Sig(f []string) string {
	if len(f) != 6 {
		return "bad-input"
	}
	kt, src, msgK, how, neg := f[1], f[2], f[3], f[4], strings.Split(f[5], ":")
	k, err := c04Get(kt, src, 0)
	if err != nil {
		return "key=err"
	}
	msg := c04Msg(msgK)
	sig, err := envCrypto.Sign(msg, k.kh)
	if err != nil {
		return "sign=err"
	}
	verify := func(s, m []byte, key *c04Key) error {
		switch how {
		case "own":
			pub, e := key.kh.(*keyset.Handle).Public()
			if e != nil {
				return e
			}
			return envCrypto.Verify(s, m, pub)
		case "exp":
			h, e := c04Other.PubKeyBytesToHandle(key.pub, c04Types[kt])
			if e != nil {
				return e
			}
			return envCrypto.Verify(s, m, h)
		default:
			v, typ := c04PubVerifier(kt)
			raw, e := c04RawPub(kt, key)
			if e != nil {
				return e
			}
			return v.Verify(&verifier.PublicKey{Type: typ, Value: raw}, m, s)
		}
	}
	honest := "ok"
	if e := verify(sig, msg, k); e != nil {
		honest = "fail"
	}
	ns := "na"
	s2, m2, k2 := sig, msg, k
	applied := true
	arg := 0
	if len(neg) > 1 {
		arg, _ = strconv.Atoi(neg[1])
	}
	switch neg[0] {
	case "none":
		applied = false
	case "msg":
		m2 = c04Msg("alt")
	case "flip":
		s2 = c04Flip(sig, arg)
	case "trunc":
		s2 = sig[:len(sig)-1]
	case "app":
		s2 = append(append([]byte{}, sig...), 0)
	case "pad":
		if strings.HasSuffix(kt, "der") || kt == "ed25519" || len(sig)%2 != 0 {
			applied = false
			break
		}
		h := len(sig) / 2
		s2 = append(append(append([]byte{0}, sig[:h]...), 0), sig[h:]...)
	case "key":
		k2, err = c04Get(kt, src, 1)
		if err != nil {
			return "key=err"
		}
	default:
		return "bad-input"
	}
	if applied {
		ns = "ok"
		if e := verify(s2, m2, k2); e != nil {
			ns = "fail"
		}
	}
	ln := strconv.Itoa(len(sig))
	if strings.HasSuffix(kt, "der") {
		ln = "der" // DER lengths vary with the scalars
	}
	return fmt.Sprintf("sign=ok len=%s honest=%s neg=%s", ln, honest, ns)
}

func c04MAC(f []string) string {
	if len(f) != 3 {
		return "bad-input"
	}
	neg := strings.Split(f[2], ":")
	k, err := c04Get("hmac", "create", 0)
	if err != nil {
		return "key=err"
	}
	msg := c04Msg(f[1])
	tag, err := envCrypto.ComputeMAC(msg, k.kh)
	if err != nil {
		return "sign=err"
	}
	honest := "ok"
	if e := envCrypto.VerifyMAC(tag, msg, k.kh); e != nil {
		honest = "fail"
	}
	t2, m2, k2 := tag, msg, k
	applied := true
	arg := 0
	if len(neg) > 1 {
		arg, _ = strconv.Atoi(neg[1])
	}
	switch neg[0] {
	case "none":
		applied = false
	case "msg":
		m2 = c04Msg("alt")
	case "flip":
		t2 = c04Flip(tag, arg)
	case "trunc":
		t2 = tag[:len(tag)-1]
	case "app":
		t2 = append(append([]byte{}, tag...), 0)
	case "key":
		k2, _ = c04Get("hmac", "create", 1)
	default:
		return "bad-input"
	}
	ns := "na"
	if applied {
		ns = "ok"
		if e := envCrypto.VerifyMAC(t2, m2, k2.kh); e != nil {
			ns = "fail"
		}
	}
	return fmt.Sprintf("sign=ok len=%d honest=%s neg=%s", len(tag), honest, ns)
}

var c04AEADSeq int

func c04AEAD(f []string) string {
	if len(f) != 6 {
		return "bad-input"
	}
	kt, msgK, aadK, neg := f[1], f[2], f[3], strings.Split(f[5], ":")
	// rotations after encrypting: a number (same key type) or a comma separated list of key types
	var rotTypes []string
	if n, e := strconv.Atoi(f[4]); e == nil {
		for i := 0; i < n; i++ {
			rotTypes = append(rotTypes, f[1])
		}
	} else {
		rotTypes = strings.Split(f[4], ",")
	}
	// a fresh key per case: rotations change it
	kid, kh, err := c04KMS.Create(c04Types[kt])
	if err != nil {
		return "key=err"
	}
	msg, aad := c04Msg(msgK), c04Msg(aadK)
	ct, nonce, err := envCrypto.Encrypt(msg, aad, kh)
	if err != nil {
		return "enc=err"
	}
	ct2, nonce2, err := envCrypto.Encrypt(c04Msg("alt"), aad, kh)
	if err != nil {
		return "enc=err"
	}
	_ = ct2
	for _, rt := range rotTypes {
		if _, ok := c04Types[rt]; !ok {
			return "bad-input"
		}
		kid, kh, err = c04KMS.Rotate(c04Types[rt], kid)
		if err != nil {
			return "rotate=err"
		}
	}
	dec := func(c, a, n []byte, h interface{}) string {
		pt, e := envCrypto.Decrypt(c, a, n, h)
		if e != nil {
			return "fail"
		}
		if bytes.Equal(pt, msg) {
			return "ok"
		}
		return "wrong"
	}
	honest := dec(ct, aad, nonce, kh)
	if honest == "ok" {
		// the same arguments as sub-slices of ONE buffer (a zero-copy record decoder: nonce || aad || ciphertext, each
		// slice with spare capacity reaching into its neighbour): the outcome depends on the bytes, not on where they
		// live, and the caller's buffer is left as it was
		for layout := 0; layout < 2 && honest == "ok"; layout++ {
			parts := [][]byte{nonce, aad, ct}
			if layout == 1 {
				parts = [][]byte{ct, nonce, aad}
			}
			buf := make([]byte, 0, len(nonce)+len(aad)+len(ct)+32)
			var cuts []int
			for _, p := range parts {
				cuts = append(cuts, len(buf))
				buf = append(buf, p...)
			}
			cuts = append(cuts, len(buf))
			buf = append(buf, bytes.Repeat([]byte{0xEE}, 32)...) // a guard zone after the last argument
			before := append([]byte{}, buf...)
			sl := func(i int) []byte { return buf[cuts[i]:cuts[i+1]] } // capacity runs to the end of the buffer
			var r string
			if layout == 0 {
				r = dec(sl(2), sl(1), sl(0), kh)
			} else {
				r = dec(sl(0), sl(2), sl(1), kh)
			}
			if !bytes.Equal(buf, before) {
				honest = "clobbered-arguments"
			} else if r != "ok" {
				honest = "fail-when-arguments-share-a-buffer"
			}
		}
	}
	c3, a3, n3, h3 := ct, aad, nonce, kh
	applied := true
	arg := 0
	if len(neg) > 1 {
		arg, _ = strconv.Atoi(neg[1])
	}
	switch neg[0] {
	case "none":
		applied = false
	case "ct":
		c3 = c04Flip(ct, arg)
	case "nonce":
		n3 = c04Flip(nonce, arg)
	case "aad":
		a3 = append(append([]byte{}, aad...), 'x')
	case "key":
		_, h3, err = c04KMS.Create(c04Types[kt])
		if err != nil {
			return "key=err"
		}
	case "swapnonce":
		n3 = nonce2
	case "emptyn":
		n3 = []byte{}
	default:
		return "bad-input"
	}
	ns := "na"
	if applied {
		ns = dec(c3, a3, n3, h3)
	}
	return fmt.Sprintf("enc=ok noncelen=%d ctlen=%d dec=%s neg=%s", len(nonce), len(ct)-len(msg), honest, ns)
}

func c04Run(input string) string {
	f := strings.Split(input, "|")
	switch f[0] {
	case "sig":
		return c04Sig(f)
	case "mac":
		return c04MAC(f)
	case "aead":
		return c04AEAD(f)
	case "enc":
		return c04Enc(f)
	case "bls":
		return c04BLS(f)
	}
	return "bad-input"
}

// BLS12-381 G2 multi-message signatures: "bls|" n "|" how "|" neg
//   n   : number of signed messages ("message-<i>")
//   how : own (public handle of the signing handle) | exp (exported key re-imported by ANOTHER kms)
//   neg : none | chg:K (message K changed) | swap:I:J (messages I and J exchanged) | drop (last message dropped) |
//         app (one more message) | key (another key) | flip:P (bit of the signature byte at permille P)
// output: sign=<ok|err> len=<n> honest=<ok|fail> neg=<ok|fail|na>
var c04BLSKeys struct {
	kh, pubOwn, pubExp, pubOther interface{}
}

func c04BLS(f []string) string {
	if len(f) != 4 {
		return "bad-input"
	}
	n, err := strconv.Atoi(f[1])
	if err != nil || n < 1 || n > 70000 {
		return "bad-input"
	}
	k := &c04BLSKeys
	if k.kh == nil {
		kid, kh, err := c04KMS.Create(kmsapi.BLS12381G2Type)
		if err != nil {
			return "key=err"
		}
		pb, _, err := c04KMS.ExportPubKeyBytes(kid)
		if err != nil {
			return "key=err"
		}
		if k.pubExp, err = c04Other.PubKeyBytesToHandle(pb, kmsapi.BLS12381G2Type); err != nil {
			return "key=err"
		}
		if k.pubOwn, err = kh.(*keyset.Handle).Public(); err != nil {
			return "key=err"
		}
		_, pb2, err := c04Other.CreateAndExportPubKeyBytes(kmsapi.BLS12381G2Type)
		if err != nil {
			return "key=err"
		}
		if k.pubOther, err = c04Other.PubKeyBytesToHandle(pb2, kmsapi.BLS12381G2Type); err != nil {
			return "key=err"
		}
		k.kh = kh
	}
	msgs := make([][]byte, n)
	for i := range msgs {
		msgs[i] = []byte(fmt.Sprintf("message-%d", i))
	}
	sig, err := envCrypto.SignMulti(msgs, k.kh)
	if err != nil {
		return "sign=err"
	}
	pub := k.pubOwn
	if f[2] == "exp" {
		pub = k.pubExp
	}
	show := func(e error) string {
		if e == nil {
			return "ok"
		}
		return "fail"
	}
	honest := show(envCrypto.VerifyMulti(msgs, sig, pub))
	neg := "na"
	nf := strings.Split(f[3], ":")
	alt := append([][]byte{}, msgs...)
	switch nf[0] {
	case "chg":
		if i, _ := strconv.Atoi(nf[1]); i < n {
			alt[i] = append(append([]byte{}, alt[i]...), 'x')
			neg = show(envCrypto.VerifyMulti(alt, sig, pub))
		}
	case "swap":
		i, _ := strconv.Atoi(nf[1])
		j, _ := strconv.Atoi(nf[2])
		if i < n && j < n && i != j {
			alt[i], alt[j] = alt[j], alt[i]
			neg = show(envCrypto.VerifyMulti(alt, sig, pub))
		}
	case "drop":
		if n > 1 {
			neg = show(envCrypto.VerifyMulti(alt[:n-1], sig, pub))
		}
	case "app":
		neg = show(envCrypto.VerifyMulti(append(alt, []byte("one more")), sig, pub))
	case "key":
		neg = show(envCrypto.VerifyMulti(msgs, sig, k.pubOther))
	case "flip":
		pm, _ := strconv.Atoi(nf[1])
		s2 := append([]byte{}, sig...)
		s2[(len(s2)-1)*pm/1000] ^= 1
		neg = show(envCrypto.VerifyMulti(msgs, s2, pub))
	}
	return fmt.Sprintf("sign=ok len=%d honest=%s neg=%s", len(sig), honest, neg)
}

func c04Gen(r *Rng, tier string) []string {
	n := 1500
	if tier == "thorough" {
		n = 40000
	}
	sigT := []string{"ed25519", "p256der", "p256", "p384der", "p384", "p521der", "p521", "k256der", "k256"}
	aeadT := []string{"a128gcm", "a256gcm", "a256gcmnp", "chacha", "xchacha"}
	msgs := []string{"e", "1", "a", "b", "c", "big"}
	var out []string
	// BLS12-381 G2 multi-message signatures
	blsNeg := func(k int) string {
		switch x := r.N(10); {
		case x < 1:
			return "none"
		case x < 4:
			return fmt.Sprintf("chg:%d", r.N(k))
		case x < 6:
			return fmt.Sprintf("swap:%d:%d", r.N(k), r.N(k))
		case x < 7:
			return "drop"
		case x < 8:
			return "app"
		case x < 9:
			return "key"
		}
		return fmt.Sprintf("flip:%d", r.N(1001))
	}
	for i := 0; i < n/12; i++ {
		k := 1 + r.N(8)
		if r.N(4) == 0 {
			k = []int{15, 16, 17, 31, 32, 33, 64, 65, 70}[r.N(9)]
		}
		out = append(out, fmt.Sprintf("bls|%d|%s|%s", k, r.Pick([]string{"own", "exp"}), blsNeg(k)))
	}
	if tier == "thorough" {
		// message counts around 2^8 and beyond 2^16: indexes that differ by a power of two
		out = append(out, "bls|257|own|swap:0:256", "bls|300|exp|swap:1:257", "bls|65537|own|swap:0:65536", "bls|65540|exp|swap:3:65539")
	}
	for i := 0; i < n; i++ {
		switch x := r.N(10); {
		case x < 5:
			kt := r.Pick(sigT)
			src := "create"
			if r.N(3) == 0 && !strings.HasPrefix(kt, "k256") {
				src = "import"
			}
			if r.N(6) == 0 && kt != "ed25519" && kt != "k256der" {
				src = "importz"
			}
			neg := []string{"none", "msg", fmt.Sprintf("flip:%d", r.N(1000)), fmt.Sprintf("flip:%d", r.N(1000)), "trunc", "app", "pad", "key"}[r.N(8)]
			out = append(out, fmt.Sprintf("sig|%s|%s|%s|%s|%s", kt, src, r.Pick(msgs), r.Pick([]string{"own", "exp", "exp", "pkv"}), neg))
		case x < 6:
			neg := []string{"none", "msg", fmt.Sprintf("flip:%d", r.N(1000)), "trunc", "app", "key"}[r.N(6)]
			out = append(out, fmt.Sprintf("mac|%s|%s", r.Pick(msgs), neg))
		case x < 9:
			neg := []string{"none", fmt.Sprintf("ct:%d", r.N(1000)), fmt.Sprintf("nonce:%d", r.N(1000)), "aad", "key", "swapnonce", "emptyn"}[r.N(7)]
			rot := strconv.Itoa(r.N(3))
			if r.N(3) == 0 { // rotate to other AEAD types (other nonce sizes, RAW vs TINK prefix)
				rot = r.Pick(aeadT)
				if r.Bool() {
					rot += "," + r.Pick(aeadT)
				}
			}
			out = append(out, fmt.Sprintf("aead|%s|%s|%s|%s|%s", r.Pick(aeadT), r.Pick(msgs), r.Pick([]string{"e", "a", "b"}), rot, neg))
		default:
			// scalars with leading zero bytes are the interesting ones
			sz := 32
			mk := func() string {
				b := r.Bytes(sz)
				for z := r.N(4); z > 0; z-- {
					b[z-1] = 0
				}
				if r.N(10) == 0 {
					b = make([]byte, sz)
				}
				return fmt.Sprintf("%x", b)
			}
			out = append(out, fmt.Sprintf("enc|%s|%s|%d", mk(), mk(), sz))
		}
	}
	return out
}

func init() {
	register("C04", &Prop{Gen: c04Gen, Run: c04Run, Setup: c04Setup})
}

func jwkFromExported(pub []byte, kt kmsapi.KeyType) (*jwk.JWK, error) {
	return jwksupport.PubKeyBytesToJWK(pub, kt)
}

// codecs of secp256k1/subtle: output p1363=<hex> back=<ok|differs|err> padded=<same|other|rej> short=<same|other|rej>
// der=<hex> derback=<ok|differs|err> dertrail=<acc|rej> derpad=<acc|rej>
func c04Enc(f []string) string {
	if len(f) != 4 {
		return "bad-input"
	}
	r, ok1 := new(big.Int).SetString(f[1], 16)
	s, ok2 := new(big.Int).SetString(f[2], 16)
	if !ok1 || !ok2 {
		return "bad-input"
	}
	same := func(a, b *big.Int, e error) string {
		if e != nil {
			return "rej"
		}
		if a.Cmp(r) == 0 && b.Cmp(s) == 0 {
			return "same"
		}
		return "other"
	}
	p, err := secpsubtle.VerifIEEEP1363Encode(r, s)
	if err != nil {
		return "p1363=err"
	}
	back := same(secpsubtle.VerifIEEEP1363Decode(p))
	h := len(p) / 2
	padded := append(append(append([]byte{0}, p[:h]...), 0), p[h:]...)
	pad := same(secpsubtle.VerifIEEEP1363Decode(padded))
	short := "na"
	if p[0] == 0 && p[h] == 0 {
		short = same(secpsubtle.VerifIEEEP1363Decode(append(append([]byte{}, p[1:h]...), p[h+1:]...)))
	}
	d, err := secpsubtle.VerifASN1Encode(r, s)
	if err != nil {
		return "der=err"
	}
	derback := same(secpsubtle.VerifASN1Decode(d))
	trail := same(secpsubtle.VerifASN1Decode(append(append([]byte{}, d...), 0)))
	// non-minimal INTEGER: a zero byte in front of r (lengths adjusted)
	derpad := "na"
	if len(d) > 4 && d[1] < 0x7f && d[3] < 0x7f {
		np := append([]byte{}, d[:4]...)
		np[1]++
		np[3]++
		np = append(np, 0)
		np = append(np, d[4:]...)
		derpad = same(secpsubtle.VerifASN1Decode(np))
	}
	return fmt.Sprintf("p1363=%x back=%s padded=%s short=%s der=%x derback=%s dertrail=%s derpad=%s", p, back, pad, short, d, derback, trail, derpad)
}
