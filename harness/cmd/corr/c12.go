package main

// C12: formattedstore + EDV encrypted formatter over a RECORDING provider: what does the underlying provider get to see?
//
// input  := <mode> "|" ops (C11 syntax; short atoms k1.., a.., 1.. are mapped to long distinctive plaintexts)
//   mode := det | rnd | det+cfg | rnd+cfg     (+cfg: SetStoreConfig with the tag names is called first)
// output := calls joined by " ; " then " || scan=clean" or " || scan=LEAK <atom> <encoding> in <call>"
//   call := Method(arg,arg..) with every argument mapped back to a symbolic term using the harness's own keys:
//     docid(K) | rnd | mac(N) | mac(N):mac(V) | doc(ID;IDX;enc{K,V,T}) | name(S) (store names, not covered by the
//     property) | raw(<hex>) (anything that could not be explained: never opaque)

import (
	"bytes"
	"crypto/sha256"
	"encoding/base64"
	"encoding/hex"
	"encoding/json"
	"fmt"
	"sort"
	"strings"

	"github.com/btcsuite/btcutil/base58"

	"github.com/hyperledger/aries-framework-go/component/kmscrypto/doc/jose"
	kmscomp "github.com/hyperledger/aries-framework-go/component/kmscrypto/kms"
	"github.com/hyperledger/aries-framework-go/component/kmscrypto/kms/localkms"
	"github.com/hyperledger/aries-framework-go/component/kmscrypto/secretlock/noop"
	"github.com/hyperledger/aries-framework-go/component/storage/edv"
	"github.com/hyperledger/aries-framework-go/component/storageutil/formattedstore"
	"github.com/hyperledger/aries-framework-go/component/storageutil/mem"
	cryptoapi "github.com/hyperledger/aries-framework-go/spi/crypto"
	kmsapi "github.com/hyperledger/aries-framework-go/spi/kms"
	spi "github.com/hyperledger/aries-framework-go/spi/storage"
)

// long, distinctive plaintexts (so that a scan for them is meaningful)
var c12Atoms = map[string]string{
	"k1": "KEY-alpha-7c1f93", "k2": "KEY-bravo-2e8d41", "k3": "KEY-charlie-90ab",
	"a": "TAGNAME-apple-55", "b": "TAGNAME-banana-6", "c": "TAGNAME-cherry-7", "d:e": "TAG:NAME-bad",
	"1": "TAGVALUE-one-111", "2": "TAGVALUE-two-222", "x:y": "TAG:VALUE-bad",
}

var c12Values = map[string][]byte{
	"01": []byte("SECRET-VALUE-first-0001"), "02": []byte("SECRET-VALUE-second-002"),
	"0a0b": []byte("SECRET-VALUE-third-00003"),
}

// the crypto service of the harness's own decrypter, looking at every content encryption key it unwraps
type c12SpyCrypto struct {
	cryptoapi.Crypto
	last []byte
}

func (c *c12SpyCrypto) UnwrapKey(rec *cryptoapi.RecipientWrappedKey, kh interface{}, opts ...cryptoapi.WrapKeyOpts) ([]byte, error) {
	cek, err := c.Crypto.UnwrapKey(rec, kh, opts...)
	if err == nil {
		c.last = append([]byte{}, cek...)
	}
	return cek, err
}

// a content encryption key has to be random: eight zero bytes in a row do not happen by chance
func c12WeakKey(k []byte) bool {
	run := 0
	for _, b := range k {
		if b == 0 {
			run++
			if run >= 8 {
				return true
			}
		} else {
			run = 0
		}
	}
	return len(k) == 0
}

type c12Env struct {
	spy     *c12SpyCrypto
	pk      *cryptoapi.PublicKey
	encs    map[string]jose.Encrypter
	seenCEK map[string]int
	weak    string
	kms     kmsapi.KeyManager
	mac     *edv.MACCrypto
	dec     jose.Decrypter
	enc     jose.Encrypter
	macToID map[string]string // base64url(mac(atom)) -> atom label
	docToID map[string]string // base58(mac(key)[:16]) -> key label
	// ciphertexts handed to the provider in this run: every write is encrypted afresh, the same ciphertext twice tells
	// the provider that two writes carry the same data
	seenJWE  map[string]int
	countJWE bool
	reused   bool
}

var c12Shared *c12Env

func init() {
	// one application key has the shape of a vault document id (Base58 of 128 bits): a formatter must not mistake it for one
	c12Atoms["k3"] = base58.Encode([]byte("KEY-charlie-90ab"))
	register("C12", &Prop{Gen: c12Gen, Run: c12Run, Setup: c12SetupReal})
}

func c12SetupReal() {
	st, err := kmscomp.NewAriesProviderWrapper(mem.NewProvider())
	if err != nil {
		panic(err)
	}
	k, err := localkms.New("local-lock://c12", kmsProv{st, &noop.NoLock{}})
	if err != nil {
		panic(err)
	}
	kid, pubBytes, err := k.CreateAndExportPubKeyBytes(kmsapi.NISTP256ECDHKWType)
	if err != nil {
		panic(err)
	}
	pk := &cryptoapi.PublicKey{}
	if err := json.Unmarshal(pubBytes, pk); err != nil {
		panic(err)
	}
	pk.KID = kid
	enc, err := jose.NewJWEEncrypt(jose.A256GCM, "", "", "", nil, []*cryptoapi.PublicKey{pk}, envCrypto)
	if err != nil {
		panic(err)
	}
	spy := &c12SpyCrypto{Crypto: envCrypto}
	dec := jose.NewJWEDecrypt(nil, spy, k)
	_, macKH, err := k.Create(kmsapi.HMACSHA256Tag256Type)
	if err != nil {
		panic(err)
	}
	e := &c12Env{spy: spy, pk: pk, encs: map[string]jose.Encrypter{}, kms: k, mac: edv.NewMACCrypto(macKH, envCrypto), dec: dec, enc: enc,
		macToID: map[string]string{}, docToID: map[string]string{}}
	for label, atom := range c12Atoms {
		m, err := e.mac.ComputeMAC([]byte(atom))
		if err != nil {
			panic(err)
		}
		e.macToID[base64.URLEncoding.EncodeToString(m)] = label
		e.docToID[base58.Encode(m[:16])] = label
	}
	// the Key tag name used by formattedstore for non-deterministic ids, and base64 key tag values
	for _, extra := range []string{"Key"} {
		m, _ := e.mac.ComputeMAC([]byte(extra))
		e.macToID[base64.URLEncoding.EncodeToString(m)] = "KeyTag"
	}
	for label, atom := range c12Atoms {
		if strings.HasPrefix(label, "k") {
			// formattedstore stores the base64 of the key as value of its Key tag
			m, _ := e.mac.ComputeMAC([]byte(base64.StdEncoding.EncodeToString([]byte(atom))))
			e.macToID[base64.URLEncoding.EncodeToString(m)] = "b64key(" + label + ")"
		}
	}
	c12Shared = e
}

// ---- recording provider ------------------------------------------------------------------------------------------------

type recProvider struct {
	spi.Provider
	log *[]recCall
}

type recCall struct {
	method string
	strs   []string // string arguments
	blobs  [][]byte // byte arguments
	tags   []spi.Tag
	ops    []spi.Operation
}

func (p *recProvider) OpenStore(name string) (spi.Store, error) {
	*p.log = append(*p.log, recCall{method: "OpenStore", strs: []string{"name:" + name}})
	s, err := p.Provider.OpenStore(name)
	if err != nil {
		return nil, err
	}
	return &recStore{Store: s, log: p.log}, nil
}

func (p *recProvider) SetStoreConfig(name string, cfg spi.StoreConfiguration) error {
	c := recCall{method: "SetStoreConfig", strs: []string{"name:" + name}}
	for _, t := range cfg.TagNames {
		c.tags = append(c.tags, spi.Tag{Name: t})
	}
	*p.log = append(*p.log, c)
	return p.Provider.SetStoreConfig(name, cfg)
}

type recStore struct {
	spi.Store
	log *[]recCall
}

func (s *recStore) Put(k string, v []byte, tags ...spi.Tag) error {
	*s.log = append(*s.log, recCall{method: "Put", strs: []string{k}, blobs: [][]byte{v}, tags: tags})
	return s.Store.Put(k, v, tags...)
}
func (s *recStore) Get(k string) ([]byte, error) {
	*s.log = append(*s.log, recCall{method: "Get", strs: []string{k}})
	return s.Store.Get(k)
}
func (s *recStore) GetTags(k string) ([]spi.Tag, error) {
	*s.log = append(*s.log, recCall{method: "GetTags", strs: []string{k}})
	return s.Store.GetTags(k)
}
func (s *recStore) GetBulk(ks ...string) ([][]byte, error) {
	*s.log = append(*s.log, recCall{method: "GetBulk", strs: ks})
	return s.Store.GetBulk(ks...)
}
func (s *recStore) Query(e string, o ...spi.QueryOption) (spi.Iterator, error) {
	c := recCall{method: "Query", strs: []string{"expr:" + e}}
	// query options are arguments too: a sort order names a tag
	var qo spi.QueryOptions
	for _, opt := range o {
		opt(&qo)
	}
	if qo.SortOptions != nil && qo.SortOptions.TagName != "" {
		c.strs = append(c.strs, "sortby:"+qo.SortOptions.TagName)
	}
	*s.log = append(*s.log, c)
	return s.Store.Query(e, o...)
}
func (s *recStore) Delete(k string) error {
	*s.log = append(*s.log, recCall{method: "Delete", strs: []string{k}})
	return s.Store.Delete(k)
}
func (s *recStore) Batch(ops []spi.Operation) error {
	*s.log = append(*s.log, recCall{method: "Batch", ops: ops})
	return s.Store.Batch(ops)
}

// ---- canonicalisation ---------------------------------------------------------------------------------------------------

func (e *c12Env) canonID(s string) string {
	if s == "" {
		return "empty"
	}
	if l, ok := e.docToID[s]; ok {
		return "docid(" + l + ")"
	}
	// a random document id: 16 random bytes in base58 that are not the MAC of anything we know
	if b := base58.Decode(s); len(b) == 16 {
		return "rnd"
	}
	return "raw(" + hex.EncodeToString([]byte(s)) + ")"
}

func (e *c12Env) canonMAC(s string) string {
	if s == "" {
		return "empty"
	}
	if l, ok := e.macToID[s]; ok {
		return "mac(" + l + ")"
	}
	// a MAC tag is 32 bytes, 37 with the key-id prefix of the MAC primitive
	if b, err := base64.URLEncoding.DecodeString(s); err == nil && (len(b) == 32 || len(b) == 37) {
		return "mac(?)" // a MAC of something that is not a plaintext of this case (e.g. an invalid tag)
	}
	return "raw(" + hex.EncodeToString([]byte(s)) + ")"
}

func (e *c12Env) canonTags(ts []spi.Tag) string {
	var p []string
	for _, t := range ts {
		p = append(p, e.canonMAC(t.Name)+":"+e.canonMAC(t.Value))
	}
	sort.Strings(p)
	return "[" + strings.Join(p, ",") + "]"
}

func (e *c12Env) canonDoc(v []byte) string {
	if v == nil {
		return "nil"
	}
	var doc struct {
		ID      string `json:"id"`
		Indexed []struct {
			Attributes []struct {
				Name  string `json:"name"`
				Value string `json:"value"`
			} `json:"attributes"`
		} `json:"indexed"`
		JWE json.RawMessage `json:"jwe"`
	}
	if err := json.Unmarshal(v, &doc); err != nil || doc.ID == "" || len(doc.JWE) == 0 {
		return "raw(" + hex.EncodeToString(v) + ")"
	}
	var idx []string
	for _, c := range doc.Indexed {
		for _, a := range c.Attributes {
			idx = append(idx, e.canonMAC(a.Name)+":"+e.canonMAC(a.Value))
		}
	}
	sort.Strings(idx)
	jwe, err := jose.Deserialize(string(doc.JWE))
	if err != nil {
		return "raw(" + hex.EncodeToString(v) + ")"
	}
	e.spy.last = nil
	pt, err := e.dec.Decrypt(jwe)
	if err != nil {
		return "raw(" + hex.EncodeToString(v) + ")"
	}
	if e.seenCEK != nil && e.countJWE && e.weak == "" {
		// the key the document was encrypted with (the harness owns the recipient key): random, and a fresh one per write
		cek := e.spy.last
		if c12WeakKey(cek) {
			e.weak = fmt.Sprintf("content encryption key of a written document is not random (%d bytes, zero run)", len(cek))
		}
		e.seenCEK[string(cek)+"|"+jwe.IV]++
		if e.seenCEK[string(cek)+"|"+jwe.IV] > 1 && e.seenJWE[jwe.Ciphertext+"|"+jwe.IV] == 0 {
			e.weak = "content encryption key and iv used for two different documents"
		}
	}
	if e.seenJWE != nil && e.countJWE {
		e.seenJWE[jwe.Ciphertext+"|"+jwe.IV]++
		if e.seenJWE[jwe.Ciphertext+"|"+jwe.IV] > 1 {
			e.reused = true
		}
	}
	// the plaintext is only reachable with the decryption key: it is reported as enc{...}
	sum := sha256.Sum256(pt)
	return "doc(" + e.canonID(doc.ID) + ";[" + strings.Join(idx, ",") + "];enc{" + hex.EncodeToString(sum[:4]) + "})"
}

func (e *c12Env) canonCall(c recCall) string {
	var args []string
	for _, s := range c.strs {
		switch {
		case strings.HasPrefix(s, "name:"):
			args = append(args, "name("+strings.TrimPrefix(s, "name:")+")")
		case strings.HasPrefix(s, "sortby:"):
			args = append(args, "sortby "+e.canonMAC(strings.TrimPrefix(s, "sortby:")))
		case strings.HasPrefix(s, "expr:"):
			ex := strings.TrimPrefix(s, "expr:")
			p := strings.SplitN(ex, ":", 2)
			a := e.canonMAC(p[0])
			if len(p) == 2 {
				a += ":" + e.canonMAC(p[1])
			}
			args = append(args, a)
		default:
			args = append(args, e.canonID(s))
		}
	}
	for _, b := range c.blobs {
		args = append(args, e.canonDoc(b))
	}
	if c.tags != nil {
		args = append(args, e.canonTags(c.tags))
	}
	for _, op := range c.ops {
		if op.Value == nil {
			args = append(args, "del "+e.canonID(op.Key))
		} else {
			args = append(args, "put "+e.canonID(op.Key)+" "+e.canonDoc(op.Value)+" "+e.canonTags(op.Tags))
		}
	}
	return c.method + "(" + strings.Join(args, ",") + ")"
}

// ---- the property's own oracle: scan every recorded byte for every plaintext in five encodings ------------------

func c12Encodings(atom []byte) map[string][]string {
	out := map[string][]string{"raw": {string(atom)}, "hex": {hex.EncodeToString(atom)}, "base58": {base58.Encode(atom)}}
	// base64 at the three alignments (the atom may sit at any offset of a longer encoded string)
	for _, enc := range []struct {
		n string
		e *base64.Encoding
	}{{"base64", base64.RawStdEncoding}, {"base64url", base64.RawURLEncoding}} {
		for off := 0; off < 3; off++ {
			padded := append(bytes.Repeat([]byte{0}, off), atom...)
			s := enc.e.EncodeToString(padded)
			// drop the characters influenced by the padding bytes and by the unknown successor
			start := (off*8 + 5) / 6
			end := len(s) - 2
			if end > start+6 {
				out[enc.n] = append(out[enc.n], s[start:end])
			}
		}
	}
	return out
}

func c12Scan(calls []recCall, canon []string) string {
	type needle struct{ atom, enc, text string }
	var needles []needle
	add := func(label string, atom []byte) {
		for enc, texts := range c12Encodings(atom) {
			for _, t := range texts {
				needles = append(needles, needle{label, enc, t})
			}
		}
	}
	for l, a := range c12Atoms {
		add(l, []byte(a))
	}
	for l, v := range c12Values {
		add("value:"+l, v)
	}
	for i, c := range calls {
		var hay [][]byte
		for _, s := range c.strs {
			if strings.HasPrefix(s, "name:") {
				continue // store names are outside the property
			}
			hay = append(hay, []byte(s))
		}
		hay = append(hay, c.blobs...)
		for _, t := range c.tags {
			hay = append(hay, []byte(t.Name), []byte(t.Value))
		}
		for _, op := range c.ops {
			hay = append(hay, []byte(op.Key), op.Value)
			for _, t := range op.Tags {
				hay = append(hay, []byte(t.Name), []byte(t.Value))
			}
		}
		for _, h := range hay {
			for _, n := range needles {
				if bytes.Contains(h, []byte(n.text)) {
					return fmt.Sprintf("LEAK %s %s in %s", n.atom, n.enc, canon[i])
				}
			}
		}
	}
	return "clean"
}

// ---- run ----------------------------------------------------------------------------------------------------------------

func c12Translate(op string) string {
	f := strings.Split(op, " ")
	trKey := func(k string) string {
		if v, ok := c12Atoms[k]; ok {
			return v
		}
		return k
	}
	trTags := func(t string) string {
		if t == "-" {
			return t
		}
		var out []string
		for _, kv := range strings.Split(t, ",") {
			p := strings.SplitN(kv, "=", 2)
			n, v := trKey(p[0]), ""
			if len(p) == 2 {
				v = trKey(p[1])
			}
			out = append(out, n+"="+v)
		}
		return strings.Join(out, ",")
	}
	trVal := func(v string) string {
		if b, ok := c12Values[v]; ok {
			return hex.EncodeToString(b)
		}
		return v
	}
	switch f[0] {
	case "put":
		return fmt.Sprintf("put %s %s %s", trKey(f[1]), trVal(f[2]), trTags(f[3]))
	case "get", "gettags", "delete":
		return f[0] + " " + trKey(f[1])
	case "getbulk":
		if f[1] == "-" {
			return op
		}
		var ks []string
		for _, k := range strings.Split(f[1], ",") {
			ks = append(ks, trKey(k))
		}
		return "getbulk " + strings.Join(ks, ",")
	case "query":
		if f[1] == "!" {
			return op
		}
		var cs []string
		for _, c := range strings.Split(f[1], "&&") {
			p := strings.Split(c, "=")
			for i := range p {
				p[i] = trKey(p[i])
			}
			cs = append(cs, strings.Join(p, "="))
		}
		return "query " + strings.Join(cs, "&&")
	case "batch":
		if f[1] == "-" {
			return op
		}
		var os []string
		for _, o := range strings.Split(f[1], "+") {
			p := strings.Split(o, "/")
			os = append(os, trKey(p[0])+"/"+trVal(p[1])+"/"+trTags(p[2]))
		}
		return "batch " + strings.Join(os, "+")
	}
	return op
}

func c12Run(input string) string {
	parts := strings.SplitN(input, "|", 2)
	if len(parts) != 2 {
		return "bad-input"
	}
	if strings.HasPrefix(parts[0], "rest:") {
		return c12RestRun(strings.TrimPrefix(parts[0], "rest:"), parts[1]) // the REST provider (c12rest.go)
	}
	e := c12Shared
	var log []recCall
	rec := &recProvider{Provider: mem.NewProvider(), log: &log}
	var opts []edv.EncryptedFormatterOption
	if strings.HasPrefix(parts[0], "det") {
		opts = append(opts, edv.WithDeterministicDocumentIDs())
	}
	// "det@A256CBC-HS512": the content encryption algorithm the store is configured with (default A256GCM)
	enc := e.enc
	if at := strings.Index(parts[0], "@"); at >= 0 {
		alg := strings.TrimSuffix(parts[0][at+1:], "+cfg")
		if e.encs[alg] == nil {
			ne, err := jose.NewJWEEncrypt(jose.EncAlg(alg), "", "", "", nil, []*cryptoapi.PublicKey{e.pk}, envCrypto)
			if err != nil {
				return "bad-input enc " + err.Error()
			}
			e.encs[alg] = ne
		}
		enc = e.encs[alg]
		parts[0] = parts[0][:at] + map[bool]string{true: "+cfg", false: ""}[strings.HasSuffix(parts[0], "+cfg")]
	}
	formatter := edv.NewEncryptedFormatter(enc, e.dec, e.mac, opts...)
	p := formattedstore.NewProvider(rec, formatter)
	st, err := p.OpenStore("s")
	if err != nil {
		return "open-error"
	}
	if strings.HasSuffix(parts[0], "+cfg") {
		if err := p.SetStoreConfig("s", spi.StoreConfiguration{TagNames: []string{c12Atoms["a"], c12Atoms["b"], c12Atoms["c"]}}); err != nil {
			return "cfg-error " + err.Error()
		}
	}
	for _, op := range strings.Split(parts[1], ";") {
		if op == "" || op == "reopen" {
			continue
		}
		if strings.HasPrefix(op, "cfg ") {
			// the store is configured (again) in the middle of its life: "cfg a,b"
			var names []string
			for _, n := range strings.Split(strings.TrimPrefix(op, "cfg "), ",") {
				if a, ok := c12Atoms[n]; ok {
					names = append(names, a)
				}
			}
			_ = p.SetStoreConfig("s", spi.StoreConfiguration{TagNames: names})
			_, _ = p.GetStoreConfig("s")
			continue
		}
		c11Apply(st, c12Translate(op))
	}
	if strings.Contains(parts[1], "query ") {
		// a query with options: page size and a sort order by tag name (providers that cannot sort refuse; what they were
		// ASKED is recorded either way)
		if it, err := st.Query(c12Atoms["a"], spi.WithPageSize(2), spi.WithSortOrder(&spi.SortOptions{Order: spi.SortAscending,
			TagName: c12Atoms["b"]})); err == nil {
			_ = it.Close()
		}
		// the sort order given twice (a wrapper's default order, then the caller's own), and with a name:value expression
		if it, err := st.Query(c12Atoms["a"]+":"+c12Atoms["1"], spi.WithSortOrder(&spi.SortOptions{Order: spi.SortAscending,
			TagName: c12Atoms["c"]}), spi.WithPageSize(3), spi.WithSortOrder(&spi.SortOptions{Order: spi.SortDescending,
			TagName: c12Atoms["b"]})); err == nil {
			_ = it.Close()
		}
	}
	var canon []string
	e.seenJWE, e.reused = map[string]int{}, false
	e.seenCEK, e.weak = map[string]int{}, ""
	for _, c := range log {
		// only what is WRITTEN counts (a document read back and looked at again is the same ciphertext, of course)
		e.countJWE = c.method == "Put" || c.method == "Batch"
		canon = append(canon, e.canonCall(c))
	}
	e.countJWE = false
	scan := c12Scan(log, canon)
	if scan == "clean" && e.reused {
		scan = "LEAK the same ciphertext was written twice (equal data is recognisable)"
	}
	if scan == "clean" && e.weak != "" {
		scan = "LEAK " + e.weak
	}
	return strings.Join(canon, " ; ") + " || scan=" + scan
}

func c12Gen(r *Rng, tier string) []string {
	n := 800
	if tier == "thorough" {
		n = 20000
	}
	modes := []string{"det", "rnd", "det+cfg", "rnd+cfg"}
	var out []string
	for i := 0; i < n; i++ {
		var ops []string
		for j := 3 + r.N(8); j > 0; j-- {
			op := c11GenOp(r, false)
			for op == "reopen" {
				op = c11GenOp(r, false)
			}
			ops = append(ops, op)
		}
		if r.N(3) == 0 {
			// the same write once more (same key, value and tags)
			var puts []int
			for x, o := range ops {
				if strings.HasPrefix(o, "put ") || strings.HasPrefix(o, "batch ") {
					puts = append(puts, x)
				}
			}
			if len(puts) > 0 {
				ops = append(ops, ops[puts[r.N(len(puts))]])
			}
		}
		if r.N(3) == 0 {
			// the store is configured again, with the same or with other tag names, once or twice
			for k := 1 + r.N(2); k > 0; k-- {
				at := r.N(len(ops) + 1)
				ops = append(ops[:at], append([]string{"cfg " + r.Pick([]string{"a,b,c", "a,b", "a,c", "b", "c,a"})}, ops[at:]...)...)
			}
		}
		if i%5 == 4 {
			// the REST provider against an in-process vault server
			out = append(out, "rest:"+[]string{"-", "d", "b", "db", "f", "bf", "dbf", "df"}[(i/5)%8]+"|"+strings.Join(ops, ";"))
			continue
		}
		mode := modes[i%4]
		if r.N(2) == 0 {
			alg := r.Pick([]string{"XC20P", "A128CBC-HS256", "A192CBC-HS384", "A256CBC-HS384", "A256CBC-HS512"})
			mode = strings.Replace(mode+"@"+alg, "+cfg@"+alg, "@"+alg+"+cfg", 1)
		}
		out = append(out, mode+"|"+strings.Join(ops, ";"))
	}
	return out
}
