package main

// C16: codecs of credentials, presentations, DID documents, JWT claims and key identifiers.
//
// input  := kind "|" flags "|" JSON            kind: vc | vp | did | jwt        flags: v (validation on) | n (off) ; jwt: m (minimized) | f
//         | "key|" kt "|" hex public key        kt: ed25519 x25519 p256 p384 p521 bls
// output := "ok|" JSON-out "|again=" (same|differs) ["|" extra]      | "err|" class
//           for key: "didkey=" <did> " back=" (same|differs|err) " fp=" (same|differs|err) " jwk=" (same|differs|err|na)
// JSON texts are generated without '|', tabs or newlines.

import (
	"bytes"
	"crypto/ecdsa"
	"crypto/ed25519"
	"crypto/elliptic"
	"encoding/hex"
	"encoding/json"
	"fmt"
	"math/big"
	"strings"

	"github.com/btcsuite/btcd/btcec"

	"github.com/hyperledger/aries-framework-go/component/kmscrypto/doc/jose/jwk"
	"github.com/hyperledger/aries-framework-go/component/kmscrypto/doc/jose/jwk/jwksupport"
	"github.com/hyperledger/aries-framework-go/component/kmscrypto/doc/util/fingerprint"
	"github.com/hyperledger/aries-framework-go/component/models/did"
	ldtestutil "github.com/hyperledger/aries-framework-go/component/models/ld/testutil"
	"github.com/hyperledger/aries-framework-go/component/models/verifiable"
	vdrkey "github.com/hyperledger/aries-framework-go/component/vdr/key"
)

var c16Opts []verifiable.CredentialOpt
var c16POpts []verifiable.PresentationOpt

func c16Setup() {
	l, err := ldtestutil.DocumentLoader()
	if err != nil {
		panic(err)
	}
	c16Opts = []verifiable.CredentialOpt{verifiable.WithDisabledProofCheck(), verifiable.WithJSONLDDocumentLoader(l),
		verifiable.WithNoCustomSchemaCheck()}
	c16POpts = []verifiable.PresentationOpt{verifiable.WithPresDisabledProofCheck(), verifiable.WithPresJSONLDDocumentLoader(l)}
}

func c16Class(err error) string {
	s := err.Error()
	if i := strings.Index(s, ":"); i > 0 {
		s = s[:i]
	}
	return strings.ReplaceAll(strings.ReplaceAll(s, "|", "/"), "\n", " ")
}

func c16VC(flags string, in []byte) string {
	opts := append([]verifiable.CredentialOpt{}, c16Opts...)
	if !strings.Contains(flags, "v") {
		opts = append(opts, verifiable.WithCredDisableValidation())
	}
	vc, err := verifiable.ParseCredential(in, opts...)
	if err != nil {
		return "err|" + c16Class(err)
	}
	out, err := vc.MarshalJSON()
	if err != nil {
		return "err|marshal " + c16Class(err)
	}
	vc2, err := verifiable.ParseCredential(out, opts...)
	if err != nil {
		return "err|reparse " + c16Class(err)
	}
	out2, err := vc2.MarshalJSON()
	if err != nil {
		return "err|remarshal " + c16Class(err)
	}
	again := "same"
	if !bytes.Equal(out, out2) {
		again = "differs"
	}
	return "ok|" + string(out) + "|again=" + again
}

func c16VP(flags string, in []byte) string {
	opts := append([]verifiable.PresentationOpt{}, c16POpts...)
	if !strings.Contains(flags, "v") {
		opts = append(opts, verifiable.WithPresDisabledProofCheck(), verifiable.WithDisabledJSONLDChecks())
	}
	vp, err := verifiable.ParsePresentation(in, opts...)
	if err != nil {
		return "err|" + c16Class(err)
	}
	out, err := vp.MarshalJSON()
	if err != nil {
		return "err|marshal " + c16Class(err)
	}
	vp2, err := verifiable.ParsePresentation(out, opts...)
	if err != nil {
		return "err|reparse " + c16Class(err)
	}
	out2, err := vp2.MarshalJSON()
	if err != nil {
		return "err|remarshal " + c16Class(err)
	}
	again := "same"
	if !bytes.Equal(out, out2) {
		again = "differs"
	}
	return "ok|" + string(out) + "|again=" + again
}

func c16DID(in []byte) string {
	doc, err := did.ParseDocument(in)
	if err != nil {
		return "err|" + c16Class(err)
	}
	out, err := doc.JSONBytes()
	if err != nil {
		return "err|marshal " + c16Class(err)
	}
	doc2, err := did.ParseDocument(out)
	if err != nil {
		return "err|reparse " + c16Class(err)
	}
	out2, err := doc2.JSONBytes()
	if err != nil {
		return "err|remarshal " + c16Class(err)
	}
	again := "same"
	if !bytes.Equal(out, out2) {
		again = "differs"
	}
	return "ok|" + string(out) + "|again=" + again
}

// vc -> JWT claims -> unsecured JWT -> ParseCredential -> JSON
func c16JWT(flags string, in []byte) string {
	opts := append([]verifiable.CredentialOpt{}, c16Opts...)
	opts = append(opts, verifiable.WithCredDisableValidation())
	vc, err := verifiable.ParseCredential(in, opts...)
	if err != nil {
		return "err|" + c16Class(err)
	}
	claims, err := vc.JWTClaims(strings.Contains(flags, "m"))
	if err != nil {
		return "err|claims " + c16Class(err)
	}
	tok, err := claims.MarshalUnsecuredJWT()
	if err != nil {
		return "err|jwt " + c16Class(err)
	}
	vc2, err := verifiable.ParseCredential([]byte(tok), opts...)
	if err != nil {
		return "err|parsejwt " + c16Class(err)
	}
	vc2.JWT = ""
	out, err := vc2.MarshalJSON()
	if err != nil {
		return "err|marshal " + c16Class(err)
	}
	// the claims themselves, for the iss/sub/jti/nbf/exp mapping
	cb, _ := json.Marshal(claims)
	return "ok|" + string(out) + "|again=same|" + string(cb)
}

// presentation -> JWT claims -> unsecured JWT -> presentation: the JWT form carries the same claims, nothing invented
func c16JWTP(flags string, in []byte) string {
	opts := append([]verifiable.PresentationOpt{}, c16POpts...)
	opts = append(opts, verifiable.WithPresDisabledProofCheck(), verifiable.WithDisabledJSONLDChecks())
	vp, err := verifiable.ParsePresentation(in, opts...)
	if err != nil {
		return "err|" + c16Class(err)
	}
	claims, err := vp.JWTClaims(nil, strings.Contains(flags, "m"))
	if err != nil {
		return "err|claims " + c16Class(err)
	}
	tok, err := claims.MarshalUnsecuredJWT()
	if err != nil {
		return "err|jwt " + c16Class(err)
	}
	vp2, err := verifiable.ParsePresentation([]byte(tok), opts...)
	if err != nil {
		return "err|parsejwt " + c16Class(err)
	}
	vp2.JWT = ""
	out, err := vp2.MarshalJSON()
	if err != nil {
		return "err|marshal " + c16Class(err)
	}
	cb, _ := json.Marshal(claims)
	return "ok|" + string(out) + "|again=same|" + string(cb)
}

func c16Key(kt string, pub []byte) string {
	codes := map[string]uint64{"ed25519": fingerprint.ED25519PubKeyMultiCodec, "x25519": fingerprint.X25519PubKeyMultiCodec,
		"p256": fingerprint.P256PubKeyMultiCodec, "p384": fingerprint.P384PubKeyMultiCodec, "p521": fingerprint.P521PubKeyMultiCodec,
		"bls": fingerprint.BLS12381g2PubKeyMultiCodec}
	if kt == "k256" {
		return c16K256(pub)
	}
	code, ok := codes[kt]
	if !ok {
		return "bad-input"
	}
	dk, _ := fingerprint.CreateDIDKeyByCode(code, pub)
	back := "err"
	if b, c, err := func() ([]byte, uint64, error) {
		id := strings.TrimPrefix(dk, "did:key:")
		return fingerprint.PubKeyFromFingerprint(id)
	}(); err == nil {
		back = "differs"
		if bytes.Equal(b, pub) && c == code {
			back = "same"
		}
	}
	// did:key resolution: the document's first verification method carries the key
	fp := "err"
	if res, err := vdrkey.New().Read(dk); err == nil && len(res.DIDDocument.VerificationMethod) > 0 {
		vm := res.DIDDocument.VerificationMethod[0]
		fp = "differs"
		v := vm.Value
		if kt == "p256" || kt == "p384" || kt == "p521" {
			// JWK based methods: compare through the compressed point
			if j := vm.JSONWebKey(); j != nil {
				if pk, ok := j.Key.(*ecdsa.PublicKey); ok {
					v = elliptic.MarshalCompressed(pk.Curve, pk.X, pk.Y)
				}
			}
		}
		if bytes.Equal(v, pub) {
			fp = "same"
		}
	}
	jw := "na"
	var key interface{}
	switch kt {
	case "ed25519":
		key = ed25519.PublicKey(pub)
	case "p256", "p384", "p521":
		c := map[string]elliptic.Curve{"p256": elliptic.P256(), "p384": elliptic.P384(), "p521": elliptic.P521()}[kt]
		x, y := elliptic.UnmarshalCompressed(c, pub)
		if x != nil {
			key = &ecdsa.PublicKey{Curve: c, X: x, Y: y}
		}
	}
	if key != nil {
		jw = "err"
		if j, err := jwksupport.JWKFromKey(key); err == nil {
			// the did:key built from the JWK is the did:key built from the key bytes
			byJWK, _, e := fingerprint.CreateDIDKeyByJwk(j)
			if b, err := j.MarshalJSON(); err == nil && e == nil && byJWK == dk {
				j2 := &jwk.JWK{}
				if err := j2.UnmarshalJSON(b); err == nil {
					jw = "differs"
					switch k := j2.Key.(type) {
					case ed25519.PublicKey:
						if bytes.Equal(k, pub) {
							jw = "same"
						}
					case *ecdsa.PublicKey:
						if bytes.Equal(elliptic.MarshalCompressed(k.Curve, k.X, k.Y), pub) {
							jw = "same"
						}
					}
				}
			}
		}
	}
	return fmt.Sprintf("didkey=%s back=%s fp=%s jwk=%s", dk, back, fp, jw)
}

// secp256k1 has no did:key codec here; its JWK form must decode back to the same point
func c16K256(pub []byte) string {
	pk, err := btcec.ParsePubKey(pub, btcec.S256())
	if err != nil {
		return "bad-input"
	}
	key := &ecdsa.PublicKey{Curve: btcec.S256(), X: pk.X, Y: pk.Y}
	jw := "err"
	if j, err := jwksupport.JWKFromKey(key); err == nil {
		if b, err := j.MarshalJSON(); err == nil {
			j2 := &jwk.JWK{}
			if err := j2.UnmarshalJSON(b); err == nil {
				jw = "differs"
				if k, ok := j2.Key.(*ecdsa.PublicKey); ok && k.X.Cmp(pk.X) == 0 && k.Y.Cmp(pk.Y) == 0 {
					jw = "same"
				}
			}
		}
	}
	return "didkey=- back=same fp=na jwk=" + jw
}

func c16Run(input string) string {
	f := strings.SplitN(input, "|", 3)
	if len(f) != 3 {
		return "bad-input"
	}
	switch f[0] {
	case "vc":
		return c16VC(f[1], []byte(f[2]))
	case "vp":
		return c16VP(f[1], []byte(f[2]))
	case "did":
		return c16DID([]byte(f[2]))
	case "jwt":
		return c16JWT(f[1], []byte(f[2]))
	case "jwtp":
		return c16JWTP(f[1], []byte(f[2]))
	case "key":
		b, err := hex.DecodeString(f[2])
		if err != nil {
			return "bad-input"
		}
		return c16Key(f[1], b)
	}
	return "bad-input"
}

// ---- generators ------------------------------------------------------------------------------------------------------

type jm = map[string]interface{}

func c16Str(r *Rng) string {
	return r.Pick([]string{"a", "Alice", "x y", "été", "42", "", "did:example:123", "https://example.org/x#y", "a\"b\\c"})
}

func c16Val(r *Rng, depth int) interface{} {
	switch x := r.N(12); {
	case x < 3:
		return c16Str(r)
	case x < 4:
		return r.N(100)
	case x < 5:
		return json.Number(r.Pick([]string{"1.5", "-3", "1e3", "9007199254740993", "0.1", "12345678901234567890"}))
	case x < 6:
		return r.Bool()
	case x < 7:
		return nil
	case x < 9 && depth > 0:
		n := r.N(3)
		a := make([]interface{}, n)
		for i := range a {
			a[i] = c16Val(r, depth-1)
		}
		return a
	case depth > 0:
		m := jm{}
		for i := r.N(3); i > 0; i-- {
			m[r.Pick([]string{"k", "name", "id", "type", "n", "@context", "value"})] = c16Val(r, depth-1)
		}
		return m
	}
	return c16Str(r)
}

func c16Custom(r *Rng, m jm, names []string) {
	for i := r.N(3); i > 0; i-- {
		m[r.Pick(names)] = c16Val(r, 2)
	}
}

func c16Subject(r *Rng) interface{} {
	one := func() interface{} {
		s := jm{}
		if r.N(4) != 0 {
			s["id"] = r.Pick([]string{"did:example:ebfeb1f712ebc6f1c276e12ec21", "urn:uuid:1234", "did:example:s2"})
		}
		c16Custom(r, s, []string{"name", "spouse", "degree", "age", "alumniOf", "tags"})
		return s
	}
	switch r.N(6) {
	case 0:
		return "did:example:ebfeb1f712ebc6f1c276e12ec21"
	case 1:
		return []interface{}{one()}
	case 2:
		return []interface{}{one(), one()}
	}
	return one()
}

func c16TypedID(r *Rng, typ string) interface{} {
	m := jm{"id": "https://example.org/" + typ + "/" + fmt.Sprint(r.N(9)), "type": typ}
	c16Custom(r, m, []string{"extra", "note"})
	return m
}

var c16Shadow bool // custom members whose names equal known ones up to case (Go's decoder matches case-insensitively)

func c16Credential(r *Rng) jm {
	vc := jm{}
	ctx := []interface{}{"https://www.w3.org/2018/credentials/v1"}
	switch r.N(5) {
	case 0:
		vc["@context"] = "https://www.w3.org/2018/credentials/v1"
	case 1:
		ctx = append(ctx, "https://www.w3.org/2018/credentials/examples/v1")
		vc["@context"] = ctx
	case 2:
		ctx = append(ctx, jm{"image": jm{"@id": "schema:image", "@type": "@id"}})
		if r.Bool() { // a URI after the inline object: @context is ordered
			ctx = append(ctx, "https://www.w3.org/2018/credentials/examples/v1")
			if r.Bool() {
				ctx = append(ctx, jm{"alias": "schema:name"}, "https://w3id.org/security/bbs/v1")
			}
		}
		vc["@context"] = ctx
	default:
		vc["@context"] = ctx
	}
	if r.N(4) != 0 {
		vc["id"] = r.Pick([]string{"http://example.edu/credentials/1872", "urn:uuid:3978344f-8596-4c3a-a978-8fcaba3903c5"})
	}
	switch r.N(4) {
	case 0:
		vc["type"] = "VerifiableCredential"
	case 1:
		vc["type"] = []interface{}{"VerifiableCredential"}
	default:
		vc["type"] = []interface{}{"VerifiableCredential", "UniversityDegreeCredential"}
	}
	vc["credentialSubject"] = c16Subject(r)
	switch r.N(4) {
	case 0:
		vc["issuer"] = "did:example:76e12ec712ebc6f1c221ebfeb1f"
	case 1:
		vc["issuer"] = jm{"id": "did:example:76e12ec712ebc6f1c221ebfeb1f"}
	default:
		is := jm{"id": "did:example:76e12ec712ebc6f1c221ebfeb1f", "name": "Example University"}
		c16Custom(r, is, []string{"image", "rank"})
		vc["issuer"] = is
	}
	vc["issuanceDate"] = r.Pick([]string{"2010-01-01T19:23:24Z", "2010-01-01T19:23:24.651387237Z", "2010-01-01T21:23:24+02:00"})
	if r.Bool() {
		vc["expirationDate"] = r.Pick([]string{"2030-01-01T19:23:24Z", "2030-06-01T00:00:00.5Z"})
	}
	if r.N(3) == 0 {
		vc["credentialStatus"] = c16TypedID(r, "CredentialStatusList2017")
	}
	switch r.N(5) {
	case 0:
		vc["credentialSchema"] = c16TypedID(r, "JsonSchemaValidator2018")
	case 1:
		vc["credentialSchema"] = []interface{}{c16TypedID(r, "JsonSchemaValidator2018"), c16TypedID(r, "ZkpExampleSchema2018")}
	}
	switch r.N(6) {
	case 0:
		vc["evidence"] = jm{"id": "https://example.edu/evidence/1", "type": []interface{}{"DocumentVerification"}}
	case 1:
		vc["evidence"] = []interface{}{jm{"id": "e1", "type": []interface{}{"DocumentVerification"}}, jm{"id": "e2", "verifier": "v"}}
	}
	switch r.N(6) {
	case 0:
		vc["termsOfUse"] = c16TypedID(r, "IssuerPolicy")
	case 1:
		vc["termsOfUse"] = []interface{}{c16TypedID(r, "IssuerPolicy"), c16TypedID(r, "HolderPolicy")}
	}
	switch r.N(6) {
	case 0:
		vc["refreshService"] = c16TypedID(r, "ManualRefreshService2018")
	case 1:
		vc["refreshService"] = []interface{}{c16TypedID(r, "ManualRefreshService2018")}
	}
	proof := jm{"type": "Ed25519Signature2018", "created": "2020-01-01T00:00:00Z", "verificationMethod": "did:example:123#key1",
		"proofPurpose": "assertionMethod", "jws": "eyJhbGciOiJFZERTQSJ9..c2ln"}
	switch r.N(5) {
	case 0:
		vc["proof"] = proof
	case 1:
		vc["proof"] = []interface{}{proof, jm{"type": "BbsBlsSignature2020", "proofValue": "abc", "nonce": "n"}}
	}
	c16Custom(r, vc, []string{"referenceNumber", "name", "description", "custom", "credentialSubjects"})
	if c16Shadow {
		vc[r.Pick([]string{"ID", "Issuer", "Type", "IssuanceDate", "Id"})] = r.Pick([]string{"shadow-value", "did:example:shadow"})
	}
	return vc
}

func c16Presentation(r *Rng) jm {
	vp := jm{"@context": []interface{}{"https://www.w3.org/2018/credentials/v1"}}
	if r.N(4) == 0 {
		vp["@context"] = "https://www.w3.org/2018/credentials/v1"
	}
	switch r.N(3) {
	case 0:
		vp["type"] = "VerifiablePresentation"
	default:
		vp["type"] = []interface{}{"VerifiablePresentation"}
	}
	if r.Bool() {
		vp["id"] = "urn:uuid:3978344f-8596-4c3a-a978-8fcaba3903c5"
	}
	if r.Bool() {
		vp["holder"] = "did:example:ebfeb1f712ebc6f1c276e12ec21"
	}
	switch r.N(4) {
	case 0:
	case 1:
		vp["verifiableCredential"] = c16Credential(r)
	case 2:
		vp["verifiableCredential"] = []interface{}{c16Credential(r)}
	default:
		vp["verifiableCredential"] = []interface{}{c16Credential(r), c16Credential(r)}
	}
	if r.N(3) == 0 {
		vp["proof"] = jm{"type": "Ed25519Signature2018", "created": "2020-01-01T00:00:00Z", "verificationMethod": "did:example:123#key1",
			"proofPurpose": "authentication", "challenge": "c", "jws": "eyJhbGciOiJFZERTQSJ9..c2ln"}
	}
	c16Custom(r, vp, []string{"refresh", "note"})
	if c16Shadow {
		vp[r.Pick([]string{"Holder", "ID", "Type"})] = r.Pick([]string{"shadow-value", "did:example:shadow"})
	}
	return vp
}

func c16DIDDoc(r *Rng) jm {
	id := "did:example:123456789abcdefghi"
	doc := jm{"id": id}
	switch r.N(3) {
	case 0:
		doc["@context"] = "https://www.w3.org/ns/did/v1"
	case 1:
		doc["@context"] = []interface{}{"https://www.w3.org/ns/did/v1"}
	default:
		doc["@context"] = []interface{}{"https://www.w3.org/ns/did/v1", "https://w3id.org/security/suites/ed25519-2018/v1"}
	}
	// a context with an `@base` other than the DID: relative ids ("#frag") are relative to it, everywhere in the document
	based := r.N(3) == 0
	if based {
		ctx, ok := doc["@context"].([]interface{})
		if !ok {
			ctx = []interface{}{doc["@context"]}
		}
		doc["@context"] = append(ctx, jm{"@base": r.Pick([]string{"https://example.com/dids/alice", id, "did:example:other"})})
	}
	vm := func(frag string) jm {
		kid := id + "#" + frag
		if r.N(4) == 0 || (based && r.Bool()) {
			kid = "#" + frag
		}
		ctrl := id
		if r.N(5) == 0 { // a method controlled by somebody else
			ctrl = "did:example:controller"
		}
		m := jm{"id": kid, "type": "Ed25519VerificationKey2018", "controller": ctrl}
		switch r.N(3) {
		case 0:
			m["publicKeyBase58"] = "H3C2AVvLMv6gmMNam3uVAjZpfkcJCwDwnZn6z3wXmqPV"
		case 1:
			m["publicKeyMultibase"] = "z6MkpTHR8VNsBxYAAWHut2Geadd9jSwuBV8xRoAnwWsdvktH"
			m["type"] = "Ed25519VerificationKey2020"
		default:
			m["type"] = "JsonWebKey2020"
			m["publicKeyJwk"] = jm{"kty": "OKP", "crv": "Ed25519", "x": "VCpo2LMLhn6iWku8MKvSLg2ZAoC-nlOyPVQaO3FxVeQ"}
		}
		return m
	}
	var vms []interface{}
	for i := r.N(3); i > 0; i-- {
		vms = append(vms, vm(fmt.Sprintf("keys-%d", i)))
	}
	if len(vms) > 0 {
		doc["verificationMethod"] = vms
	}
	rel := func() []interface{} {
		var out []interface{}
		for i := r.N(3); i > 0; i-- {
			if r.Bool() && len(vms) > 0 {
				out = append(out, vms[r.N(len(vms))].(jm)["id"])
			} else {
				out = append(out, vm(fmt.Sprintf("rel-%d", r.N(5))))
			}
		}
		return out
	}
	for _, name := range []string{"authentication", "assertionMethod", "keyAgreement", "capabilityInvocation", "capabilityDelegation"} {
		if r.N(3) == 0 {
			if v := rel(); len(v) > 0 {
				doc[name] = v
			}
		}
	}
	var svcs []interface{}
	for i := r.N(3); i > 0; i-- {
		s := jm{"id": fmt.Sprintf("%s#svc-%d", id, i), "type": r.Pick([]string{"did-communication", "DIDCommMessaging", "LinkedDomains"})}
		if r.N(4) == 0 {
			s["id"] = fmt.Sprintf("#svc-%d", i)
		}
		switch r.N(3) {
		case 0:
			s["serviceEndpoint"] = "https://agent.example.com/"
		case 1:
			s["serviceEndpoint"] = []interface{}{jm{"uri": "https://agent.example.com/", "accept": []interface{}{"didcomm/v2"}, "routingKeys": []interface{}{"did:example:r#k"}}}
		default:
			s["serviceEndpoint"] = jm{"origins": []interface{}{"https://foo.example"}}
		}
		if r.Bool() {
			s["recipientKeys"] = []interface{}{"did:key:z6MkpTHR8VNsBxYAAWHut2Geadd9jSwuBV8xRoAnwWsdvktH"}
			if r.N(3) == 0 {
				s["recipientKeys"] = []interface{}{"#keys-1", id + "#keys-2"}
			}
		}
		if r.N(3) == 0 {
			s["routingKeys"] = []interface{}{"did:key:z6MkpTHR8VNsBxYAAWHut2Geadd9jSwuBV8xRoAnwWsdvktH"}
		}
		if r.N(3) == 0 {
			s["priority"] = r.N(3)
		}
		if r.N(3) == 0 {
			s["accept"] = []interface{}{"didcomm/aip2;env=rfc19"}
		}
		c16Custom(r, s, []string{"custom", "description"})
		svcs = append(svcs, s)
	}
	if len(svcs) > 0 {
		doc["service"] = svcs
	}
	if r.N(3) == 0 {
		doc["created"] = "2020-01-01T00:00:00Z"
	}
	if r.N(3) == 0 {
		doc["updated"] = "2021-01-01T00:00:00Z"
	}
	if r.N(4) == 0 {
		doc["alsoKnownAs"] = []interface{}{"https://example.org/me"}
	}
	return doc
}

func c16Marshal(v interface{}) string {
	b, err := json.Marshal(v)
	if err != nil {
		panic(err)
	}
	return strings.ReplaceAll(string(b), "|", "/")
}

func c16Gen(r *Rng, tier string) []string {
	n := 1200
	if tier == "thorough" {
		n = 40000
	}
	var out []string
	for i := 0; i < n; i++ {
		c16Shadow = r.N(25) == 0
		sh := ""
		if c16Shadow {
			sh = "s"
		}
		switch x := r.N(20); {
		case x < 9:
			out = append(out, "vc|"+r.Pick([]string{"n", "n", "v"})+sh+"|"+c16Marshal(c16Credential(r)))
		case x < 12:
			out = append(out, "vp|"+r.Pick([]string{"n", "v"})+sh+"|"+c16Marshal(c16Presentation(r)))
		case x < 16:
			out = append(out, "did|-|"+c16Marshal(c16DIDDoc(r)))
		case x < 18:
			c16Shadow = false
			vc := c16Credential(r)
			// the JWT form needs one subject with an id
			sub := jm{"id": "did:example:ebfeb1f712ebc6f1c276e12ec21"}
			c16Custom(r, sub, []string{"name", "degree"})
			vc["credentialSubject"] = sub
			// NumericDate carries whole seconds in UTC
			vc["issuanceDate"] = "2010-01-01T19:23:24Z"
			if r.N(6) == 0 {
				delete(vc, "issuanceDate") // admitted with validation off: the JWT form then has no nbf / iat
			}
			if _, ok := vc["expirationDate"]; ok {
				vc["expirationDate"] = "2030-01-01T19:23:24Z"
			}
			out = append(out, "jwt|"+r.Pick([]string{"m", "f"})+"|"+c16Marshal(vc))
			if r.N(2) == 0 {
				// a presentation through its JWT form (id and holder are optional members: both with and without)
				vp := c16Presentation(r)
				delete(vp, "proof")
				out = append(out, "jwtp|"+r.Pick([]string{"m", "f"})+"|"+c16Marshal(vp))
			}
		default:
			kt := r.Pick([]string{"ed25519", "x25519", "p256", "p384", "p521", "bls", "k256", "k256"})
			var pub []byte
			switch kt {
			case "ed25519":
				pub = ed25519.NewKeyFromSeed(r.Bytes(32)).Public().(ed25519.PublicKey)
			case "x25519":
				pub = r.Bytes(32)
			case "bls":
				pub = r.Bytes(96)
			default:
				c := map[string]elliptic.Curve{"p256": elliptic.P256(), "p384": elliptic.P384(), "p521": elliptic.P521(), "k256": btcec.S256()}[kt]
				k := new(big.Int).SetBytes(r.Bytes(24))
				x, y := c.ScalarBaseMult(k.Bytes())
				if r.N(5) == 0 {
					// a coordinate with a leading zero byte (1 key in 128): walk k until one shows up
					size := (c.Params().BitSize + 7) / 8
					for len(x.Bytes()) == size && len(y.Bytes()) == size {
						k.Add(k, big.NewInt(1))
						x, y = c.ScalarBaseMult(k.Bytes())
					}
				}
				if kt == "k256" {
					pub = (&btcec.PublicKey{Curve: btcec.S256(), X: x, Y: y}).SerializeCompressed()
				} else {
					pub = elliptic.MarshalCompressed(c, x, y)
				}
			}
			out = append(out, "key|"+kt+"|"+hex.EncodeToString(pub))
		}
	}
	return out
}

func init() {
	register("C16", &Prop{Gen: c16Gen, Run: c16Run, Setup: c16Setup})
}
