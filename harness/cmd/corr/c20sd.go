package main

// C20, SD-JWT credentials under limit_disclosure: the credential the verifier gets back for the descriptor shows exactly
// the requested fields, with their issued values.
//
// input  := "sd" "|" spec "|" requested
//   spec      := part (";" part)*      part := OBJ ":" name "=" value ("," name "=" value)*    OBJ: o1 | o2 (an object of
//                the credential subject) | t (members of the subject itself)
//   requested := path ("," path)*      path := OBJ "." name | name
// output := "ok shown=" path "=" value ("," ..)*  (sorted; what the display credential of the matched credential shows
//           besides the subject id) | nocreds | err <stage>

import (
	"crypto/ed25519"
	"crypto/rand"
	"encoding/json"
	"errors"
	"fmt"
	"sort"
	"strings"
	"time"

	"github.com/hyperledger/aries-framework-go/component/kmscrypto/doc/util/fingerprint"
	"github.com/hyperledger/aries-framework-go/component/models/presexch"
	sigverifier "github.com/hyperledger/aries-framework-go/component/models/signature/verifier"
	utiltime "github.com/hyperledger/aries-framework-go/component/models/util/time"
	"github.com/hyperledger/aries-framework-go/component/models/verifiable"
)

type c20EdSigner struct{ priv ed25519.PrivateKey }

func (s c20EdSigner) Sign(d []byte) ([]byte, error) { return ed25519.Sign(s.priv, d), nil }
func (s c20EdSigner) Alg() string                    { return "EdDSA" }

var c20SDKey struct {
	pub  ed25519.PublicKey
	priv ed25519.PrivateKey
}

func c20RunSD(spec, req string) string {
	if c20SDKey.pub == nil {
		c20SDKey.pub, c20SDKey.priv, _ = ed25519.GenerateKey(rand.Reader)
	}
	pub, priv := c20SDKey.pub, c20SDKey.priv
	issuer, vm := fingerprint.CreateDIDKeyByCode(fingerprint.ED25519PubKeyMultiCodec, pub)
	sub := map[string]interface{}{"id": "did:example:holder"}
	for _, o := range strings.Split(spec, ";") {
		p := strings.SplitN(o, ":", 2)
		if len(p) != 2 {
			return "bad-input"
		}
		m := map[string]interface{}{}
		for _, kv := range strings.Split(p[1], ",") {
			q := strings.SplitN(kv, "=", 2)
			if len(q) != 2 {
				return "bad-input"
			}
			m[q[0]] = q[1]
		}
		if p[0] == "t" {
			for k, v := range m {
				sub[k] = v
			}
		} else {
			sub[p[0]] = m
		}
	}
	vc := &verifiable.Credential{Context: []string{verifiable.ContextURI}, Types: []string{verifiable.VCType}, ID: "urn:cred:sd1",
		Subject: sub, Issuer: verifiable.Issuer{ID: issuer}, Issued: utiltime.NewTime(time.Date(2020, 1, 1, 0, 0, 0, 0, time.UTC))}
	comb, err := vc.MakeSDJWT(verifiable.GetJWTSigner(c20EdSigner{priv}, "EdDSA"), vm)
	if err != nil {
		return "err make-sdjwt"
	}
	fetch := func(_, _ string) (*sigverifier.PublicKey, error) {
		return &sigverifier.PublicKey{Type: "Ed25519VerificationKey2018", Value: pub}, nil
	}
	sd, err := verifiable.ParseCredential([]byte(comb), verifiable.WithPublicKeyFetcher(fetch), verifiable.WithJSONLDDocumentLoader(c20Loader))
	if err != nil {
		return "err parse-sdjwt"
	}
	required := presexch.Required
	var fields []*presexch.Field
	for _, p := range strings.Split(req, ",") {
		fields = append(fields, &presexch.Field{Path: []string{"$.credentialSubject." + p}})
	}
	pd := &presexch.PresentationDefinition{ID: "def", InputDescriptors: []*presexch.InputDescriptor{{ID: "d1",
		Schema:      []*presexch.Schema{{URI: "https://www.w3.org/2018/credentials#VerifiableCredential"}},
		Constraints: &presexch.Constraints{LimitDisclosure: &required, Fields: fields}}}}
	vp, err := pd.CreateVP([]*verifiable.Credential{sd}, c20Loader, verifiable.WithJSONLDDocumentLoader(c20Loader))
	if err != nil {
		if errors.Is(err, presexch.ErrNoCredentials) {
			return "nocreds"
		}
		return "err createvp"
	}
	b, err := json.Marshal(vp)
	if err != nil {
		return "err marshal-vp"
	}
	rvp, err := verifiable.ParsePresentation(b, verifiable.WithPresDisabledProofCheck(), verifiable.WithPresJSONLDDocumentLoader(c20Loader))
	if err != nil {
		return "err parse-vp"
	}
	matched, err := pd.Match([]*verifiable.Presentation{rvp}, c20Loader,
		presexch.WithCredentialOptions(verifiable.WithJSONLDDocumentLoader(c20Loader), verifiable.WithDisabledProofCheck()))
	mv, found := matched["d1"]
	if err != nil || !found || mv.Credential == nil {
		return "err match"
	}
	d, err := mv.Credential.CreateDisplayCredential(verifiable.DisplayAllDisclosures())
	if err != nil {
		return "err display"
	}
	sb, _ := json.Marshal(d.Subject)
	var subs []map[string]interface{}
	if json.Unmarshal(sb, &subs) != nil {
		var one map[string]interface{}
		if json.Unmarshal(sb, &one) != nil {
			return "err subject"
		}
		subs = []map[string]interface{}{one}
	}
	if len(subs) != 1 {
		return "err subject"
	}
	var shown []string
	for k, v := range subs[0] {
		if k == "id" {
			continue
		}
		if m, ok := v.(map[string]interface{}); ok {
			for kk, vv := range m {
				shown = append(shown, fmt.Sprintf("%s.%s=%v", k, kk, vv))
			}
			if len(m) == 0 {
				shown = append(shown, k+".{}")
			}
		} else {
			shown = append(shown, fmt.Sprintf("%s=%v", k, v))
		}
	}
	sort.Strings(shown)
	return "ok shown=" + strings.Join(shown, ",")
}

func c20SDGen(r *Rng, n int) []string {
	names := []string{"country", "city", "zip"}
	var out []string
	for i := 0; i < n; i++ {
		var parts, all []string
		for _, o := range []string{"o1", "o2"} {
			var kv []string
			for _, nm := range names {
				if r.N(3) != 0 {
					kv = append(kv, nm+"="+r.Pick([]string{"US", "CA", "X", "Y9"}))
					all = append(all, o+"."+nm)
				}
			}
			if len(kv) > 0 {
				parts = append(parts, o+":"+strings.Join(kv, ","))
			}
		}
		var kv []string
		for _, nm := range []string{"name", "nick", "country"} {
			if r.N(2) == 0 {
				kv = append(kv, nm+"="+r.Pick([]string{"N", "Bob", "US"}))
				all = append(all, nm)
			}
		}
		if len(kv) > 0 {
			parts = append(parts, "t:"+strings.Join(kv, ","))
		}
		if len(parts) == 0 {
			parts, all = []string{"o1:country=US"}, []string{"o1.country"}
		}
		var req []string
		for _, p := range all {
			if r.N(3) == 0 {
				req = append(req, p)
			}
		}
		if r.N(8) == 0 { // a field the credential does not have
			req = append(req, r.Pick([]string{"o1.street", "o3.country", "title"}))
		}
		if len(req) == 0 {
			req = []string{all[r.N(len(all))]}
		}
		out = append(out, "sd|"+strings.Join(parts, ";")+"|"+strings.Join(req, ","))
	}
	return out
}
