package main

// C10: connections between real agents (aries.Framework instances) on an in-process bus.
//
// input  := CFG "|" OP (";" OP)*
//   CFG := keytype,keyagreement,profile          keytype: ed | p256 | bbs..(ed only here) ; keyagreement: x25519 | p256 ;
//          profile: v1 (default media types) | aip2 (didcomm/aip2;env=rfc587) | v2 (didcomm/v2, out-of-band v2 not driven)
//   OP  := ex A B            A creates a didexchange invitation, B accepts it, run to completion (agents a b c)
//        | ex2 A B A2 B2     two exchanges started before either is finished (their messages interleave on the bus)
//        | msg A B           A sends a basic message to B over their (first) connection
//        | forge C A B       C sends A a didexchange request whose attached DID document has the id of B's DID (as A
//                            knows it) but C's key and endpoint
//        | anonfrom C A B    C sends A an anoncrypt basic message whose plaintext "from"/"~thread" names B's DID
//        | resolve A B       what A resolves B's DID (of their connection) to
// output := one item per op joined by "|"
//   ex      : <state at A>/<state at B> mirror=<1|0>           (A.my==B.their && A.their==B.my)
//   msg     : delivered=<n> as=<my==B.my&&their==B.their: 1|0>
//   forge   : sent ; anonfrom: delivered=<n> as=<conn of B 1|0|none>
//   resolve : ep=<agent name>

import (
	"encoding/base64"
	"encoding/json"
	"errors"
	"fmt"
	"strings"
	"sync"
	"sync/atomic"
	"time"

	"github.com/btcsuite/btcutil/base58"

	"github.com/hyperledger/aries-framework-go/component/kmscrypto/doc/util/fingerprint"
	arieslog "github.com/hyperledger/aries-framework-go/component/log"
	"github.com/hyperledger/aries-framework-go/component/models/did"
	"github.com/hyperledger/aries-framework-go/component/models/did/endpoint"
	"github.com/hyperledger/aries-framework-go/component/storageutil/mem"
	"github.com/hyperledger/aries-framework-go/pkg/client/didexchange"
	"github.com/hyperledger/aries-framework-go/pkg/didcomm/common/service"
	"github.com/hyperledger/aries-framework-go/pkg/didcomm/messaging/msghandler"
	didexsvc "github.com/hyperledger/aries-framework-go/pkg/didcomm/protocol/didexchange"
	"github.com/hyperledger/aries-framework-go/pkg/didcomm/transport"
	"github.com/hyperledger/aries-framework-go/pkg/framework/aries"
	"github.com/hyperledger/aries-framework-go/pkg/framework/context"
	kmsapi "github.com/hyperledger/aries-framework-go/spi/kms"
	spilog "github.com/hyperledger/aries-framework-go/spi/log"
	spi "github.com/hyperledger/aries-framework-go/spi/storage"
)

type c10Bus struct {
	mu     sync.Mutex
	agents map[string]*c10Agent // by endpoint
}

type c10In struct {
	ep   string
	prov transport.Provider
}

func (t *c10In) Start(p transport.Provider) error { t.prov = p; return nil }
func (t *c10In) Stop() error                      { return nil }
func (t *c10In) Endpoint() string                 { return t.ep }

type c10Out struct{ bus *c10Bus }

func (t *c10Out) Start(transport.Provider) error { return nil }
func (t *c10Out) AcceptRecipient([]string) bool  { return false }
func (t *c10Out) Accept(u string) bool           { return strings.HasPrefix(u, "bus://") }
func (t *c10Out) Send(data []byte, des *service.Destination) (string, error) {
	uri, err := des.ServiceEndpoint.URI()
	if err != nil {
		return "", err
	}
	t.bus.mu.Lock()
	a := t.bus.agents[uri]
	t.bus.mu.Unlock()
	if a == nil {
		return "", errors.New("no agent at " + uri)
	}
	return "", a.deliver(data)
}

type c10Recv struct {
	my, their string
	content   string
}

// storage whose writes can be made slow (op `slow A`): the services of the agent then persist a state AFTER the peer's
// next message may already have arrived - unless they persist before they send.
type c10SlowProv struct {
	spi.Provider
	slow *int32
}

func (p *c10SlowProv) OpenStore(name string) (spi.Store, error) {
	st, err := p.Provider.OpenStore(name)
	if err != nil {
		return nil, err
	}
	return &c10SlowStore{st, p.slow}, nil
}

type c10SlowStore struct {
	spi.Store
	slow *int32
}

func (s *c10SlowStore) Put(k string, v []byte, tags ...spi.Tag) error {
	if atomic.LoadInt32(s.slow) != 0 {
		time.Sleep(40 * time.Millisecond)
	}
	return s.Store.Put(k, v, tags...)
}

func (s *c10SlowStore) Batch(ops []spi.Operation) error {
	if atomic.LoadInt32(s.slow) != 0 {
		time.Sleep(40 * time.Millisecond)
	}
	return s.Store.Batch(ops)
}

type c10Agent struct {
	slow   int32
	name   string
	fw     *aries.Aries
	ctx    *context.Provider
	in     *c10In
	client *didexchange.Client
	conns  map[string]string // peer agent name -> connection id (first)
	mu     sync.Mutex
	recv   []c10Recv
}

func (a *c10Agent) deliver(data []byte) error {
	env, err := a.in.prov.Packager().UnpackMessage(data)
	if err != nil {
		return err
	}
	return a.in.prov.InboundMessageHandler()(env)
}

// a message service that records who the framework says the message is from
type c10Svc struct{ a *c10Agent }

func (s *c10Svc) Name() string { return "verif-basic" }
func (s *c10Svc) Accept(msgType string, _ []string) bool {
	return msgType == "https://didcomm.org/basicmessage/1.0/message"
}
func (s *c10Svc) HandleInbound(msg service.DIDCommMsg, ctx service.DIDCommContext) (string, error) {
	var m struct {
		Content string `json:"content"`
	}
	_ = msg.Decode(&m)
	s.a.mu.Lock()
	s.a.recv = append(s.a.recv, c10Recv{ctx.MyDID(), ctx.TheirDID(), m.Content})
	s.a.mu.Unlock()
	return "", nil
}

func c10NewAgent(bus *c10Bus, name string, cfg []string) (*c10Agent, error) {
	a := &c10Agent{name: name, conns: map[string]string{}}
	a.in = &c10In{ep: "bus://" + name}
	reg := msghandler.NewRegistrar()
	opts := []aries.Option{aries.WithStoreProvider(&c10SlowProv{mem.NewProvider(), &a.slow}),
		aries.WithProtocolStateStoreProvider(&c10SlowProv{mem.NewProvider(), &a.slow}),
		aries.WithInboundTransport(a.in), aries.WithOutboundTransports(&c10Out{bus}), aries.WithMessageServiceProvider(reg)}
	switch cfg[0] {
	case "p256":
		opts = append(opts, aries.WithKeyType(kmsapi.ECDSAP256TypeIEEEP1363))
	default:
		opts = append(opts, aries.WithKeyType(kmsapi.ED25519Type))
	}
	switch cfg[1] {
	case "p256":
		opts = append(opts, aries.WithKeyAgreementType(kmsapi.NISTP256ECDHKWType))
	default:
		opts = append(opts, aries.WithKeyAgreementType(kmsapi.X25519ECDHKWType))
	}
	switch cfg[2] {
	case "aip2":
		opts = append(opts, aries.WithMediaTypeProfiles([]string{transport.MediaTypeAIP2RFC0587Profile}))
	case "v2":
		opts = append(opts, aries.WithMediaTypeProfiles([]string{transport.MediaTypeDIDCommV2Profile}))
	}
	fw, err := aries.New(opts...)
	if err != nil {
		return nil, err
	}
	a.fw = fw
	a.ctx, err = fw.Context()
	if err != nil {
		return nil, err
	}
	if err := reg.Register(&c10Svc{a}); err != nil {
		return nil, err
	}
	a.client, err = didexchange.New(a.ctx)
	if err != nil {
		return nil, err
	}
	actions := make(chan service.DIDCommAction, 16)
	if err := a.client.RegisterActionEvent(actions); err != nil {
		return nil, err
	}
	go service.AutoExecuteActionEvent(actions)
	bus.mu.Lock()
	bus.agents[a.in.ep] = a
	bus.mu.Unlock()
	return a, nil
}

func (a *c10Agent) waitState(connID, want string) string {
	deadline := time.Now().Add(4 * time.Second)
	last := "?"
	for time.Now().Before(deadline) {
		c, err := a.client.GetConnection(connID)
		if err == nil {
			last = c.State
			if c.State == want {
				return last
			}
		}
		time.Sleep(5 * time.Millisecond)
	}
	return last
}

// the connection id at the inviter for the thread of an invitation (it appears when the request arrives)
func (a *c10Agent) connByInvitation(invID string) string {
	deadline := time.Now().Add(4 * time.Second)
	for time.Now().Before(deadline) {
		conns, err := a.client.QueryConnections(&didexchange.QueryConnectionsParams{InvitationID: invID})
		if err == nil && len(conns) > 0 {
			return conns[0].ConnectionID
		}
		time.Sleep(5 * time.Millisecond)
	}
	return ""
}

type c10World struct {
	bus    *c10Bus
	agents map[string]*c10Agent
}

func (w *c10World) start(inviter, invitee *c10Agent) (invID, inviteeConn string, err error) {
	inv, err := inviter.client.CreateInvitation(inviter.name)
	if err != nil {
		return "", "", err
	}
	connID, err := invitee.client.HandleInvitation(inv)
	return inv.ID, connID, err
}

func (w *c10World) finish(inviter, invitee *c10Agent, invID, inviteeConn string) string {
	sB := invitee.waitState(inviteeConn, "completed")
	connA := inviter.connByInvitation(invID)
	sA := "none"
	mirror := "0"
	if connA != "" {
		sA = inviter.waitState(connA, "completed")
		ca, e1 := inviter.client.GetConnection(connA)
		cb, e2 := invitee.client.GetConnection(inviteeConn)
		if e1 == nil && e2 == nil && ca.MyDID == cb.TheirDID && ca.TheirDID == cb.MyDID && ca.MyDID != "" && ca.TheirDID != "" {
			mirror = "1"
		}
		if _, ok := inviter.conns[invitee.name]; !ok {
			inviter.conns[invitee.name] = connA
		}
	}
	if _, ok := invitee.conns[inviter.name]; !ok {
		invitee.conns[inviter.name] = inviteeConn
	}
	return fmt.Sprintf("%s/%s mirror=%s", sA, sB, mirror)
}

// which agent owns this endpoint / key
func (w *c10World) whoEndpoint(ep string) string {
	for n, a := range w.agents {
		if a.in.ep == ep {
			return n
		}
	}
	return "?"
}

func (w *c10World) resolve(a, b *c10Agent) string {
	connID := a.conns[b.name]
	c, err := a.client.GetConnection(connID)
	if err != nil {
		return "noconn"
	}
	res, err := a.ctx.VDRegistry().Resolve(c.TheirDID)
	if err != nil {
		return "unresolvable"
	}
	dest, err := service.CreateDestination(res.DIDDocument)
	if err != nil {
		return "nodest"
	}
	uri, _ := dest.ServiceEndpoint.URI()
	return fmt.Sprintf("ep=%s", w.whoEndpoint(uri))
}

func c10HoldsKey(a *c10Agent, didKeyOrKID string) bool {
	// a packed message for that key can be opened by the agent that holds it
	msg, err := a.ctx.Packager().PackMessage(&transport.Envelope{MediaTypeProfile: transport.MediaTypeRFC0019EncryptedEnvelope,
		Message: []byte(`{"@id":"probe","@type":"probe"}`), ToKeys: []string{didKeyOrKID}})
	if err != nil {
		msg, err = a.ctx.Packager().PackMessage(&transport.Envelope{MediaTypeProfile: transport.MediaTypeDIDCommV2Profile,
			Message: []byte(`{"id":"probe","type":"probe"}`), ToKeys: []string{didKeyOrKID}})
		if err != nil {
			return false
		}
	}
	_, err = a.ctx.Packager().UnpackMessage(msg)
	return err == nil
}

func c10Run(input string) string {
	if strings.HasPrefix(input, "rot,") {
		return c10RotRun(input)
	}
	parts := strings.SplitN(input, "|", 2)
	if len(parts) != 2 {
		return "bad-input"
	}
	cfg := strings.Split(parts[0], ",")
	if len(cfg) != 3 {
		return "bad-input"
	}
	w := &c10World{bus: &c10Bus{agents: map[string]*c10Agent{}}, agents: map[string]*c10Agent{}}
	defer func() {
		for _, a := range w.agents {
			a.fw.Close()
		}
	}()
	for _, n := range []string{"a", "b", "c"} {
		ag, err := c10NewAgent(w.bus, n, cfg)
		if err != nil {
			return "setup-error " + err.Error()
		}
		w.agents[n] = ag
	}
	var outs []string
	seq := 0
	for _, op := range strings.Split(parts[1], ";") {
		f := strings.Split(op, " ")
		seq++
		get := func(i int) *c10Agent {
			if i < len(f) {
				return w.agents[f[i]]
			}
			return nil
		}
		switch f[0] {
		case "ex":
			A, B := get(1), get(2)
			if A == nil || B == nil || A == B {
				return "bad-op " + op
			}
			inv, cb, err := w.start(A, B)
			if err != nil {
				outs = append(outs, "err")
				continue
			}
			outs = append(outs, w.finish(A, B, inv, cb))
		case "ex2":
			A, B, A2, B2 := get(1), get(2), get(3), get(4)
			if A == nil || B == nil || A2 == nil || B2 == nil || A == B || A2 == B2 {
				return "bad-op " + op
			}
			type started struct {
				inv, cb string
				err     error
			}
			var s1, s2 started
			var wg sync.WaitGroup
			wg.Add(2)
			go func() { defer wg.Done(); s1.inv, s1.cb, s1.err = w.start(A, B) }()
			go func() { defer wg.Done(); s2.inv, s2.cb, s2.err = w.start(A2, B2) }()
			wg.Wait()
			if s1.err != nil || s2.err != nil {
				outs = append(outs, "err")
				continue
			}
			outs = append(outs, w.finish(A, B, s1.inv, s1.cb)+" & "+w.finish(A2, B2, s2.inv, s2.cb))
		case "msg":
			A, B := get(1), get(2)
			if A == nil || B == nil {
				return "bad-op " + op
			}
			ca, err := A.client.GetConnection(A.conns[B.name])
			if err != nil {
				outs = append(outs, "noconn")
				continue
			}
			content := fmt.Sprintf("hello-%d", seq)
			B.mu.Lock()
			before := len(B.recv)
			B.mu.Unlock()
			m := c14Msg(map[string]interface{}{"@id": fmt.Sprintf("id-%d", seq),
				"@type": "https://didcomm.org/basicmessage/1.0/message", "content": content})
			if err := A.ctx.Messenger().Send(m, ca.MyDID, ca.TheirDID); err != nil {
				outs = append(outs, "senderr")
				continue
			}
			outs = append(outs, c10Delivered(B, before, content, A, w))
		case "resolve":
			A, B := get(1), get(2)
			if A == nil || B == nil {
				return "bad-op " + op
			}
			outs = append(outs, w.resolve(A, B))
		case "forge":
			C, A, B := get(1), get(2), get(3)
			if C == nil || A == nil || B == nil {
				return "bad-op " + op
			}
			outs = append(outs, c10Forge(w, C, A, B))
		case "anonfrom":
			C, A, B := get(1), get(2), get(3)
			if C == nil || A == nil || B == nil {
				return "bad-op " + op
			}
			outs = append(outs, c10AnonFrom(w, C, A, B, seq, false))
		case "authfrom":
			C, A, B := get(1), get(2), get(3)
			if C == nil || A == nil || B == nil {
				return "bad-op " + op
			}
			outs = append(outs, c10AnonFrom(w, C, A, B, seq, true))
		case "forge2":
			C, A, B := get(1), get(2), get(3)
			if C == nil || A == nil || B == nil {
				return "bad-op " + op
			}
			outs = append(outs, c10Forge2(w, C, A, B))
		case "slow", "fast":
			A := get(1)
			if A == nil {
				return "bad-op " + op
			}
			v := int32(0)
			if f[0] == "slow" {
				v = 1
			}
			atomic.StoreInt32(&A.slow, v)
			outs = append(outs, "ok")
		default:
			return "bad-op " + op
		}
	}
	return strings.Join(outs, "|")
}

// wait for the message; report under which connection B's handler saw it
func c10Delivered(B *c10Agent, before int, content string, from *c10Agent, w *c10World) string {
	deadline := time.Now().Add(2 * time.Second)
	for time.Now().Before(deadline) {
		B.mu.Lock()
		n := len(B.recv)
		var got *c10Recv
		for i := before; i < n; i++ {
			if B.recv[i].content == content {
				r := B.recv[i]
				got = &r
			}
		}
		B.mu.Unlock()
		if got != nil {
			as := "other"
			if cb, err := B.client.GetConnection(B.conns[from.name]); err == nil && cb.MyDID == got.my && cb.TheirDID == got.their {
				as = from.name
			} else if got.their == "" {
				as = "nobody"
			} else {
				for n, id := range B.conns {
					if c, err := B.client.GetConnection(id); err == nil && c.TheirDID == got.their {
						as = n
					}
				}
			}
			return "delivered as=" + as
		}
		time.Sleep(5 * time.Millisecond)
	}
	return "notdelivered"
}

// C sends A a didexchange request that attaches a DID document with the id of B's DID (as A knows it), C's keys and
// C's endpoint. Everything C uses is public knowledge (B's DID) or its own.
func c10Forge(w *c10World, C, A, B *c10Agent) string {
	ca, err := A.client.GetConnection(A.conns[B.name])
	if err != nil {
		return "noconn"
	}
	victimDID := ca.TheirDID
	// an invitation of A that C may use: A creates one for C (C is a legitimate stranger)
	inv, err := A.client.CreateInvitation("for-c")
	if err != nil {
		return "noinv"
	}
	// a DID document with the victim's id, C's own key and C's endpoint
	_, pub, err := C.ctx.KMS().CreateAndExportPubKeyBytes(kmsapi.ED25519Type)
	if err != nil {
		return "nokey"
	}
	fromKey, _ := fingerprint.CreateDIDKey(pub)
	forged := fmt.Sprintf(`{"@context":["https://www.w3.org/ns/did/v1"],"id":%q,"verificationMethod":[{"id":%q,"type":"Ed25519VerificationKey2018","controller":%q,"publicKeyBase58":%q}],"authentication":[%q],"service":[{"id":%q,"type":"did-communication","serviceEndpoint":%q,"recipientKeys":[%q],"priority":0}]}`,
		victimDID, victimDID+"#key-1", victimDID, base58.Encode(pub), victimDID+"#key-1", victimDID+"#svc", C.in.ep, fromKey)
	req := map[string]interface{}{
		"@id": "forged-1", "@type": didexsvc.RequestMsgType, "label": "c", "did": victimDID,
		"~thread":        map[string]interface{}{"thid": "forged-1", "pthid": inv.ID},
		"did_doc~attach": map[string]interface{}{"mime-type": "application/json", "data": map[string]interface{}{"base64": b64std([]byte(forged))}},
	}
	rb, _ := json.Marshal(req)
	// packed for A's invitation key, sent from one of C's keys
	var toKeys []string
	toKeys = append(toKeys, inv.RecipientKeys...)
	env := &transport.Envelope{MediaTypeProfile: C.ctx.MediaTypeProfiles()[0], Message: rb, ToKeys: toKeys}
	if fromKey != "" {
		env.FromKey = []byte(fromKey)
	}
	packed, err := C.ctx.Packager().PackMessage(env)
	if err != nil {
		// profiles whose envelopes need a key agreement key of the sender: the request goes out anoncrypted
		env.FromKey = nil
		packed, err = C.ctx.Packager().PackMessage(env)
	}
	if err != nil {
		return "nopack " + strings.SplitN(err.Error(), ":", 2)[0]
	}
	if err := A.deliver(packed); err != nil {
		return "refused"
	}
	time.Sleep(150 * time.Millisecond) // the request is processed asynchronously
	return "sent"
}

// auth = true: the message is AUTHcrypted with the key C uses on its own connection with A (A knows that key as C's);
// its plaintext still names B.
func c10AnonFrom(w *c10World, C, A, B *c10Agent, seq int, auth bool) string {
	ca, err := A.client.GetConnection(A.conns[B.name])
	if err != nil {
		return "noconn"
	}
	var fromKey []byte
	if auth {
		cc, err := C.client.GetConnection(C.conns[A.name])
		if err != nil {
			return "noconn"
		}
		mine, err := C.ctx.VDRegistry().Resolve(cc.MyDID)
		if err != nil {
			return "nokeys"
		}
		md, err := service.CreateDestination(mine.DIDDocument)
		if err != nil || len(md.RecipientKeys) == 0 {
			return "nodest"
		}
		fromKey = []byte(md.RecipientKeys[0])
	}
	content := fmt.Sprintf("spoof-%d", seq)
	msg := map[string]interface{}{"@id": fmt.Sprintf("sp-%d", seq), "@type": "https://didcomm.org/basicmessage/1.0/message",
		"content": content, "from": ca.TheirDID, "to": []string{ca.MyDID}}
	mb, _ := json.Marshal(msg)
	// A's keys for that connection are public (they are in A's DID document, which B and anybody B talks to may know)
	res, err := A.ctx.VDRegistry().Resolve(ca.MyDID)
	if err != nil {
		return "nokeys"
	}
	dest, err := service.CreateDestination(res.DIDDocument)
	if err != nil {
		return "nodest"
	}
	A.mu.Lock()
	before := len(A.recv)
	A.mu.Unlock()
	sent := false
	for _, mtp := range []string{transport.MediaTypeRFC0019EncryptedEnvelope, transport.LegacyDIDCommV1Profile, transport.MediaTypeDIDCommV2Profile} {
		packed, err := C.ctx.Packager().PackMessage(&transport.Envelope{MediaTypeProfile: mtp, Message: mb, ToKeys: dest.RecipientKeys,
			FromKey: fromKey})
		if err != nil {
			continue
		}
		if A.deliver(packed) == nil {
			sent = true
			break
		}
	}
	if !sent {
		if auth {
			return "not-as-" + B.name
		}
		return "refused"
	}
	r := c10Delivered(A, before, content, B, w)
	if auth && r != "delivered as="+B.name {
		// the contract is about ONE thing: the message is not attributed to B. To whom else (C, nobody, dropped) is the
		// framework's business and differs between the profiles.
		return "not-as-" + B.name
	}
	return r
}

// C sends A a didexchange request that attaches B's OWN document as A knows it (same id, same verification methods)
// with the service block replaced: C's endpoint, C's recipient key.
func c10Forge2(w *c10World, C, A, B *c10Agent) string {
	ca, err := A.client.GetConnection(A.conns[B.name])
	if err != nil {
		return "noconn"
	}
	res, err := A.ctx.VDRegistry().Resolve(ca.TheirDID)
	if err != nil {
		return "unresolvable"
	}
	raw, err := res.DIDDocument.JSONBytes()
	if err != nil {
		return "nodoc"
	}
	var doc map[string]interface{}
	if json.Unmarshal(raw, &doc) != nil {
		return "nodoc"
	}
	_, pub, err := C.ctx.KMS().CreateAndExportPubKeyBytes(kmsapi.ED25519Type)
	if err != nil {
		return "nokey"
	}
	fromKey, _ := fingerprint.CreateDIDKey(pub)
	svcs, _ := doc["service"].([]interface{})
	if len(svcs) == 0 {
		return "nosvc"
	}
	for _, x := range svcs {
		if m, ok := x.(map[string]interface{}); ok {
			m["serviceEndpoint"] = C.in.ep
			m["recipientKeys"] = []interface{}{fromKey}
			delete(m, "routingKeys")
		}
	}
	forged, _ := json.Marshal(doc)
	inv, err := A.client.CreateInvitation("for-c2")
	if err != nil {
		return "noinv"
	}
	req := map[string]interface{}{
		"@id": "forged-2", "@type": didexsvc.RequestMsgType, "label": "c", "did": ca.TheirDID,
		"~thread":        map[string]interface{}{"thid": "forged-2", "pthid": inv.ID},
		"did_doc~attach": map[string]interface{}{"mime-type": "application/json", "data": map[string]interface{}{"base64": b64std(forged)}},
	}
	rb, _ := json.Marshal(req)
	env := &transport.Envelope{MediaTypeProfile: C.ctx.MediaTypeProfiles()[0], Message: rb, ToKeys: append([]string{}, inv.RecipientKeys...),
		FromKey: []byte(fromKey)}
	packed, err := C.ctx.Packager().PackMessage(env)
	if err != nil {
		env.FromKey = nil
		packed, err = C.ctx.Packager().PackMessage(env)
	}
	if err != nil {
		return "nopack " + strings.SplitN(err.Error(), ":", 2)[0]
	}
	if err := A.deliver(packed); err != nil {
		return "refused"
	}
	time.Sleep(150 * time.Millisecond)
	return "sent"
}

func c10Gen(r *Rng, tier string) []string {
	n := 70
	if tier == "thorough" {
		n = 1500
	}
	var out []string
	for i := 0; i < n; i++ {
		prof := r.Pick([]string{"v1", "v1", "aip2"})
		kt := "ed"
		if prof == "aip2" && r.N(3) == 0 {
			kt = "p256" // the legacy packers of the v1 profile need Ed25519 keys
		}
		cfg := fmt.Sprintf("%s,%s,%s", kt, r.Pick([]string{"x25519", "p256"}), prof)
		var ops []string
		switch r.N(7) {
		case 0:
			ops = []string{"ex a b", "msg a b", "msg b a", "ex a c", "msg c a", "msg a c", "msg b a"}
		case 1:
			ops = []string{"ex2 a b a c", "msg b a", "msg c a", "msg a b", "msg a c"}
		case 2:
			ops = []string{"ex a b", "resolve a b", "forge c a b", "resolve a b", "msg a b", "msg b a"}
		case 3:
			ops = []string{"ex a b", "ex c a", "anonfrom c a b", "msg b a"}
		case 4:
			ops = []string{"ex a b", "resolve a b", "forge2 c a b", "resolve a b", "msg a b", "msg b a"}
		case 5:
			ops = []string{"ex a b", "ex c a", "authfrom c a b", "msg b a", "msg c a"}
		default:
			x, y := r.Pick([]string{"a", "b"}), "c"
			ops = []string{"slow " + x, "ex " + x + " " + y, "fast " + x, "msg " + x + " " + y, "slow " + y, "ex a b", "fast " + y, "msg b a"}
		}
		if r.Bool() {
			ops = append(ops, r.Pick([]string{"ex b c", "ex2 b c c a", "resolve b a", "msg a b"}))
		}
		out = append(out, cfg+"|"+strings.Join(ops, ";"))
	}
	// DID rotation (from_prior) against the middleware: cheap cases, many of them
	out = append(out, c10RotGen(r, 6*n)...)
	return out
}

func init() {
	register("C10", &Prop{Gen: c10Gen, Run: c10Run, Setup: func() { arieslog.SetLevel("", spilog.CRITICAL) }})
}

func b64std(b []byte) string { return base64.StdEncoding.EncodeToString(b) }

func c10Endpoint(uri string) endpoint.Endpoint { return endpoint.NewDIDCommV1Endpoint(uri) }

// did:key of the first verification method of a peer DID document (the sender key of the forged request)
func c10DIDKey(doc *did.Doc) string {
	vm := doc.VerificationMethod[0]
	if vm.Type == "Ed25519VerificationKey2018" {
		dk, _ := fingerprint.CreateDIDKey(vm.Value)
		return dk
	}
	return ""
}
