// corr: correspondence harness. Runs the real aries-framework-go code (built from /repo's working tree)
// on generated cases and prints canonical outcome lines that the Lean driver must reproduce.
//
//	corr gen <prop> <seed> <tier>      prints "<caseid>\t<input>" lines (deterministic in seed)
//	corr run <prop>                    reads such lines on stdin, prints "<caseid>\t<impl output>" (flushed per line)
package main

import (
	"bufio"
	"fmt"
	"os"
	"runtime/debug"
	"sort"
	"strconv"
	"strings"
)

// Rng is splitmix64; every random choice of a run derives from one state.
type Rng struct{ s uint64 }

func NewRng(seed uint64) *Rng { return &Rng{seed*0x9e3779b97f4a7c15 + 0x1234567} }
func (r *Rng) Next() uint64 {
	r.s += 0x9e3779b97f4a7c15
	z := r.s
	z = (z ^ (z >> 30)) * 0xbf58476d1ce4e5b9
	z = (z ^ (z >> 27)) * 0x94d049bb133111eb
	return z ^ (z >> 31)
}
func (r *Rng) N(k int) int {
	if k <= 0 {
		return 0
	}
	return int(r.Next() % uint64(k))
}
func (r *Rng) Bool() bool            { return r.Next()&1 == 1 }
func (r *Rng) Pick(xs []string) string { return xs[r.N(len(xs))] }
func (r *Rng) Bytes(n int) []byte {
	b := make([]byte, n)
	for i := range b {
		b[i] = byte(r.Next())
	}
	return b
}

// Prop is one property's correspondence driver.
type Prop struct {
	// Gen returns case inputs (no tabs / newlines inside).
	Gen func(r *Rng, tier string) []string
	// Run executes the real implementation on one input and returns the canonical outcome.
	Run func(input string) string
	// Setup is called once before the first Run (optional).
	Setup func()
}

var registry = map[string]*Prop{}

func register(id string, p *Prop) { registry[id] = p }

func safeRun(p *Prop, in string) (out string) {
	defer func() {
		if e := recover(); e != nil {
			msg := fmt.Sprint(e)
			if os.Getenv("VERIF_TRACE") != "" {
				fmt.Fprintf(os.Stderr, "panic: %v\n%s\n", e, debug.Stack())
			}
			out = "PANIC " + strings.ReplaceAll(strings.ReplaceAll(msg, "\n", " "), "\t", " ")
		}
	}()
	return p.Run(in)
}

func main() {
	if len(os.Args) < 3 {
		ids := []string{}
		for k := range registry {
			ids = append(ids, k)
		}
		sort.Strings(ids)
		fmt.Fprintln(os.Stderr, "usage: corr gen|run <prop> ...; props:", ids)
		os.Exit(2)
	}
	p := registry[os.Args[2]]
	if p == nil {
		fmt.Fprintln(os.Stderr, "unknown property", os.Args[2])
		os.Exit(2)
	}
	w := bufio.NewWriterSize(os.Stdout, 1<<16)
	defer w.Flush()
	switch os.Args[1] {
	case "gen":
		seed, _ := strconv.ParseUint(os.Args[3], 10, 64)
		tier := "quick"
		if len(os.Args) > 4 {
			tier = os.Args[4]
		}
		for i, in := range p.Gen(NewRng(seed), tier) {
			if strings.ContainsAny(in, "\t\n") {
				panic("generator produced tab/newline: " + in)
			}
			fmt.Fprintf(w, "%s-%d-%d\t%s\n", os.Args[2], seed, i, in)
		}
	case "run":
		if p.Setup != nil {
			p.Setup()
		}
		sc := bufio.NewScanner(os.Stdin)
		sc.Buffer(make([]byte, 1<<20), 1<<28)
		for sc.Scan() {
			line := sc.Text()
			if line == "" {
				continue
			}
			parts := strings.SplitN(line, "\t", 2)
			in := ""
			if len(parts) > 1 {
				in = parts[1]
			}
			// announce the case first so that a crash of the whole process can be attributed
			fmt.Fprintf(w, "BEGIN\t%s\n", parts[0])
			w.Flush()
			out := safeRun(p, in)
			out = strings.ReplaceAll(strings.ReplaceAll(out, "\n", " "), "\t", " ")
			fmt.Fprintf(w, "%s\t%s\n", parts[0], out)
			w.Flush()
		}
	default:
		fmt.Fprintln(os.Stderr, "unknown mode", os.Args[1])
		os.Exit(2)
	}
}

func os_trace() bool { return os.Getenv("VERIF_TRACE") != "" }
