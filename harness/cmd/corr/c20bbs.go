package main

// C20, BBS+ credentials under limit_disclosure: the holder derives the credential (JSON-LD frame built from the
// requested paths, BbsBlsSignatureProof2020), the verifier verifies the derived proof and matches; the credential it gets
// back for the descriptor reveals exactly the requested fields (besides ids and types).
//
// input  := "bbs" "|" requested          requested := path ("," path)*
//   path: fullName | spouse | education.year | education.school.schoolName | education.school.city
// output := "ok shown=" path ("," path)*  (sorted leaf paths present below credentialSubject, ids and types left out)
//           | nocreds | err <stage>

import (
	"crypto/sha256"
	"encoding/base64"
	"encoding/json"
	"fmt"
	"sort"
	"strings"
	"time"

	"github.com/hyperledger/aries-framework-go/component/kmscrypto/crypto/primitive/bbs12381g2pub"
	ldcontext "github.com/hyperledger/aries-framework-go/component/models/ld/context"
	ldprocessor "github.com/hyperledger/aries-framework-go/component/models/ld/processor"
	ldtestutil "github.com/hyperledger/aries-framework-go/component/models/ld/testutil"
	"github.com/hyperledger/aries-framework-go/component/models/presexch"
	"github.com/hyperledger/aries-framework-go/component/models/signature/suite"
	"github.com/hyperledger/aries-framework-go/component/models/signature/suite/bbsblssignature2020"
	"github.com/hyperledger/aries-framework-go/component/models/signature/suite/bbsblssignatureproof2020"
	utiltime "github.com/hyperledger/aries-framework-go/component/models/util/time"
	"github.com/hyperledger/aries-framework-go/component/models/verifiable"
	"github.com/piprate/json-gold/ld"
)

const c20BBSContextURL = "https://example.org/verif/education/v1"

const c20BBSContext = `{"@context": {"@version": 1.1, "edu": "https://example.org/verif/education#",
 "EducationCredential": "edu:EducationCredential", "EducationRecord": "edu:EducationRecord", "School": "edu:School",
 "fullName": "edu:fullName", "spouse": "edu:spouse", "education": "edu:education", "year": "edu:year",
 "school": "edu:school", "schoolName": "edu:schoolName", "city": "edu:city"}}`

type c20BBSSigner struct{ priv []byte }

func (s *c20BBSSigner) Sign(data []byte) ([]byte, error) {
	var msgs [][]byte
	for _, l := range strings.Split(string(data), "\n") {
		if l != "" {
			msgs = append(msgs, []byte(l))
		}
	}
	return bbs12381g2pub.New().Sign(msgs, s.priv)
}
func (s *c20BBSSigner) Alg() string { return "" }

var c20BBS struct {
	loader    ld.DocumentLoader
	pub, priv []byte
	signed    []byte
}

func c20BBSSetup() error {
	if c20BBS.signed != nil {
		return nil
	}
	loader, err := ldtestutil.DocumentLoader(ldcontext.Document{URL: c20BBSContextURL, Content: json.RawMessage(c20BBSContext)})
	if err != nil {
		return err
	}
	pk, sk, err := bbs12381g2pub.GenerateKeyPair(sha256.New, nil)
	if err != nil {
		return err
	}
	pub, _ := pk.Marshal()
	priv, _ := sk.Marshal()
	vc := &verifiable.Credential{
		ID:      "https://issuer.example.org/credentials/verif-bbs",
		Context: []string{verifiable.ContextURI, c20BBSContextURL, "https://w3id.org/security/bbs/v1"},
		Types:   []string{"VerifiableCredential", "EducationCredential"},
		Subject: verifiable.Subject{ID: "did:example:b34ca6cd37bbf23", CustomFields: map[string]interface{}{
			"fullName": "Jayden Doe", "spouse": "did:example:c276e12ec21ebfeb1f712ebc6f1",
			"education": map[string]interface{}{"id": "urn:example:education:1", "type": "EducationRecord", "year": "2015",
				"school": map[string]interface{}{"id": "urn:example:school:1", "type": "School", "schoolName": "MIT school",
					"city": "Cambridge"}}}},
		Issued:  &utiltime.TimeWrapper{Time: time.Date(2024, 1, 1, 0, 0, 0, 0, time.UTC)},
		Expired: &utiltime.TimeWrapper{Time: time.Date(2044, 1, 1, 0, 0, 0, 0, time.UTC)},
		Issuer:  verifiable.Issuer{ID: "did:example:489398593"},
	}
	if err := vc.AddLinkedDataProof(&verifiable.LinkedDataProofContext{SignatureType: "BbsBlsSignature2020",
		SignatureRepresentation: verifiable.SignatureProofValue,
		Suite:                   bbsblssignature2020.New(suite.WithSigner(&c20BBSSigner{priv})),
		VerificationMethod:      "did:example:123456#key1"}, ldprocessor.WithDocumentLoader(loader)); err != nil {
		return err
	}
	b, err := vc.MarshalJSON()
	if err != nil {
		return err
	}
	c20BBS.loader, c20BBS.pub, c20BBS.priv, c20BBS.signed = loader, pub, priv, b
	return nil
}

func c20RunBBS(req string) string {
	if err := c20BBSSetup(); err != nil {
		return "err setup " + err.Error()
	}
	loader, pub := c20BBS.loader, c20BBS.pub
	fetch := verifiable.SingleKey(pub, "Bls12381G2Key2020")
	vc, err := verifiable.ParseCredential(c20BBS.signed, verifiable.WithJSONLDDocumentLoader(loader), verifiable.WithPublicKeyFetcher(fetch))
	if err != nil {
		return "err parse"
	}
	required := presexch.Required
	strType := "string"
	var fields []*presexch.Field
	for _, p := range strings.Split(req, ",") {
		fields = append(fields, &presexch.Field{Path: []string{"$.credentialSubject." + p}, Filter: &presexch.Filter{Type: &strType}})
	}
	pd := &presexch.PresentationDefinition{ID: "verif-bbs", InputDescriptors: []*presexch.InputDescriptor{{ID: "d0",
		Schema:      []*presexch.Schema{{URI: fmt.Sprintf("%s#%s", verifiable.ContextID, verifiable.VCType)}},
		Constraints: &presexch.Constraints{LimitDisclosure: &required, Fields: fields}}}}
	vp, err := pd.CreateVP([]*verifiable.Credential{vc}, loader, verifiable.WithJSONLDDocumentLoader(loader),
		verifiable.WithPublicKeyFetcher(fetch))
	if err != nil {
		if err == presexch.ErrNoCredentials {
			return "nocreds"
		}
		return "err createvp"
	}
	if len(vp.Credentials()) != 1 {
		return "err credentials"
	}
	derived, ok := vp.Credentials()[0].(*verifiable.Credential)
	if !ok || len(derived.Proofs) != 1 || derived.Proofs[0]["type"] != "BbsBlsSignatureProof2020" {
		return "err not-derived"
	}
	ns, _ := derived.Proofs[0]["nonce"].(string)
	nonce, err := base64.StdEncoding.DecodeString(ns)
	if err != nil {
		return "err nonce"
	}
	matched, err := pd.Match([]*verifiable.Presentation{vp}, loader, presexch.WithCredentialOptions(
		verifiable.WithJSONLDDocumentLoader(loader),
		verifiable.WithEmbeddedSignatureSuites(bbsblssignatureproof2020.New(suite.WithCompactProof(),
			suite.WithVerifier(bbsblssignatureproof2020.NewG2PublicKeyVerifier(nonce)))),
		verifiable.WithPublicKeyFetcher(fetch)))
	if err != nil {
		return "err match"
	}
	got := matched["d0"]
	if got.Credential == nil {
		return "err no-credential"
	}
	raw, err := json.Marshal(got.Credential)
	if err != nil {
		return "err marshal"
	}
	var doc map[string]interface{}
	if json.Unmarshal(raw, &doc) != nil {
		return "err json"
	}
	var shown []string
	var walk func(prefix string, v interface{})
	walk = func(prefix string, v interface{}) {
		m, ok := v.(map[string]interface{})
		if !ok {
			shown = append(shown, prefix)
			return
		}
		for k, x := range m {
			if k == "id" || k == "type" {
				continue
			}
			p := k
			if prefix != "" {
				p = prefix + "." + k
			}
			walk(p, x)
		}
	}
	if sub, ok := doc["credentialSubject"].(map[string]interface{}); ok {
		walk("", sub)
	}
	sort.Strings(shown)
	return "ok shown=" + strings.Join(shown, ",")
}

// c20RunBBS2: TWO descriptors with limit_disclosure over the SAME credential, each asking for its own leaves; the answer is
// built as a presentation array (CreateVPArray) and matched with the merged submission: every descriptor gets back a
// credential that shows exactly ITS leaves.
//   input: "bbs2" "|" requested0 "|" requested1        output: "ok d0=<leaves>;d1=<leaves>" | nocreds | err <stage>
func c20RunBBS2(req0, req1 string) string {
	if err := c20BBSSetup(); err != nil {
		return "err setup " + err.Error()
	}
	loader, pub := c20BBS.loader, c20BBS.pub
	fetch := verifiable.SingleKey(pub, "Bls12381G2Key2020")
	vc, err := verifiable.ParseCredential(c20BBS.signed, verifiable.WithJSONLDDocumentLoader(loader), verifiable.WithPublicKeyFetcher(fetch))
	if err != nil {
		return "err parse"
	}
	required := presexch.Required
	strType := "string"
	var descs []*presexch.InputDescriptor
	for i, req := range []string{req0, req1} {
		var fields []*presexch.Field
		for _, p := range strings.Split(req, ",") {
			fields = append(fields, &presexch.Field{Path: []string{"$.credentialSubject." + p}, Filter: &presexch.Filter{Type: &strType}})
		}
		descs = append(descs, &presexch.InputDescriptor{ID: fmt.Sprintf("d%d", i),
			Schema:      []*presexch.Schema{{URI: fmt.Sprintf("%s#%s", verifiable.ContextID, verifiable.VCType)}},
			Constraints: &presexch.Constraints{LimitDisclosure: &required, Fields: fields}})
	}
	pd := &presexch.PresentationDefinition{ID: "verif-bbs2", InputDescriptors: descs}
	vps, sub, err := pd.CreateVPArray([]*verifiable.Credential{vc}, loader, verifiable.WithJSONLDDocumentLoader(loader),
		verifiable.WithPublicKeyFetcher(fetch))
	if err != nil {
		if err == presexch.ErrNoCredentials {
			return "nocreds"
		}
		return "err createvparray"
	}
	var parsed []*verifiable.Presentation
	for _, v := range vps {
		b, err := v.MarshalJSON()
		if err != nil {
			return "err marshal-vp"
		}
		pv, err := verifiable.ParsePresentation(b, verifiable.WithPresDisabledProofCheck(), verifiable.WithPresJSONLDDocumentLoader(loader))
		if err != nil {
			return "err parse-vp"
		}
		parsed = append(parsed, pv)
	}
	// (no suites handed in: the verifier selects them from the proof types, with the nonce of each derived proof)
	matched, err := pd.Match(parsed, loader, presexch.WithMergedSubmission(sub), presexch.WithCredentialOptions(
		verifiable.WithJSONLDDocumentLoader(loader), verifiable.WithPublicKeyFetcher(fetch)))
	if err != nil {
		return "err match"
	}
	var outs []string
	for _, id := range []string{"d0", "d1"} {
		got, ok := matched[id]
		if !ok || got.Credential == nil {
			return "err no-credential " + id
		}
		raw, err := json.Marshal(got.Credential)
		if err != nil {
			return "err marshal"
		}
		outs = append(outs, id+"="+strings.Join(c20ShownLeaves(raw), ","))
	}
	return "ok " + strings.Join(outs, ";")
}

func c20ShownLeaves(raw []byte) []string {
	var doc map[string]interface{}
	if json.Unmarshal(raw, &doc) != nil {
		return []string{"?"}
	}
	var shown []string
	var walk func(prefix string, v interface{})
	walk = func(prefix string, v interface{}) {
		m, ok := v.(map[string]interface{})
		if !ok {
			shown = append(shown, prefix)
			return
		}
		for k, x := range m {
			if k == "id" || k == "type" {
				continue
			}
			p := k
			if prefix != "" {
				p = prefix + "." + k
			}
			walk(p, x)
		}
	}
	if sub, ok := doc["credentialSubject"].(map[string]interface{}); ok {
		walk("", sub)
	}
	sort.Strings(shown)
	return shown
}

func c20GenBBS(r *Rng, n int) []string {
	paths := []string{"fullName", "spouse", "education.year", "education.school.schoolName", "education.school.city"}
	var out []string
	for i := 0; i < n; i++ {
		var req []string
		for _, p := range paths {
			if r.N(3) == 0 {
				req = append(req, p)
			}
		}
		if len(req) == 0 {
			req = []string{r.Pick(paths)}
		}
		out = append(out, "bbs|"+strings.Join(req, ","))
		if i%3 == 0 {
			out = append(out, "bbs2|"+strings.Join(req, ",")+"|"+r.Pick(paths))
		}
	}
	return out
}
