package main

// C18: SD-JWT — issue, present a subset of the disclosures (possibly tampered), verify.
//
// input  := JSON {"claims":{..},"v":2|5,"st":bool,"nonsd":[paths],"rec":[paths],"alw":[paths],"decoy":bool,
//                 "hash":"sha-256|sha-384|sha-512","hb":0..5,"mode":"all|none|subset","sel":n,"tamper":"none|forge|dup|alter"}
// output := JSON {"E":payload with digests replaced by "#i" (i = index into T) or "#decoy",
//                 "T":[decoded disclosure arrays, nested digests replaced likewise],
//                 "S":[indices presented],"tamper":..,"hb":..,"out": verified claims | "reject" | "issue-error" ...}

import (
	"sync/atomic"
	"sync"
	"crypto"
	"crypto/ed25519"
	"crypto/sha256"
	"encoding/base64"
	"encoding/json"
	"fmt"
	"reflect"
	"sort"
	"strings"

	"github.com/hyperledger/aries-framework-go/component/kmscrypto/doc/jose"
	"github.com/hyperledger/aries-framework-go/component/kmscrypto/doc/jose/jwk/jwksupport"
	afjwt "github.com/hyperledger/aries-framework-go/component/models/jwt"
	"github.com/hyperledger/aries-framework-go/component/models/sdjwt/common"
	"github.com/hyperledger/aries-framework-go/component/models/sdjwt/holder"
	"github.com/hyperledger/aries-framework-go/component/models/sdjwt/issuer"
	"github.com/hyperledger/aries-framework-go/component/models/sdjwt/verifier"
	sigverifier "github.com/hyperledger/aries-framework-go/component/models/signature/verifier"
	"github.com/hyperledger/aries-framework-go/component/models/verifiable"
)

type c18Case struct {
	Claims map[string]interface{} `json:"claims"`
	V      int                    `json:"v"`
	St     bool                   `json:"st"`
	NonSD  []string               `json:"nonsd"`
	Rec    []string               `json:"rec"`
	Alw    []string               `json:"alw"`
	Decoy  bool                   `json:"decoy"`
	Hash   string                 `json:"hash"`
	HB     int                    `json:"hb"`
	Mode   string                 `json:"mode"`
	Sel    int                    `json:"sel"`
	Tamper string                 `json:"tamper"`
}

var (
	c18IssuerPub, c18IssuerPriv, _ = ed25519.GenerateKey(detRand{1})
	c18HolderPub, c18HolderPriv, _ = ed25519.GenerateKey(detRand{2})
	c18OtherPub, c18OtherPriv, _   = ed25519.GenerateKey(detRand{3})
)

type detRand struct{ b byte }

func (d detRand) Read(p []byte) (int, error) {
	for i := range p {
		p[i] = d.b + byte(i)
	}
	return len(p), nil
}

// numbers may come back as json.Number of encoding/json or of the go-jose fork: normalise to JSON numbers
func c18Canon(v interface{}) interface{} {
	switch t := v.(type) {
	case map[string]interface{}:
		out := map[string]interface{}{}
		for k, x := range t {
			out[k] = c18Canon(x)
		}
		return out
	case []interface{}:
		out := make([]interface{}, len(t))
		for i, x := range t {
			out[i] = c18Canon(x)
		}
		return out
	case nil:
		return nil
	}
	rv := reflect.ValueOf(v)
	if rv.Kind() == reflect.String && rv.Type().Name() == "Number" {
		return json.RawMessage(rv.String())
	}
	if rv.Kind() == reflect.Map || rv.Kind() == reflect.Slice {
		b, err := json.Marshal(v)
		if err == nil {
			var x interface{}
			if json.Unmarshal(b, &x) == nil {
				return c18Canon(x)
			}
		}
	}
	return v
}

func c18Hash(alg string) crypto.Hash {
	switch alg {
	case "sha-384":
		return crypto.SHA384
	case "sha-512":
		return crypto.SHA512
	}
	return crypto.SHA256
}

var c18DecoyCounter int

func c18Decoy() string {
	c18DecoyCounter++
	return fmt.Sprintf("#decoy%d", c18DecoyCounter)
}

// replace digests by "#i" / "#decoy<n>" in _sd arrays and {"...": digest} array elements
func c18Symbolic(v interface{}, ids map[string]int) interface{} {
	switch t := v.(type) {
	case map[string]interface{}:
		out := map[string]interface{}{}
		for k, x := range t {
			if k == common.SDKey {
				arr, _ := x.([]interface{})
				var syms []string
				for _, d := range arr {
					ds, _ := d.(string)
					if i, ok := ids[ds]; ok {
						syms = append(syms, fmt.Sprintf("#%d", i))
					} else {
						syms = append(syms, c18Decoy())
					}
				}
				sort.Strings(syms)
				out[k] = syms
				continue
			}
			if k == common.ArrayElementDigestKey {
				ds, _ := x.(string)
				if i, ok := ids[ds]; ok {
					out[k] = fmt.Sprintf("#%d", i)
				} else {
					out[k] = c18Decoy()
				}
				continue
			}
			out[k] = c18Symbolic(x, ids)
		}
		return out
	case []interface{}:
		out := make([]interface{}, len(t))
		for i, x := range t {
			out[i] = c18Symbolic(x, ids)
		}
		return out
	}
	return v
}

// c18CredentialLevel: credential -> MakeSDJWT -> ParseCredential -> MarshalWithDisclosure(selection) and counts the
// disclosures in what would be presented: "<presented>/<selected>" (or "na").
func c18CredentialLevel(c *c18Case, signer jose.Signer) string {
	sub := map[string]interface{}{"id": "did:example:subject"}
	for k, v := range c.Claims {
		if k != "id" && k != "_sd" && k != "..." {
			sub[k] = v
		}
	}
	raw, err := json.Marshal(map[string]interface{}{
		"@context": []interface{}{"https://www.w3.org/2018/credentials/v1"}, "id": "http://example.edu/credentials/c18",
		"type": []interface{}{"VerifiableCredential"}, "issuer": "did:example:issuer", "issuanceDate": "2020-01-01T19:23:24Z",
		"credentialSubject": sub})
	if err != nil {
		return "na"
	}
	vc, err := verifiable.ParseCredential(raw, verifiable.WithCredDisableValidation(), verifiable.WithDisabledProofCheck())
	if err != nil {
		return "na"
	}
	mopts := []verifiable.MakeSDJWTOption{verifiable.MakeSDJWTWithHash(c18Hash(c.Hash))}
	if c.V == 5 {
		mopts = append(mopts, verifiable.MakeSDJWTWithVersion(common.SDJWTVersionV5))
	}
	sdjwt, err := vc.MakeSDJWT(signer, "did:example:issuer#key-1", mopts...)
	if err != nil {
		return "na"
	}
	iv, _ := afjwt.NewEd25519Verifier(c18IssuerPub)
	vc2, err := verifiable.ParseCredential([]byte(sdjwt), verifiable.WithCredDisableValidation(),
		verifiable.WithPublicKeyFetcher(func(string, string) (*sigverifier.PublicKey, error) {
			return &sigverifier.PublicKey{Type: "Ed25519VerificationKey2018", Value: c18IssuerPub}, nil
		}))
	_ = iv
	if err != nil {
		return "na"
	}
	// names of the disclosures (unique ones only: a selection by name is ambiguous otherwise)
	count := map[string]int{}
	for _, d := range vc2.SDJWTDisclosures {
		count[d.Name]++
	}
	var names []string
	for n, k := range count {
		if k == 1 && n != "" {
			names = append(names, n)
		}
	}
	sort.Strings(names)
	var sel []string
	switch c.Mode {
	case "all":
		sel = names
	case "subset":
		for i, n := range names {
			if (c.Sel>>uint(i%8))&1 == 1 {
				sel = append(sel, n)
			}
		}
	}
	pres, err := vc2.MarshalWithDisclosure(verifiable.DiscloseGivenRequired(sel))
	if err != nil {
		return "err"
	}
	parts := strings.Split(strings.TrimSuffix(pres, "~"), "~")
	return fmt.Sprintf("%d/%d", len(parts)-1, len(sel))
}

var c18LastCombined string // the last combined format handed to the verifier (starting object of the C03 sweep)

func c18Run(input string) string {
	var c c18Case
	if err := json.Unmarshal([]byte(input), &c); err != nil {
		return `{"out":"bad-input"}`
	}
	res := map[string]interface{}{"tamper": c.Tamper, "hb": c.HB}
	emit := func() string {
		b, err := json.Marshal(res)
		if err != nil {
			return `{"out":"marshal-error"}`
		}
		return string(b)
	}
	signer := afjwt.NewEd25519Signer(c18IssuerPriv)
	// the credential-level holder API (verifiable.Credential): a selection by claim NAMES, the empty one included
	res["cl"] = c18CredentialLevel(&c, signer)
	salt := 0
	opts := []issuer.NewOpt{
		issuer.WithStructuredClaims(c.St),
		issuer.WithHashAlgorithm(c18Hash(c.Hash)),
		issuer.WithDecoyDigests(c.Decoy),
		issuer.WithSaltFnc(func() (string, error) { salt++; return fmt.Sprintf("salt%d", salt), nil }),
	}
	if c.V == 5 {
		opts = append(opts, issuer.WithSDJWTVersion(common.SDJWTVersionV5))
	} else {
		opts = append(opts, issuer.WithSDJWTVersion(common.SDJWTVersionV2))
	}
	if len(c.NonSD) > 0 {
		opts = append(opts, issuer.WithNonSelectivelyDisclosableClaims(c.NonSD))
	}
	if len(c.Rec) > 0 {
		opts = append(opts, issuer.WithRecursiveClaimsObjects(c.Rec))
	}
	if len(c.Alw) > 0 {
		opts = append(opts, issuer.WithAlwaysIncludeObjects(c.Alw))
	}
	// two holders take turns (by the text of the case); the confirmation keys of both carry the SAME holder-chosen `kid`
	// in half of the cases: whatever a verifier remembers under a key id must not stand in for the key of the token at hand
	holderPub, holderPriv, otherPriv := c18HolderPub, c18HolderPriv, c18OtherPriv
	if len(input)%2 == 1 {
		holderPub, holderPriv, otherPriv = c18OtherPub, c18OtherPriv, c18HolderPriv
	}
	if c.HB > 0 {
		j, err := jwksupport.JWKFromKey(holderPub)
		if err != nil {
			res["out"] = "setup-error"
			return emit()
		}
		if len(input)%4 < 2 {
			j.KeyID = "holder-key-1"
		}
		opts = append(opts, issuer.WithHolderPublicKey(j))
	}
	token, err := issuer.New("https://issuer.example", c.Claims, nil, signer, opts...)
	if err != nil {
		res["out"] = "issue-error"
		return emit()
	}
	cfi, err := token.Serialize(false)
	if err != nil {
		res["out"] = "issue-error"
		return emit()
	}
	// the holder's own check of what the issuer handed over: the genuine thing parses (one claim per disclosure), an
	// altered issuer signature and a disclosure the SD-JWT does not commit to are refused
	{
		ivh, _ := afjwt.NewEd25519Verifier(c18IssuerPub)
		hopts := []holder.ParseOpt{holder.WithSignatureVerifier(ivh)}
		if c.V == 5 {
			hopts = append(hopts, holder.WithSDJWTV5Validation(true), holder.WithIssuerSigningAlgorithms([]string{"EdDSA"}))
		}
		hp := func(in string) string {
			cl, err := holder.Parse(in, hopts...)
			if err != nil {
				return "err"
			}
			return fmt.Sprint(len(cl))
		}
		ps := strings.SplitN(cfi, "~", 2)
		sg := strings.Split(ps[0], ".")
		badSig := cfi
		if len(sg) == 3 && len(sg[2]) > 4 {
			b := []byte(sg[2])
			if b[2] == 'A' {
				b[2] = 'B'
			} else {
				b[2] = 'A'
			}
			badSig = sg[0] + "." + sg[1] + "." + string(b)
			if len(ps) == 2 {
				badSig += "~" + ps[1]
			}
		}
		fb, _ := json.Marshal([]interface{}{"saltY", "forged", "value"})
		forged := strings.TrimSuffix(cfi, "~") + "~" + base64.RawURLEncoding.EncodeToString(fb)
		res["hp"] = hp(cfi) + "/" + hp(badSig) + "/" + hp(forged)
	}
	// decode payload and disclosures
	parts := strings.Split(cfi, "~")
	segs := strings.Split(parts[0], ".")
	pb, _ := base64.RawURLEncoding.DecodeString(segs[1])
	var payload map[string]interface{}
	_ = json.Unmarshal(pb, &payload)
	ids := map[string]int{}
	var decoded [][]interface{}
	h := c18Hash(c.Hash)
	for i, d := range token.Disclosures {
		dg, _ := common.GetHash(h, d)
		ids[dg] = i
		raw, _ := base64.RawURLEncoding.DecodeString(d)
		var arr []interface{}
		_ = json.Unmarshal(raw, &arr)
		decoded = append(decoded, arr)
	}
	c18DecoyCounter = 0
	var T []interface{}
	for _, arr := range decoded {
		T = append(T, c18Symbolic(interface{}([]interface{}(arr)), ids))
	}
	res["E"] = c18Symbolic(payload, ids)
	res["T"] = T
	// choose the disclosures to present (by content, so that the choice does not depend on map iteration order)
	var S []int
	var chosen []string
	for i, arr := range decoded {
		pick := false
		switch c.Mode {
		case "all":
			pick = true
		case "subset":
			if len(arr) == 0 {
				break
			}
			cb, _ := json.Marshal(arr[1:])
			sum := sha256.Sum256(append([]byte(fmt.Sprintf("%d|", c.Sel)), cb...))
			pick = sum[0]&1 == 1
		}
		if pick {
			S = append(S, i)
			chosen = append(chosen, token.Disclosures[i])
		}
	}
	if S == nil {
		S = []int{}
	}
	res["S"] = S
	switch c.Tamper {
	case "forge":
		fb, _ := json.Marshal([]interface{}{"saltX", "forged", "value"})
		chosen = append(chosen, base64.RawURLEncoding.EncodeToString(fb))
	case "dup":
		if len(chosen) > 0 {
			chosen = append(chosen, chosen[c.Sel%len(chosen)])
		} else {
			res["tamper"] = "none"
		}
	case "respell", "duprespell":
		// another base64url SPELLING of a genuine disclosure (a line break inside, or the unused bits of the last character
		// set): it decodes to the same bytes but is not the string the issuer committed to. Presented instead of the
		// genuine one (respell) or next to it (duprespell).
		if len(chosen) > 0 {
			k := c.Sel % len(chosen)
			d := chosen[k]
			alt := d[:len(d)/2] + "\n" + d[len(d)/2:]
			if c.Sel%2 == 1 && len(d)%4 != 0 {
				const alphabet = "ABCDEFGHIJKLMNOPQRSTUVWXYZabcdefghijklmnopqrstuvwxyz0123456789-_"
				i := strings.IndexByte(alphabet, d[len(d)-1])
				alt = d[:len(d)-1] + string(alphabet[i^1])
			}
			if c.Tamper == "respell" {
				chosen[k] = alt
			} else {
				chosen = append(chosen, alt)
			}
		} else {
			res["tamper"] = "none"
		}
	case "alter":
		if len(chosen) > 0 {
			k := c.Sel % len(chosen)
			raw, _ := base64.RawURLEncoding.DecodeString(chosen[k])
			var arr []interface{}
			_ = json.Unmarshal(raw, &arr)
			arr[len(arr)-1] = "altered"
			ab, _ := json.Marshal(arr)
			chosen[k] = base64.RawURLEncoding.EncodeToString(ab)
		} else {
			res["tamper"] = "none"
		}
	}
	// holder verification (key binding)
	hv := ""
	vopts := []verifier.ParseOpt{}
	iv, _ := afjwt.NewEd25519Verifier(c18IssuerPub)
	vopts = append(vopts, verifier.WithSignatureVerifier(iv))
	if c.HB > 0 {
		// hb: 1 right | 2 wrong nonce | 3 wrong audience | 4 required but missing | 5 wrong key |
		//     6 verifier expects ONLY the audience, binding made for another audience |
		//     7 verifier expects ONLY the nonce, binding carries another nonce | 8 only audience expected, right one
		vopts = append(vopts, verifier.WithHolderVerificationRequired(true))
		if c.HB != 6 && c.HB != 8 {
			vopts = append(vopts, verifier.WithExpectedNonceForHolderVerification("nonce-1"))
		}
		if c.HB != 7 {
			vopts = append(vopts, verifier.WithExpectedAudienceForHolderVerification("https://verifier.example"))
		}
		info := &holder.BindingInfo{
			Payload: holder.BindingPayload{Nonce: "nonce-1", Audience: "https://verifier.example"},
			Signer:  afjwt.NewEd25519Signer(holderPriv),
		}
		if c.V == 5 {
			info.Headers = jose.Headers{"typ": "kb+jwt"} // key binding JWT of the v5 drafts
		}
		switch c.HB {
		case 2, 7:
			info.Payload.Nonce = "other-nonce"
		case 3, 6:
			info.Payload.Audience = "https://other.example"
		case 5:
			info.Signer = afjwt.NewEd25519Signer(otherPriv)
		}
		if c.HB != 4 {
			hv, err = holder.CreateHolderVerification(info)
			if err != nil {
				res["out"] = "holder-error"
				return emit()
			}
		}
	}
	var presentation string
	if c.Tamper == "none" || res["tamper"] == "none" {
		// the honest path goes through the real holder API
		var hopts []holder.Option
		_ = hopts
		cf := common.CombinedFormatForPresentation{SDJWT: parts[0], Disclosures: chosen, HolderVerification: hv}
		presentation = cf.Serialize()
		if len(token.Disclosures) > 0 && c.HB == 0 {
			p2, herr := holder.CreatePresentation(cfi, chosen)
			if herr != nil {
				res["out"] = "holder-error"
				return emit()
			}
			if p2 != presentation {
				res["out"] = "holder-format-differs"
				return emit()
			}
		}
	} else {
		cf := common.CombinedFormatForPresentation{SDJWT: parts[0], Disclosures: chosen, HolderVerification: hv}
		presentation = cf.Serialize()
	}
	c18LastCombined = presentation
	out, err := verifier.Parse(presentation, vopts...)
	// several verifiers at work at the same time (a third of the cases): every one of them reaches the same verdict and the
	// same claims as the one that worked alone
	if len(input)%3 == 0 {
		want := "reject"
		if err == nil {
			want = fmt.Sprint(c18Canon(out))
		}
		var wg sync.WaitGroup
		var differs atomic.Bool
		for g := 0; g < 6; g++ {
			wg.Add(1)
			go func() {
				defer wg.Done()
				defer func() {
					if recover() != nil {
						differs.Store(true)
					}
				}()
				for it := 0; it < 2; it++ {
					o, e := verifier.Parse(presentation, vopts...)
					got := "reject"
					if e == nil {
						got = fmt.Sprint(c18Canon(o))
					}
					if got != want {
						differs.Store(true)
					}
				}
			}()
		}
		wg.Wait()
		if differs.Load() {
			res["out"] = "verdict-differs-under-concurrent-verification"
			return emit()
		}
	}
	if err != nil {
		res["out"] = "reject"
		if os_trace() {
			res["err"] = err.Error()
		}
		return emit()
	}
	res["out"] = c18Canon(out)
	return emit()
}

var c18Keys = []string{"a", "b", "c", "d", "e"}

func c18GenValue(r *Rng, depth int, arrays bool) interface{} {
	if r.N(30) == 0 {
		return nil // JSON null
	}
	if r.N(40) == 0 {
		return []interface{}{}
	}
	switch c := r.N(10); {
	case c < 3:
		return []string{"x", "y", "zed", "hello world", ""}[r.N(5)]
	case c < 5:
		return r.N(100)
	case c < 6:
		return r.Bool()
	case c < 8 && depth > 0:
		return c18GenObject(r, depth-1, arrays, 1+r.N(3))
	case c < 9 && depth > 0 && arrays:
		n := 1 + r.N(3)
		arr := make([]interface{}, n)
		for i := range arr {
			if r.N(4) == 0 && depth > 1 {
				arr[i] = c18GenObject(r, 0, false, 1+r.N(2))
			} else {
				arr[i] = []interface{}{"p", "q", 7, true}[r.N(4)]
			}
		}
		return arr
	}
	return "v" + fmt.Sprint(r.N(5))
}

func c18GenObject(r *Rng, depth int, arrays bool, n int) map[string]interface{} {
	m := map[string]interface{}{}
	for i := 0; i < n; i++ {
		m[r.Pick(c18Keys)] = c18GenValue(r, depth, arrays)
	}
	return m
}

func c18Paths(prefix string, m map[string]interface{}, out *[]string, objOnly bool) {
	for k, v := range m {
		p := k
		if prefix != "" {
			p = prefix + "." + k
		}
		if sub, ok := v.(map[string]interface{}); ok {
			*out = append(*out, p)
			c18Paths(p, sub, out, objOnly)
		} else if !objOnly {
			*out = append(*out, p)
		}
	}
}

func c18Gen(r *Rng, tier string) []string {
	n := 1500
	if tier == "thorough" {
		n = 40000
	}
	var out []string
	for i := 0; i < n; i++ {
		c := c18Case{V: 2, Hash: "sha-256", Mode: "subset", Sel: r.N(1000), Tamper: "none"}
		if r.N(2) == 0 {
			c.V = 5
		}
		c.Claims = c18GenObject(r, 2+r.N(2), true, 2+r.N(4))
		c.St = r.N(2) == 0
		var all, objs []string
		c18Paths("", c.Claims, &all, false)
		c18Paths("", c.Claims, &objs, true)
		sort.Strings(all)
		sort.Strings(objs)
		for _, p := range all {
			if r.N(5) == 0 {
				c.NonSD = append(c.NonSD, p)
			}
		}
		if c.V == 5 {
			for _, p := range objs {
				switch r.N(5) {
				case 0:
					c.Rec = append(c.Rec, p)
				case 1:
					c.Alw = append(c.Alw, p)
				}
			}
		}
		c.Decoy = r.N(4) == 0
		c.Hash = []string{"sha-256", "sha-256", "sha-384", "sha-512"}[r.N(4)]
		switch r.N(8) {
		case 0:
			c.Mode = "all"
		case 1:
			c.Mode = "none"
		}
		switch r.N(10) {
		case 0:
			c.Tamper = "forge"
		case 1:
			c.Tamper = "dup"
		case 2:
			c.Tamper = "alter"
		case 3:
			c.Tamper = r.Pick([]string{"respell", "duprespell"})
		}
		if r.N(4) == 0 {
			c.HB = 1 + r.N(8)
		}
		b, _ := json.Marshal(c)
		out = append(out, string(b))
	}
	return out
}

func init() {
	register("C18", &Prop{Gen: c18Gen, Run: c18Run})
}
