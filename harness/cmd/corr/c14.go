package main

// C14: routed messages. Real outbound dispatcher (nested forward construction), real packagers with one KMS per agent,
// real mediator + messagepickup services per hop; the only test doubles are the transport (a recording bus) and the
// SendToDID half of the mediators' outbound interface (responses are recorded instead of being packed again).
//
// input  := CFG "|" OP (";" OP)*
//   CFG := profile,keytype,n,nrec,auth
//     profile: indy | aip1 | aip219 | aip2587 | v2     keytype: ed (legacy packers) | x25519 | p256 | p384 | p521
//     n: number of mediators in the chain (routing keys M1..Mn; Mn is contacted first), nrec: 1|2 recipient keys,
//     auth: 1 = the application message is authcrypted, 0 = anoncrypted
//   OP := add C K | rem C K | off C | on C | send | fwd K | pick C | raw K
//     clients c0 (= the recipient R) c1 c2 of mediator M1; keys k0 (R's) k1 (c1's) k2 (c2's) k3 (nobody's)
// output := one item per op joined by "|"
//   add/rem : ok:<result> | err          off/on: ok
//   send    : send=<ok|err> {L<i>:open=<who can open layer i>,to=<key name>,leak=<0|1>,next=<sent:X|held:X|err>}
//             final:got=<client>,open=<who can open what was delivered>,payload=<1|0>
//   fwd K   : <sent:X|held:X|err>[:open=<who>]        pick C : batch:<msg ids that C could open | x>

import (
	"bytes"
	"encoding/base64"
	"encoding/json"
	"errors"
	"fmt"
	"sort"
	"strconv"
	"strings"

	"github.com/btcsuite/btcutil/base58"

	"github.com/hyperledger/aries-framework-go/component/kmscrypto/doc/jose"
	"github.com/hyperledger/aries-framework-go/component/kmscrypto/doc/util/fingerprint"
	"github.com/hyperledger/aries-framework-go/component/models/did"
	"github.com/hyperledger/aries-framework-go/component/models/did/endpoint"
	"github.com/hyperledger/aries-framework-go/component/storageutil/mem"
	"github.com/hyperledger/aries-framework-go/pkg/didcomm/common/service"
	"github.com/hyperledger/aries-framework-go/pkg/didcomm/dispatcher/outbound"
	"github.com/hyperledger/aries-framework-go/pkg/didcomm/packager"
	"github.com/hyperledger/aries-framework-go/pkg/didcomm/packer"
	"github.com/hyperledger/aries-framework-go/pkg/didcomm/packer/anoncrypt"
	"github.com/hyperledger/aries-framework-go/pkg/didcomm/packer/authcrypt"
	legacyanon "github.com/hyperledger/aries-framework-go/pkg/didcomm/packer/legacy/anoncrypt"
	legacyauth "github.com/hyperledger/aries-framework-go/pkg/didcomm/packer/legacy/authcrypt"
	"github.com/hyperledger/aries-framework-go/pkg/didcomm/protocol/mediator"
	"github.com/hyperledger/aries-framework-go/pkg/didcomm/protocol/messagepickup"
	"github.com/hyperledger/aries-framework-go/pkg/didcomm/transport"
	vdrapi "github.com/hyperledger/aries-framework-go/pkg/framework/aries/api/vdr"
	mockprovider "github.com/hyperledger/aries-framework-go/pkg/mock/provider"
	mockvdr "github.com/hyperledger/aries-framework-go/pkg/mock/vdr"
	spistorage "github.com/hyperledger/aries-framework-go/spi/storage"
)

var c14Profiles = map[string]string{
	"indy": transport.LegacyDIDCommV1Profile, "aip1": transport.MediaTypeProfileDIDCommAIP1,
	"aip219": transport.MediaTypeAIP2RFC0019Profile, "aip2587": transport.MediaTypeAIP2RFC0587Profile,
	"v2": transport.MediaTypeDIDCommV2Profile,
}

const c14Marker = "SECRET-PAYLOAD"

// ---- bus -------------------------------------------------------------------------------------------------------------

type c14Sent struct {
	uri  string
	data []byte
}

type c14Bus struct {
	offline map[string]bool
	log     []c14Sent
}

type c14Transport struct{ bus *c14Bus }

func (t *c14Transport) Start(transport.Provider) error { return nil }
func (t *c14Transport) Send(data []byte, des *service.Destination) (string, error) {
	uri, err := des.ServiceEndpoint.URI()
	if err != nil {
		return "", err
	}
	if t.bus.offline[uri] {
		return "", errors.New("endpoint unreachable")
	}
	t.bus.log = append(t.bus.log, c14Sent{uri, append([]byte{}, data...)})
	return "", nil
}
func (t *c14Transport) AcceptRecipient([]string) bool { return false }
func (t *c14Transport) Accept(string) bool            { return true }

// outbound provider: mock provider + the two getters it lacks
type c14OutProv struct {
	*mockprovider.Provider
	tr []transport.OutboundTransport
}

func (p *c14OutProv) OutboundTransports() []transport.OutboundTransport { return p.tr }
func (p *c14OutProv) TransportReturnRoute() string                       { return "" }

// the mediator's outbound: Forward / Send are the real dispatcher, SendToDID is recorded
type c14Outbound struct {
	d    *outbound.Dispatcher
	resp []interface{}
}

func (o *c14Outbound) Send(m interface{}, k string, d *service.Destination) error { return o.d.Send(m, k, d) }
func (o *c14Outbound) Forward(m interface{}, d *service.Destination) error        { return o.d.Forward(m, d) }
func (o *c14Outbound) SendToDID(m interface{}, _, _ string) error {
	o.resp = append(o.resp, m)
	return nil
}

// ---- agents ----------------------------------------------------------------------------------------------------------

type c14Agent struct {
	name   string
	p      *envParty
	key    string // the key in the form used in destinations of this profile (did:key or keyAgreement id)
	regKey string // the form a client registers with its router / a forward carries in `to`
	did    string
	uri    string
	pkgr   transport.Packager
	disp   *outbound.Dispatcher
	out    *c14Outbound
	med    *mediator.Service
	med2   *mediator.Service
	failPut bool
	pickup *messagepickup.Service
}

func (a *c14Agent) cdid() string { return "did:conn:" + a.name }

type c14World struct {
	profile, mtp, kt string
	legacy           bool
	sharedDID        bool
	bus              *c14Bus
	docs             map[string]*did.Doc
	agents           map[string]*c14Agent
	order            []string
	keyNames         map[string]string
}

func (w *c14World) registry() vdrapi.Registry {
	return &mockvdr.MockVDRegistry{ResolveFunc: func(id string, _ ...vdrapi.DIDMethodOption) (*did.DocResolution, error) {
		if d, ok := w.docs[id]; ok {
			return &did.DocResolution{DIDDocument: d}, nil
		}
		return nil, fmt.Errorf("did not found: %s", id)
	}}
}

func (w *c14World) addAgent(name string, p *envParty, withMediator bool) *c14Agent {
	a := &c14Agent{name: name, p: p, did: "did:test:" + name, uri: "ws://" + name}
	doc := &did.Doc{ID: a.did, Context: []string{"https://www.w3.org/ns/did/v1"}}
	switch {
	case w.legacy:
		dk, _ := fingerprint.CreateDIDKey(p.rawPub)
		a.key, a.regKey = dk, dk
		if w.profile == "indy" {
			a.regKey = base58.Encode(p.rawPub)
			doc.Service = []did.Service{{ID: a.did + "#svc", Type: "IndyAgent", RecipientKeys: []string{a.regKey},
				ServiceEndpoint: endpoint.NewDIDCommV1Endpoint(a.uri)}}
		} else {
			doc.Service = []did.Service{{ID: a.did + "#svc", Type: "did-communication", RecipientKeys: []string{dk},
				ServiceEndpoint: endpoint.NewDIDCommV1Endpoint(a.uri), Accept: []string{w.mtp}}}
		}
		w.keyNames[base58.Encode(p.rawPub)] = name
		w.keyNames[dk] = name
	case w.profile == "v2":
		id := a.did + "#key-1"
		kaDID := a.did
		if w.sharedDID && !strings.HasPrefix(name, "M") && name != "S" {
			// the clients' keys are key agreement methods of ONE DID (devices of one organisation): key ids that differ in
			// the fragment only are different keys, and different routes
			kaDID = "did:test:org"
			id = kaDID + "#" + name
		}
		ka, err := envKeyAgreement(p, w.kt, kaDID, id)
		if err != nil {
			panic(err)
		}
		if kaDID != a.did {
			org := w.docs[kaDID]
			if org == nil {
				org = &did.Doc{ID: kaDID, Context: []string{"https://www.w3.org/ns/did/v1"}}
				w.docs[kaDID] = org
			}
			org.KeyAgreement = append(org.KeyAgreement, *ka)
		}
		doc.KeyAgreement = []did.Verification{*ka}
		doc.Service = []did.Service{{ID: a.did + "#svc", Type: "DIDCommMessaging",
			ServiceEndpoint: endpoint.NewDIDCommV2Endpoint([]endpoint.DIDCommV2Endpoint{{URI: a.uri, Accept: []string{w.mtp}}})}}
		a.key, a.regKey = id, id
		w.keyNames[id] = name
	default:
		a.key, a.regKey = p.didKey, p.didKey
		doc.Service = []did.Service{{ID: a.did + "#svc", Type: "did-communication", RecipientKeys: []string{p.didKey},
			ServiceEndpoint: endpoint.NewDIDCommV1Endpoint(a.uri), Accept: []string{w.mtp}}}
		w.keyNames[p.didKey] = name
	}
	w.docs[a.did] = doc
	// the DID under which the agent is CONNECTED to a mediator is a pairwise one: not the DID its key ids live under
	cd := *doc
	cd.ID = a.cdid()
	w.docs[a.cdid()] = &cd
	w.agents[name] = a
	w.order = append(w.order, name)
	_ = withMediator
	return a
}

func (w *c14World) wire(a *c14Agent, withMediator bool) error {
	reg := w.registry()
	pp := &mockprovider.Provider{KMSValue: a.p.kms, CryptoValue: envCrypto, StorageProviderValue: mem.NewProvider(),
		VDRegistryValue: reg}
	la, ln := legacyauth.New(pp), legacyanon.New(pp)
	aj, err := authcrypt.New(pp, jose.XC20P)
	if err != nil {
		return err
	}
	nj, err := anoncrypt.New(pp, jose.XC20P)
	if err != nil {
		return err
	}
	var primary packer.Packer = la
	if !w.legacy {
		primary = aj
	}
	pk, err := packager.New(&mockprovider.Provider{PackerList: []packer.Packer{la, ln, aj, nj}, PackerValue: primary,
		VDRegistryValue: reg})
	if err != nil {
		return err
	}
	a.pkgr = pk
	var store spistorage.Provider = &c14FaultProv{Provider: mem.NewProvider(), failPut: &a.failPut}
	pstore := mem.NewProvider()
	a.disp, err = outbound.NewOutbound(&c14OutProv{Provider: &mockprovider.Provider{PackagerValue: pk, VDRegistryValue: reg,
		KMSValue: a.p.kms, StorageProviderValue: store, ProtocolStateStorageProviderValue: pstore,
		MediaTypeProfilesValue: []string{w.mtp}}, tr: []transport.OutboundTransport{&c14Transport{w.bus}}})
	if err != nil {
		return err
	}
	if !withMediator {
		return nil
	}
	a.out = &c14Outbound{d: a.disp}
	a.pickup, err = messagepickup.New(&mockprovider.Provider{StorageProviderValue: store,
		ProtocolStateStorageProviderValue: pstore, OutboundDispatcherValue: a.out, PackagerValue: pk})
	if err != nil {
		return err
	}
	a.med, err = mediator.New(&mockprovider.Provider{StorageProviderValue: store, ProtocolStateStorageProviderValue: pstore,
		OutboundDispatcherValue: a.out, KMSValue: a.p.kms, VDRegistryValue: reg,
		ServiceMap:             map[string]interface{}{messagepickup.MessagePickup: a.pickup},
		MediaTypeProfilesValue: []string{w.mtp}, ServiceEndpointValue: a.uri})
	if err != nil {
		return err
	}
	// a second instance of the mediator service over the SAME stores (a second process of the mediator, or the service
	// after a restart): what one instance registered is what the other one routes by
	a.med2, err = mediator.New(&mockprovider.Provider{StorageProviderValue: store, ProtocolStateStorageProviderValue: pstore,
		OutboundDispatcherValue: a.out, KMSValue: a.p.kms, VDRegistryValue: reg,
		ServiceMap:             map[string]interface{}{messagepickup.MessagePickup: a.pickup},
		MediaTypeProfilesValue: []string{w.mtp}, ServiceEndpointValue: a.uri})
	return err
}

// the mediators' storage: writes can be made to fail (a storage fault exactly during a keylist update)
type c14FaultProv struct {
	spistorage.Provider
	failPut *bool
}

func (p *c14FaultProv) OpenStore(name string) (spistorage.Store, error) {
	st, err := p.Provider.OpenStore(name)
	if err != nil {
		return nil, err
	}
	return &c14FaultStore{Store: st, failPut: p.failPut}, nil
}

type c14FaultStore struct {
	spistorage.Store
	failPut *bool
}

func (s *c14FaultStore) Put(k string, v []byte, tags ...spistorage.Tag) error {
	if *s.failPut {
		return errors.New("storage fault")
	}
	return s.Store.Put(k, v, tags...)
}

func c14Msg(m interface{}) service.DIDCommMsgMap {
	b, _ := json.Marshal(m)
	mm, err := service.ParseDIDCommMsgMap(b)
	if err != nil {
		panic(err)
	}
	return mm
}

// keylist update of `client` for `key` at mediator `m`; returns the result string of the response
func (w *c14World) keylist(m *c14Agent, client *c14Agent, key, action string, seq int) string {
	return w.keylistVia(m.med, m, client, key, action, seq)
}

func (w *c14World) keylistVia(med *mediator.Service, m *c14Agent, client *c14Agent, key, action string, seq int) string {
	m.out.resp = nil
	err := med.VerifHandleKeylistUpdate(c14Msg(map[string]interface{}{
		"@id": fmt.Sprintf("ku%d", seq), "@type": mediator.KeylistUpdateMsgType,
		"updates": []map[string]string{{"recipient_key": key, "action": action}},
	}), m.did, client.cdid())
	if err != nil {
		return "err"
	}
	if len(m.out.resp) != 1 {
		return fmt.Sprintf("ok:responses=%d", len(m.out.resp))
	}
	b, _ := json.Marshal(m.out.resp[0])
	var r struct {
		Updated []struct {
			Result string `json:"result"`
		} `json:"updated"`
	}
	_ = json.Unmarshal(b, &r)
	if len(r.Updated) != 1 {
		return fmt.Sprintf("ok:updated=%d", len(r.Updated))
	}
	return "ok:" + r.Updated[0].Result
}

// who of all agents can open `data` (sorted names); the opened plaintext of `who` is returned too
func (w *c14World) openers(data []byte, who string) (string, []byte) {
	var names []string
	var plain []byte
	for _, n := range w.order {
		a := w.agents[n]
		env, err := a.pkgr.UnpackMessage(data)
		if err != nil {
			continue
		}
		names = append(names, n)
		if n == who {
			plain = env.Message
		}
	}
	if len(names) == 0 {
		return "-", nil
	}
	sort.Strings(names)
	return strings.Join(names, "+"), plain
}

func (w *c14World) agentByURI(uri string) *c14Agent {
	for _, a := range w.agents {
		if a.uri == uri {
			return a
		}
	}
	return nil
}

// hand `data` (as it left a transport) to mediator m: unpack, run the forward handler; describes the layer
func (w *c14World) hop(m *c14Agent, data []byte, heldBefore map[string]int) (desc string, next *c14Sent, held string) {
	open, plain := w.openers(data, m.name)
	if plain == nil {
		return fmt.Sprintf("open=%s,to=-,leak=0,next=err", open), nil, ""
	}
	leak := "0"
	if bytes.Contains(plain, []byte(c14Marker)) || bytes.Contains(plain, []byte(base64.StdEncoding.EncodeToString([]byte(c14Marker)))) {
		leak = "1"
	}
	var f struct {
		Type string `json:"@type"`
		TypV string `json:"type"`
		To   string `json:"to"`
	}
	_ = json.Unmarshal(plain, &f)
	to := w.keyNames[f.To]
	if to == "" {
		to = "?"
	}
	msg, err := service.ParseDIDCommMsgMap(plain)
	if err != nil {
		return fmt.Sprintf("open=%s,to=%s,leak=%s,next=unparsable", open, to, leak), nil, ""
	}
	before := len(w.bus.log)
	err = m.med.VerifHandleForward(msg)
	nx := "err"
	if err == nil {
		if len(w.bus.log) == before+1 {
			s := w.bus.log[before]
			next = &s
			if a := w.agentByURI(s.uri); a != nil {
				nx = "sent:" + a.name
			} else {
				nx = "sent:?"
			}
		} else {
			// held for pickup: find whose inbox grew
			nx = "held:?"
			for _, n := range w.order {
				c := w.inboxCount(m, w.agents[n].cdid())
				if c > heldBefore[m.name+"/"+n] {
					nx = "held:" + n
					held = n
				}
			}
		}
	}
	return fmt.Sprintf("open=%s,to=%s,leak=%s,next=%s", open, to, leak, nx), next, held
}

func (w *c14World) inboxCount(m *c14Agent, theirDID string) int {
	if m.pickup == nil {
		return 0
	}
	m.out.resp = nil
	if err := m.pickup.VerifHandleStatusRequest(c14Msg(map[string]interface{}{"@id": "st", "@type": messagepickup.StatusRequestMsgType,
		"~thread": map[string]interface{}{"thid": "t"}}), m.did, theirDID); err != nil {
		return 0
	}
	if len(m.out.resp) != 1 {
		return 0
	}
	b, _ := json.Marshal(m.out.resp[0])
	var s struct {
		Count int `json:"message_count"`
	}
	_ = json.Unmarshal(b, &s)
	return s.Count
}

func (w *c14World) heldSnapshot(meds []*c14Agent) map[string]int {
	snap := map[string]int{}
	for _, m := range meds {
		for _, n := range w.order {
			snap[m.name+"/"+n] = w.inboxCount(m, w.agents[n].cdid())
		}
	}
	return snap
}

func c14Payload(id string) map[string]interface{} {
	return map[string]interface{}{"@id": id, "@type": "https://didcomm.org/basicmessage/1.0/message",
		"content": c14Marker + "-" + id}
}

func c14PayloadID(plain []byte) string {
	var m struct {
		ID  string `json:"@id"`
		ID2 string `json:"id"`
	}
	if json.Unmarshal(plain, &m) != nil {
		return "?"
	}
	if m.ID != "" {
		return m.ID
	}
	if m.ID2 != "" {
		return m.ID2
	}
	return "?"
}

func c14Run(input string) string {
	parts := strings.SplitN(input, "|", 2)
	cf := strings.Split(parts[0], ",")
	if len(parts) != 2 || len(cf) != 5 {
		return "bad-input"
	}
	profile, kt := cf[0], cf[1]
	n, _ := strconv.Atoi(cf[2])
	nrec, _ := strconv.Atoi(cf[3])
	auth := cf[4] == "1"
	mtp, ok := c14Profiles[profile]
	if !ok || n < 0 || n > 8 || nrec < 1 || nrec > 2 {
		return "bad-input"
	}
	legacy := profile == "indy" || profile == "aip1" || profile == "aip219"
	if legacy != (kt == "ed") {
		return "bad-input"
	}
	w := &c14World{profile: profile, mtp: mtp, kt: kt, legacy: legacy, bus: &c14Bus{offline: map[string]bool{}},
		docs: map[string]*did.Doc{}, agents: map[string]*c14Agent{}, keyNames: map[string]string{},
		sharedDID: profile == "v2" && len(input)%3 != 0}
	pool := envParties(kt, 14)
	// agents: S, c0 (R), Rb (second device of the recipient), c1, c2, O (owner of k3, not a client), M1..Mn (at least M1)
	names := []string{"S", "c0", "Rb", "c1", "c2", "O"}
	nm := n
	if nm < 1 {
		nm = 1
	}
	for i := 1; i <= nm; i++ {
		names = append(names, fmt.Sprintf("M%d", i))
	}
	for i, nme := range names {
		w.addAgent(nme, pool[i], strings.HasPrefix(nme, "M"))
	}
	for _, nme := range names {
		if err := w.wire(w.agents[nme], strings.HasPrefix(nme, "M")); err != nil {
			return "setup-error " + err.Error()
		}
	}
	var meds []*c14Agent
	for i := 1; i <= nm; i++ {
		meds = append(meds, w.agents[fmt.Sprintf("M%d", i)])
	}
	// honest registrations up the chain: M(i-1) is a client of M(i)
	for i := 2; i <= nm; i++ {
		if r := w.keylist(meds[i-1], meds[i-2], meds[i-2].regKey, "add", 0); r != "ok:success" {
			return "setup-error keylist " + r
		}
	}
	keys := map[string]*c14Agent{"k0": w.agents["c0"], "k1": w.agents["c1"], "k2": w.agents["c2"], "k3": w.agents["O"]}
	w.keyNames[w.agents["c0"].regKey] = "k0"
	w.keyNames[w.agents["c0"].key] = "k0"
	S, M1 := w.agents["S"], meds[0]
	var outs []string
	var sendDes *service.Destination
	seq := 0
	for _, op := range strings.Split(parts[1], ";") {
		f := strings.Split(op, " ")
		seq++
		switch {
		case (f[0] == "add" || f[0] == "rem") && len(f) == 3 && w.agents[f[1]] != nil && keys[f[2]] != nil:
			action := "add"
			if f[0] == "rem" {
				action = "remove"
			}
			outs = append(outs, w.keylist(M1, w.agents[f[1]], keys[f[2]].regKey, action, seq))
		case f[0] == "addf" && len(f) == 3 && w.agents[f[1]] != nil && keys[f[2]] != nil:
			// the registration meets a storage fault: the client is told so, and nothing about the route changes
			M1.failPut = true
			outs = append(outs, w.keylist(M1, w.agents[f[1]], keys[f[2]].regKey, "add", seq))
			M1.failPut = false
		case f[0] == "addb" && len(f) == 3 && w.agents[f[1]] != nil && keys[f[2]] != nil:
			// the registration arrives at the mediator's second instance
			outs = append(outs, w.keylistVia(M1.med2, M1, w.agents[f[1]], keys[f[2]].regKey, "add", seq))
		case (f[0] == "off" || f[0] == "on") && len(f) == 2 && w.agents[f[1]] != nil:
			w.bus.offline[w.agents[f[1]].uri] = f[0] == "off"
			outs = append(outs, "ok")
		case f[0] == "send" && len(f) == 1:
			id := fmt.Sprintf("m%d", seq)
			R := w.agents["c0"]
			// ONE Destination value serves every send of the history (as the destination resolved once from a DID document
			// does); its key lists are collected with append, so they have spare capacity
			des := sendDes
			if des == nil {
				des = &service.Destination{RecipientKeys: append(make([]string, 0, 8), R.key), MediaTypeProfiles: []string{mtp}}
				if nrec == 2 {
					des.RecipientKeys = append(des.RecipientKeys, w.agents["Rb"].key)
				}
				rks := make([]string, 0, 8)
				for i := 0; i < n; i++ {
					rks = append(rks, meds[i].key)
				}
				firstHop := R
				if n > 0 {
					firstHop = meds[n-1]
				}
				if profile == "v2" && len(input)%2 == 0 {
					// the destination as it is CREATED FROM THE RECIPIENT'S DID DOCUMENT: a DIDComm V2 service block whose
					// endpoint lists the routing keys and - as the specification allows - no `accept`
					doc := &did.Doc{ID: R.did, Context: []string{"https://www.w3.org/ns/did/v1"}}
					doc.KeyAgreement = append(doc.KeyAgreement, w.docs[R.did].KeyAgreement...)
					if nrec == 2 {
						doc.KeyAgreement = append(doc.KeyAgreement, w.docs[w.agents["Rb"].did].KeyAgreement...)
					}
					doc.Service = []did.Service{{ID: R.did + "#svc", Type: "DIDCommMessaging", Accept: []string{mtp},
						ServiceEndpoint: endpoint.NewDIDCommV2Endpoint([]endpoint.DIDCommV2Endpoint{{URI: firstHop.uri, RoutingKeys: rks}})}}
					if d2, err := service.CreateDestination(doc); err == nil {
						des = d2
					} else {
						des.ServiceEndpoint = endpoint.NewDIDCommV2Endpoint([]endpoint.DIDCommV2Endpoint{{URI: firstHop.uri,
							Accept: []string{mtp}, RoutingKeys: rks}})
					}
				} else if profile == "v2" {
					des.ServiceEndpoint = endpoint.NewDIDCommV2Endpoint([]endpoint.DIDCommV2Endpoint{{URI: firstHop.uri,
						Accept: []string{mtp}, RoutingKeys: rks}})
				} else {
					des.ServiceEndpoint = endpoint.NewDIDCommV1Endpoint(firstHop.uri)
					des.RoutingKeys = rks
				}
				sendDes = des
			}
			sender := ""
			if auth {
				sender = S.key
			}
			before := len(w.bus.log)
			if err := S.disp.Send(c14Payload(id), sender, des); err != nil || len(w.bus.log) != before+1 {
				outs = append(outs, "send=err")
				continue
			}
			items := []string{"send=ok"}
			cur := &w.bus.log[before]
			got := ""
			for i := n; i >= 1 && cur != nil; i-- {
				m := w.agentByURI(cur.uri)
				if m == nil || m.med == nil {
					items = append(items, fmt.Sprintf("L%d:misrouted", i))
					cur = nil
					break
				}
				snap := w.heldSnapshot([]*c14Agent{m})
				desc, next, held := w.hop(m, cur.data, snap)
				items = append(items, fmt.Sprintf("L%d:%s", i, desc))
				cur = next
				if held != "" {
					got = "inbox:" + held
				}
			}
			if cur != nil {
				a := w.agentByURI(cur.uri)
				open, plain := w.openers(cur.data, "c0")
				pl := "0"
				if plain != nil && c14PayloadID(plain) == id && bytes.Contains(plain, []byte(c14Marker+"-"+id)) {
					pl = "1"
				}
				nme := "?"
				if a != nil {
					nme = a.name
				}
				items = append(items, fmt.Sprintf("final:got=%s,open=%s,payload=%s", nme, open, pl))
			} else if got != "" {
				items = append(items, "final:got="+got)
			} else {
				items = append(items, "final:lost")
			}
			outs = append(outs, strings.Join(items, " "))
		case f[0] == "fwd" && len(f) == 2 && keys[f[1]] != nil:
			// a sender packs a message for the owner of K and addresses a forward for K to M1 (one routing key)
			id := fmt.Sprintf("m%d", seq)
			owner := keys[f[1]]
			des := &service.Destination{RecipientKeys: []string{owner.key}, MediaTypeProfiles: []string{mtp}}
			if profile == "v2" {
				des.ServiceEndpoint = endpoint.NewDIDCommV2Endpoint([]endpoint.DIDCommV2Endpoint{{URI: M1.uri,
					Accept: []string{mtp}, RoutingKeys: []string{M1.key}}})
			} else {
				des.ServiceEndpoint = endpoint.NewDIDCommV1Endpoint(M1.uri)
				des.RoutingKeys = []string{M1.key}
			}
			before := len(w.bus.log)
			if err := S.disp.Send(c14Payload(id), "", des); err != nil || len(w.bus.log) != before+1 {
				outs = append(outs, "send=err")
				continue
			}
			snap := w.heldSnapshot([]*c14Agent{M1})
			desc, next, _ := w.hop(M1, w.bus.log[before].data, snap)
			nx := desc[strings.Index(desc, "next=")+5:]
			if next != nil {
				open, _ := w.openers(next.data, "")
				nx += ":open=" + open
			}
			outs = append(outs, nx)
		case f[0] == "pick" && len(f) == 2 && w.agents[f[1]] != nil:
			c := w.agents[f[1]]
			M1.out.resp = nil
			err := M1.pickup.VerifHandleBatchPickup(c14Msg(map[string]interface{}{"@id": fmt.Sprintf("bp%d", seq),
				"@type": messagepickup.BatchPickupMsgType, "batch_size": 100}), M1.did, c.cdid())
			if err != nil || len(M1.out.resp) != 1 {
				outs = append(outs, "err")
				continue
			}
			b, _ := json.Marshal(M1.out.resp[0])
			var batch struct {
				Msgs []struct {
					Msg []byte `json:"msg"`
				} `json:"messages~attach"`
			}
			_ = json.Unmarshal(b, &batch)
			var ids []string
			for _, x := range batch.Msgs {
				env, err := c.pkgr.UnpackMessage(x.Msg)
				if err != nil {
					ids = append(ids, "x")
					continue
				}
				ids = append(ids, c14PayloadID(env.Message))
			}
			if len(ids) == 0 {
				ids = []string{"-"}
			}
			outs = append(outs, "batch:"+strings.Join(ids, ","))
		default:
			return "bad-op " + op
		}
	}
	return strings.Join(outs, "|")
}

func c14Gen(r *Rng, tier string) []string {
	n := 160
	if tier == "thorough" {
		n = 4000
	}
	var out []string
	for i := 0; i < n; i++ {
		profile := r.Pick([]string{"indy", "aip1", "aip219", "aip2587", "aip2587", "v2", "v2"})
		kt := "ed"
		if profile == "aip2587" || profile == "v2" {
			kt = r.Pick([]string{"x25519", "x25519", "p256", "p384", "p521"})
		}
		chain := r.N(5)
		if r.N(10) == 0 {
			chain = 5 + r.N(2)
		}
		cfg := fmt.Sprintf("%s,%s,%d,%d,%d", profile, kt, chain, 1+r.N(2), r.N(2))
		var ops []string
		if r.N(4) != 0 {
			ops = append(ops, "add c0 k0") // the usual honest start
		}
		k := 2 + r.N(7)
		for j := 0; j < k; j++ {
			c := r.Pick([]string{"c0", "c1", "c2"})
			key := r.Pick([]string{"k0", "k0", "k1", "k2", "k3"})
			switch x := r.N(20); {
			case x < 4:
				ops = append(ops, "add "+c+" "+key)
			case x < 5:
				ops = append(ops, r.Pick([]string{"addf", "addb", "addb"})+" "+c+" "+key)
			case x < 6:
				ops = append(ops, "rem "+c+" "+key)
			case x < 8:
				ops = append(ops, "off "+c)
			case x < 9:
				ops = append(ops, "on "+c)
			case x < 13:
				ops = append(ops, "send")
			case x < 17:
				ops = append(ops, "fwd "+key)
			default:
				ops = append(ops, "pick "+c)
			}
		}
		if r.N(2) == 0 {
			ops = append(ops, "send")
		}
		out = append(out, cfg+"|"+strings.Join(ops, ";"))
	}
	return out
}

func init() {
	register("C14", &Prop{Gen: c14Gen, Run: c14Run})
}
