package main

// C20: Presentation Exchange — what the holder side builds is accepted by the verifier side, and only matching
// credentials are included.
//
// input  := "D:" desc;desc.. "|R:" reqs "|C:" cred;cred..
//   desc := ID/GROUPS/KIND/ATTR/VAL     GROUPS: letters A..C or "-" ; KIND: e (field exists) | c (string const) |
//           C | P | M (the c / p / m filter on an OPTIONAL field next to "a0 exists"; makes the definition version 2) |
//           p (pattern ^VAL) | m (number minimum VAL) | n (no constraints.fields at all: subject_is_issuer only)
//   reqs := "-" (no submission requirements) | req+req..
//   req  := RULE(GROUP;k=v;..) | RULE[req,req;k=v;..]      RULE: all | pick ; k: count | min | max
//   cred := ID/attr=val,attr=val        numeric values are JSON numbers
// output := holder "|" verifier
//   holder   := vp D:C,D:C..  (descriptor map of the created presentation, sorted) | nocreds | err <class>
//   verifier := ok D,D.. (descriptor ids returned by Match) | reject | -

import (
	"encoding/json"
	"errors"
	"fmt"
	"os"
	"sort"
	"strconv"
	"strings"
	"time"

	"github.com/piprate/json-gold/ld"

	"github.com/hyperledger/aries-framework-go/component/models/ld/testutil"
	"github.com/hyperledger/aries-framework-go/component/models/presexch"
	utiltime "github.com/hyperledger/aries-framework-go/component/models/util/time"
	"github.com/hyperledger/aries-framework-go/component/models/verifiable"
	"github.com/hyperledger/aries-framework-go/pkg/wallet"
)

var c20Loader ld.DocumentLoader

func c20Setup() {
	l, err := testutil.DocumentLoader()
	if err != nil {
		panic(err)
	}
	c20Loader = l
}

// parse "all(A;count=1)" / "pick[...;min=1]" into the JSON of a submission requirement
func c20ParseReq(s string) (map[string]interface{}, string, error) {
	var rule string
	switch {
	case strings.HasPrefix(s, "all"):
		rule = "all"
	case strings.HasPrefix(s, "pick"):
		rule = "pick"
	default:
		return nil, s, fmt.Errorf("bad rule at %q", s)
	}
	s = s[len(rule):]
	out := map[string]interface{}{"rule": rule}
	applyKV := func(kvs string) {
		for _, kv := range strings.Split(kvs, ";") {
			p := strings.SplitN(kv, "=", 2)
			if len(p) == 2 {
				n, _ := strconv.Atoi(p[1])
				out[p[0]] = n
			}
		}
	}
	if strings.HasPrefix(s, "(") {
		end := strings.Index(s, ")")
		body := s[1:end]
		parts := strings.SplitN(body, ";", 2)
		out["from"] = parts[0]
		if len(parts) == 2 {
			applyKV(parts[1])
		}
		return out, s[end+1:], nil
	}
	if strings.HasPrefix(s, "[") {
		s = s[1:]
		var nested []interface{}
		for {
			r, rest, err := c20ParseReq(s)
			if err != nil {
				return nil, s, err
			}
			nested = append(nested, r)
			s = rest
			if strings.HasPrefix(s, ",") {
				s = s[1:]
				continue
			}
			break
		}
		out["from_nested"] = nested
		end := strings.Index(s, "]")
		if end < 0 {
			return nil, s, fmt.Errorf("missing ]")
		}
		if end > 0 {
			applyKV(strings.TrimPrefix(s[:end], ";"))
		}
		return out, s[end+1:], nil
	}
	return nil, s, fmt.Errorf("bad requirement at %q", s)
}

func c20Run(input string) string {
	parts := strings.Split(input, "|")
	if len(parts) == 2 && parts[0] == "bbs" {
		return c20RunBBS(parts[1]) // BBS+ credentials under limit_disclosure (c20bbs.go)
	}
	if len(parts) != 3 {
		return "bad-input"
	}
	if parts[0] == "bbs2" {
		return c20RunBBS2(parts[1], parts[2])
	}
	if parts[0] == "sd" {
		return c20RunSD(parts[1], parts[2]) // SD-JWT credentials under limit_disclosure (c20sd.go)
	}
	// definition
	var descs []interface{}
	descAttr := map[string]string{}
	v2 := false
	for _, d := range strings.Split(strings.TrimPrefix(parts[0], "D:"), ";") {
		f := strings.Split(d, "/")
		descAttr[f[0]] = f[3]
		desc := map[string]interface{}{"id": f[0], "name": f[0], "purpose": "p",
			"schema": []interface{}{map[string]interface{}{"uri": "https://www.w3.org/2018/credentials#VerifiableCredential"}}}
		if len(f) == 6 {
			// schema lists with a second entry: s1 = [any credential, degree REQUIRED], s2 = [degree REQUIRED, any credential],
			// s3 = [degree, any credential] (nothing required)
			vcS := map[string]interface{}{"uri": "https://www.w3.org/2018/credentials#VerifiableCredential"}
			deg := map[string]interface{}{"uri": "https://example.org/examples#UniversityDegreeCredential"}
			switch f[5] {
			case "f1": // format requirements on the descriptor (a version 2 feature): JWT credentials signed with EdDSA
				v2 = true
				desc["format"] = map[string]interface{}{"jwt_vc": map[string]interface{}{"alg": []string{"EdDSA"}}}
			case "f2": // credentials with an Ed25519Signature2018 linked data proof
				v2 = true
				desc["format"] = map[string]interface{}{"ldp_vc": map[string]interface{}{"proof_type": []string{"Ed25519Signature2018"}}}
			case "f3": // JWT credentials signed with ES256 (the harness has none)
				v2 = true
				desc["format"] = map[string]interface{}{"jwt_vc": map[string]interface{}{"alg": []string{"ES256"}}}
			case "s1":
				deg["required"] = true
				desc["schema"] = []interface{}{vcS, deg}
			case "s2":
				deg["required"] = true
				desc["schema"] = []interface{}{deg, vcS}
			case "s3":
				desc["schema"] = []interface{}{deg, vcS}
			default:
				return "bad-input"
			}
		}
		if f[1] != "-" {
			var gs []string
			for _, g := range f[1] {
				gs = append(gs, string(g))
			}
			desc["group"] = gs
		}
		field := map[string]interface{}{"path": []string{"$." + f[3]}}
		// upper case kinds: the same filter on an OPTIONAL field (absent is fine, present must pass the filter), next to
		// a required field (attribute a0 exists). Optional fields belong to version 2 definitions: no `schema` member.
		optional := f[2] == "C" || f[2] == "P" || f[2] == "M"
		if optional {
			field["optional"] = true
			f[2] = strings.ToLower(f[2])
			v2 = true
		}
		switch f[2] {
		case "c":
			field["filter"] = map[string]interface{}{"type": "string", "const": f[4]}
		case "p":
			field["filter"] = map[string]interface{}{"type": "string", "pattern": "^" + f[4]}
		case "m", "q":
			n, _ := strconv.Atoi(f[4])
			field["filter"] = map[string]interface{}{"type": "number", "minimum": n}
			if f[2] == "q" {
				// the verifier only learns WHETHER the value passes the filter
				field["predicate"] = "required"
			}
		}
		switch {
		case f[2] == "n":
			desc["constraints"] = map[string]interface{}{"subject_is_issuer": "preferred"}
		case optional:
			desc["constraints"] = map[string]interface{}{"fields": []interface{}{map[string]interface{}{"path": []string{"$.a0"}}, field}}
		default:
			desc["constraints"] = map[string]interface{}{"fields": []interface{}{field}}
		}
		descs = append(descs, desc)
	}
	if v2 {
		for _, d := range descs {
			delete(d.(map[string]interface{}), "schema")
		}
	}
	def := map[string]interface{}{"id": "def1", "input_descriptors": descs}
	if r := strings.TrimPrefix(parts[1], "R:"); r != "-" {
		var reqs []interface{}
		for _, rs := range strings.Split(r, "+") {
			req, rest, err := c20ParseReq(rs)
			if err != nil || rest != "" {
				return "bad-req"
			}
			reqs = append(reqs, req)
		}
		def["submission_requirements"] = reqs
	}
	db, _ := json.Marshal(def)
	pd := &presexch.PresentationDefinition{}
	if err := json.Unmarshal(db, pd); err != nil {
		return "bad-def " + err.Error()
	}
	// credentials
	var creds []*verifiable.Credential
	if cs := strings.TrimPrefix(parts[2], "C:"); cs != "" {
		for _, c := range strings.Split(cs, ";") {
			f := strings.SplitN(c, "/", 2)
			custom := map[string]interface{}{}
			if len(f) == 2 && f[1] != "" {
				for _, kv := range strings.Split(f[1], ",") {
					p := strings.SplitN(kv, "=", 2)
					if n, err := strconv.Atoi(p[1]); err == nil {
						custom[p[0]] = n
					} else {
						custom[p[0]] = p[1]
					}
				}
			}
			ctxs, types := []string{verifiable.ContextURI}, []string{verifiable.VCType}
			if strings.HasPrefix(f[0], "g") { // a degree credential
				ctxs = append(ctxs, "https://www.w3.org/2018/credentials/examples/v1")
				types = append(types, "UniversityDegreeCredential")
			}
			cred := &verifiable.Credential{
				Context:      ctxs,
				Types:        types,
				ID:           "urn:cred:" + f[0],
				Subject:      []verifiable.Subject{{ID: "did:example:holder"}},
				Issuer:       verifiable.Issuer{ID: "did:example:issuer"},
				Issued:       utiltime.NewTime(time.Date(2020, 1, 1, 0, 0, 0, 0, time.UTC)),
				CustomFields: custom,
			}
			switch {
			case strings.HasPrefix(f[0], "j"):
				// the credential in its JWT form (EdDSA)
				if c07E == nil {
					c07Setup()
				}
				claims, err := cred.JWTClaims(false)
				if err != nil {
					return "bad-cred jwt claims"
				}
				tok, err := claims.MarshalJWS(verifiable.EdDSA, c07JWTSigner{c07E.handles["ed"]}, "did:example:issuer#key-1")
				if err != nil {
					return "bad-cred jws"
				}
				cred, err = verifiable.ParseCredential([]byte(tok), verifiable.WithDisabledProofCheck(), verifiable.WithJSONLDDocumentLoader(c20Loader),
					verifiable.WithCredDisableValidation())
				if err != nil {
					return "bad-cred parse jwt"
				}
			case strings.HasPrefix(f[0], "l"):
				// a linked data proof (its value is never looked at here: proof checks are off on both sides)
				cred.Proofs = []verifiable.Proof{{"type": "Ed25519Signature2018", "created": "2020-01-02T00:00:00Z",
					"verificationMethod": "did:example:issuer#key-1", "proofPurpose": "assertionMethod", "proofValue": "c2lnbmF0dXJl"}}
			}
			creds = append(creds, cred)
		}
	}
	vp, err := pd.CreateVP(creds, c20Loader, verifiable.WithJSONLDDocumentLoader(c20Loader))
	if err != nil {
		if errors.Is(err, presexch.ErrNoCredentials) {
			return "nocreds|-"
		}
		if os.Getenv("VERIF_TRACE") != "" {
			fmt.Fprintln(os.Stderr, "createvp error:", err)
		}
		return "err " + strings.SplitN(err.Error(), ":", 2)[0] + "|-"
	}
	// descriptor map of a created presentation
	render := func(vp *verifiable.Presentation) (string, bool) {
		sub, ok := vp.CustomFields["presentation_submission"].(*presexch.PresentationSubmission)
		if !ok {
			return "", false
		}
		var pairs []string
		for _, m := range sub.DescriptorMap {
			// path "$.verifiableCredential[i]" selects the i-th credential of the presentation
			idx := -1
			p := m.Path
			if m.PathNested != nil {
				p = m.PathNested.Path
			}
			if i := strings.Index(p, "["); i >= 0 {
				idx, _ = strconv.Atoi(strings.TrimSuffix(p[i+1:], "]"))
			}
			cid := "?"
			shown := "?"
			if idx >= 0 && idx < len(vp.Credentials()) {
				vc, ok := vp.Credentials()[idx].(*verifiable.Credential)
				if tok, isJWT := vp.Credentials()[idx].(string); isJWT {
					if pv, err := verifiable.ParseCredential([]byte(tok), verifiable.WithDisabledProofCheck(),
						verifiable.WithJSONLDDocumentLoader(c20Loader), verifiable.WithCredDisableValidation()); err == nil {
						vc, ok = pv, true
					}
				}
				if ok {
					cid = strings.TrimPrefix(vc.ID, "urn:cred:")
					// tmp ids of rewritten (predicate / limited) credentials keep the original id as prefix or not at all
					if i := strings.Index(vc.ID, "urn:cred:"); i < 0 {
						cid = "tmp"
					}
					if v, has := vc.CustomFields[descAttr[m.ID]]; has {
						shown = fmt.Sprint(v)
					} else {
						shown = "absent"
					}
				}
			}
			pairs = append(pairs, m.ID+":"+cid+"["+shown+"]")
		}
		sort.Strings(pairs)
		return "vp " + strings.Join(pairs, ","), true
	}
	holder, ok := render(vp)
	if !ok {
		return "err no-submission|-"
	}
	// the wallet's query engine answers a LIST of definitions with one presentation each: asked for another definition
	// first (one of the descriptors, picked from a group) and then for this one, its second answer is what CreateVP
	// gives for this definition alone
	if len(descs) > 0 && !v2 {
		first := map[string]interface{}{"id": "other-definition", "input_descriptors": []interface{}{}}
		var fd []interface{}
		for _, d := range descs {
			c := map[string]interface{}{}
			for k, v := range d.(map[string]interface{}) {
				c[k] = v
			}
			c["group"] = []string{"Z"}
			fd = append(fd, c)
		}
		first["input_descriptors"] = fd
		first["submission_requirements"] = []interface{}{map[string]interface{}{"rule": "pick", "count": 1, "from": "Z"}}
		fb, _ := json.Marshal(first)
		rawCreds := map[string]json.RawMessage{}
		for _, c := range creds {
			if b, e := c.MarshalJSON(); e == nil {
				rawCreds[c.ID] = b
			}
		}
		res, qerr := wallet.NewQuery(nil, c20Loader, &wallet.QueryParams{Type: "PresentationExchange",
			Query: []json.RawMessage{fb, db}}).PerformQuery(rawCreds)
		if os.Getenv("VERIF_TRACE") != "" {
			fmt.Fprintln(os.Stderr, "walletquery:", qerr, len(res))
		}
		if qerr == nil && len(res) == 2 {
			if h2, ok2 := render(res[1]); !ok2 || h2 != holder {
				return "walletquery-differs: " + h2 + " instead of " + holder + "|-"
			}
		}
	}
	// verifier side, same definition; the presentation travels as JSON
	vpBytes, err := vp.MarshalJSON()
	if err != nil {
		return holder + "|err marshal"
	}
	vp2, err := verifiable.ParsePresentation(vpBytes, verifiable.WithPresDisabledProofCheck(),
		verifiable.WithPresJSONLDDocumentLoader(c20Loader))
	if err != nil {
		return holder + "|err parse-vp"
	}
	mopts := []presexch.MatchOption{presexch.WithCredentialOptions(verifiable.WithDisabledProofCheck(),
		verifiable.WithJSONLDDocumentLoader(c20Loader))}
	if v2 {
		mopts = append(mopts, presexch.WithDisableSchemaValidation())
	}
	matched, err := pd.Match([]*verifiable.Presentation{vp2}, c20Loader, mopts...)
	if err != nil {
		if os.Getenv("VERIF_TRACE") != "" {
			fmt.Fprintln(os.Stderr, "match error:", err)
		}
		return holder + "|reject"
	}
	var ids []string
	for id := range matched {
		ids = append(ids, id)
	}
	sort.Strings(ids)
	// the same answer as a LIST of presentations (one per credential) with the submission next to them: the verifier
	// matches it with the merged submission and finds the same descriptors
	if vps, sub, err := pd.CreateVPArray(creds, c20Loader, verifiable.WithJSONLDDocumentLoader(c20Loader)); err == nil {
		var parsed []*verifiable.Presentation
		for _, v := range vps {
			b, err := v.MarshalJSON()
			if err != nil {
				return holder + "|vparray marshal"
			}
			pv, err := verifiable.ParsePresentation(b, verifiable.WithPresDisabledProofCheck(), verifiable.WithPresJSONLDDocumentLoader(c20Loader))
			if err != nil {
				return holder + "|vparray parse"
			}
			parsed = append(parsed, pv)
		}
		m2, err := pd.Match(parsed, c20Loader, append(mopts, presexch.WithMergedSubmission(sub))...)
		if err != nil {
			if os.Getenv("VERIF_TRACE") != "" {
				fmt.Fprintln(os.Stderr, "vparray match error:", err)
			}
			return holder + fmt.Sprintf("|vparray-rejected (%d presentations)", len(vps))
		}
		var ids2 []string
		for id := range m2 {
			ids2 = append(ids2, id)
		}
		sort.Strings(ids2)
		if strings.Join(ids2, ",") != strings.Join(ids, ",") {
			return holder + "|vparray-differs " + strings.Join(ids2, ",")
		}
	} else {
		return holder + "|vparray-error"
	}
	// the holder-side report of what matches (MatchSubmissionRequirement): per requirement node, in pre-order, every
	// descriptor of the node with ALL credentials that satisfy it
	msr := "-"
	if !v2 {
		if reqs, err := pd.MatchSubmissionRequirement(creds, c20Loader); err != nil {
			msr = "err"
		} else {
			var nodes []string
			var walk func(r *presexch.MatchedSubmissionRequirement)
			walk = func(r *presexch.MatchedSubmissionRequirement) {
				var ds []string
				for _, d := range r.Descriptors {
					var cs []string
					for _, vc := range d.MatchedVCs {
						cid := "tmp"
						if i := strings.Index(vc.ID, "urn:cred:"); i >= 0 {
							cid = vc.ID[i+len("urn:cred:"):]
						}
						cs = append(cs, cid)
					}
					sort.Strings(cs)
					ds = append(ds, d.ID+"="+strings.Join(cs, "+"))
				}
				nodes = append(nodes, strings.Join(ds, ","))
				for _, n := range r.Nested {
					walk(n)
				}
			}
			for _, r := range reqs {
				walk(r)
			}
			msr = strings.Join(nodes, ";")
		}
	}
	return holder + "|ok " + strings.Join(ids, ",") + "|msr " + msr
}

func c20GenReq(r *Rng, depth int) string {
	rule := "all"
	kv := ""
	if r.N(3) > 0 {
		rule = "pick"
		switch r.N(4) {
		case 0:
			kv = fmt.Sprintf(";count=%d", 1+r.N(2))
		case 1:
			kv = fmt.Sprintf(";min=%d", 1+r.N(2))
		case 2:
			kv = fmt.Sprintf(";max=%d", 1+r.N(2))
		default:
			kv = fmt.Sprintf(";min=%d;max=%d", 1, 1+r.N(3))
		}
	}
	if depth > 0 && r.N(2) == 0 {
		n := 2 + r.N(2)
		var kids []string
		for i := 0; i < n; i++ {
			kids = append(kids, c20GenReq(r, depth-1))
		}
		return rule + "[" + strings.Join(kids, ",") + kv + "]"
	}
	return rule + "(" + []string{"A", "B", "C"}[r.N(3)] + kv + ")"
}

func c20Gen(r *Rng, tier string) []string {
	n := 6000
	if tier == "thorough" {
		n = 100000
	}
	attrs := []string{"a0", "a1", "a2", "a3"}
	var out []string
	for i := 0; i < n; i++ {
		nd := 2 + r.N(4)
		var ds []string
		optDef := r.N(6) == 0 // a version 2 definition with optional fields
		schemaDef := !optDef && r.N(5) == 0 // schema lists with a required entry behind / in front of a non-required one
		formatDef := !optDef && !schemaDef && r.N(5) == 0 // format requirements over a mixed list of JWT / LDP / plain credentials
		for d := 0; d < nd; d++ {
			groups := ""
			for _, g := range []string{"A", "B", "C"} {
				if r.N(2) == 0 {
					groups += g
				}
			}
			if groups == "" {
				groups = []string{"A", "B", "C"}[r.N(3)]
			}
			kind := []string{"e", "c", "c", "p", "m", "c", "q"}[r.N(7)]
			if r.N(25) == 0 {
				kind = "n"
			}
			if optDef && kind != "q" && kind != "n" && r.N(2) == 0 {
				kind = map[string]string{"e": "C", "c": "C", "p": "P", "m": "M"}[kind] // filter on an optional field
			}
			val := []string{"x", "x", "x", "y", "xy"}[r.N(5)]
			if kind == "m" || kind == "q" || kind == "M" {
				val = strconv.Itoa(5 + r.N(3)*5)
			}
			dsc := fmt.Sprintf("d%d/%s/%s/%s/%s", d, groups, kind, attrs[r.N(len(attrs))], val)
			if schemaDef && r.N(2) == 0 {
				dsc += "/" + r.Pick([]string{"s1", "s1", "s2", "s3"})
			}
			if formatDef && r.N(2) == 0 {
				dsc += "/" + r.Pick([]string{"f1", "f1", "f2", "f2", "f3"})
			}
			ds = append(ds, dsc)
		}
		req := "-"
		if r.N(5) > 0 {
			k := 1 + r.N(3)
			var rs []string
			for j := 0; j < k; j++ {
				rs = append(rs, c20GenReq(r, 2))
			}
			req = strings.Join(rs, "+")
		}
		nc := r.N(6)
		if r.N(40) == 0 {
			nc = 10 + r.N(4) // more credentials than one decimal digit counts
		}
		var cs []string
		for c := 0; c < nc; c++ {
			var kv []string
			for _, a := range attrs {
				switch r.N(8) {
				case 0, 1, 2, 3:
					kv = append(kv, a+"="+[]string{"x", "x", "xy", "y", "yx"}[r.N(5)])
				case 4, 5:
					kv = append(kv, a+"="+strconv.Itoa(r.N(5)*5))
				}
			}
			pre := "c"
			if schemaDef && r.N(2) == 0 {
				pre = "g"
			}
			if formatDef {
				pre = r.Pick([]string{"j", "j", "l", "l", "c"})
			}
			cs = append(cs, fmt.Sprintf("%s%d/%s", pre, c, strings.Join(kv, ",")))
		}
		out = append(out, "D:"+strings.Join(ds, ";")+"|R:"+req+"|C:"+strings.Join(cs, ";"))
	}
	out = append(out, c20SDGen(r, n/20)...)
	out = append(out, c20GenBBS(r, 12+n/500)...) // BBS+ derivations are slow: a few dozen
	return out
}

func init() {
	register("C20", &Prop{Gen: c20Gen, Run: c20Run, Setup: c20Setup})
}
