package main

// C08: compact JWS / JWT acceptance. The harness builds every token by hand (so that algorithm / key / procedure can be
// crossed freely), mutates its text, and hands it to the real entry points.
//
// input  := B64 | TOK
//   B64 := "b64|" <hex of an arbitrary ASCII string>                 (tie of the base64url model to encoding/base64)
//   TOK := "tok|" entry "|" alg "|" vm "|" proc "|" claims "|" form "|" mut
//     entry : jws (jose.ParseJWS + jwt.NewVerifier) | jwt (jwt.Parse) | did (didsignjwt.VerifyJWT) | pk (jwt.GetVerifier)
//     alg   : the `alg` header written into the token
//     vm    : fragment of the verification method named by `kid` (did:test:iss#<vm>); <type>-<rep>-<a|b>, or k-1 / k-11
//     proc  : who really signs and how: <key name>:<hash>:<encoding> | none
//     form  : att | det | b64f
//     mut   : none | flip:<H|P|S>:<permille> | last:<H|P|S> | nl:<H|P|S>:<permille> | pad:<H|P|S> | alg:<other> |
//             kid:<other vm> | kidraw:<text> | nosig | dot | detp (alter the detached payload) | attdet | ext:<char|n> |
//             did2 (kid under did:test:other, whose document binds every fragment to the other key of its type)
// output := for B64: "dec=<hex|err> enc=<text>"
//           for TOK: "tok=<token text> det=<hex of detached payload|-> rec=<key>,<hash>,<enc>,<b64 msg>,<b64 sig> res=<acc|rej>"

import (
	"time"
	"sync/atomic"
	"sync"
	"runtime"
	"crypto"
	"crypto/ecdsa"
	"crypto/ed25519"
	"crypto/elliptic"
	"crypto/rand"
	"crypto/rsa"
	"crypto/sha256"
	"crypto/sha512"
	"crypto/x509"
	"encoding/asn1"
	"encoding/base64"
	"encoding/hex"
	"encoding/json"
	"fmt"
	"math/big"
	"strings"

	"github.com/btcsuite/btcd/btcec"

	"github.com/hyperledger/aries-framework-go/component/kmscrypto/doc/jose"
	"github.com/hyperledger/aries-framework-go/component/kmscrypto/doc/util/fingerprint"
	"github.com/hyperledger/aries-framework-go/component/models/verifiable"
	vdrkey "github.com/hyperledger/aries-framework-go/component/vdr/key"
	"github.com/hyperledger/aries-framework-go/component/kmscrypto/doc/jose/jwk/jwksupport"
	"github.com/hyperledger/aries-framework-go/component/models/did"
	"github.com/hyperledger/aries-framework-go/component/models/jwt"
	"github.com/hyperledger/aries-framework-go/component/models/jwt/didsignjwt"
	"github.com/hyperledger/aries-framework-go/component/models/signature/verifier"
	vdrspi "github.com/hyperledger/aries-framework-go/spi/vdr"
)

type c08Key struct {
	typ  string // ed | p256 | p384 | p521 | k256 | rsa
	priv interface{}
	raw  []byte // raw public key bytes as carried by non-JWK verification methods
	pub  interface{}
}

var (
	c08Keys = map[string]*c08Key{} // "<type>-a", "<type>-b"
	c08Doc  *did.Doc
	c08VMs  = map[string]*did.VerificationMethod{}
)

const c08DID = "did:test:iss"

func c08Curve(t string) elliptic.Curve {
	switch t {
	case "p256":
		return elliptic.P256()
	case "p384":
		return elliptic.P384()
	case "p521":
		return elliptic.P521()
	}
	return btcec.S256()
}

func c08Setup() {
	for _, t := range []string{"ed", "p256", "p384", "p521", "k256", "rsa"} {
		for _, n := range []string{"a", "b"} {
			k := &c08Key{typ: t}
			switch t {
			case "ed":
				pub, priv, _ := ed25519.GenerateKey(rand.Reader)
				k.priv, k.pub, k.raw = priv, pub, pub
			case "rsa":
				priv, err := rsa.GenerateKey(rand.Reader, 2048)
				if err != nil {
					panic(err)
				}
				k.priv, k.pub, k.raw = priv, &priv.PublicKey, x509.MarshalPKCS1PublicKey(&priv.PublicKey)
			default:
				priv, err := ecdsa.GenerateKey(c08Curve(t), rand.Reader)
				if err != nil {
					panic(err)
				}
				k.priv, k.pub = priv, &priv.PublicKey
				k.raw = elliptic.Marshal(priv.Curve, priv.X, priv.Y)
			}
			c08Keys[t+"-"+n] = k
		}
	}
	doc := &did.Doc{ID: c08DID, Context: []string{"https://www.w3.org/ns/did/v1"}}
	add := func(frag string, k *c08Key, rep string) {
		id := c08DID + "#" + frag
		var vm *did.VerificationMethod
		if rep == "jwk" {
			j, err := jwksupport.JWKFromKey(k.pub)
			if err != nil {
				panic(fmt.Sprintf("jwk for %s: %v", frag, err))
			}
			vm, err = did.NewVerificationMethodFromJWK(id, "JsonWebKey2020", c08DID, j)
			if err != nil {
				panic(err)
			}
		} else {
			typ := map[string]string{"ed": "Ed25519VerificationKey2018", "k256": "EcdsaSecp256k1VerificationKey2019",
				"rsa": "RsaVerificationKey2018"}[k.typ]
			if typ == "" {
				typ = "EcdsaSecp256r1VerificationKey2019"
			}
			vm = did.NewVerificationMethodFromBytes(id, typ, c08DID, k.raw)
		}
		c08VMs[frag] = vm
		doc.VerificationMethod = append(doc.VerificationMethod, *vm)
	}
	// the overlapping pair comes first, the longer id before the shorter one
	add("k-11", c08Keys["ed-b"], "raw")
	add("k-1", c08Keys["ed-a"], "raw")
	for _, t := range []string{"ed", "p256", "p384", "p521", "k256", "rsa"} {
		for _, rep := range []string{"raw", "jwk"} {
			for _, n := range []string{"a", "b"} {
				add(t+"-"+rep+"-"+n, c08Keys[t+"-"+n], rep)
			}
		}
	}
	c08Doc = doc
	// a second DID whose document has the SAME fragments, each bound to the OTHER key of its type (a <-> b)
	other := &did.Doc{ID: c08DID2, Context: []string{"https://www.w3.org/ns/did/v1"}}
	swap := func(n string) string {
		if n == "a" {
			return "b"
		}
		return "a"
	}
	add2 := func(frag string, k *c08Key, rep string) {
		id := c08DID2 + "#" + frag
		if rep == "jwk" {
			j, err := jwksupport.JWKFromKey(k.pub)
			if err != nil {
				panic(err)
			}
			vm, err := did.NewVerificationMethodFromJWK(id, "JsonWebKey2020", c08DID2, j)
			if err != nil {
				panic(err)
			}
			other.VerificationMethod = append(other.VerificationMethod, *vm)
			return
		}
		typ := map[string]string{"ed": "Ed25519VerificationKey2018", "k256": "EcdsaSecp256k1VerificationKey2019",
			"rsa": "RsaVerificationKey2018"}[k.typ]
		if typ == "" {
			typ = "EcdsaSecp256r1VerificationKey2019"
		}
		other.VerificationMethod = append(other.VerificationMethod, *did.NewVerificationMethodFromBytes(id, typ, c08DID2, k.raw))
	}
	add2("k-11", c08Keys["ed-a"], "raw")
	add2("k-1", c08Keys["ed-b"], "raw")
	for _, t := range []string{"ed", "p256", "p384", "p521", "k256", "rsa"} {
		for _, rep := range []string{"raw", "jwk"} {
			for _, n := range []string{"a", "b"} {
				add2(t+"-"+rep+"-"+n, c08Keys[t+"-"+swap(n)], rep)
			}
		}
	}
	c08Doc2 = other
}

const c08DID2 = "did:test:other"

var (
	c08Doc2 *did.Doc
	// ONE long-lived verifier for all tokens a worker sees (as an agent has): whatever it remembers from one token must
	// not decide another
	c08SharedVerifier jose.SignatureVerifier
)

type c08Resolver struct{}

var c08SlowResolver atomic.Bool // key resolution takes a moment and yields the processor

func (c08Resolver) Resolve(id string, _ ...vdrspi.DIDMethodOption) (*did.DocResolution, error) {
	if c08SlowResolver.Load() {
		runtime.Gosched()
		time.Sleep(20 * time.Microsecond)
	}
	if id == "did:test:panic" {
		// a key store that fails hard (the resolver is pluggable): whatever becomes of the failure, the token is not accepted
		panic("verif: key store unavailable")
	}
	if id == c08DID {
		return &did.DocResolution{DIDDocument: c08Doc}, nil
	}
	if id == c08DID2 {
		return &did.DocResolution{DIDDocument: c08Doc2}, nil
	}
	if strings.HasPrefix(id, "did:key:") {
		return vdrkey.New().Read(id)
	}
	return nil, fmt.Errorf("did not found: %s", id)
}

func c08Hash(h string, msg []byte) ([]byte, crypto.Hash) {
	switch h {
	case "sha384":
		x := sha512.Sum384(msg)
		return x[:], crypto.SHA384
	case "sha512":
		x := sha512.Sum512(msg)
		return x[:], crypto.SHA512
	}
	x := sha256.Sum256(msg)
	return x[:], crypto.SHA256
}

// sign msg with the procedure "<key>:<hash>:<enc>"
func c08Sign(proc string, msg []byte) ([]byte, bool) {
	f := strings.Split(proc, ":")
	if len(f) != 3 {
		return nil, false
	}
	k := c08Keys[f[0]]
	if k == nil {
		return nil, false
	}
	switch k.typ {
	case "ed":
		return ed25519.Sign(k.priv.(ed25519.PrivateKey), msg), true
	case "rsa":
		h, ch := c08Hash(f[1], msg)
		var (
			sig []byte
			err error
		)
		if f[2] == "pss" {
			sig, err = rsa.SignPSS(rand.Reader, k.priv.(*rsa.PrivateKey), ch, h, nil)
		} else {
			sig, err = rsa.SignPKCS1v15(rand.Reader, k.priv.(*rsa.PrivateKey), ch, h)
		}
		return sig, err == nil
	default:
		h, _ := c08Hash(f[1], msg)
		priv := k.priv.(*ecdsa.PrivateKey)
		r, s, err := ecdsa.Sign(rand.Reader, priv, h)
		if err != nil {
			return nil, false
		}
		if f[2] == "der" {
			b, err := asn1.Marshal(struct{ R, S *big.Int }{r, s})
			return b, err == nil
		}
		n := (priv.Curve.Params().BitSize + 7) / 8
		out := make([]byte, 2*n)
		r.FillBytes(out[:n])
		s.FillBytes(out[n:])
		return out, true
	}
}

func c08Claims(kind string) []byte {
	switch kind {
	case "min":
		return []byte(`{"iss":"did:test:iss"}`)
	case "nest":
		return []byte(`{"iss":"did:test:iss","sub":"did:test:sub","vc":{"type":["VerifiableCredential"],"credentialSubject":{"id":"x","n":[1,2,{"a":null}]}},"nbf":1600000000}`)
	case "txt":
		return []byte("not json at all")
	case "vc":
		return []byte(`{"iss":"did:test:iss","sub":"did:example:subject","jti":"http://example.edu/credentials/c08","nbf":1577906604,"vc":{"@context":["https://www.w3.org/2018/credentials/v1"],"type":["VerifiableCredential"],"credentialSubject":{"id":"did:example:subject"}}}`)
	case "l1":
		return []byte(`{"iss":"did:test:iss","x":"a"}`)
	case "l2":
		return []byte(`{"iss":"did:test:iss","x":"ab"}`)
	}
	return []byte(`{"iss":"did:test:iss","x":"abc"}`)
}

const c08Alphabet = "ABCDEFGHIJKLMNOPQRSTUVWXYZabcdefghijklmnopqrstuvwxyz0123456789-_"

func c08Pos(s string, permille int) int {
	if len(s) == 0 {
		return -1
	}
	p := permille * len(s) / 1000
	if p >= len(s) {
		p = len(s) - 1
	}
	return p
}

func c08Run(input string) string {
	f := strings.Split(input, "|")
	if f[0] == "b64" && len(f) == 2 {
		raw, err := hex.DecodeString(f[1])
		if err != nil {
			return "bad-input"
		}
		dec, derr := base64.RawURLEncoding.DecodeString(string(raw))
		d := "err"
		if derr == nil {
			d = hex.EncodeToString(dec)
			if d == "" {
				d = "-"
			}
		}
		return fmt.Sprintf("dec=%s enc=%s", d, base64.RawURLEncoding.EncodeToString(raw))
	}
	if f[0] != "tok" || len(f) != 8 {
		return "bad-input"
	}
	entry, alg, vm, proc, claims, form, mut := f[1], f[2], f[3], f[4], f[5], f[6], f[7]
	hdr := map[string]interface{}{"alg": alg, "kid": c08DID + "#" + vm}
	if form == "b64f" {
		hdr["b64"] = false
		hdr["crit"] = []string{"b64"}
	}
	mf := strings.Split(mut, ":")
	switch mf[0] {
	case "kidraw":
		hdr["kid"] = strings.ReplaceAll(strings.Join(mf[1:], ":"), "~", "#")
	case "did2":
		hdr["kid"] = c08DID2 + "#" + vm
	case "jwkhdr":
		// no kid: the token brings the key that signed it along in its own header
		sk := c08Keys[strings.Split(proc, ":")[0]]
		if sk == nil {
			return "bad-input"
		}
		j, err := jwksupport.JWKFromKey(sk.pub)
		if err != nil {
			return "bad-input"
		}
		jb, _ := j.MarshalJSON()
		delete(hdr, "kid")
		if len(mf) > 1 && mf[1] == "emptykid" {
			hdr["kid"] = ""
		}
		hdr["jwk"] = json.RawMessage(jb)
	case "didkey":
		// kid = did:key:<fingerprint of ed-a>#<fingerprint of ed-a (own) | of the signing key (cross)>
		own := c08Fingerprint("ed-a")
		frag := own
		if len(mf) > 1 && mf[1] == "cross" {
			frag = c08Fingerprint(strings.Split(proc, ":")[0])
		}
		hdr["kid"] = "did:key:" + own + "#" + frag
	}
	payload := c08Claims(claims)
	if mf[0] == "didkey" && claims == "vc" {
		payload = []byte(strings.ReplaceAll(string(payload), c08DID, "did:key:"+c08Fingerprint("ed-a")))
	}
	hb, _ := json.Marshal(hdr)
	H := base64.RawURLEncoding.EncodeToString(hb)
	P := base64.RawURLEncoding.EncodeToString(payload)
	msg := H + "." + P
	if form == "b64f" {
		msg = H + "." + string(payload)
	}
	S := ""
	rec := "-"
	if proc != "none" {
		sig, ok := c08Sign(proc, []byte(msg))
		if !ok {
			return "bad-input"
		}
		S = base64.RawURLEncoding.EncodeToString(sig)
		rec = strings.ReplaceAll(proc, ":", ",") + "," + base64.RawURLEncoding.EncodeToString([]byte(msg)) + "," + S
	}
	det := []byte(nil)
	if form != "att" {
		det = payload
		P = ""
	}
	parts := map[string]*string{"H": &H, "P": &P, "S": &S}
	honestTok := H + "." + P + "." + S
	applied := true
	switch mf[0] {
	case "none", "kidraw", "did2", "jwkhdr", "didkey":
	case "flip", "nl":
		p := parts[mf[1]]
		var pm int
		fmt.Sscanf(mf[2], "%d", &pm)
		i := c08Pos(*p, pm)
		if i < 0 {
			applied = false
			break
		}
		if mf[0] == "flip" {
			j := strings.IndexByte(c08Alphabet, (*p)[i])
			*p = (*p)[:i] + string(c08Alphabet[(j+1)%64]) + (*p)[i+1:]
		} else {
			*p = (*p)[:i] + "\n" + (*p)[i:]
		}
	case "last":
		// change only the bits of the last character that do not belong to any decoded byte
		p := parts[mf[1]]
		n := len(*p)
		if n == 0 || n%4 == 0 {
			applied = false
			break
		}
		j := strings.IndexByte(c08Alphabet, (*p)[n-1])
		*p = (*p)[:n-1] + string(c08Alphabet[j^1])
	case "pad":
		p := parts[mf[1]]
		*p += "="
	case "alg":
		hdr["alg"] = mf[1]
		hb, _ = json.Marshal(hdr)
		H = base64.RawURLEncoding.EncodeToString(hb)
	case "kid":
		hdr["kid"] = c08DID + "#" + mf[1]
		hb, _ = json.Marshal(hdr)
		H = base64.RawURLEncoding.EncodeToString(hb)
	case "attdet":
		// an ordinary attached token handed in TOGETHER with a detached payload (another document)
		if det != nil || entry == "did" {
			applied = false
			break
		}
		det = []byte(`{"another":"document"}`)
	case "ext":
		// extra characters / bytes after the signature
		switch mf[1] {
		case "char":
			S += "A"
		default:
			raw, err := base64.RawURLEncoding.DecodeString(S)
			if err != nil || len(raw) == 0 {
				applied = false
				break
			}
			var nb int
			fmt.Sscanf(mf[1], "%d", &nb)
			for i := 0; i < nb; i++ {
				raw = append(raw, byte(27+i))
			}
			S = base64.RawURLEncoding.EncodeToString(raw)
		}
	case "nosig":
		S = ""
	case "dot":
		S += ".x"
	case "detp":
		if det == nil {
			applied = false
			break
		}
		det = append(append([]byte{}, det...), ' ')
	default:
		return "bad-input"
	}
	tok := H + "." + P + "." + S
	res := "rej"
	var err error
	if c08SharedVerifier == nil {
		fetch := didsignjwt.NewVDRKeyResolver(c08Resolver{}).PublicKeyFetcher()
		c08SharedVerifier = jwt.NewVerifier(jwt.KeyResolverFunc(func(what, kid string) (*verifier.PublicKey, error) {
			if what == "did:test:nokey" {
				return nil, nil // a map-lookup key store: no key, no error
			}
			return fetch(what, kid)
		}))
	}
	func() {
	defer func() {
		if p := recover(); p != nil {
			if !strings.Contains(fmt.Sprint(p), "verif: key store unavailable") {
				panic(p) // only the harness's own deliberate failure is absorbed here
			}
			err = fmt.Errorf("the key store's failure propagated: %v", p)
		}
	}()
	switch entry {
	case "jws":
		var opts []jose.JWSParseOpt
		if det != nil {
			opts = append(opts, jose.WithJWSDetachedPayload(det))
		}
		_, err = jose.ParseJWS(tok, c08SharedVerifier, opts...)
	case "jwt":
		opts := []jwt.ParseOpt{jwt.WithSignatureVerifier(c08SharedVerifier), jwt.WithIgnoreClaimsMapDecoding(true)}
		if det != nil {
			opts = append(opts, jwt.WithJWTDetachedPayload(det))
		}
		_, _, err = jwt.Parse(tok, opts...)
	case "did":
		if det != nil {
			err = fmt.Errorf("bad-input")
			return
		}
		err = didsignjwt.VerifyJWT(tok, c08Resolver{})
	case "vc", "vcn":
		// a JWT credential through verifiable.ParseCredential with a key fetcher (proof check on); vcn: validation disabled
		if det != nil {
			err = fmt.Errorf("bad-input")
			return
		}
		if c07E == nil {
			c07Setup()
		}
		opts := []verifiable.CredentialOpt{verifiable.WithJSONLDDocumentLoader(c07E.loader),
			verifiable.WithPublicKeyFetcher(verifiable.NewVDRKeyResolver(c08Resolver{}).PublicKeyFetcher())}
		if entry == "vcn" {
			opts = append(opts, verifiable.WithCredDisableValidation())
		}
		var v *verifiable.Credential
		v, err = verifiable.ParseCredential([]byte(tok), opts...)
		if err == nil && v.JWT == "" {
			err = fmt.Errorf("parsed as a credential without any proof")
		}
	case "pk":
		v := c08VMs[vm]
		if v == nil {
			err = fmt.Errorf("bad-input")
			return
		}
		bv, verr := jwt.GetVerifier(&verifier.PublicKey{Type: v.Type, Value: v.Value, JWK: v.JSONWebKey()})
		if verr != nil {
			err = verr
			break
		}
		var opts []jose.JWSParseOpt
		if det != nil {
			opts = append(opts, jose.WithJWSDetachedPayload(det))
		}
		_, err = jose.ParseJWS(tok, bv, opts...)
	default:
		err = fmt.Errorf("bad-input")
	}
	}()
	if err != nil && err.Error() == "bad-input" {
		return "bad-input"
	}
	if err == nil {
		res = "acc"
	}
	// a refused alteration of the same length as the genuine token, once more while OTHER goroutines verify the genuine
	// token with the same verifier and key resolution takes a moment (as it does over a network): what a verification
	// holds on to while it waits belongs to it alone
	if res == "rej" && applied && det == nil && (entry == "jws" || entry == "jwt") && len(tok) == len(honestTok) &&
		tok != honestTok && len(input)%2 == 0 {
		verify := func(t string) error {
			if entry == "jws" {
				_, e := jose.ParseJWS(t, c08SharedVerifier)
				return e
			}
			_, _, e := jwt.Parse(t, jwt.WithSignatureVerifier(c08SharedVerifier), jwt.WithIgnoreClaimsMapDecoding(true))
			return e
		}
		if verify(honestTok) == nil {
			c08SlowResolver.Store(true)
			var wg sync.WaitGroup
			var accepted atomic.Bool
			stop := make(chan struct{})
			for g := 0; g < 4; g++ {
				wg.Add(1)
				go func() {
					defer wg.Done()
					defer func() { _ = recover() }()
					for {
						select {
						case <-stop:
							return
						default:
							_ = verify(honestTok)
						}
					}
				}()
			}
			for it := 0; it < 40 && !accepted.Load(); it++ {
				func() {
					defer func() { _ = recover() }()
					if verify(tok) == nil {
						accepted.Store(true)
					}
				}()
			}
			close(stop)
			wg.Wait()
			c08SlowResolver.Store(false)
			if accepted.Load() {
				res = "acc"
			}
		}
	}
	if os_trace() && err != nil {
		fmt.Println("#", err)
	}
	d := "-"
	if det != nil {
		d = hex.EncodeToString(det)
	}
	ap := ""
	if !applied {
		ap = " mut=na"
	}
	dk := ""
	if mf[0] == "didkey" {
		dk = " dk=ed-a:" + c08Fingerprint("ed-a") + ",ed-b:" + c08Fingerprint("ed-b")
	}
	return fmt.Sprintf("tok=%s det=%s rec=%s%s%s res=%s", strings.ReplaceAll(tok, "\n", "\\n"), d, rec, ap, dk, res)
}

// did:key fingerprint (z6Mk...) of an Ed25519 key of the harness
func c08Fingerprint(name string) string {
	k := c08Keys[name]
	if k == nil || k.typ != "ed" {
		return "z6MkNOTANEDKEY"
	}
	return fingerprint.KeyFingerprint(0xed, k.raw)
}

var c08Algs = []string{"EdDSA", "ES256", "ES384", "ES521", "ES256K", "PS256", "RS256"}

// the honest procedure for (alg, key name)
func c08Honest(alg string) (typ, hash, enc string) {
	switch alg {
	case "EdDSA":
		return "ed", "-", "-"
	case "ES256":
		return "p256", "sha256", "p1363"
	case "ES384":
		return "p384", "sha384", "p1363"
	case "ES521":
		return "p521", "sha512", "p1363"
	case "ES256K":
		return "k256", "sha256", "p1363"
	case "PS256":
		return "rsa", "sha256", "pss"
	}
	return "rsa", "sha256", "pkcs1"
}

func c08Gen(r *Rng, tier string) []string {
	n := 3000
	if tier == "thorough" {
		n = 80000
	}
	var out []string
	// base64 tie
	for i := 0; i < n/6; i++ {
		l := r.N(12)
		var sb strings.Builder
		for j := 0; j < l; j++ {
			switch x := r.N(40); {
			case x == 0:
				sb.WriteByte("=\n\r .+/!"[r.N(8)])
			default:
				sb.WriteByte(c08Alphabet[r.N(64)])
			}
		}
		out = append(out, "b64|"+hex.EncodeToString([]byte(sb.String())))
	}
	entries := []string{"jws", "jwt", "did", "pk"}
	claims := []string{"min", "nest", "txt", "l1", "l2", "l3"}
	partsL := []string{"H", "P", "S"}
	for i := 0; i < n; i++ {
		entry := r.Pick(entries)
		alg := r.Pick(c08Algs)
		typ, hash, enc := c08Honest(alg)
		rep := r.Pick([]string{"raw", "jwk"})
		vm := typ + "-" + rep + "-a"
		proc := typ + "-a:" + hash + ":" + enc
		form := r.Pick([]string{"att", "att", "det", "b64f"})
		if entry == "did" {
			form = "att"
		}
		mut := "none"
		switch x := r.N(24); {
		case x < 3: // honest
		case x < 8:
			mut = fmt.Sprintf("flip:%s:%d", r.Pick(partsL), r.N(1001))
		case x < 10:
			mut = "last:" + r.Pick(partsL)
		case x < 12:
			mut = fmt.Sprintf("nl:%s:%d", r.Pick(partsL), r.N(1001))
		case x < 13:
			mut = "pad:" + r.Pick(partsL)
		case x < 14:
			mut = "alg:" + r.Pick(append([]string{"none", "HS256", "", "eddsa"}, c08Algs...))
		case x < 15:
			mut = "kid:" + typ + "-" + rep + "-b"
		case x < 16 && r.N(2) == 0:
			mut = r.Pick([]string{"attdet", "attdet", "ext:char", "ext:1", "ext:1", "ext:2", "did2", "did2", "did2"})
			if mut == "attdet" {
				form = "att"
			}
			if mut == "did2" {
				// a valid token under the OTHER DID: its fragment is bound to the b key there
				proc = typ + "-b:" + hash + ":" + enc
				if entry == "pk" || entry == "did" {
					entry = "jws"
				}
			}
		case x < 16:
			mut = r.Pick([]string{"nosig", "dot", "detp", "kidraw:did:test:iss", "kidraw:did:test:iss~", "kidraw:" + vm,
				"kidraw:did:test:panic~" + vm, "kidraw:did:test:nokey~" + vm,
				"kidraw:did:test:other~" + vm, "kidraw:did:test:iss~" + vm + "~x", "kidraw:did:test:iss~" + typ})
		case x < 17: // unsigned
			proc = "none"
			if r.Bool() {
				alg = "none"
			}
		case x < 18: // another key of the same type signs
			proc = typ + "-b:" + hash + ":" + enc
		case x < 19: // the overlapping ids: signed by the key of k-11, kid names k-1 (and the other way round)
			alg = "EdDSA"
			if r.Bool() {
				vm, proc = "k-1", "ed-b:-:-"
			} else {
				vm, proc = "k-11", "ed-a:-:-"
			}
			if r.N(3) == 0 {
				vm, proc = "k-1", "ed-a:-:-"
			}
		case x < 20: // same-size curves crossed: the signature has the right length and hash, only the curve differs
			if r.Bool() {
				alg, vm, proc = "ES256", "k256-"+rep+"-a", "k256-a:sha256:"+r.Pick([]string{"p1363", "der"})
			} else {
				alg, vm, proc = "ES256K", "p256-"+rep+"-a", "p256-a:sha256:"+r.Pick([]string{"p1363", "der"})
			}
		case x < 22: // algorithm / key / procedure crossed
			kt := r.Pick([]string{"ed", "p256", "p384", "p521", "k256", "rsa"})
			vm = kt + "-" + rep + "-a"
			h := r.Pick([]string{"sha256", "sha384", "sha512"})
			e := r.Pick([]string{"p1363", "der"})
			if kt == "rsa" {
				e = r.Pick([]string{"pss", "pkcs1"})
				h = "sha256"
			}
			if kt == "ed" {
				h, e = "-", "-"
			}
			proc = kt + "-a:" + h + ":" + e
		default: // honest key, DER instead of P1363
			if enc == "p1363" {
				proc = typ + "-a:" + hash + ":der"
			}
		}
		if entry == "pk" && !strings.Contains(vm, "-jwk-") {
			entry = "jws" // jwt.GetVerifier is for JWK public keys only
		}
		out = append(out, strings.Join([]string{"tok", entry, alg, vm, proc, r.Pick(claims), form, mut}, "|"))
	}
	// the key brought along in the header, did:key key ids, and JWT credentials through verifiable.ParseCredential
	for i := 0; i < n/6; i++ {
		alg := r.Pick([]string{"EdDSA", "EdDSA", "ES256", "ES384", "ES521", "ES256K"})
		typ, hash, enc := c08Honest(alg)
		vm := typ + "-" + r.Pick([]string{"raw", "jwk"}) + "-a"
		proc := typ + "-a:" + hash + ":" + enc
		entry := r.Pick([]string{"jws", "jwt", "did", "vc", "vcn"})
		cl := r.Pick(claims)
		if entry == "vc" || entry == "vcn" {
			cl = "vc"
		}
		mut := "none"
		switch x := r.N(12); {
		case x < 3:
			mut = r.Pick([]string{"jwkhdr", "jwkhdr", "jwkhdr:emptykid"})
			proc = typ + "-" + r.Pick([]string{"a", "b"}) + ":" + hash + ":" + enc
		case x < 6:
			alg, typ = "EdDSA", "ed"
			vm = "ed-raw-a"
			proc = "ed-" + r.Pick([]string{"a", "b"}) + ":-:-"
			mut = r.Pick([]string{"didkey:own", "didkey:cross", "didkey:cross"})
		default:
			entry = r.Pick([]string{"vc", "vcn", "vcn"})
			cl = "vc"
			switch y := r.N(10); {
			case y < 2:
			case y < 4:
				mut = fmt.Sprintf("flip:%s:%d", r.Pick(partsL), r.N(1001))
			case y < 5:
				mut = fmt.Sprintf("nl:%s:%d", r.Pick(partsL), r.N(1001))
			case y < 6:
				mut = "last:" + r.Pick(partsL)
			case y < 7:
				proc = "none"
				if r.Bool() {
					alg = "none"
				}
			case y < 9:
				proc = typ + "-b:" + hash + ":" + enc
			default:
				mut = r.Pick([]string{"nosig", "did2", "kid:" + typ + "-raw-b", "ext:char", "ext:1"})
			}
		}
		out = append(out, strings.Join([]string{"tok", entry, alg, vm, proc, cl, "att", mut}, "|"))
	}
	return out
}

func init() {
	register("C08", &Prop{Gen: c08Gen, Run: c08Run, Setup: c08Setup})
}
