package main

// C12 (REST provider): the EDV REST provider against an in-process vault server (httptest on the loopback interface) that
// records every request - method, URL, headers and body. The oracle is the property's own: no application key, value,
// tag name or tag value may appear in anything the server receives, in any of five encodings.
//
// input  := "rest:" cfg "|" ops (C11 syntax)      cfg: letters d (deterministic document ids) b (batch endpoint extension)
//                                                  f (full documents returned from queries), in any combination or "-"
// output := "REST requests=<n> || scan=clean" | "... || scan=LEAK <atom> <encoding> in <request summary>"

import (
	"bytes"
	"encoding/json"
	"fmt"
	"io"
	"net/http"
	"net/http/httptest"
	"sort"
	"strings"
	"sync"

	"github.com/hyperledger/aries-framework-go/component/storage/edv"
	spi "github.com/hyperledger/aries-framework-go/spi/storage"
)

var _ = sort.Strings
var _ = json.Marshal
var _ = io.ReadAll
var _ = fmt.Sprintf

func c12RestRun(cfg, ops string) string {
	e := c12Shared
	const vaultID = "LKEdcVFxUqGC4dBNmDUr9z"
	vault := newC12restVaultServer(vaultID)
	srv := httptest.NewServer(vault)
	defer srv.Close()
	var fopts []edv.EncryptedFormatterOption
	if strings.Contains(cfg, "d") {
		fopts = append(fopts, edv.WithDeterministicDocumentIDs())
	}
	var popts []edv.RESTProviderOption
	if strings.Contains(cfg, "b") {
		popts = append(popts, edv.WithBatchEndpointExtension())
	}
	if strings.Contains(cfg, "f") {
		popts = append(popts, edv.WithFullDocumentsReturnedFromQueries())
	}
	p := edv.NewRESTProvider(srv.URL+c12restVaultsPath, vaultID, edv.NewEncryptedFormatter(e.enc, e.dec, e.mac, fopts...), popts...)
	st, err := p.OpenStore("s")
	if err != nil {
		return "REST open-error"
	}
	_ = p.SetStoreConfig("s", spi.StoreConfiguration{TagNames: []string{c12Atoms["a"], c12Atoms["b"], c12Atoms["c"]}})
	for _, op := range strings.Split(ops, ";") {
		if op == "" || op == "reopen" || op == "flush" {
			continue
		}
		if strings.HasPrefix(op, "cfg ") {
			var names []string
			for _, n := range strings.Split(strings.TrimPrefix(op, "cfg "), ",") {
				if a, ok := c12Atoms[n]; ok {
					names = append(names, a)
				}
			}
			_ = p.SetStoreConfig("s", spi.StoreConfiguration{TagNames: names})
			continue
		}
		c11Apply(st, c12Translate(op))
	}
	reqs := vault.receivedRequests()
	scan := "clean"
	for _, atom := range c12AtomList() {
		for enc, texts := range c12Encodings([]byte(atom)) {
			for _, t := range texts {
				for _, r := range reqs {
					if strings.Contains(string(r.everything), t) && scan == "clean" {
						scan = fmt.Sprintf("LEAK %s %s in %s", atom, enc, r.summary)
					}
				}
			}
		}
	}
	return fmt.Sprintf("REST requests=%d || scan=%s", len(reqs), scan)
}

func c12AtomList() []string {
	var out []string
	for _, v := range c12Atoms {
		out = append(out, v)
	}
	sort.Strings(out)
	return out
}

// ---- in-process EDV server ----

const c12restVaultsPath = "/encrypted-data-vaults"

type c12restRequest struct {
	summary    string
	everything []byte // method, URL, headers and body
}

type c12restAttribute struct {
	Name  string `json:"name"`
	Value string `json:"value"`
}

type c12restDocument struct {
	ID      string `json:"id"`
	Indexed []struct {
		Attributes []c12restAttribute `json:"attributes"`
	} `json:"indexed"`
}

type c12restVaultServer struct {
	vaultID   string
	lock      sync.Mutex
	documents map[string][]byte // document ID -> encrypted document as received
	order     []string
	requests  []c12restRequest
}

func newC12restVaultServer(vaultID string) *c12restVaultServer {
	return &c12restVaultServer{vaultID: vaultID, documents: make(map[string][]byte)}
}

func (s *c12restVaultServer) receivedRequests() []c12restRequest {
	s.lock.Lock()
	defer s.lock.Unlock()

	return append([]c12restRequest(nil), s.requests...)
}

func (s *c12restVaultServer) ServeHTTP(w http.ResponseWriter, r *http.Request) {
	s.lock.Lock()
	defer s.lock.Unlock()

	body, err := io.ReadAll(r.Body)
	if err != nil {
		http.Error(w, err.Error(), http.StatusInternalServerError)

		return
	}

	var everything bytes.Buffer

	everything.WriteString(r.Method + " " + r.URL.String() + " " + r.URL.Path + "\n")

	for headerName, headerValues := range r.Header {
		everything.WriteString(headerName + ": " + strings.Join(headerValues, ",") + "\n")
	}

	everything.Write(body)

	s.requests = append(s.requests, c12restRequest{summary: r.Method + " " + r.URL.Path, everything: everything.Bytes()})

	path := strings.TrimPrefix(r.URL.Path, c12restVaultsPath+"/"+s.vaultID)

	switch {
	case r.Method == http.MethodPost && path == "/documents":
		s.createDocument(w, r, body)
	case r.Method == http.MethodPost && path == "/query":
		s.query(w, r, body)
	case r.Method == http.MethodPost && path == "/batch":
		s.batch(w, body)
	case strings.HasPrefix(path, "/documents/"):
		s.documentEndpoint(w, r, strings.TrimPrefix(path, "/documents/"), body)
	default:
		http.Error(w, "no such endpoint: "+r.URL.Path, http.StatusNotFound)
	}
}

func (s *c12restVaultServer) documentURL(r *http.Request, documentID string) string {
	return "http://" + r.Host + c12restVaultsPath + "/" + s.vaultID + "/documents/" + documentID
}

func (s *c12restVaultServer) upsert(documentBytes []byte) (string, bool) {
	var document c12restDocument

	if err := json.Unmarshal(documentBytes, &document); err != nil || document.ID == "" {
		return "", false
	}

	if _, exists := s.documents[document.ID]; !exists {
		s.order = append(s.order, document.ID)
	}

	s.documents[document.ID] = documentBytes

	return document.ID, true
}

func (s *c12restVaultServer) remove(documentID string) bool {
	if _, exists := s.documents[documentID]; !exists {
		return false
	}

	delete(s.documents, documentID)

	for i, id := range s.order {
		if id == documentID {
			s.order = append(s.order[:i], s.order[i+1:]...)

			break
		}
	}

	return true
}

func (s *c12restVaultServer) createDocument(w http.ResponseWriter, r *http.Request, body []byte) {
	var document c12restDocument

	if err := json.Unmarshal(body, &document); err != nil || document.ID == "" {
		http.Error(w, "invalid document", http.StatusBadRequest)

		return
	}

	if _, exists := s.documents[document.ID]; exists {
		http.Error(w, "a document with the given ID already exists", http.StatusConflict)

		return
	}

	s.upsert(body)

	w.Header().Set("Location", s.documentURL(r, document.ID))
	w.WriteHeader(http.StatusCreated)
}

func (s *c12restVaultServer) documentEndpoint(w http.ResponseWriter, r *http.Request, documentID string, body []byte) {
	switch r.Method {
	case http.MethodGet:
		documentBytes, exists := s.documents[documentID]
		if !exists {
			http.Error(w, "document not found", http.StatusNotFound)

			return
		}

		_, _ = w.Write(documentBytes) //nolint:errcheck // test
	case http.MethodPost:
		if _, exists := s.documents[documentID]; !exists {
			http.Error(w, "document not found", http.StatusNotFound)

			return
		}

		if id, ok := s.upsert(body); !ok || id != documentID {
			http.Error(w, "invalid document", http.StatusBadRequest)
		}
	case http.MethodDelete:
		if !s.remove(documentID) {
			http.Error(w, "document not found", http.StatusNotFound)
		}
	default:
		http.Error(w, "method not allowed", http.StatusMethodNotAllowed)
	}
}

func (s *c12restVaultServer) query(w http.ResponseWriter, r *http.Request, body []byte) {
	var incomingQuery struct {
		Equals              []map[string]string `json:"equals"`
		Has                 string              `json:"has"`
		ReturnFullDocuments bool                `json:"returnFullDocuments"`
	}

	if err := json.Unmarshal(body, &incomingQuery); err != nil {
		http.Error(w, "invalid query", http.StatusBadRequest)

		return
	}

	matchingURLs := make([]string, 0)
	matchingDocuments := make([]json.RawMessage, 0)

	for _, documentID := range s.order {
		var document c12restDocument

		if err := json.Unmarshal(s.documents[documentID], &document); err != nil {
			http.Error(w, err.Error(), http.StatusInternalServerError)

			return
		}

		var attributes []c12restAttribute

		for _, collection := range document.Indexed {
			attributes = append(attributes, collection.Attributes...)
		}

		if c12restMatches(attributes, incomingQuery.Has, incomingQuery.Equals) {
			matchingURLs = append(matchingURLs, s.documentURL(r, documentID))
			matchingDocuments = append(matchingDocuments, s.documents[documentID])
		}
	}

	var response interface{} = matchingURLs
	if incomingQuery.ReturnFullDocuments {
		response = matchingDocuments
	}

	responseBytes, err := json.Marshal(response)
	if err != nil {
		http.Error(w, err.Error(), http.StatusInternalServerError)

		return
	}

	_, _ = w.Write(responseBytes) //nolint:errcheck // test
}

func c12restMatches(attributes []c12restAttribute, has string, equals []map[string]string) bool {
	hasAttribute := func(name, value string) bool {
		for _, attribute := range attributes {
			if attribute.Name == name && (value == "" || attribute.Value == value) {
				return true
			}
		}

		return false
	}

	if has != "" {
		return hasAttribute(has, "")
	}

	for _, subfilter := range equals { // ORed
		matchesAll := true

		for name, value := range subfilter { // ANDed
			if !hasAttribute(name, value) {
				matchesAll = false
			}
		}

		if matchesAll {
			return true
		}
	}

	return false
}

func (s *c12restVaultServer) batch(w http.ResponseWriter, body []byte) {
	var operations []struct {
		Operation  string          `json:"operation"`
		DocumentID string          `json:"id"`
		Document   json.RawMessage `json:"document"`
	}

	if err := json.Unmarshal(body, &operations); err != nil {
		http.Error(w, "invalid batch", http.StatusBadRequest)

		return
	}

	for _, operation := range operations {
		switch operation.Operation {
		case "upsert":
			// As documented for the batch extension, the "id" member is only used for delete operations.
			if _, ok := s.upsert(operation.Document); !ok {
				http.Error(w, "invalid document", http.StatusBadRequest)

				return
			}
		case "delete":
			s.remove(operation.DocumentID)
		default:
			http.Error(w, "invalid operation", http.StatusBadRequest)

			return
		}
	}

	_, _ = w.Write([]byte("[]")) //nolint:errcheck // test
}
