package main

// C15: mediator inbox (messagepickup): FIFO, exactly once, count = held, no loss under any single fault.
//
// input  := ops joined by ";"
// op     := add D M F | status D T F | pickup D N F | opick D N M - (two overlapping pickups, the first one's delivery fails)        (D: recipient; M: message number; T: 1 = ~thread present;
//           N: batch size, may be negative; F: "-" no fault | "s<i>" the i-th store call of this op fails | "x" send fails)
// output := outcomes joined by "|", then "|" and the final dump
//   outcome := ok | err | ok:count N | ok:batch m,m | err:batch m,m  (what was handed to the outbound dispatcher)
//   dump    := D=m,m#count (or D=none) joined by ","

import (
	"encoding/json"
	"errors"
	"fmt"
	"sort"
	"strconv"
	"strings"
	"sync"
	"time"

	"github.com/hyperledger/aries-framework-go/component/storageutil/mem"
	"github.com/hyperledger/aries-framework-go/pkg/didcomm/common/service"
	"github.com/hyperledger/aries-framework-go/pkg/didcomm/protocol/messagepickup"
	mockdispatcher "github.com/hyperledger/aries-framework-go/pkg/mock/didcomm/dispatcher"
	mockprovider "github.com/hyperledger/aries-framework-go/pkg/mock/provider"
	spi "github.com/hyperledger/aries-framework-go/spi/storage"
)

// faultProvider wraps a provider; the store named by `target` fails its k-th call when armed.
type faultProvider struct {
	spi.Provider
	target string
	fs     *faultStore
}

type faultStore struct {
	spi.Store
	armed  int // index of the call to fail, -1 = none
	calls  int
	failed bool
}

var errInjected = errors.New("injected storage fault")

func (p *faultProvider) OpenStore(name string) (spi.Store, error) {
	s, err := p.Provider.OpenStore(name)
	if err != nil {
		return nil, err
	}
	if strings.EqualFold(name, p.target) {
		if p.fs == nil {
			p.fs = &faultStore{Store: s, armed: -1}
		}
		return p.fs, nil
	}
	return s, nil
}

func (f *faultStore) hit() bool {
	i := f.calls
	f.calls++
	if i == f.armed {
		f.failed = true
		return true
	}
	return false
}

func (f *faultStore) Put(k string, v []byte, tags ...spi.Tag) error {
	if f.hit() {
		return errInjected
	}
	return f.Store.Put(k, v, tags...)
}

func (f *faultStore) Get(k string) ([]byte, error) {
	if f.hit() {
		return nil, errInjected
	}
	return f.Store.Get(k)
}

func (f *faultStore) arm(i int) { f.armed = i; f.calls = 0; f.failed = false }

func c15Msg(m map[string]interface{}) service.DIDCommMsgMap {
	b, err := json.Marshal(m)
	if err != nil {
		panic(err)
	}
	mm, err := service.ParseDIDCommMsgMap(b)
	if err != nil {
		panic(err)
	}
	return mm
}

func c15Run(input string) string {
	fp := &faultProvider{Provider: mem.NewProvider(), target: messagepickup.Namespace}
	var sent []string
	sendFail := false
	// opickHook (op `opick`): routes the deliveries of two overlapping pickups by the id of the request they answer
	var opickHook func(id, batch string) (bool, error)
	out := &mockdispatcher.MockOutbound{ValidateSendToDID: func(msg interface{}, myDID, theirDID string) error {
		if hook := opickHook; hook != nil {
			if b, err := json.Marshal(msg); err == nil {
				var m struct {
					ID   string `json:"@id"`
					Msgs []struct {
						Msg []byte `json:"msg"`
					} `json:"messages~attach"`
				}
				if json.Unmarshal(b, &m) == nil {
					var ids []string
					for _, x := range m.Msgs {
						ids = append(ids, string(x.Msg))
					}
					batch := "batch -"
					if len(ids) > 0 {
						batch = "batch " + strings.Join(ids, ",")
					}
					if handled, e := hook(m.ID, batch); handled {
						return e
					}
				}
			}
		}
		if sendFail {
			return errors.New("injected send fault")
		}
		b, err := json.Marshal(msg)
		if err != nil {
			return err
		}
		var m struct {
			Type  string `json:"@type"`
			Count *int   `json:"message_count"`
			Msgs  []struct {
				Msg []byte `json:"msg"`
			} `json:"messages~attach"`
		}
		if err := json.Unmarshal(b, &m); err != nil {
			return err
		}
		switch m.Type {
		case messagepickup.StatusMsgType:
			sent = append(sent, fmt.Sprintf("count %d", *m.Count))
		case messagepickup.BatchMsgType:
			var ids []string
			for _, x := range m.Msgs {
				ids = append(ids, string(x.Msg))
			}
			if len(ids) == 0 {
				sent = append(sent, "batch -")
			} else {
				sent = append(sent, "batch "+strings.Join(ids, ","))
			}
		default:
			sent = append(sent, "other "+m.Type)
		}
		return nil
	}}
	svc, err := messagepickup.New(&mockprovider.Provider{
		StorageProviderValue:              fp,
		ProtocolStateStorageProviderValue: mem.NewProvider(),
		OutboundDispatcherValue:           out,
	})
	if err != nil {
		return "setup-error " + err.Error()
	}
	dids := map[string]bool{}
	var outs []string
	n := 0
	for _, op := range strings.Split(input, ";") {
		if op == "" {
			continue
		}
		f := strings.Split(op, " ")
		fault := f[len(f)-1]
		fp.fs.arm(-1)
		sendFail = false
		if strings.HasPrefix(fault, "s") {
			i, _ := strconv.Atoi(fault[1:])
			fp.fs.arm(i)
		} else if fault == "x" {
			sendFail = true
		}
		sent = nil
		var err error
		n++
		switch f[0] {
		case "add":
			dids[f[1]] = true
			err = svc.AddMessage([]byte(f[2]), f[1])
		case "status":
			dids[f[1]] = true
			m := map[string]interface{}{"@id": fmt.Sprintf("id%d", n), "@type": messagepickup.StatusRequestMsgType}
			if f[2] == "1" {
				m["~thread"] = map[string]interface{}{"thid": "t"}
			}
			err = svc.VerifHandleStatusRequest(c15Msg(m), "me", f[1])
		case "pickup":
			dids[f[1]] = true
			bs, _ := strconv.Atoi(f[2])
			m := map[string]interface{}{"@id": fmt.Sprintf("id%d", n), "@type": messagepickup.BatchPickupMsgType,
				"batch_size": bs}
			err = svc.VerifHandleBatchPickup(c15Msg(m), "me", f[1])
		case "opick":
			// opick D N M -: a pickup of N whose delivery FAILS - and while that delivery is under way another pickup of M
			// for the same recipient arrives (another goroutine). Removal and hand-out are one step: the second pickup can
			// only see the inbox as it is after the first one has put its batch back. Reported as two outcomes.
			dids[f[1]] = true
			bs1, _ := strconv.Atoi(f[2])
			bs2, _ := strconv.Atoi(f[3])
			id1 := fmt.Sprintf("id%d", n)
			id2 := id1 + "-b"
			msg2 := c15Msg(map[string]interface{}{"@id": id2, "@type": messagepickup.BatchPickupMsgType, "batch_size": bs2})
			var (
				mu      sync.Mutex
				sent2   []string
				started bool
			)
			done2 := make(chan error, 1)
			opickHook = func(id, batch string) (bool, error) {
				switch {
				case id == id2:
					mu.Lock()
					sent2 = append(sent2, batch)
					mu.Unlock()
					return true, nil
				case id == id1 && !started:
					started = true
					go func() { done2 <- svc.VerifHandleBatchPickup(msg2, "me", f[1]) }()
					// give the second pickup every chance to run now (it must not be able to)
					select {
					case e := <-done2:
						done2 <- e
					case <-time.After(100 * time.Millisecond):
					}
					return true, errors.New("injected send fault")
				}
				return false, nil
			}
			err = svc.VerifHandleBatchPickup(c15Msg(map[string]interface{}{"@id": id1, "@type": messagepickup.BatchPickupMsgType,
				"batch_size": bs1}), "me", f[1])
			var err2 error
			if started {
				err2 = <-done2
			} else {
				// the first pickup sent nothing (no inbox / refused before the delivery): the second one runs after it
				err2 = svc.VerifHandleBatchPickup(msg2, "me", f[1])
			}
			opickHook = nil
			o1, o2 := "ok", "ok"
			if err != nil {
				o1 = "err"
			}
			if err2 != nil {
				o2 = "err"
			}
			mu.Lock()
			if len(sent2) > 0 {
				o2 += ":" + strings.Join(sent2, "+")
			}
			mu.Unlock()
			outs = append(outs, o1, o2)
			continue
		default:
			return "bad-op"
		}
		o := "ok"
		if err != nil {
			o = "err"
		}
		if len(sent) > 0 {
			o += ":" + strings.Join(sent, "+")
		}
		outs = append(outs, o)
	}
	// final dump of the stored inbox documents
	fp.fs.arm(-1)
	var names []string
	for d := range dids {
		names = append(names, d)
	}
	sort.Strings(names)
	var dump []string
	for _, d := range names {
		b, err := fp.fs.Store.Get(d)
		if err != nil {
			dump = append(dump, d+"=none")
			continue
		}
		var doc struct {
			Count int `json:"message_count"`
			Msgs  []struct {
				Msg []byte `json:"msg"`
			} `json:"messages"`
		}
		if err := json.Unmarshal(b, &doc); err != nil {
			dump = append(dump, d+"=undecodable")
			continue
		}
		var ids []string
		for _, x := range doc.Msgs {
			ids = append(ids, string(x.Msg))
		}
		s := "-"
		if len(ids) > 0 {
			s = strings.Join(ids, ",")
		}
		dump = append(dump, fmt.Sprintf("%s=%s#%d", d, s, doc.Count))
	}
	outs = append(outs, strings.Join(dump, ","))
	return strings.Join(outs, "|")
}

func c15Gen(r *Rng, tier string) []string {
	n := 3000
	if tier == "thorough" {
		n = 120000
	}
	dids := []string{"a", "b", "c"}
	var out []string
	for i := 0; i < n; i++ {
		nd := 1 + r.N(3)
		next := 0
		faulty := r.N(3) > 0 // two thirds of the histories carry faults
		var ops []string
		for j := 3 + r.N(12); j > 0; j-- {
			d := dids[r.N(nd)]
			fault := "-"
			if faulty && r.N(4) == 0 {
				if r.N(3) == 0 {
					fault = "x"
				} else {
					fault = fmt.Sprintf("s%d", r.N(3))
				}
			}
			if r.N(25) == 0 {
				ops = append(ops, fmt.Sprintf("opick %s %d %d -", d, 1+r.N(3), 1+r.N(3)))
				continue
			}
			switch r.N(10) {
			case 0, 1, 2, 3:
				ops = append(ops, fmt.Sprintf("add %s %d %s", d, next, fault))
				next++
			case 4, 5:
				t := "1"
				if r.N(8) == 0 {
					t = "0"
				}
				ops = append(ops, fmt.Sprintf("status %s %s %s", d, t, fault))
			default:
				sizes := []int{0, 1, 1, 2, 2, 3, 5, 100, -1, -7}
				ops = append(ops, fmt.Sprintf("pickup %s %d %s", d, sizes[r.N(len(sizes))], fault))
			}
		}
		out = append(out, strings.Join(ops, ";"))
	}
	return out
}

func init() {
	register("C15", &Prop{Gen: c15Gen, Run: c15Run})
}
