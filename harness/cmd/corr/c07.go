package main

// C07: Linked-Data proofs on credentials. The harness signs a generated credential, alters the signed JSON and verifies
// it again (default and strict validation).
//
// input  := suite "|" repr "|" docseed "|" MUT
//   suite : ed2018 | ed2020 | jws2020 | k256 | bbs          repr: pv (proofValue) | jws (detached JWS; ed2018, jws2020, k256)
//   docseed: seed of the generated credential (nested subjects, arrays, several subjects, custom context)
//   MUT   := none | chg:K | del:K | adddef:W | addundef:W | reorder | dup | opt:NAME | delproof | sig
//     K: index into the leaves of the signed document (sorted-key depth-first order), taken modulo the leaf count
//     W: top | subject | nested | elem (an element of an array of two or more objects) | elem1 (element of a one-element array)
//     NAME: created verificationMethod proofPurpose domain challenge
// output := "sign=ok|err base=<acc|rej> res=<acc|rej|noproof> strict=<acc|rej|noproof> applied=<1|0>|" ORIG "|" MUTATED
//   (both JSON documents, so that the oracle reads what was signed and what was verified)

import (
	"sync/atomic"
	"sync"
	"crypto/ed25519"
	"encoding/json"
	"fmt"
	"sort"
	"strconv"
	"strings"
	"time"

	"github.com/hyperledger/aries-framework-go/component/kmscrypto/doc/jose/jwk/jwksupport"
	"github.com/hyperledger/aries-framework-go/component/kmscrypto/doc/util/jwkkid"
	"github.com/hyperledger/aries-framework-go/component/models/dataintegrity"
	"github.com/hyperledger/aries-framework-go/component/models/dataintegrity/suite/ecdsa2019"
	"github.com/hyperledger/aries-framework-go/component/models/did"
	ldcontext "github.com/hyperledger/aries-framework-go/component/models/ld/context"
	"github.com/hyperledger/aries-framework-go/component/models/ld/processor"
	ldtestutil "github.com/hyperledger/aries-framework-go/component/models/ld/testutil"
	"github.com/hyperledger/aries-framework-go/component/models/signature/suite"
	"github.com/hyperledger/aries-framework-go/component/models/signature/suite/bbsblssignature2020"
	"github.com/hyperledger/aries-framework-go/component/models/signature/suite/ecdsasecp256k1signature2019"
	"github.com/hyperledger/aries-framework-go/component/models/signature/suite/ed25519signature2018"
	"github.com/hyperledger/aries-framework-go/component/models/signature/suite/ed25519signature2020"
	"github.com/hyperledger/aries-framework-go/component/models/signature/suite/jsonwebsignature2020"
	sigverifier "github.com/hyperledger/aries-framework-go/component/models/signature/verifier"
	"github.com/hyperledger/aries-framework-go/component/models/verifiable"
	kmsapi "github.com/hyperledger/aries-framework-go/spi/kms"
	vdrspi "github.com/hyperledger/aries-framework-go/spi/vdr"
	ld "github.com/piprate/json-gold/ld"
)

const c07Ctx = "https://verif.example/ctx/v1"

// every term the generator uses is defined here; `tags` is a set, `score` an integer, `knows`/`degree` nested nodes
const c07CtxDoc = `{"@context":{"@version":1.1,"ex":"https://verif.example/vocab#",
 "DegreeCredential":"ex:DegreeCredential","name":"ex:name","nick":"ex:nick","score":{"@id":"ex:score","@type":"http://www.w3.org/2001/XMLSchema#integer"},
 "tags":{"@id":"ex:tags","@container":"@set"},"degree":{"@id":"ex:degree"},"college":"ex:college","level":"ex:level",
 "knows":{"@id":"ex:knows"},"since":"ex:since","extra":"ex:extra","homepage":{"@id":"ex:homepage","@type":"@id"}}}`

type c07Suite struct {
	sigType string
	kt      kmsapi.KeyType
	keyType string // verification method type for the fetcher
	signer  func(s suite.Opt) interface{}
}

type c07Env struct {
	loader  ld.DocumentLoader
	kms     kmsapi.KeyManager
	handles map[string]interface{}
	pubs    map[string][]byte
}

var c07E *c07Env

func c07Setup() {
	l, err := ldtestutil.DocumentLoader(ldcontext.Document{URL: c07Ctx, Content: json.RawMessage(c07CtxDoc)})
	if err != nil {
		panic(err)
	}
	e := &c07Env{loader: l, kms: c04NewKMS(), handles: map[string]interface{}{}, pubs: map[string][]byte{}}
	for name, kt := range map[string]kmsapi.KeyType{"ed": kmsapi.ED25519Type, "p256": kmsapi.ECDSAP256TypeIEEEP1363,
		"k256": kmsapi.ECDSASecp256k1IEEEP1363, "bbs": kmsapi.BLS12381G2Type} {
		kid, kh, err := e.kms.Create(kt)
		if err != nil {
			panic(err)
		}
		pb, _, err := e.kms.ExportPubKeyBytes(kid)
		if err != nil {
			panic(err)
		}
		e.handles[name], e.pubs[name] = kh, pb
	}
	c07E = e
}

func c07Doc(seed int) map[string]interface{} {
	r := NewRng(uint64(seed) + 7777)
	if seed >= 100 && seed < 200 {
		// only the base context: the credential can say nothing beyond the ids (every other member is undefined)
		vc := jm{
			"@context":     []interface{}{"https://www.w3.org/2018/credentials/v1"},
			"id":           fmt.Sprintf("http://example.edu/credentials/%d", seed),
			"type":         []interface{}{"VerifiableCredential"},
			"issuer":       "did:example:issuer",
			"issuanceDate": "2020-01-01T19:23:24Z",
		}
		if r.Bool() {
			vc["issuer"] = jm{"id": "did:example:issuer"}
		}
		if r.Bool() {
			vc["credentialSubject"] = []interface{}{jm{"id": "did:example:s1"}, jm{"id": "did:example:s2"}}
		} else {
			vc["credentialSubject"] = jm{"id": "did:example:s1"}
		}
		return vc
	}
	if seed >= 200 {
		// two-element arrays whose FIRST element has exactly one member more than the second
		big := jm{"name": "Alice", "nick": "al", "score": r.N(100)}
		small := jm{"name": "Bob", "nick": "bo"}
		s1 := jm{"id": "did:example:s1", "name": "Carol", "knows": []interface{}{big, small}, "homepage": "https://example.org/home"}
		vc := jm{
			"@context":     []interface{}{"https://www.w3.org/2018/credentials/v1", c07Ctx},
			"id":           fmt.Sprintf("http://example.edu/credentials/%d", seed),
			"type":         []interface{}{"VerifiableCredential", "DegreeCredential"},
			"issuer":       "did:example:issuer",
			"issuanceDate": "2020-01-01T19:23:24Z",
		}
		if r.Bool() {
			s2 := jm{"id": "did:example:s2", "name": "Dave", "knows": []interface{}{jm{"name": "Erin", "nick": "er", "score": 3}, jm{"name": "Fay", "nick": "fa"}}}
			vc["credentialSubject"] = []interface{}{s1, s2}
		} else {
			vc["credentialSubject"] = s1
		}
		return vc
	}
	person := func(depth int) map[string]interface{} {
		p := jm{"name": r.Pick([]string{"Alice", "Bob", "Carol"})}
		if r.Bool() {
			p["id"] = fmt.Sprintf("did:example:p%d", r.N(50))
		}
		if r.Bool() {
			p["score"] = r.N(100)
		}
		if r.Bool() {
			p["nick"] = r.Pick([]string{"al", "bo"})
		}
		return p
	}
	subject := func() map[string]interface{} {
		s := person(0)
		s["id"] = fmt.Sprintf("did:example:s%d", r.N(50))
		if r.Bool() {
			s["tags"] = []interface{}{"x", "y", "z"}[:1+r.N(3)]
		}
		if r.Bool() {
			s["degree"] = jm{"college": "MIT", "level": r.Pick([]string{"BSc", "MSc"})}
		}
		switch r.N(4) {
		case 0:
			s["knows"] = person(1)
		case 1:
			s["knows"] = []interface{}{person(1)}
		case 2:
			s["knows"] = []interface{}{person(1), person(1)}
		}
		if r.N(3) == 0 {
			s["homepage"] = "https://example.org/home"
		}
		return s
	}
	vc := jm{
		"@context":     []interface{}{"https://www.w3.org/2018/credentials/v1", c07Ctx},
		"id":           fmt.Sprintf("http://example.edu/credentials/%d", r.N(1000)),
		"type":         []interface{}{"VerifiableCredential", "DegreeCredential"},
		"issuer":       "did:example:issuer",
		"issuanceDate": "2020-01-01T19:23:24Z",
	}
	if r.N(3) == 0 {
		vc["issuer"] = jm{"id": "did:example:issuer", "name": "Issuer Inc"}
	}
	if r.Bool() {
		vc["expirationDate"] = "2030-01-01T19:23:24Z"
	}
	if r.N(3) == 0 {
		vc["credentialSubject"] = []interface{}{subject(), subject()}
	} else {
		vc["credentialSubject"] = subject()
	}
	return vc
}

type c07Leaf struct {
	path []interface{} // keys (string) and indexes (int)
}

func c07Leaves(v interface{}, path []interface{}, out *[]c07Leaf) {
	switch t := v.(type) {
	case map[string]interface{}:
		keys := make([]string, 0, len(t))
		for k := range t {
			keys = append(keys, k)
		}
		sort.Strings(keys)
		for _, k := range keys {
			if k == "proof" && len(path) == 0 {
				continue
			}
			c07Leaves(t[k], append(append([]interface{}{}, path...), k), out)
		}
	case []interface{}:
		for i, x := range t {
			c07Leaves(x, append(append([]interface{}{}, path...), i), out)
		}
	default:
		*out = append(*out, c07Leaf{path})
	}
}

func c07At(root interface{}, path []interface{}) (parent interface{}, last interface{}) {
	cur := root
	for i, p := range path {
		if i == len(path)-1 {
			return cur, p
		}
		switch k := p.(type) {
		case string:
			cur = cur.(map[string]interface{})[k]
		case int:
			cur = cur.([]interface{})[k]
		}
	}
	return nil, nil
}

func c07Subject(doc map[string]interface{}) map[string]interface{} {
	switch s := doc["credentialSubject"].(type) {
	case map[string]interface{}:
		return s
	case []interface{}:
		return s[0].(map[string]interface{})
	}
	return nil
}

// apply MUT to the signed document (a decoded JSON map); returns false when the document has no place for it
func c07Mutate(doc map[string]interface{}, mut string) bool {
	f := strings.Split(mut, ":")
	switch f[0] {
	case "none":
		return true
	case "chg", "del":
		var leaves []c07Leaf
		c07Leaves(doc, nil, &leaves)
		k, _ := strconv.Atoi(f[1])
		l := leaves[k%len(leaves)]
		parent, last := c07At(doc, l.path)
		switch p := parent.(type) {
		case map[string]interface{}:
			key := last.(string)
			if f[0] == "del" {
				delete(p, key)
				return true
			}
			switch v := p[key].(type) {
			case string:
				p[key] = v + "x"
				if key == "issuanceDate" || key == "expirationDate" {
					p[key] = "2021-02-02T00:00:00Z"
				}
			case float64:
				p[key] = v + 1
			case bool:
				p[key] = !v
			default:
				p[key] = "changed"
			}
		case []interface{}:
			i := last.(int)
			if f[0] == "del" {
				// remove the element through the grandparent
				gp, gl := c07At(doc, l.path[:len(l.path)-1])
				np := append(append([]interface{}{}, p[:i]...), p[i+1:]...)
				switch g := gp.(type) {
				case map[string]interface{}:
					g[gl.(string)] = np
				case []interface{}:
					g[gl.(int)] = np
				}
				return true
			}
			if s, ok := p[i].(string); ok {
				p[i] = s + "x"
			} else {
				p[i] = "changed"
			}
		}
		return true
	case "addbn":
		// a claim under a term that an APPENDED inline context maps to a blank node identifier: JSON-LD to RDF drops
		// properties whose IRI is a blank node, so the statement never reaches the signed statements
		ctx, ok := doc["@context"].([]interface{})
		if !ok {
			return false
		}
		if f[1] == "vocab" {
			// the same with a RELATIVE vocabulary: the property expands to a relative IRI, which RDF does not have either
			doc["@context"] = append(append([]interface{}{}, ctx...), map[string]interface{}{"@vocab": "relative-vocab/"})
			doc["alumniOf"] = "Example University"
			return true
		}
		doc["@context"] = append(append([]interface{}{}, ctx...), map[string]interface{}{"alumniOf": "_:alumniOf"})
		if f[1] == "subject" {
			c07Subject(doc)["alumniOf"] = "Example University"
		} else {
			doc["alumniOf"] = "Example University"
		}
		return true
	case "adddef", "addundef":
		key, val := "extra", interface{}("added")
		if f[0] == "addundef" {
			key = "undefinedTerm"
		}
		sub := c07Subject(doc)
		switch f[1] {
		case "top":
			doc[key] = val
		case "subject":
			sub[key] = val
		case "nested":
			d, ok := sub["degree"].(map[string]interface{})
			if !ok {
				return false
			}
			d[key] = val
		case "elem":
			a, ok := sub["knows"].([]interface{})
			if !ok || len(a) < 2 {
				return false
			}
			a[1].(map[string]interface{})[key] = val
		case "subj2":
			a, ok := doc["credentialSubject"].([]interface{})
			if !ok || len(a) < 2 {
				return false
			}
			a[1].(map[string]interface{})[key] = val
		case "issuer":
			is, ok := doc["issuer"].(map[string]interface{})
			if !ok {
				return false
			}
			is[key] = val
		case "elem1":
			a, ok := sub["knows"].([]interface{})
			if !ok || len(a) != 1 {
				return false
			}
			a[0].(map[string]interface{})[key] = val
		default:
			return false
		}
		return true
	case "reorder", "dup":
		sub := c07Subject(doc)
		a, ok := sub["tags"].([]interface{})
		if !ok || len(a) < 2 {
			return false
		}
		if f[0] == "reorder" {
			a[0], a[len(a)-1] = a[len(a)-1], a[0]
		} else {
			sub["tags"] = append(a, a[0])
		}
		return true
	case "opt":
		p, ok := doc["proof"].(map[string]interface{})
		if !ok {
			return false
		}
		switch f[1] {
		case "created":
			p["created"] = "2021-03-03T03:03:03Z"
		case "verificationMethod":
			p["verificationMethod"] = "did:example:issuer#other-key"
		case "proofPurpose":
			p["proofPurpose"] = "authentication"
		case "domain":
			p["domain"] = "other.example"
		case "challenge":
			p["challenge"] = "other-challenge"
		case "domain-arr", "challenge-arr", "created-arr", "proofPurpose-arr", "verificationMethod-arr":
			// the option as a set: the signed value first (if there is one), then another one
			k := strings.TrimSuffix(f[1], "-arr")
			if old, ok := p[k]; ok {
				p[k] = []interface{}{old, "attacker.example.org"}
			} else {
				p[k] = []interface{}{"attacker.example.org"}
			}
		case "domain-ctx", "created-ctx", "purpose-ctx":
			// a proof-local @context that re-defines the option terms: the changed option is mapped to nothing, another
			// member carries the signed value under the changed option's IRI. Proof options are read in the DOCUMENT's
			// context, never in one the sender attaches to the proof
			full := func() map[string]interface{} {
				return map[string]interface{}{"@vocab": "https://w3id.org/security#", "type": "@type",
					"created": map[string]interface{}{"@id": "http://purl.org/dc/terms/created",
						"@type": "http://www.w3.org/2001/XMLSchema#dateTime"},
					"verificationMethod": map[string]interface{}{"@id": "https://w3id.org/security#verificationMethod", "@type": "@id"},
					"proofPurpose":       map[string]interface{}{"@id": "https://w3id.org/security#proofPurpose", "@type": "@vocab"}}
			}
			ctx := full()
			switch f[1] {
			case "domain-ctx":
				old, ok := p["domain"].(string)
				if !ok {
					return false
				}
				ctx["domain"], ctx["creator"] = nil, "https://w3id.org/security#domain"
				p["domain"], p["creator"] = "evil.example", old
			case "created-ctx":
				old, ok := p["created"].(string)
				if !ok {
					return false
				}
				ctx["created"], ctx["creator"] = nil, map[string]interface{}{"@id": "http://purl.org/dc/terms/created",
					"@type": "http://www.w3.org/2001/XMLSchema#dateTime"}
				p["created"], p["creator"] = "2031-03-03T03:03:03Z", old
			default:
				old, ok := p["proofPurpose"].(string)
				if !ok {
					return false
				}
				ctx["proofPurpose"], ctx["creator"] = nil, map[string]interface{}{"@id": "https://w3id.org/security#proofPurpose",
					"@type": "@vocab"}
				p["proofPurpose"], p["creator"] = "authentication", old
			}
			p["@context"] = ctx
		case "domain-num", "challenge-num":
			p[strings.TrimSuffix(f[1], "-num")] = 5
		case "domain-obj", "challenge-obj":
			p[strings.TrimSuffix(f[1], "-obj")] = map[string]interface{}{"@value": "attacker.example.org"}
		default:
			return false
		}
		return true
	case "delproof":
		delete(doc, "proof")
		return true
	case "proof2":
		// a second proof next to the genuine one: of a type the verifier has no suite for, or a copy of the genuine one
		// with another creation time
		p, ok := doc["proof"].(map[string]interface{})
		if !ok {
			return false
		}
		second := map[string]interface{}{}
		for k, v := range p {
			second[k] = v
		}
		switch f[1] {
		case "foreign":
			// a type the framework knows, for which THIS verifier has no suite configured
			second["type"] = "JsonWebSignature2020"
			if p["type"] == "JsonWebSignature2020" {
				second["type"] = "Ed25519Signature2018"
			}
		case "altered":
			second["created"] = "2021-03-03T03:03:03Z"
		default:
			return false
		}
		doc["proof"] = []interface{}{p, second}
		return true
	case "addtype":
		// a type value no context defines, on the credential, the subject or a nested node
		var holder map[string]interface{}
		switch f[1] {
		case "top":
			holder = doc
		case "subject":
			holder = c07Subject(doc)
		case "nested":
			holder, _ = c07Subject(doc)["degree"].(map[string]interface{})
		}
		if holder == nil {
			return false
		}
		switch t := holder["type"].(type) {
		case []interface{}:
			holder["type"] = append(t, "UndefinedTypeXYZ")
		case string:
			holder["type"] = []interface{}{t, "UndefinedTypeXYZ"}
		default:
			holder["type"] = "UndefinedTypeXYZ"
		}
		return true
	case "sig":
		p, ok := doc["proof"].(map[string]interface{})
		if !ok {
			return false
		}
		for _, k := range []string{"proofValue", "jws"} {
			if s, ok := p[k].(string); ok && len(s) > 4 {
				b := []byte(s)
				if b[len(b)-3] == 'A' {
					b[len(b)-3] = 'B'
				} else {
					b[len(b)-3] = 'A'
				}
				p[k] = string(b)
			}
		}
		return true
	}
	return false
}

func c07Run(input string) string {
	f := strings.Split(input, "|")
	if len(f) != 4 {
		return "bad-input"
	}
	suiteName, repr, mut := f[0], f[1], f[3]
	seed, _ := strconv.Atoi(f[2])
	if suiteName == "jwt" {
		return c07RunJWT(repr, seed, mut)
	}
	e := c07E
	cs := envCrypto
	var (
		signSuite   interface{}
		verifySuite sigverifier.SignatureSuite
		sigType     string
		keyName     string
		keyType     string
	)
	if suiteName == "di2019" {
		return c07RunDI(seed, mut)
	}
	switch suiteName {
	case "ed2018":
		sigType, keyName, keyType = "Ed25519Signature2018", "ed", "Ed25519VerificationKey2018"
		signSuite = ed25519signature2018.New(suite.WithSigner(suite.NewCryptoSigner(cs, e.handles["ed"])))
		verifySuite = ed25519signature2018.New(suite.WithVerifier(ed25519signature2018.NewPublicKeyVerifier()))
	case "ed2020":
		sigType, keyName, keyType = "Ed25519Signature2020", "ed", "Ed25519VerificationKey2020"
		signSuite = ed25519signature2020.New(suite.WithSigner(suite.NewCryptoSigner(cs, e.handles["ed"])))
		verifySuite = ed25519signature2020.New(suite.WithVerifier(ed25519signature2020.NewPublicKeyVerifier()))
	case "jws2020":
		sigType, keyName, keyType = "JsonWebSignature2020", "p256", "JsonWebKey2020"
		signSuite = jsonwebsignature2020.New(suite.WithSigner(suite.NewCryptoSigner(cs, e.handles["p256"])))
		verifySuite = jsonwebsignature2020.New(suite.WithVerifier(jsonwebsignature2020.NewPublicKeyVerifier()))
	case "k256":
		sigType, keyName, keyType = "EcdsaSecp256k1Signature2019", "k256", "EcdsaSecp256k1VerificationKey2019"
		signSuite = ecdsasecp256k1signature2019.New(suite.WithSigner(suite.NewCryptoSigner(cs, e.handles["k256"])))
		verifySuite = ecdsasecp256k1signature2019.New(suite.WithVerifier(ecdsasecp256k1signature2019.NewPublicKeyVerifier()))
	case "bbs":
		sigType, keyName, keyType = "BbsBlsSignature2020", "bbs", "Bls12381G2Key2020"
		signSuite = bbsblssignature2020.New(suite.WithSigner(c07BBSSigner{e.handles["bbs"]}))
		verifySuite = bbsblssignature2020.New(suite.WithVerifier(bbsblssignature2020.NewG2PublicKeyVerifier()))
	default:
		return "bad-input"
	}
	doc := c07Doc(seed)
	if extra := map[string]string{"ed2020": "https://w3id.org/security/suites/ed25519-2020/v1", "bbs": "https://w3id.org/security/bbs/v1",
		"jws2020": "https://w3id.org/security/suites/jws-2020/v1"}[suiteName]; extra != "" {
		doc["@context"] = append(doc["@context"].([]interface{}), extra)
	}
	docJSON, _ := json.Marshal(doc)
	popts := []verifiable.CredentialOpt{verifiable.WithJSONLDDocumentLoader(e.loader), verifiable.WithDisabledProofCheck()}
	vc, err := verifiable.ParseCredential(docJSON, popts...)
	if err != nil {
		return "sign=err parse " + c16Class(err)
	}
	created := time.Date(2020, 5, 5, 5, 5, 5, 0, time.UTC)
	rep := verifiable.SignatureProofValue
	if repr == "jws" {
		rep = verifiable.SignatureJWS
	}
	ctx := &verifiable.LinkedDataProofContext{SignatureType: sigType, SignatureRepresentation: rep, Created: &created,
		VerificationMethod: "did:example:issuer#key-1", Purpose: "assertionMethod", Domain: "issuer.example", Challenge: "c-123"}
	if seed%3 == 0 { // a proof that names neither a domain nor a challenge
		ctx.Domain, ctx.Challenge = "", ""
	}
	if seed%5 == 1 { // ... a challenge without a domain
		ctx.Domain = ""
	}
	if seed%5 == 2 && seed%3 != 0 { // ... a domain without a challenge
		ctx.Challenge = ""
	}
	switch s := signSuite.(type) {
	case *ed25519signature2018.Suite:
		ctx.Suite = s
	case *ed25519signature2020.Suite:
		ctx.Suite = s
	case *jsonwebsignature2020.Suite:
		ctx.Suite = s
	case *ecdsasecp256k1signature2019.Suite:
		ctx.Suite = s
	case *bbsblssignature2020.Suite:
		ctx.Suite = s
	}
	if err := vc.AddLinkedDataProof(ctx, c07LDOpt(e.loader)); err != nil {
		if os_trace() {
			fmt.Println("#", err)
		}
		return "sign=err " + c16Class(err)
	}
	signed, err := vc.MarshalJSON()
	if err != nil {
		return "sign=err marshal"
	}
	// the public key as the suite's verifier wants it
	var fetcher verifiable.PublicKeyFetcher
	pub := e.pubs[keyName]
	switch keyName {
	case "p256":
		j, err := jwksupport.PubKeyBytesToJWK(pub, kmsapi.ECDSAP256TypeIEEEP1363)
		if err != nil {
			return "sign=err jwk"
		}
		fetcher = func(_, _ string) (*sigverifier.PublicKey, error) {
			return &sigverifier.PublicKey{Type: keyType, JWK: j}, nil
		}
	case "ed":
		fetcher = verifiable.SingleKey(ed25519.PublicKey(pub), keyType)
	default:
		fetcher = verifiable.SingleKey(pub, keyType)
	}
	view := ""
	verify := func(doc []byte, strict bool) string {
		opts := []verifiable.CredentialOpt{verifiable.WithJSONLDDocumentLoader(e.loader), verifiable.WithPublicKeyFetcher(fetcher),
			verifiable.WithEmbeddedSignatureSuites(verifySuite)}
		if strict {
			opts = append(opts, verifiable.WithStrictValidation())
		}
		v, err := verifiable.ParseCredential(doc, opts...)
		if err != nil {
			if os_trace() {
				fmt.Println("#", err)
			}
			return "rej"
		}
		if len(v.Proofs) == 0 && v.JWT == "" {
			return "noproof"
		}
		issued := ""
		if v.Issued != nil {
			issued = v.Issued.FormatToString()
		}
		view = fmt.Sprintf("%s %s %s %v", v.ID, v.Issuer.ID, issued, v.Types)
		return "acc"
	}
	base := verify(signed, false)
	baseView := view
	var m map[string]interface{}
	if err := json.Unmarshal(signed, &m); err != nil {
		return "sign=err decode"
	}
	applied := c07Mutate(m, mut)
	mutated, _ := json.Marshal(m)
	extra := ""
	if strings.HasPrefix(mut, "addcase:") {
		// a member that differs from a signed member only by case, carrying another value, placed LAST: JSON-LD does not know
		// the term, encoding/json would decode it INTO the known member of the Go value (the last match wins)
		member := map[string]string{
			"Issuer": `"Issuer":"did:example:another-issuer"`, "ID": `"ID":"http://example.edu/credentials/another-id"`,
			"Id": `"Id":"http://example.edu/credentials/another-id"`, "IssuanceDate": `"IssuanceDate":"2031-01-01T19:23:24Z"`,
			"Type": `"Type":["VerifiableCredential","AnotherCredential"]`,
			// encoding/json folds names with Unicode simple folding: U+017F (long s) matches s, U+212A (Kelvin sign) matches k
			"iſſuer":       `"iſſuer":"did:example:another-issuer"`,
			"iſsuer":       `"iſsuer":{"id":"did:example:another-issuer"}`,
			"iſſuanceDate": `"iſſuanceDate":"2031-01-01T19:23:24Z"`,
			"ISſUER":       `"ISſUER":"did:example:another-issuer"`,
		}[strings.TrimPrefix(mut, "addcase:")]
		if member == "" {
			return "bad-input"
		}
		applied = true
		mutated = append(append(append([]byte{}, mutated[:len(mutated)-1]...), ',') , []byte(member+"}")...)
	}
	view = ""
	res := verify(mutated, false)
	// the signed and the altered document verified by several goroutines at once (a quarter of the cases): each
	// verification reaches the verdict it reaches alone
	if len(input)%4 == 0 {
		quiet := func(doc []byte) string {
			opts := []verifiable.CredentialOpt{verifiable.WithJSONLDDocumentLoader(e.loader), verifiable.WithPublicKeyFetcher(fetcher),
				verifiable.WithEmbeddedSignatureSuites(verifySuite)}
			v, err := verifiable.ParseCredential(doc, opts...)
			if err != nil {
				return "rej"
			}
			if len(v.Proofs) == 0 && v.JWT == "" {
				return "noproof"
			}
			return "acc"
		}
		var wg sync.WaitGroup
		var differs atomic.Bool
		for g := 0; g < 6; g++ {
			wg.Add(1)
			go func(g int) {
				defer wg.Done()
				defer func() {
					if recover() != nil {
						differs.Store(true)
					}
				}()
				if g%2 == 0 {
					if quiet(signed) != base {
						differs.Store(true)
					}
				} else if quiet(mutated) != res {
					differs.Store(true)
				}
			}(g)
		}
		wg.Wait()
		if differs.Load() {
			return "sign=ok base=" + base + " res=verdict-differs-under-concurrent-verification"
		}
	}
	if strings.HasPrefix(mut, "addcase:") {
		// what the accepted credential reports for its signed members
		switch {
		case res != "acc":
			extra = " view=-"
		case view == baseView:
			extra = " view=same"
		default:
			extra = " view=changed"
		}
	}
	strict := verify(mutated, true)
	ap := "1"
	if !applied {
		ap = "0"
	}
	return fmt.Sprintf("sign=ok base=%s res=%s strict=%s applied=%s%s|%s|%s", base, res, strict, ap, extra,
		strings.ReplaceAll(string(signed), "|", "/"), strings.ReplaceAll(string(mutated), "|", "/"))
}

// ---- Data Integrity (ecdsa-2019) --------------------------------------------------------------------------------------

type c07Resolver struct{ doc *did.Doc }

func (r c07Resolver) Resolve(string, ...vdrspi.DIDMethodOption) (*did.DocResolution, error) {
	return &did.DocResolution{DIDDocument: r.doc}, nil
}

func c07RunDI(seed int, mut string) string {
	e := c07E
	const signingDID, vmID = "did:example:issuer", "#key-1"
	j, err := jwkkid.BuildJWK(e.pubs["p256"], kmsapi.ECDSAP256TypeIEEEP1363)
	if err != nil {
		return "sign=err jwk"
	}
	vm, err := did.NewVerificationMethodFromJWK(signingDID+vmID, "JsonWebKey2020", signingDID, j)
	if err != nil {
		return "sign=err vm"
	}
	resolver := c07Resolver{&did.Doc{ID: signingDID, VerificationMethod: []did.VerificationMethod{*vm},
		AssertionMethod: []did.Verification{{VerificationMethod: *vm, Relationship: did.AssertionMethod}}}}
	signer, err := dataintegrity.NewSigner(&dataintegrity.Options{DIDResolver: resolver},
		ecdsa2019.NewSignerInitializer(&ecdsa2019.SignerInitializerOptions{SignerGetter: ecdsa2019.WithLocalKMSSigner(e.kms, envCrypto),
			LDDocumentLoader: e.loader}))
	if err != nil {
		return "sign=err signer"
	}
	verifier, err := dataintegrity.NewVerifier(&dataintegrity.Options{DIDResolver: resolver},
		ecdsa2019.NewVerifierInitializer(&ecdsa2019.VerifierInitializerOptions{LDDocumentLoader: e.loader}))
	if err != nil {
		return "sign=err verifier"
	}
	doc := c07Doc(seed)
	doc["@context"] = append(doc["@context"].([]interface{}), "https://w3id.org/security/data-integrity/v1")
	docJSON, _ := json.Marshal(doc)
	vc, err := verifiable.ParseCredential(docJSON, verifiable.WithJSONLDDocumentLoader(e.loader), verifiable.WithDisabledProofCheck())
	if err != nil {
		return "sign=err parse " + c16Class(err)
	}
	created := time.Date(2020, 5, 5, 5, 5, 5, 0, time.UTC)
	if err := vc.AddDataIntegrityProof(&verifiable.DataIntegrityProofContext{SigningKeyID: signingDID + vmID, ProofPurpose: "assertionMethod",
		CryptoSuite: ecdsa2019.SuiteType, Created: &created, Domain: "issuer.example", Challenge: "c-123"}, signer); err != nil {
		if os_trace() {
			fmt.Println("#", err)
		}
		return "sign=err " + c16Class(err)
	}
	signed, err := vc.MarshalJSON()
	if err != nil {
		return "sign=err marshal"
	}
	verify := func(doc []byte, strict bool) string {
		opts := []verifiable.CredentialOpt{verifiable.WithJSONLDDocumentLoader(e.loader), verifiable.WithDataIntegrityVerifier(verifier),
			verifiable.WithExpectedDataIntegrityFields("assertionMethod", "issuer.example", "c-123")}
		if strict {
			opts = append(opts, verifiable.WithStrictValidation())
		}
		v, err := verifiable.ParseCredential(doc, opts...)
		if err != nil {
			if os_trace() {
				fmt.Println("#", err)
			}
			return "rej"
		}
		if len(v.Proofs) == 0 && v.JWT == "" {
			return "noproof"
		}
		return "acc"
	}
	base := verify(signed, false)
	var m map[string]interface{}
	if err := json.Unmarshal(signed, &m); err != nil {
		return "sign=err decode"
	}
	applied := c07Mutate(m, mut)
	mutated, _ := json.Marshal(m)
	res, strict := verify(mutated, false), verify(mutated, true)
	ap := "1"
	if !applied {
		ap = "0"
	}
	return fmt.Sprintf("sign=ok base=%s res=%s strict=%s applied=%s|%s|%s", base, res, strict, ap,
		strings.ReplaceAll(string(signed), "|", "/"), strings.ReplaceAll(string(mutated), "|", "/"))
}

type c07BBSSigner struct{ kh interface{} }

func (s c07BBSSigner) Sign(data []byte) ([]byte, error) {
	var msgs [][]byte
	for _, l := range strings.Split(string(data), "\n") {
		if l != "" {
			msgs = append(msgs, []byte(l))
		}
	}
	return envCrypto.SignMulti(msgs, s.kh)
}
func (s c07BBSSigner) Alg() string { return "" }

func c07Gen(r *Rng, tier string) []string {
	n := 420
	if tier == "thorough" {
		n = 12000
	}
	var out []string
	suites := []string{"ed2018", "ed2018", "ed2020", "jws2020", "k256", "bbs", "di2019", "di2019"}
	for i := 0; i < n; i++ {
		s := r.Pick(suites)
		repr := "pv"
		if (s == "ed2018" || s == "jws2020" || s == "k256") && r.Bool() {
			repr = "jws"
		}
		if s == "jws2020" {
			repr = "jws"
		}
		var mut string
		switch x := r.N(20); {
		case x < 1:
			mut = "none"
		case x < 7:
			mut = fmt.Sprintf("chg:%d", r.N(200))
		case x < 10:
			mut = fmt.Sprintf("del:%d", r.N(200))
		case x < 12:
			mut = "adddef:" + r.Pick([]string{"top", "subject", "nested", "elem", "elem1"})
		case x < 15:
			mut = "addundef:" + r.Pick([]string{"top", "subject", "nested", "elem", "elem", "elem1"})
		case x < 16:
			mut = r.Pick([]string{"reorder", "dup", "proof2:foreign", "proof2:altered"})
		case x < 18:
			mut = "opt:" + r.Pick([]string{"created", "verificationMethod", "proofPurpose", "domain", "challenge", "domain-arr", "domain-arr",
				"challenge-arr", "created-arr", "proofPurpose-arr", "verificationMethod-arr", "domain-num", "challenge-num", "domain-obj", "challenge-obj",
				"domain-ctx", "domain-ctx", "created-ctx", "purpose-ctx"})
		case x < 19:
			mut = r.Pick([]string{"delproof", "proof2:foreign", "proof2:foreign", "proof2:altered", "addtype:top", "addtype:subject", "addtype:nested",
				"addcase:Issuer", "addcase:Issuer", "addcase:ID", "addcase:Id", "addcase:IssuanceDate", "addcase:Type",
				"addcase:iſſuer", "addcase:iſsuer", "addcase:iſſuanceDate", "addcase:ISſUER"})
		default:
			mut = "sig"
		}
		seed := r.N(60)
		if r.N(6) == 0 {
			// arrays whose elements have different numbers of members, and an undefined member on the smaller one
			seed = 200 + r.N(20)
			mut = r.Pick([]string{"addundef:elem", "addundef:elem", "addundef:subj2", "adddef:elem", "none"})
		}
		if r.N(5) == 0 { // a credential with the base context only (suites whose terms the base context defines)
			seed = 100 + r.N(20)
			s = r.Pick([]string{"ed2018", "ed2018", "k256"})
			repr = r.Pick([]string{"pv", "jws"})
			if r.N(3) != 0 {
				mut = r.Pick([]string{"addundef", "addundef", "adddef"}) + ":" + r.Pick([]string{"subject", "subj2", "issuer", "top"})
				if r.N(6) == 0 {
					mut = "addbn:" + r.Pick([]string{"top", "subject", "vocab"})
				}
			}
		}
		out = append(out, fmt.Sprintf("%s|%s|%d|%s", s, repr, seed, mut))
	}
	out = append(out, c07JWTGen(r, n/4)...)
	return out
}

func init() {
	register("C07", &Prop{Gen: c07Gen, Run: c07Run, Setup: c07Setup})
}

func c07LDOpt(l ld.DocumentLoader) processor.Opts { return processor.WithDocumentLoader(l) }
