package main

// C17, credential level: a JSON-LD credential carrying one or more BbsBlsSignature2020 proofs (and possibly proofs of
// other suites), a reveal frame, Credential.GenerateBBSSelectiveDisclosure, and the verification of the derived credential.
//
// input  := "vc" "|" P "|" proofs "|" S "|" nonce "|" NEG
//   P      : letters of the credential subject's members that are present (a..g; g is a nested node without an id)
//   proofs : one letter per proof of the credential, in order: b (BbsBlsSignature2020, key number = position among the b's)
//            e (Ed25519Signature2018)
//   S      : letters the reveal frame selects ("-" for none)
//   nonce  : e | s | l
//   NEG    : none | chg:x (value of revealed member x changed in the derived credential) | add:x (hidden member x put back
//            with its issued value) | drop:x (revealed member x removed) | nonce | key | swap (the proof values of the first
//            two derived proofs exchanged) | issuer (issuer changed)
// output := derive=<ok|err> members=<letters> proofs=<n> types=<ok|other> verify=<ok|fail> neg=<ok|fail|na>

import (
	"crypto/ed25519"
	"encoding/hex"
	"encoding/json"
	"fmt"
	"sort"
	"strings"
	"time"

	"github.com/hyperledger/aries-framework-go/component/kmscrypto/crypto/primitive/bbs12381g2pub"
	ldcontext "github.com/hyperledger/aries-framework-go/component/models/ld/context"
	ldtestutil "github.com/hyperledger/aries-framework-go/component/models/ld/testutil"
	"github.com/hyperledger/aries-framework-go/component/models/signature/suite"
	"github.com/hyperledger/aries-framework-go/component/models/signature/suite/bbsblssignature2020"
	"github.com/hyperledger/aries-framework-go/component/models/signature/suite/bbsblssignatureproof2020"
	"github.com/hyperledger/aries-framework-go/component/models/signature/suite/ed25519signature2018"
	sigverifier "github.com/hyperledger/aries-framework-go/component/models/signature/verifier"
	"github.com/hyperledger/aries-framework-go/component/models/verifiable"
	kmsapi "github.com/hyperledger/aries-framework-go/spi/kms"
	ld "github.com/piprate/json-gold/ld"
)

type c17VCEnv struct {
	loader ld.DocumentLoader
	bbsKH  []interface{}
	bbsPub [][]byte
	edKH   interface{}
	edPub  []byte
}

var c17V *c17VCEnv

var c17Members = map[byte]string{'a': "name", 'b': "nick", 'c': "score", 'd': "college", 'e': "level", 'f': "since", 'g': "degree"}

func c17VCSetup() {
	l, err := ldtestutil.DocumentLoader(ldcontext.Document{URL: c07Ctx, Content: json.RawMessage(c07CtxDoc)})
	if err != nil {
		panic(err)
	}
	e := &c17VCEnv{loader: l}
	km := c04NewKMS()
	for i := 0; i < 4; i++ {
		kid, kh, err := km.Create(kmsapi.BLS12381G2Type)
		if err != nil {
			panic(err)
		}
		pb, _, err := km.ExportPubKeyBytes(kid)
		if err != nil {
			panic(err)
		}
		e.bbsKH, e.bbsPub = append(e.bbsKH, kh), append(e.bbsPub, pb)
	}
	kid, kh, err := km.Create(kmsapi.ED25519Type)
	if err != nil {
		panic(err)
	}
	e.edKH = kh
	e.edPub, _, err = km.ExportPubKeyBytes(kid)
	if err != nil {
		panic(err)
	}
	c17V = e
}

func c17MemberValue(x byte, present string) interface{} {
	switch x {
	case 'c':
		return 40 + len(present)
	case 'g':
		return map[string]interface{}{"college": "college of " + present, "level": "level-" + present}
	}
	return fmt.Sprintf("value of %c in %s", x, present)
}

func c17RunVC(f []string) string {
	if c17V == nil {
		c17VCSetup()
	}
	e := c17V
	present, proofs, sel, nonce, neg := f[1], f[2], f[3], c17Nonce(f[4]), strings.Split(f[5], ":")
	if sel == "-" {
		sel = ""
	}
	sub := map[string]interface{}{"id": "did:example:subject"}
	for i := 0; i < len(present); i++ {
		name, ok := c17Members[present[i]]
		if !ok {
			return "bad-input"
		}
		sub[name] = c17MemberValue(present[i], present)
	}
	ctx := []interface{}{"https://www.w3.org/2018/credentials/v1", c07Ctx, "https://w3id.org/security/bbs/v1"}
	doc := map[string]interface{}{"@context": ctx, "id": "http://example.edu/credentials/c17", "type": []interface{}{"VerifiableCredential", "DegreeCredential"},
		"issuer": "did:example:issuer", "issuanceDate": "2020-01-01T19:23:24Z", "credentialSubject": sub}
	raw, _ := json.Marshal(doc)
	vc, err := verifiable.ParseCredential(raw, verifiable.WithJSONLDDocumentLoader(e.loader), verifiable.WithDisabledProofCheck())
	if err != nil {
		return "issue=err parse"
	}
	nb := 0
	for i := 0; i < len(proofs); i++ {
		created := time.Date(2020, 5, 5, 5, 5, 5+i, 0, time.UTC)
		lc := &verifiable.LinkedDataProofContext{SignatureRepresentation: verifiable.SignatureProofValue, Created: &created, Purpose: "assertionMethod"}
		switch proofs[i] {
		case 'b':
			if nb >= 3 {
				return "bad-input"
			}
			lc.SignatureType, lc.VerificationMethod = "BbsBlsSignature2020", fmt.Sprintf("did:example:issuer#bbs-%d", nb)
			lc.Suite = bbsblssignature2020.New(suite.WithSigner(c07BBSSigner{e.bbsKH[nb]}))
			nb++
		case 'e':
			lc.SignatureType, lc.VerificationMethod = "Ed25519Signature2018", "did:example:issuer#ed"
			lc.Suite = ed25519signature2018.New(suite.WithSigner(suite.NewCryptoSigner(envCrypto, e.edKH)))
		default:
			return "bad-input"
		}
		if err := vc.AddLinkedDataProof(lc, c07LDOpt(e.loader)); err != nil {
			return "issue=err sign"
		}
	}
	fetch := func(wrong bool) verifiable.PublicKeyFetcher {
		return func(_, keyID string) (*sigverifier.PublicKey, error) {
			if strings.HasSuffix(keyID, "#ed") {
				return &sigverifier.PublicKey{Type: "Ed25519VerificationKey2018", Value: ed25519.PublicKey(e.edPub)}, nil
			}
			for i := 0; i < 3; i++ {
				if strings.HasSuffix(keyID, fmt.Sprintf("#bbs-%d", i)) {
					if wrong {
						i = 3
					}
					return &sigverifier.PublicKey{Type: "Bls12381G2Key2020", Value: e.bbsPub[i]}, nil
				}
			}
			return nil, fmt.Errorf("no key %s", keyID)
		}
	}
	// the issued credential verifies (all its proofs)
	signed, err := vc.MarshalJSON()
	if err != nil {
		return "issue=err marshal"
	}
	if len(proofs) > 0 {
		if _, err := verifiable.ParseCredential(signed, verifiable.WithJSONLDDocumentLoader(e.loader), verifiable.WithPublicKeyFetcher(fetch(false)),
			verifiable.WithEmbeddedSignatureSuites(bbsblssignature2020.New(suite.WithVerifier(bbsblssignature2020.NewG2PublicKeyVerifier())),
				ed25519signature2018.New(suite.WithVerifier(ed25519signature2018.NewPublicKeyVerifier())))); err != nil {
			return "issue=err verify"
		}
	}
	fsub := map[string]interface{}{"@explicit": true}
	for i := 0; i < len(sel); i++ {
		name, ok := c17Members[sel[i]]
		if !ok {
			return "bad-input"
		}
		fsub[name] = map[string]interface{}{}
	}
	frame := map[string]interface{}{"@context": ctx, "type": []interface{}{"VerifiableCredential", "DegreeCredential"}, "@explicit": true,
		"issuer": map[string]interface{}{}, "issuanceDate": map[string]interface{}{}, "credentialSubject": fsub}
	derived, err := vc.GenerateBBSSelectiveDisclosure(frame, nonce, verifiable.WithJSONLDDocumentLoader(e.loader), verifiable.WithPublicKeyFetcher(fetch(false)))
	if err != nil {
		if os_trace() {
			fmt.Println("#", err)
		}
		return "derive=err"
	}
	dbytes, err := derived.MarshalJSON()
	if err != nil {
		return "derive=err marshal"
	}
	var dm map[string]interface{}
	if err := json.Unmarshal(dbytes, &dm); err != nil {
		return "derive=err json"
	}
	// what the derived credential says about the subject
	var members []string
	dsub, _ := dm["credentialSubject"].(map[string]interface{})
	for k, v := range dsub {
		if k == "id" {
			continue
		}
		letter := "?" + k
		for l, name := range c17Members {
			if name == k {
				letter = string(l)
				want, _ := json.Marshal(c17MemberValue(l, present))
				got, _ := json.Marshal(v)
				if _, nested := v.(map[string]interface{}); !nested {
					// typed literals come back in their lexical form ("44" for 44): the statement is the same
					want, got = []byte(fmt.Sprint(c17MemberValue(l, present))), []byte(fmt.Sprint(v))
				}
				if string(want) != string(got) {
					if m, ok := v.(map[string]interface{}); ok { // a nested node may carry a generated id
						delete(m, "id")
						got, _ = json.Marshal(m)
					}
					if string(want) != string(got) {
						letter += "!"
					}
				}
			}
		}
		members = append(members, letter)
	}
	sort.Strings(members)
	np := 0
	switch p := dm["proof"].(type) {
	case []interface{}:
		np = len(p)
	case map[string]interface{}:
		np = 1
	}
	types := "ok"
	if t, _ := json.Marshal(dm["type"]); string(t) != `["VerifiableCredential","DegreeCredential"]` &&
		string(t) != `["DegreeCredential","VerifiableCredential"]` { // a set: framing orders it
		types = "other"
	}
	subID := dsub["id"]
	if s, ok := dm["credentialSubject"].(string); ok { // nothing but the id is disclosed
		subID = s
	}
	if dm["issuer"] != "did:example:issuer" || dm["issuanceDate"] != "2020-01-01T19:23:24Z" || subID != "did:example:subject" {
		types = "other"
	}
	verify := func(b []byte, nc []byte, wrongKey bool) string {
		_, err := verifiable.ParseCredential(b, verifiable.WithJSONLDDocumentLoader(e.loader), verifiable.WithPublicKeyFetcher(fetch(wrongKey)),
			verifiable.WithEmbeddedSignatureSuites(bbsblssignatureproof2020.New(suite.WithCompactProof(),
				suite.WithVerifier(bbsblssignatureproof2020.NewG2PublicKeyVerifier(nc)))))
		if err != nil {
			if os_trace() {
				fmt.Println("#", err)
			}
			return "fail"
		}
		return "ok"
	}
	honest := verify(dbytes, nonce, false)
	if honest != "ok" {
		// where does it come from: the verifier (same bytes accepted the second time), the derivation (another derivation
		// of the same signed credential is accepted) or the signed credential
		if verify(dbytes, nonce, false) == "ok" {
			honest = "fail(verifier-unstable)"
		} else if d2, err := vc.GenerateBBSSelectiveDisclosure(frame, nonce, verifiable.WithJSONLDDocumentLoader(e.loader), verifiable.WithPublicKeyFetcher(fetch(false))); err == nil {
			b2, _ := d2.MarshalJSON()
			if verify(b2, nonce, false) == "ok" {
				honest = "fail(this-derivation)"
			} else {
				honest = "fail(every-derivation)"
			}
		}
		if os_trace() {
			fmt.Printf("# FAILING signed=%s\n# derived=%s\n# keys=%x %x %x\n", signed, dbytes, e.bbsPub[0], e.bbsPub[1], e.bbsPub[2])
		}
	}
	negRes := "na"
	remarshal := func() []byte { b, _ := json.Marshal(dm); return b }
	arg := byte(0)
	if len(neg) > 1 && len(neg[1]) == 1 {
		arg = neg[1][0]
	}
	name := c17Members[arg]
	_, inDerived := dsub[name]
	switch neg[0] {
	case "chg":
		if name != "" && inDerived {
			switch v := dsub[name].(type) {
			case string:
				dsub[name] = v + "x"
			case float64:
				dsub[name] = v + 1
			case map[string]interface{}:
				v["level"] = "level-x"
			}
			negRes = verify(remarshal(), nonce, false)
		}
	case "add":
		if name != "" && !inDerived && strings.IndexByte(present, arg) >= 0 {
			if dsub == nil {
				dsub = map[string]interface{}{"id": dm["credentialSubject"]}
				dm["credentialSubject"] = dsub
			}
			dsub[name] = c17MemberValue(arg, present)
			negRes = verify(remarshal(), nonce, false)
		}
	case "drop":
		if name != "" && inDerived {
			delete(dsub, name)
			negRes = verify(remarshal(), nonce, false)
		}
	case "nonce":
		negRes = verify(dbytes, []byte("another nonce"), false)
	case "key":
		negRes = verify(dbytes, nonce, true)
	case "issuer":
		dm["issuer"] = "did:example:issuer2"
		negRes = verify(remarshal(), nonce, false)
	case "swap":
		if ps, ok := dm["proof"].([]interface{}); ok && len(ps) >= 2 {
			p0, p1 := ps[0].(map[string]interface{}), ps[1].(map[string]interface{})
			p0["proofValue"], p1["proofValue"] = p1["proofValue"], p0["proofValue"]
			negRes = verify(remarshal(), nonce, false)
		}
	}
	return fmt.Sprintf("derive=ok members=%s proofs=%d types=%s verify=%s neg=%s", strings.Join(members, ""), np, types, honest, negRes)
}

// a recorded proof: "proof" | key | proof | nonce | messages (comma separated) | "honest"     (everything in hex)
// The proofs of the corpus were derived by DeriveProof from valid signatures: the verifier has to accept them.
func c17RunProof(f []string) string {
	dec := func(s string) []byte {
		b, err := hex.DecodeString(s)
		if err != nil {
			return nil
		}
		return b
	}
	var msgs [][]byte
	for _, m := range strings.Split(f[4], ",") {
		msgs = append(msgs, dec(m))
	}
	if err := bbs12381g2pub.New().VerifyProof(msgs, dec(f[2]), dec(f[3]), dec(f[1])); err != nil {
		return "verify=fail"
	}
	return "verify=ok"
}

func c17VCGen(r *Rng, n int) []string {
	var out []string
	letters := "abcdefg"
	for i := 0; i < n; i++ {
		var p, s string
		loose := r.N(8) == 0 // the frame may name members the credential does not have
		for j := 0; j < len(letters); j++ {
			has := r.N(3) != 0
			if has {
				p += string(letters[j])
			}
			if r.N(2) == 0 && (has || loose) {
				s += string(letters[j])
			}
		}
		if s == "" {
			s = "-"
		}
		proofs := r.Pick([]string{"b", "b", "bb", "bb", "bbb", "be", "eb", "beb", "ebb", "e", "bbe"})
		var neg string
		switch x := r.N(12); {
		case x < 2:
			neg = "none"
		case x < 5:
			neg = "chg:" + string(letters[r.N(7)])
		case x < 7:
			neg = "add:" + string(letters[r.N(7)])
		case x < 8:
			neg = "drop:" + string(letters[r.N(7)])
		case x < 9:
			neg = "nonce"
		case x < 10:
			neg = "key"
		case x < 11:
			neg = "issuer"
		default:
			neg = "swap"
		}
		out = append(out, fmt.Sprintf("vc|%s|%s|%s|%s|%s", p, proofs, s, r.Pick([]string{"s", "s", "e", "l"}), neg))
	}
	return out
}
