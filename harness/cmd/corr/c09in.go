package main

// C09 (introduce): the real introduce service driven by message sequences, application decisions and transport faults;
// no engine model - the Lean oracle judges what the service announced and persisted against the published graph.
//
// input := "in1|" ops (the op syntax of c09.go) plus "oob T" (an out-of-band invitation event whose parent thread is T)
//   messages: prop (proposal), req (request), resp (response, approve with an out-of-band message), respn (response,
//   not approved), ack, pr (problem report); continue options: none | recip (two recipients) | recip1 | oob (invitation)

import (
	"fmt"
	"strings"
	"time"

	"github.com/hyperledger/aries-framework-go/pkg/didcomm/common/service"
	"github.com/hyperledger/aries-framework-go/pkg/didcomm/protocol/introduce"
	"github.com/hyperledger/aries-framework-go/pkg/didcomm/protocol/outofband"
	spi "github.com/hyperledger/aries-framework-go/spi/storage"
)

// stand-in for the out-of-band service: introduce only subscribes to its state events
type c09OOB struct{ ch chan<- service.StateMsg }

func (o *c09OOB) RegisterActionEvent(chan<- service.DIDCommAction) error   { return nil }
func (o *c09OOB) UnregisterActionEvent(chan<- service.DIDCommAction) error { return nil }
func (o *c09OOB) RegisterMsgEvent(ch chan<- service.StateMsg) error        { o.ch = ch; return nil }
func (o *c09OOB) UnregisterMsgEvent(chan<- service.StateMsg) error         { return nil }

type c09InProvider struct {
	c09Provider
	oob *c09OOB
}

func (p *c09InProvider) Service(string) (interface{}, error) { return p.oob, nil }

type inDriver struct {
	svc   *introduce.Service
	store spi.Store
	oob   *c09OOB
}

func (d *inDriver) handleInbound(msg service.DIDCommMsgMap) error {
	_, err := d.svc.HandleInbound(msg, service.NewDIDCommContext("me", "them", nil))
	return err
}
func (d *inDriver) handleOutbound(msg service.DIDCommMsgMap) error {
	_, err := d.svc.HandleOutbound(msg, "me", "them")
	return err
}

// the listener has no barrier hook: callbacks are executed within a few hundred microseconds
func (d *inDriver) sync() { time.Sleep(15 * time.Millisecond) }

func (d *inDriver) message(short, thread string, n int, outbound bool) service.DIDCommMsgMap {
	types := map[string]string{"prop": introduce.ProposalMsgType, "req": introduce.RequestMsgType, "resp": introduce.ResponseMsgType,
		"respn": introduce.ResponseMsgType, "ack": introduce.AckMsgType, "pr": introduce.ProblemReportMsgType}
	t, ok := types[short]
	if !ok {
		return nil
	}
	m := map[string]interface{}{"@type": t}
	id := fmt.Sprintf("m%d", n)
	if outbound {
		id = thread
	}
	m["@id"] = id
	if !outbound {
		m["~thread"] = map[string]interface{}{"thid": thread}
	}
	switch short {
	case "prop":
		m["to"] = map[string]interface{}{"name": "bob"}
	case "req":
		m["please_introduce_to"] = map[string]interface{}{"name": "bob"}
	case "resp":
		m["approve"] = true
		m["oob-message"] = map[string]interface{}{"@type": outofband.InvitationMsgType, "@id": "inv-" + id, "label": "x",
			"services": []interface{}{"did:example:svc"}}
	case "respn":
		m["approve"] = false
	}
	return c09Msg(m)
}

func (d *inDriver) contOpt(o string) interface{} {
	to := &introduce.To{Name: "carol"}
	rec := &introduce.Recipient{To: &introduce.To{Name: "bob"}, MyDID: "me2", TheirDID: "them2"}
	switch o {
	case "recip":
		return introduce.WithRecipients(to, rec)
	case "recip1":
		return introduce.WithRecipients(to, nil)
	case "oob":
		return introduce.WithOOBInvitation(&outofband.Invitation{ID: "inv-c", Type: outofband.InvitationMsgType, Label: "x",
			Services: []interface{}{"did:example:svc"}})
	}
	return nil
}

func (d *inDriver) persisted(thread string) string {
	b, err := d.store.Get("state_name_" + thread)
	if err != nil {
		return "-"
	}
	return string(b)
}

// an out-of-band state event (a received invitation) whose parent thread id names `thread`
func (d *inDriver) oobEvent(thread string, n int) {
	if d.oob.ch == nil {
		return
	}
	msg := c09Msg(map[string]interface{}{"@type": outofband.InvitationMsgType, "@id": fmt.Sprintf("oob%d", n),
		"~thread": map[string]interface{}{"pthid": thread}})
	select {
	case d.oob.ch <- service.StateMsg{ProtocolName: outofband.Name, Type: service.PreState, StateID: "initial", Msg: msg}:
	case <-time.After(200 * time.Millisecond):
	}
	time.Sleep(15 * time.Millisecond)
}

func c09inGen(r *Rng, n int) []string {
	msgs := []string{"prop", "req", "resp", "respn", "ack", "pr"}
	opts := []string{"none", "none", "recip", "oob"}
	flows := [][]string{
		{"in T prop", "cont 0 none", "in T ack"}, {"in T prop", "stop 0"},
		{"out T prop", "in T resp", "cont 0 none", "in T resp", "cont 0 none"},
		{"in T req", "cont 0 recip", "in T resp", "cont 0 none", "in T resp", "cont 0 none"},
		{"in T req", "cont 0 oob", "in T resp", "cont 0 none"}, {"out T req", "in T prop", "cont 0 none"},
		{"in T req", "cont 0 recip", "in T respn", "cont 0 none"}, {"in T prop", "cont 0 none", "in T pr", "cont 0 none"},
	}
	var out []string
	for i := 0; i < n; i++ {
		var ops []string
		if i%2 == 0 {
			for j := 3 + r.N(8); j > 0; j-- {
				th := fmt.Sprintf("t%d", 1+r.N(2))
				switch c := r.N(12); {
				case c < 5:
					ops = append(ops, "in "+th+" "+r.Pick(msgs))
				case c < 6:
					ops = append(ops, "out "+th+" "+r.Pick([]string{"prop", "req"}))
				case c < 10:
					ops = append(ops, fmt.Sprintf("cont %d %s", r.N(2), r.Pick(opts)))
				case c < 11:
					ops = append(ops, fmt.Sprintf("stop %d", r.N(2)))
				default:
					ops = append(ops, "oob "+th)
				}
			}
		} else {
			a, b := flows[r.N(len(flows))], flows[r.N(len(flows))]
			tb := "t2"
			if r.N(3) == 0 {
				tb = "t1"
			}
			ia, ib := 0, 0
			for ia < len(a) || (ib < len(b) && r.N(3) > 0) {
				if ia < len(a) && (ib >= len(b) || r.N(2) == 0) {
					ops = append(ops, strings.ReplaceAll(a[ia], "T", "t1"))
					ia++
				} else if ib < len(b) {
					ops = append(ops, strings.ReplaceAll(b[ib], "T", tb))
					ib++
				}
			}
			for k := r.N(3); k > 0 && len(ops) > 0; k-- {
				j := r.N(len(ops))
				switch r.N(5) {
				case 0:
					ops = append(ops[:j+1], ops[j:]...)
				case 1:
					ops = append(ops[:j], ops[j+1:]...)
				case 2:
					ops = append(ops[:j], append([]string{"in t1 " + r.Pick(msgs)}, ops[j:]...)...)
				case 3:
					ops = append(ops[:j], append([]string{"oob " + r.Pick([]string{"t1", "t2", "t7"})}, ops[j:]...)...)
				default:
					if j+1 < len(ops) {
						ops[j], ops[j+1] = ops[j+1], ops[j]
					}
				}
			}
		}
		if r.N(4) == 0 && len(ops) > 0 {
			j := r.N(len(ops))
			ops = append(ops[:j], append([]string{fmt.Sprintf("fail %d", 1+r.N(2))}, ops[j:]...)...)
		}
		out = append(out, "in1|"+strings.Join(ops, ";"))
	}
	return out
}
