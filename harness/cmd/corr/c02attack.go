package main

// C02 attacker toolkit: envelopes built by hand from primitives, as an outsider or a misbehaving co-recipient would.

import (
	"golang.org/x/crypto/curve25519"
	"sort"
	"crypto/sha256"
	"crypto/aes"
	"crypto/cipher"
	"encoding/base64"
	"encoding/json"
	"strings"

	"github.com/google/tink/go/keyset"
	"golang.org/x/crypto/chacha20poly1305"

	"github.com/hyperledger/aries-framework-go/component/kmscrypto/doc/jose"
	cryptoapi "github.com/hyperledger/aries-framework-go/spi/crypto"
)

var b64u = base64.RawURLEncoding.EncodeToString

func b64d(s string) []byte {
	b, err := base64.RawURLEncoding.DecodeString(strings.TrimRight(s, "="))
	if err != nil {
		return nil
	}
	return b
}

// handSeal encrypts payload under cek with content encryption `enc` (xc | gcm) and the given AAD; deterministic nonce.
func handSeal(enc string, cek, payload, aad []byte) (nonce, ct, tag []byte, ok bool) {
	var (
		aead cipher.AEAD
		err  error
	)
	switch enc {
	case "xc":
		aead, err = chacha20poly1305.NewX(cek)
	case "gcm":
		var blk cipher.Block
		blk, err = aes.NewCipher(cek)
		if err == nil {
			aead, err = cipher.NewGCM(blk)
		}
	default:
		return nil, nil, nil, false
	}
	if err != nil {
		return nil, nil, nil, false
	}
	nonce = make([]byte, aead.NonceSize())
	for i := range nonce {
		nonce[i] = byte(i*7 + 3)
	}
	sealed := aead.Seal(nil, nonce, payload, aad)
	return nonce, sealed[:len(sealed)-aead.Overhead()], sealed[len(sealed)-aead.Overhead():], true
}

func epkJSON(pk *cryptoapi.PublicKey) map[string]string {
	m := map[string]string{"kty": pk.Type, "crv": pk.Curve, "x": b64u(pk.X)}
	if len(pk.Y) > 0 {
		m["y"] = b64u(pk.Y)
	}
	return m
}

// envForgeHand: the outsider wraps a fresh CEK for recipient 1 with ECDH-ES (no sender key) and writes the protected
// header by hand, naming the SENDER's key id in the header(s) listed in `where` ("apu", "skid", "apu+skid", "iss").
func envForgeHand(c envCase, parties []*envParty, where string) ([]byte, bool) {
	if (c.kind != "aj" && c.kind != "nj") || (c.enc != "xc" && c.enc != "gcm") {
		return nil, false
	}
	rec := *parties[1].pubKey
	rec.KID = parties[1].didKey
	skid := parties[0].didKey
	if c.kidstyle == "dd" {
		rec.KID = parties[1].kaID
		skid = parties[0].kaID
	}
	cek := make([]byte, 32)
	for i := range cek {
		cek[i] = byte(i*13 + 1)
	}
	var opts []cryptoapi.WrapKeyOpts
	if c.kt == "x25519" {
		opts = append(opts, cryptoapi.WithXC20PKW())
	}
	apu := []byte(nil)
	if strings.Contains(where, "apu") {
		apu = []byte(skid)
	}
	wk, err := envCrypto.WrapKey(cek, apu, nil, &rec, opts...)
	if err != nil || !strings.HasPrefix(wk.Alg, "ECDH-ES") {
		return nil, false
	}
	encName := map[string]string{"xc": "XC20P", "gcm": "A256GCM"}[c.enc]
	prot := map[string]interface{}{
		"typ": "application/didcomm-encrypted+json", "cty": "application/didcomm-plain+json",
		"enc": encName, "alg": wk.Alg, "kid": rec.KID, "epk": epkJSON(&wk.EPK),
	}
	if len(wk.APU) > 0 {
		prot["apu"] = b64u(wk.APU)
	}
	for _, h := range strings.Split(where, "+") {
		if h != "apu" {
			prot[h] = skid
		}
	}
	pb, _ := json.Marshal(prot)
	p64 := b64u(pb)
	nonce, ct, tag, ok := handSeal(c.enc, cek, []byte(`{"forged":"by the outsider"}`), []byte(p64))
	if !ok {
		return nil, false
	}
	return []byte(strings.Join([]string{p64, b64u(wk.EncryptedCEK), b64u(nonce), b64u(ct), b64u(tag)}, ".")), true
}

// envForgeMallory: the outsider runs the HONEST ECDH-1PU sender computation with ITS OWN key pair and names the sender's
// key in `skid` (and apu). The recipient derives the key-encryption key from the key `skid` resolves to: unless that
// derivation really depends on the sender's static key, the envelope opens and is attributed to the sender.
func envForgeMallory(c envCase, parties []*envParty) ([]byte, bool) {
	if c.kind != "aj" {
		return nil, false
	}
	mallory := parties[len(parties)-1]
	rec := *parties[1].pubKey
	rec.KID = parties[1].didKey
	skid := parties[0].didKey
	if c.kidstyle == "dd" {
		rec.KID = parties[1].kaID
		skid = parties[0].kaID
	}
	khi, err := mallory.kms.Get(mallory.kid)
	if err != nil {
		return nil, false
	}
	kh, ok := khi.(*keyset.Handle)
	if !ok {
		return nil, false
	}
	enc, err := jose.NewJWEEncrypt(envEncAlgs[c.enc], "application/didcomm-encrypted+json", "application/didcomm-plain+json", skid, kh,
		[]*cryptoapi.PublicKey{&rec}, envCrypto)
	if err != nil {
		return nil, false
	}
	jwe, err := enc.Encrypt([]byte(`{"forged":"by the outsider with its own key"}`))
	if err != nil {
		return nil, false
	}
	s, err := jwe.CompactSerialize(json.Marshal)
	if err != nil {
		return nil, false
	}
	return []byte(s), true
}

// envForgeApuMallory: the outsider seals a MULTI-recipient ECDH-1PU envelope by hand with ITS OWN key pair: `apu` names
// its own key (the key the key wrapping really used), `skid` names the sender. Whichever of the two headers a recipient
// authenticates the envelope with is the one it must attribute the envelope to.
func envForgeApuMallory(c envCase, parties []*envParty) ([]byte, bool) {
	// (as the framework seals such envelopes: ONE ephemeral key for all recipients, named with alg / apu / apv in the
	// PROTECTED header; X25519 keys with XC20P key wrapping and content encryption)
	if c.kind != "aj" || c.nrec < 2 || c.enc != "xc" || c.kt != "x25519" || len(parties) < 4 {
		return nil, false
	}
	mallory := parties[len(parties)-1]
	khi, err := mallory.kms.Get(mallory.kid)
	if err != nil {
		return nil, false
	}
	malloryKID, skid := mallory.didKey, parties[0].didKey
	if c.kidstyle == "dd" {
		malloryKID, skid = mallory.kaID, parties[0].kaID
	}
	var recs []*cryptoapi.PublicKey
	var kids []string
	for _, p := range parties[1 : 1+c.nrec] {
		r := *p.pubKey
		r.KID = p.didKey
		if c.kidstyle == "dd" {
			r.KID = p.kaID
		}
		recs = append(recs, &r)
		kids = append(kids, r.KID)
	}
	sort.Strings(kids)
	apvRaw := sha256.Sum256([]byte(strings.Join(kids, ".")))
	ePriv := make([]byte, 32)
	for i := range ePriv {
		ePriv[i] = byte(i*7 + 9)
	}
	ePub, err := curve25519.X25519(ePriv, curve25519.Basepoint)
	if err != nil {
		return nil, false
	}
	epk := &cryptoapi.PrivateKey{PublicKey: cryptoapi.PublicKey{Type: "OKP", Curve: "X25519", X: ePub}, D: ePriv}
	prot := map[string]interface{}{"typ": "application/didcomm-encrypted+json", "cty": "application/didcomm-plain+json",
		"enc": "XC20P", "alg": "ECDH-1PU+XC20PKW", "epk": epkJSON(&epk.PublicKey), "skid": skid,
		"apu": b64u([]byte(malloryKID)), "apv": b64u(apvRaw[:])}
	pb, _ := json.Marshal(prot)
	p64 := b64u(pb)
	cek := make([]byte, 32)
	for i := range cek {
		cek[i] = byte(i*11 + 3)
	}
	nonce, ct, tag, ok := handSeal("xc", cek, []byte(`{"forged":"by the outsider, multi-recipient"}`), []byte(p64))
	if !ok {
		return nil, false
	}
	var recJSON []interface{}
	for _, r := range recs {
		wk, err := envCrypto.WrapKey(cek, []byte(malloryKID), apvRaw[:], r, cryptoapi.WithSender(khi), cryptoapi.WithTag(tag),
			cryptoapi.WithEPK(epk), cryptoapi.WithXC20PKW())
		if err != nil || !strings.HasPrefix(wk.Alg, "ECDH-1PU") {
			return nil, false
		}
		recJSON = append(recJSON, map[string]interface{}{"header": map[string]interface{}{"kid": r.KID},
			"encrypted_key": b64u(wk.EncryptedCEK)})
	}
	out, err := json.Marshal(map[string]interface{}{"protected": p64, "recipients": recJSON, "iv": b64u(nonce),
		"ciphertext": b64u(ct), "tag": b64u(tag)})
	if err != nil {
		return nil, false
	}
	return out, true
}

// envCoRecipient: recipient 2 of a genuine multi-recipient envelope recovers the CEK with its own key and re-encrypts
// another payload under the unchanged protected header; only iv / ciphertext / tag are replaced.
func envCoRecipient(c envCase, env []byte, parties []*envParty) ([]byte, bool) {
	if c.kind != "aj" || c.nrec < 2 || (c.enc != "xc" && c.enc != "gcm") {
		return nil, false
	}
	var obj map[string]interface{}
	if json.Unmarshal(env, &obj) != nil {
		return nil, false
	}
	p64, _ := obj["protected"].(string)
	var prot struct {
		Alg string            `json:"alg"`
		APU string            `json:"apu"`
		APV string            `json:"apv"`
		EPK map[string]string `json:"epk"`
	}
	if json.Unmarshal(b64d(p64), &prot) != nil {
		return nil, false
	}
	recs, _ := obj["recipients"].([]interface{})
	if len(recs) < 2 {
		return nil, false
	}
	r2, _ := recs[1].(map[string]interface{})
	ek, _ := r2["encrypted_key"].(string)
	hdr, _ := r2["header"].(map[string]interface{})
	kid, _ := hdr["kid"].(string)
	tagS, _ := obj["tag"].(string)
	me := parties[2]
	kh, err := me.kms.Get(me.kid)
	if err != nil {
		return nil, false
	}
	opts := []cryptoapi.WrapKeyOpts{cryptoapi.WithSender(parties[0].pubKey), cryptoapi.WithTag(b64d(tagS))}
	if c.kt == "x25519" {
		opts = append(opts, cryptoapi.WithXC20PKW())
	}
	cek, err := envCrypto.UnwrapKey(&cryptoapi.RecipientWrappedKey{
		KID: kid, Alg: prot.Alg, APU: b64d(prot.APU), APV: b64d(prot.APV),
		EPK:          cryptoapi.PublicKey{Type: prot.EPK["kty"], Curve: prot.EPK["crv"], X: b64d(prot.EPK["x"]), Y: b64d(prot.EPK["y"])},
		EncryptedCEK: b64d(ek),
	}, kh, opts...)
	if err != nil {
		return nil, false
	}
	aad := []byte(p64)
	if a, ok := obj["aad"].(string); ok && a != "" {
		aad = []byte(p64 + "." + a)
	}
	nonce, ct, tag, ok := handSeal(c.enc, cek, []byte(`{"swapped":"by a co-recipient"}`), aad)
	if !ok {
		return nil, false
	}
	obj["iv"], obj["ciphertext"], obj["tag"] = b64u(nonce), b64u(ct), b64u(tag)
	out, _ := json.Marshal(obj)
	return out, true
}
