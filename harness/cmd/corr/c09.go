package main

// C09: protocol threads only move along their protocol's state graph.
//
// input  := <proto> "|" ops joined by ";"          proto := pp2 | pp3 | ic2 | ic3
// op     := in T M | out T M | cont I O | stop I | fail K      (fail K: the K-th send of the messenger from now fails)
//   T: thread name (t1, t2); M: message short name (present proof: req, reqc (will_confirm), prop, pres, ack, pr;
//   issue credential: prop, offer, req, cred, ack, pr); I: index into the list of action events still undecided (oldest first);
//   O: option given to Continue (present proof: pres | prop | req | reqc | none; issue credential: offer | req | cred | none)
// output := per op "<ok|err>[ A<k>] [T:state,state ...]" joined by "|", then "|" + persisted state per thread
//   A<k>: k action events were raised by the op; T:states = post-state events announced for thread T since the last op

import (
	"encoding/json"
	"fmt"
	"sort"
	"strconv"
	"strings"

	arieslog "github.com/hyperledger/aries-framework-go/component/log"
	"github.com/hyperledger/aries-framework-go/component/storageutil/mem"
	"github.com/hyperledger/aries-framework-go/pkg/didcomm/common/service"
	"github.com/hyperledger/aries-framework-go/pkg/didcomm/protocol/decorator"
	"github.com/hyperledger/aries-framework-go/pkg/didcomm/protocol/introduce"
	"github.com/hyperledger/aries-framework-go/pkg/didcomm/protocol/issuecredential"
	"github.com/hyperledger/aries-framework-go/pkg/didcomm/protocol/presentproof"
	spilog "github.com/hyperledger/aries-framework-go/spi/log"
	spi "github.com/hyperledger/aries-framework-go/spi/storage"
)

// recMessenger records what is sent; `failIn` > 0 arms a transport fault: the failIn-th send from now returns an error
// (the message is not sent). `faulted` tells the run loop that the fault fired during the current operation.
type recMessenger struct {
	sent    []string
	failIn  int
	faulted bool
}

func (m *recMessenger) rec(kind string, msg service.DIDCommMsgMap) error {
	if m.failIn > 0 {
		m.failIn--
		if m.failIn == 0 {
			m.faulted = true
			return fmt.Errorf("injected transport fault")
		}
	}
	m.sent = append(m.sent, kind+":"+msg.Type())
	return nil
}
func (m *recMessenger) ReplyTo(_ string, msg service.DIDCommMsgMap, _ ...service.Opt) error {
	return m.rec("replyto", msg)
}
func (m *recMessenger) ReplyToMsg(_, out service.DIDCommMsgMap, _, _ string, _ ...service.Opt) error {
	return m.rec("reply", out)
}
func (m *recMessenger) Send(msg service.DIDCommMsgMap, _, _ string, _ ...service.Opt) error {
	return m.rec("send", msg)
}
func (m *recMessenger) SendToDestination(msg service.DIDCommMsgMap, _ string, _ *service.Destination, _ ...service.Opt) error {
	return m.rec("senddest", msg)
}
func (m *recMessenger) ReplyToNested(msg service.DIDCommMsgMap, _ *service.NestedReplyOpts) error {
	return m.rec("nested", msg)
}

type c09Provider struct {
	m  service.Messenger
	sp spi.Provider
}

func (p *c09Provider) Messenger() service.Messenger   { return p.m }
func (p *c09Provider) StorageProvider() spi.Provider { return p.sp }

// protoDriver abstracts what differs between the protocols driven here.
type protoDriver interface {
	handleInbound(msg service.DIDCommMsgMap) error
	handleOutbound(msg service.DIDCommMsgMap) error
	sync()
	message(short, thread string, n int, outbound bool) service.DIDCommMsgMap
	contOpt(o string) interface{}
	persisted(thread string) string
}

func c09Msg(m map[string]interface{}) service.DIDCommMsgMap {
	b, err := json.Marshal(m)
	if err != nil {
		panic(err)
	}
	mm, err := service.ParseDIDCommMsgMap(b)
	if err != nil {
		panic(err)
	}
	return mm
}

// ---- present proof -----------------------------------------------------------------------------------------------

type ppDriver struct {
	svc   *presentproof.Service
	store spi.Store
	v3    bool
}

func (d *ppDriver) handleInbound(msg service.DIDCommMsgMap) error {
	_, err := d.svc.HandleInbound(msg, service.NewDIDCommContext("me", "them", nil))
	return err
}
func (d *ppDriver) handleOutbound(msg service.DIDCommMsgMap) error {
	_, err := d.svc.HandleOutbound(msg, "me", "them")
	return err
}
func (d *ppDriver) sync() { d.svc.VerifSync() }

func (d *ppDriver) message(short, thread string, n int, outbound bool) service.DIDCommMsgMap {
	types := map[string][2]string{
		"req":  {presentproof.RequestPresentationMsgTypeV2, presentproof.RequestPresentationMsgTypeV3},
		"reqc": {presentproof.RequestPresentationMsgTypeV2, presentproof.RequestPresentationMsgTypeV3},
		"prop": {presentproof.ProposePresentationMsgTypeV2, presentproof.ProposePresentationMsgTypeV3},
		"pres": {presentproof.PresentationMsgTypeV2, presentproof.PresentationMsgTypeV3},
		"ack":  {presentproof.AckMsgTypeV2, presentproof.AckMsgTypeV3},
		"pr":   {presentproof.ProblemReportMsgTypeV2, presentproof.ProblemReportMsgTypeV3},
	}
	t, ok := types[short]
	if !ok {
		return nil
	}
	m := map[string]interface{}{}
	id := fmt.Sprintf("m%d", n)
	if outbound {
		id = thread // an outbound message starts (or names) the thread by its id
	}
	if d.v3 {
		m["type"] = t[1]
		m["id"] = id
		if !outbound {
			m["thid"] = thread
		}
		body := map[string]interface{}{}
		if short == "reqc" {
			body["will_confirm"] = true
		}
		m["body"] = body
	} else {
		m["@type"] = t[0]
		m["@id"] = id
		if !outbound {
			m["~thread"] = map[string]interface{}{"thid": thread}
			if thread == "t2" && short != "pr" {
				// the thread is nested under a parent thread (an out-of-band invitation, an introduction): its messages name
				// the parent next to their own thread; the protocol instance is still the thread
				m["~thread"] = map[string]interface{}{"thid": thread, "pthid": "parent-of-" + thread}
			}
		}
		if short == "reqc" {
			m["will_confirm"] = true
		}
	}
	return c09Msg(m)
}

func (d *ppDriver) contOpt(o string) interface{} {
	att := []decorator.GenericAttachment{{ID: "a1"}}
	switch o {
	case "pres":
		return presentproof.WithPresentation(&presentproof.PresentationParams{Attachments: att})
	case "prop":
		return presentproof.WithProposePresentation(&presentproof.ProposePresentationParams{Attachments: att})
	case "req":
		return presentproof.WithRequestPresentation(&presentproof.RequestPresentationParams{Attachments: att})
	case "reqc":
		return presentproof.WithRequestPresentation(&presentproof.RequestPresentationParams{Attachments: att, WillConfirm: true})
	}
	return nil
}

func (d *ppDriver) persisted(thread string) string {
	b, err := d.store.Get("internal_data_" + thread)
	if err != nil {
		return "-"
	}
	var x struct{ StateName string }
	if json.Unmarshal(b, &x) != nil {
		return "?"
	}
	return x.StateName
}

// ---- issue credential --------------------------------------------------------------------------------------------

type icDriver struct {
	svc   *issuecredential.Service
	store spi.Store
	v3    bool
}

func (d *icDriver) handleInbound(msg service.DIDCommMsgMap) error {
	_, err := d.svc.HandleInbound(msg, service.NewDIDCommContext("me", "them", nil))
	return err
}
func (d *icDriver) handleOutbound(msg service.DIDCommMsgMap) error {
	_, err := d.svc.HandleOutbound(msg, "me", "them")
	return err
}
func (d *icDriver) sync() { d.svc.VerifSync() }

func (d *icDriver) message(short, thread string, n int, outbound bool) service.DIDCommMsgMap {
	types := map[string][2]string{
		"prop":  {issuecredential.ProposeCredentialMsgTypeV2, issuecredential.ProposeCredentialMsgTypeV3},
		"offer": {issuecredential.OfferCredentialMsgTypeV2, issuecredential.OfferCredentialMsgTypeV3},
		"req":   {issuecredential.RequestCredentialMsgTypeV2, issuecredential.RequestCredentialMsgTypeV3},
		"cred":  {issuecredential.IssueCredentialMsgTypeV2, issuecredential.IssueCredentialMsgTypeV3},
		"ack":   {issuecredential.AckMsgTypeV2, issuecredential.AckMsgTypeV3},
		"pr":    {issuecredential.ProblemReportMsgTypeV2, issuecredential.ProblemReportMsgTypeV3},
	}
	t, ok := types[short]
	if !ok {
		return nil
	}
	m := map[string]interface{}{}
	id := fmt.Sprintf("m%d", n)
	if outbound {
		id = thread
	}
	if d.v3 {
		m["type"] = t[1]
		m["id"] = id
		if !outbound {
			m["thid"] = thread
		}
		m["body"] = map[string]interface{}{}
	} else {
		m["@type"] = t[0]
		m["@id"] = id
		if !outbound {
			m["~thread"] = map[string]interface{}{"thid": thread}
		}
	}
	return c09Msg(m)
}

func (d *icDriver) contOpt(o string) interface{} {
	att := []decorator.GenericAttachment{{ID: "a1"}}
	switch o {
	case "offer":
		return issuecredential.WithOfferCredential(&issuecredential.OfferCredentialParams{Attachments: att})
	case "req":
		return issuecredential.WithRequestCredential(&issuecredential.RequestCredentialParams{Attachments: att})
	case "cred":
		return issuecredential.WithIssueCredential(&issuecredential.IssueCredentialParams{Attachments: att})
	case "prop":
		return issuecredential.WithProposeCredential(&issuecredential.ProposeCredentialParams{Attachments: att})
	}
	return nil
}

func (d *icDriver) persisted(thread string) string {
	b, err := d.store.Get("state_name_" + thread)
	if err != nil {
		return "-"
	}
	return string(b)
}

// ---- the run --------------------------------------------------------------------------------------------------------

func c09Run(input string) string {
	parts := strings.SplitN(input, "|", 2)
	if len(parts) != 2 {
		return "bad-input"
	}
	if parts[0] == "dx" || parts[0] == "lc" {
		return c09xRun(input) // the connection protocols, between two real agents (c09x.go)
	}
	sp := mem.NewProvider()
	msgr := &recMessenger{}
	prov := &c09Provider{m: msgr, sp: sp}
	actions := make(chan service.DIDCommAction, 256)
	events := make(chan service.StateMsg, 4096)
	var drv protoDriver
	switch parts[0] {
	case "pp2", "pp3":
		svc, err := presentproof.New(prov)
		if err != nil {
			return "setup-error " + err.Error()
		}
		_ = svc.RegisterActionEvent(actions)
		_ = svc.RegisterMsgEvent(events)
		st, _ := sp.OpenStore(presentproof.Name)
		drv = &ppDriver{svc: svc, store: st, v3: parts[0] == "pp3"}
	case "ic2", "ic3":
		svc, err := issuecredential.New(prov)
		if err != nil {
			return "setup-error " + err.Error()
		}
		_ = svc.RegisterActionEvent(actions)
		_ = svc.RegisterMsgEvent(events)
		st, _ := sp.OpenStore(issuecredential.Name)
		drv = &icDriver{svc: svc, store: st, v3: parts[0] == "ic3"}
	case "in1":
		oob := &c09OOB{}
		svc, err := introduce.New(&c09InProvider{c09Provider: *prov, oob: oob})
		if err != nil {
			return "setup-error " + err.Error()
		}
		_ = svc.RegisterActionEvent(actions)
		_ = svc.RegisterMsgEvent(events)
		st, _ := sp.OpenStore(introduce.Introduce)
		drv = &inDriver{svc: svc, store: st, oob: oob}
	default:
		return "bad-proto"
	}
	var pending []service.DIDCommAction
	used := map[int]bool{}
	threads := map[string]bool{}
	var outs []string
	n := 0
	for _, op := range strings.Split(parts[1], ";") {
		if op == "" {
			continue
		}
		f := strings.Split(op, " ")
		n++
		var err error
		bad := false
		switch f[0] {
		case "in", "out":
			threads[f[1]] = true
			msg := drv.message(f[2], f[1], n, f[0] == "out")
			if msg == nil {
				return "bad-op " + op
			}
			if f[0] == "in" {
				err = drv.handleInbound(msg)
			} else {
				err = drv.handleOutbound(msg)
			}
		case "cont", "stop":
			k, _ := strconv.Atoi(f[1])
			// the k-th action event that is still undecided (oldest first); each event is decided once
			i := -1
			for j := range pending {
				if !used[j] {
					if k == 0 {
						i = j
						break
					}
					k--
				}
			}
			if i < 0 {
				bad = true
				break
			}
			used[i] = true
			if f[0] == "cont" {
				pending[i].Continue(drv.contOpt(f[2]))
			} else {
				pending[i].Stop(nil)
			}
		case "oob":
			threads[f[1]] = true
			if d, ok := drv.(*inDriver); ok {
				d.oobEvent(f[1], n)
			} else {
				bad = true
			}
		case "fail":
			// arm a transport fault: the K-th send from now fails (K = 1: the next one)
			k, _ := strconv.Atoi(f[1])
			msgr.failIn = k
			outs = append(outs, "armed")
			continue
		default:
			return "bad-op " + op
		}
		drv.sync()
		o := "ok"
		if err != nil {
			o = "err"
		}
		if msgr.faulted {
			// the operation met the transport fault: whatever it returns, it is not a REJECTED message
			msgr.faulted = false
			if err != nil {
				o = "flt"
			} else {
				o = "okflt"
			}
		}
		if bad {
			o = "noaction"
		}
		// new action events
		k := 0
		for {
			select {
			case a := <-actions:
				pending = append(pending, a)
				k++
				continue
			default:
			}
			break
		}
		if k > 0 {
			o += fmt.Sprintf(" A%d", k)
		}
		// announced post states per thread
		per := map[string][]string{}
		var order []string
		for {
			select {
			case e := <-events:
				if e.Type != service.PostState {
					continue
				}
				th, terr := e.Msg.ThreadID()
				if terr != nil {
					th = "?"
				}
				if pth := e.Msg.ParentThreadID(); pth != "" && strings.HasSuffix(e.Msg.Type(), "problem-report") {
					th = pth
				}
				if _, ok := per[th]; !ok {
					order = append(order, th)
				}
				per[th] = append(per[th], e.StateID)
				continue
			default:
			}
			break
		}
		sort.Strings(order)
		for _, th := range order {
			o += " " + th + ":" + strings.Join(per[th], ",")
		}
		outs = append(outs, o)
	}
	var ths []string
	for t := range threads {
		ths = append(ths, t)
	}
	sort.Strings(ths)
	var dump []string
	for _, t := range ths {
		dump = append(dump, t+"="+drv.persisted(t))
	}
	outs = append(outs, strings.Join(dump, ","))
	return strings.Join(outs, "|")
}

func c09Gen(r *Rng, tier string) []string {
	n := 3000
	if tier == "thorough" {
		n = 100000
	}
	protos := []string{"pp2", "pp3", "ic2", "ic3"}
	ppMsgs := []string{"req", "reqc", "prop", "pres", "ack", "pr"}
	ppOut := []string{"req", "reqc", "prop"}
	ppOpts := []string{"pres", "pres", "prop", "req", "reqc", "none"}
	icMsgs := []string{"prop", "offer", "req", "cred", "ack", "pr"}
	icOut := []string{"prop", "offer", "req"}
	icOpts := []string{"offer", "req", "cred", "cred", "prop", "none"}
	var out []string
	for i := 0; i < n; i++ {
		p := protos[(i/2)%len(protos)]
		msgs, outm, opts := ppMsgs, ppOut, ppOpts
		if strings.HasPrefix(p, "ic") {
			msgs, outm, opts = icMsgs, icOut, icOpts
		}
		nth := 1 + r.N(2)
		nact := 0 // upper bound of the number of action events raised so far (rejected messages raise none)
		pickAct := func() int {
			if r.N(3) > 0 {
				return 0
			}
			return r.N(3)
		}
		var ops []string
		for j := 3 + r.N(10); j > 0; j-- {
			th := fmt.Sprintf("t%d", 1+r.N(nth))
			switch c := r.N(10); {
			case c < 4:
				m := r.Pick(msgs)
				ops = append(ops, "in "+th+" "+m)
				if m != "ack" {
					nact++
				}
			case c < 5:
				ops = append(ops, "out "+th+" "+r.Pick(outm))
			case c < 9:
				ops = append(ops, fmt.Sprintf("cont %d %s", pickAct(), r.Pick(opts)))
			default:
				ops = append(ops, fmt.Sprintf("stop %d", pickAct()))
			}
		}
		if i%2 == 1 {
			// guided: one or two protocol flows, interleaved, then perturbed (duplicate / drop / insert / swap)
			ppFlows := [][]string{
				{"in T req", "cont 0 pres"}, {"in T reqc", "cont 0 pres", "in T ack"},
				{"in T req", "cont 0 prop", "in T req", "cont 0 pres"},
				{"out T req", "in T pres", "cont 0 none"}, {"out T reqc", "in T pres", "cont 0 none"},
				{"in T prop", "cont 0 req", "in T pres", "cont 0 none"},
				{"out T prop", "in T reqc", "cont 0 pres", "in T ack"}, {"in T req", "stop 0"},
				{"out T req", "in T pr", "cont 0 none"},
			}
			icFlows := [][]string{
				{"in T prop", "cont 0 offer", "in T req", "cont 0 cred", "in T ack"},
				{"out T offer", "in T req", "cont 0 cred", "in T ack"},
				{"out T prop", "in T offer", "cont 0 none", "in T cred", "cont 0 none"},
				{"in T offer", "cont 0 none", "in T cred", "cont 0 none"},
				{"out T req", "in T cred", "cont 0 none"}, {"in T offer", "cont 0 prop", "in T offer", "cont 0 none"},
				{"in T req", "cont 0 cred", "in T pr", "cont 0 none"}, {"in T prop", "stop 0"},
			}
			flows := ppFlows
			if strings.HasPrefix(p, "ic") {
				flows = icFlows
			}
			a := flows[r.N(len(flows))]
			b := flows[r.N(len(flows))]
			tb := "t2"
			if r.N(3) == 0 {
				tb = "t1" // two flows on ONE thread
			}
			ops = nil
			ia, ib := 0, 0
			for ia < len(a) || (ib < len(b) && r.N(3) > 0) {
				if ia < len(a) && (ib >= len(b) || r.N(2) == 0) {
					ops = append(ops, strings.ReplaceAll(a[ia], "T", "t1"))
					ia++
				} else if ib < len(b) {
					ops = append(ops, strings.ReplaceAll(b[ib], "T", tb))
					ib++
				}
			}
			for k := r.N(3); k > 0 && len(ops) > 0; k-- {
				j := r.N(len(ops))
				switch r.N(4) {
				case 0: // duplicate
					ops = append(ops[:j+1], ops[j:]...)
				case 1: // drop
					ops = append(ops[:j], ops[j+1:]...)
				case 2: // insert a random message
					extra := "in t1 " + r.Pick(msgs)
					ops = append(ops[:j], append([]string{extra}, ops[j:]...)...)
				default: // swap with the neighbour
					if j+1 < len(ops) {
						ops[j], ops[j+1] = ops[j+1], ops[j]
					}
				}
			}
		}
		if r.N(4) == 0 && len(ops) > 0 {
			// a transport fault somewhere in the history
			// (mostly right before a decision: that is where the services send)
			j := r.N(len(ops))
			var conts []int
			for x, o := range ops {
				if strings.HasPrefix(o, "cont ") {
					conts = append(conts, x)
				}
			}
			k := 1
			if len(conts) > 0 && r.N(4) > 0 {
				j = conts[r.N(len(conts))]
			} else {
				k = 1 + r.N(2)
			}
			ops = append(ops[:j], append([]string{fmt.Sprintf("fail %d", k)}, ops[j:]...)...)
		}
		out = append(out, p+"|"+strings.Join(ops, ";"))
	}
	nx := 60
	if tier == "thorough" {
		nx = 1500
	}
	out = append(out, c09xGen(r, nx)...)
	out = append(out, c09inGen(r, 10*nx)...)
	return out
}

func init() {
	register("C09", &Prop{Gen: c09Gen, Run: c09Run, Setup: func() { arieslog.SetLevel("", spilog.CRITICAL) }})
}
