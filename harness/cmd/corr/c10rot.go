package main

// C10, DID rotation: the DIDComm v2 `from_prior` handling of pkg/didcomm/common/middleware, driven directly (real
// connection recorder over a mem store, real KMS / crypto for the signature check, DID documents from a registry map).
//
// input  := "rot," STYLE "|" OP (";" OP)*
//   STYLE := rel | abs        verification method ids of all documents: "#key-1" | "<did>#key-1"
//   the victim v holds completed v2 connections with b and with m. DIDs: b m b2 b3 m2 m3 (each with its own key and
//   document) and x (no document).
//   OP := rot SIGNER ISS SUB KIDOF ENV   a message arrives whose envelope authenticated the DID ENV; its from_prior says
//                                        "ISS is now SUB", is signed with the key of SIGNER and names the verification
//                                        method of KIDOF's document as its kid
//       | msg ENV                        a v2 message without from_prior from ENV
// output := per op <ok|err> "[" their DID of the connection made with b "," ... with m "]", joined by "|"

import (
	"crypto/ed25519"
	"encoding/base64"
	"encoding/json"
	"fmt"
	"strings"

	"github.com/hyperledger/aries-framework-go/component/models/did"
	"github.com/hyperledger/aries-framework-go/component/storageutil/mem"
	"github.com/hyperledger/aries-framework-go/pkg/didcomm/common/middleware"
	"github.com/hyperledger/aries-framework-go/pkg/didcomm/common/service"
	vdrapi "github.com/hyperledger/aries-framework-go/pkg/framework/aries/api/vdr"
	mockprovider "github.com/hyperledger/aries-framework-go/pkg/mock/provider"
	mockvdr "github.com/hyperledger/aries-framework-go/pkg/mock/vdr"
	"github.com/hyperledger/aries-framework-go/pkg/store/connection"
)

var c10RotNames = []string{"b", "m", "b2", "b3", "m2", "m3"}

// thread ids that share long prefixes (a third party can pick a near-copy of a thread id it has seen)
var c10RotThreads = map[string]string{
	"t1": "01234567-89ab-cdef-0123-456789abcde0",
	"t2": "01234567-89ab-cdef-0123-456789abcde1",
	"t3": "01234567-89ab-cdef-0123-456789abcde0x",
	"t4": "01234567-89ab-cdef-0123-456789ab",
	"t5": strings.Repeat("thread-", 10) + "A",
	"t6": strings.Repeat("thread-", 10) + "B",
	"t7": "t",
}

func c10RotRun(input string) string {
	parts := strings.SplitN(input, "|", 2)
	cf := strings.Split(parts[0], ",")
	if len(parts) != 2 || len(cf) != 2 || (cf[1] != "rel" && cf[1] != "abs") {
		return "bad-input"
	}
	abs := cf[1] == "abs"
	didOf := func(n string) string { return "did:test:" + n }
	vmID := func(n string) string {
		if abs {
			return didOf(n) + "#key-1"
		}
		return "#key-1"
	}
	docs := map[string]*did.Doc{}
	privs := map[string]ed25519.PrivateKey{}
	for i, n := range c10RotNames {
		pub, priv, _ := ed25519.GenerateKey(detRand{byte(40 + i)})
		privs[n] = priv
		docs[didOf(n)] = &did.Doc{ID: didOf(n), Context: []string{"https://www.w3.org/ns/did/v1"},
			VerificationMethod: []did.VerificationMethod{{ID: vmID(n), Type: "Ed25519VerificationKey2018",
				Controller: didOf(n), Value: pub}}}
	}
	reg := &mockvdr.MockVDRegistry{ResolveFunc: func(id string, _ ...vdrapi.DIDMethodOption) (*did.DocResolution, error) {
		if d, ok := docs[id]; ok {
			return &did.DocResolution{DIDDocument: d}, nil
		}
		return nil, fmt.Errorf("did not found: %s", id)
	}}
	store := mem.NewProvider()
	prov := &mockprovider.Provider{KMSValue: c04NewKMS(), CryptoValue: envCrypto, StorageProviderValue: store,
		ProtocolStateStorageProviderValue: mem.NewProvider(), VDRegistryValue: reg,
		MediaTypeProfilesValue: []string{"didcomm/v2"}}
	mw, err := middleware.New(prov)
	if err != nil {
		return "setup-error " + err.Error()
	}
	rec, err := connection.NewRecorder(prov)
	if err != nil {
		return "setup-error " + err.Error()
	}
	conns := []string{"conn-b", "conn-m"}
	for i, peer := range []string{"b", "m"} {
		if err := rec.SaveConnectionRecord(&connection.Record{ConnectionID: conns[i], State: connection.StateNameCompleted,
			MyDID: didOf("v"), TheirDID: didOf(peer), Namespace: connection.MyNSPrefix, DIDCommVersion: service.V2}); err != nil {
			return "setup-error " + err.Error()
		}
	}
	state := func() string {
		var out []string
		for _, c := range conns {
			r, e := rec.GetConnectionRecord(c)
			if e != nil {
				out = append(out, "?")
				continue
			}
			out = append(out, strings.TrimPrefix(r.TheirDID, "did:test:"))
		}
		return "[" + strings.Join(out, ",") + "]"
	}
	b64 := base64.RawURLEncoding.EncodeToString
	var outs []string
	for seq, op := range strings.Split(parts[1], ";") {
		f := strings.Split(op, " ")
		msg := service.DIDCommMsgMap{"id": fmt.Sprintf("msg-%d", seq), "type": "https://example.org/verif/1.0/note",
			"body": map[string]interface{}{}, "to": []interface{}{didOf("v")}}
		var env string
		switch {
		case f[0] == "rot" && len(f) == 6 && privs[f[1]] != nil:
			hdr, _ := json.Marshal(map[string]interface{}{"typ": "JWT", "alg": "EdDSA", "crv": "Ed25519", "kid": vmID(f[4])})
			pl, _ := json.Marshal(map[string]interface{}{"iss": didOf(f[2]), "sub": didOf(f[3]), "iat": 1700000000 + seq})
			signingInput := b64(hdr) + "." + b64(pl)
			msg["from_prior"] = signingInput + "." + b64(ed25519.Sign(privs[f[1]], []byte(signingInput)))
			env = f[5]
		case f[0] == "ths" && len(f) == 3 && c10RotThreads[f[1]] != "" && (f[2] == "b" || f[2] == "m"):
			// the thread id -> connection index of the recorder: distinct thread ids are distinct keys, however much of
			// their text they share
			if err := rec.SaveNamespaceThreadID(c10RotThreads[f[1]], connection.MyNSPrefix, "conn-"+f[2]); err != nil {
				outs = append(outs, "err")
			} else {
				outs = append(outs, "ok")
			}
			continue
		case f[0] == "thg" && len(f) == 2 && c10RotThreads[f[1]] != "":
			key, err := connection.CreateNamespaceKey(connection.MyNSPrefix, c10RotThreads[f[1]])
			if err != nil {
				outs = append(outs, "err")
				continue
			}
			r, err := rec.GetConnectionRecordByNSThreadID(key)
			if err != nil {
				outs = append(outs, "none")
			} else {
				outs = append(outs, strings.TrimPrefix(r.ConnectionID, "conn-"))
			}
			continue
		case f[0] == "msg" && len(f) == 2:
			env = f[1]
		default:
			return "bad-op " + op
		}
		msg["from"] = didOf(env)
		res := "ok"
		func() {
			defer func() {
				if r := recover(); r != nil {
					res = fmt.Sprintf("PANIC %v", r)
				}
			}()
			if e := mw.HandleInboundMessage(msg, didOf(env), didOf("v")); e != nil {
				res = "err"
			}
		}()
		outs = append(outs, res+state())
	}
	return strings.Join(outs, "|")
}

func c10RotGen(r *Rng, n int) []string {
	var out []string
	fam := map[string][]string{"b": {"b2", "b3"}, "m": {"m2", "m3"}, "b2": {"b3", "b"}, "m2": {"m3", "m"}, "b3": {"b", "b2"}, "m3": {"m", "m2"}}
	all := []string{"b", "m", "b2", "b3", "m2", "m3"}
	for i := 0; i < n; i++ {
		style := r.Pick([]string{"rel", "abs"})
		cur := map[string]string{"b": "b", "m": "m"} // where each peer stands (honest rotations)
		var ops []string
		for j := 1 + r.N(5); j > 0; j-- {
			c := r.N(10)
			if cur["b"] == "x" || cur["m"] == "x" {
				c = 9 // a peer moved to a DID without document: no further rotations in this history
			}
			switch {
			case c < 3: // honest rotation of b or m
				who := r.Pick([]string{"b", "m"})
				iss := cur[who]
				sub := r.Pick(fam[iss])
				ops = append(ops, fmt.Sprintf("rot %s %s %s %s %s", iss, iss, sub, iss, sub))
				cur[who] = sub
			case c < 7: // a third party (or the other peer) claims somebody's DID rotated to one of its own
				victimPeer := r.Pick([]string{"b", "m"})
				iss := cur[victimPeer]
				if r.N(4) == 0 {
					iss = r.Pick(all)
				}
				signer := r.Pick(all)
				sub := r.Pick(append(append([]string{}, all...), "x"))
				if signer == iss && sub[0] != iss[0] {
					// a peer handing its connection to the OTHER peer's DID would put two connections under one DID (the
					// single-record lookups of the recorder are then ambiguous): such a message is made a forgery instead
					signer = map[byte]string{'b': "m", 'm': "b"}[iss[0]]
				}
				kidOf := r.Pick([]string{iss, signer, signer, sub})
				if kidOf == "x" {
					kidOf = signer
				}
				envl := sub
				if r.N(4) == 0 {
					envl = r.Pick(all)
				}
				ops = append(ops, fmt.Sprintf("rot %s %s %s %s %s", signer, iss, sub, kidOf, envl))
				if signer == iss && envl == sub && (style == "rel" || kidOf == iss) {
					// turned out honest: keep the book
					for k, v := range cur {
						if v == iss {
							cur[k] = sub
						}
					}
				}
			case c < 8: // the same honest rotation delivered twice (already rotated)
				who := r.Pick([]string{"b", "m"})
				iss := cur[who]
				sub := r.Pick(fam[iss])
				o := fmt.Sprintf("rot %s %s %s %s %s", iss, iss, sub, iss, sub)
				ops = append(ops, o, o)
				cur[who] = sub
			default:
				if r.Bool() {
					ops = append(ops, "msg "+r.Pick(append(append([]string{}, all...), "x")))
				} else {
					ts := []string{"t1", "t2", "t3", "t4", "t5", "t6", "t7"}
					ops = append(ops, "ths "+r.Pick(ts)+" "+r.Pick([]string{"b", "m"}), "ths "+r.Pick(ts)+" "+r.Pick([]string{"b", "m"}),
						"thg "+r.Pick(ts), "thg "+r.Pick(ts))
				}
			}
		}
		out = append(out, "rot,"+style+"|"+strings.Join(ops, ";"))
	}
	return out
}
