package main

// C09 (connection protocols): DID Exchange and the legacy Connection protocol between two real agents on the in-process
// bus, every application decision taken by hand through the accept-by-connection-id API, decisions repeated, and
// transport faults. The oracle (Lean) checks every announced sequence against the published graph.
//
// input  := ("dx" | "lc") "|" op (";" op)*
//   op := start            the inviter creates an invitation, the invitee receives it
//       | acc e | acc i    the invitee accepts the invitation / the inviter accepts the request (by connection id)
//       | again e | again i the SAME decision once more (a repeated or late application decision)
//       | fail e K | fail i K   the K-th send of that agent from now fails (transport fault)
// output := per op "ok" | "err" | "none" joined by "|", then "|" "i:" states "," .. " e:" states "," .. " rec i=<state> e=<state>"

import (
	"fmt"
	"strconv"
	"strings"
	"sync"
	"time"

	"github.com/hyperledger/aries-framework-go/component/storageutil/mem"
	"github.com/hyperledger/aries-framework-go/pkg/client/didexchange"
	"github.com/hyperledger/aries-framework-go/pkg/client/legacyconnection"
	"github.com/hyperledger/aries-framework-go/pkg/didcomm/common/service"
	"github.com/hyperledger/aries-framework-go/pkg/didcomm/transport"
	"github.com/hyperledger/aries-framework-go/pkg/framework/aries"
	kmsapi "github.com/hyperledger/aries-framework-go/spi/kms"
	spi "github.com/hyperledger/aries-framework-go/spi/storage"
)

// outbound transport with a fault counter
type c09xOut struct {
	bus    *c10Bus
	mu     sync.Mutex
	failIn int
}

func (t *c09xOut) Start(transport.Provider) error { return nil }
func (t *c09xOut) AcceptRecipient([]string) bool  { return false }
func (t *c09xOut) Accept(u string) bool           { return strings.HasPrefix(u, "bus://") }
func (t *c09xOut) Send(data []byte, des *service.Destination) (string, error) {
	t.mu.Lock()
	if t.failIn > 0 {
		t.failIn--
		if t.failIn == 0 {
			t.mu.Unlock()
			return "", fmt.Errorf("injected transport fault")
		}
	}
	t.mu.Unlock()
	return (&c10Out{t.bus}).Send(data, des)
}

// protocol state store whose K-th write from now fails (a storage fault while the protocol persists a state)
type c09xFlaky struct {
	spi.Provider
	mu     sync.Mutex
	failIn int
}

func (p *c09xFlaky) hit() bool {
	p.mu.Lock()
	defer p.mu.Unlock()
	if p.failIn > 0 {
		p.failIn--
		return p.failIn == 0
	}
	return false
}

func (p *c09xFlaky) OpenStore(name string) (spi.Store, error) {
	st, err := p.Provider.OpenStore(name)
	if err != nil {
		return nil, err
	}
	return &c09xFlakyStore{Store: st, p: p}, nil
}

type c09xFlakyStore struct {
	spi.Store
	p *c09xFlaky
}

func (s *c09xFlakyStore) Put(k string, v []byte, tags ...spi.Tag) error {
	if s.p.hit() {
		return fmt.Errorf("injected storage fault")
	}
	return s.Store.Put(k, v, tags...)
}

func (s *c09xFlakyStore) Batch(ops []spi.Operation) error {
	if s.p.hit() {
		return fmt.Errorf("injected storage fault")
	}
	return s.Store.Batch(ops)
}

type c09xAgent struct {
	c10    *c10Agent
	out    *c09xOut
	pstore *c09xFlaky
	parked []service.DIDCommAction
	dx    *didexchange.Client
	lc    *legacyconnection.Client
	mu    sync.Mutex
	post  []string // post state events, in order
	conn  string   // the connection id of the exchange
	close func()
}

func c09xNewAgent(bus *c10Bus, name, proto string) (*c09xAgent, error) {
	a := &c09xAgent{c10: &c10Agent{name: name, conns: map[string]string{}}, out: &c09xOut{bus: bus},
		pstore: &c09xFlaky{Provider: mem.NewProvider()}}
	a.c10.in = &c10In{ep: "bus://" + name}
	opts := []aries.Option{aries.WithStoreProvider(mem.NewProvider()), aries.WithProtocolStateStoreProvider(a.pstore),
		aries.WithInboundTransport(a.c10.in), aries.WithOutboundTransports(a.out), aries.WithKeyType(kmsapi.ED25519Type),
		aries.WithKeyAgreementType(kmsapi.X25519ECDHKWType)}
	fw, err := aries.New(opts...)
	if err != nil {
		return nil, err
	}
	a.close = func() { _ = fw.Close() }
	a.c10.fw = fw
	ctx, err := fw.Context()
	if err != nil {
		return nil, err
	}
	a.c10.ctx = ctx
	actions := make(chan service.DIDCommAction, 64)
	events := make(chan service.StateMsg, 256)
	if proto == "dx" {
		a.dx, err = didexchange.New(ctx)
		if err != nil {
			return nil, err
		}
		_ = a.dx.RegisterActionEvent(actions)
		_ = a.dx.RegisterMsgEvent(events)
	} else {
		a.lc, err = legacyconnection.New(ctx)
		if err != nil {
			return nil, err
		}
		_ = a.lc.RegisterActionEvent(actions)
		_ = a.lc.RegisterMsgEvent(events)
	}
	go func() {
		for act := range actions {
			// decisions are taken through the accept-by-connection-id API, or later by hand on the parked event (stop / cont)
			a.mu.Lock()
			a.parked = append(a.parked, act)
			a.mu.Unlock()
		}
	}()
	go func() {
		for e := range events {
			if e.Type != service.PostState {
				continue
			}
			id := ""
			if p, ok := e.Properties.(interface{ ConnectionID() string }); ok {
				id = p.ConnectionID()
			}
			a.mu.Lock()
			if a.conn == "" {
				a.conn = id
			}
			// there is ONE invitation, hence one thread, in a run: whatever is announced belongs to it (a second connection
			// record for the same thread included)
			a.post = append(a.post, e.StateID)
			a.mu.Unlock()
		}
	}()
	bus.mu.Lock()
	bus.agents[a.c10.in.ep] = a.c10
	bus.mu.Unlock()
	return a, nil
}

func c09xRun(input string) string {
	parts := strings.SplitN(input, "|", 2)
	proto := parts[0]
	bus := &c10Bus{agents: map[string]*c10Agent{}}
	I, err := c09xNewAgent(bus, "i", proto)
	if err != nil {
		return "setup-error " + err.Error()
	}
	defer I.close()
	E, err := c09xNewAgent(bus, "e", proto)
	if err != nil {
		return "setup-error " + err.Error()
	}
	defer E.close()
	settle := func() { time.Sleep(120 * time.Millisecond) }
	connOf := func(a *c09xAgent) string {
		a.mu.Lock()
		defer a.mu.Unlock()
		return a.conn
	}
	accept := func(a *c09xAgent, inviter bool) string {
		id := connOf(a)
		if id == "" {
			return "none"
		}
		var err error
		switch {
		case proto == "dx" && inviter:
			err = a.dx.AcceptExchangeRequest(id, "", "")
		case proto == "dx":
			err = a.dx.AcceptInvitation(id, "", "")
		case inviter:
			err = a.lc.AcceptConnectionRequest(id, "", "")
		default:
			err = a.lc.AcceptInvitation(id, "", "")
		}
		if err != nil {
			return "err"
		}
		return "ok"
	}
	var outs []string
	var dxInv *didexchange.Invitation
	var lcInv *legacyconnection.Invitation
	for _, op := range strings.Split(parts[1], ";") {
		f := strings.Split(op, " ")
		o := "bad-op"
		switch {
		case f[0] == "start" && proto == "dx":
			inv, err := I.dx.CreateInvitation("i")
			if err == nil {
				dxInv = inv
				_, err = E.dx.HandleInvitation(inv)
			}
			o = "ok"
			if err != nil {
				o = "err"
			}
		case f[0] == "start":
			inv, err := I.lc.CreateInvitation("i")
			if err == nil {
				lcInv = inv
				_, err = E.lc.HandleInvitation(inv)
			}
			o = "ok"
			if err != nil {
				o = "err"
			}
		case f[0] == "reinv":
			// the same invitation message is delivered to the invitee once more
			var err error
			switch {
			case dxInv != nil:
				_, err = E.dx.HandleInvitation(dxInv)
			case lcInv != nil:
				_, err = E.lc.HandleInvitation(lcInv)
			default:
				err = fmt.Errorf("no invitation yet")
			}
			o = "ok"
			if err != nil {
				o = "err"
			}
		case (f[0] == "stop" || f[0] == "cont") && len(f) == 2:
			// the application decides on the parked action event itself (the oldest one)
			a := E
			if f[1] == "i" {
				a = I
			}
			a.mu.Lock()
			var act *service.DIDCommAction
			if len(a.parked) > 0 {
				act = &a.parked[0]
				a.parked = a.parked[1:]
			}
			a.mu.Unlock()
			switch {
			case act == nil:
				o = "none"
			case f[0] == "stop":
				act.Stop(fmt.Errorf("the application declines"))
				o = "ok"
			default:
				act.Continue(nil)
				o = "ok"
			}
		case f[0] == "sfail" && len(f) == 3:
			k, _ := strconv.Atoi(f[2])
			a := E
			if f[1] == "i" {
				a = I
			}
			a.pstore.mu.Lock()
			a.pstore.failIn = k
			a.pstore.mu.Unlock()
			o = "ok"
		case (f[0] == "acc" || f[0] == "again") && len(f) == 2:
			if f[1] == "i" {
				o = accept(I, true)
			} else {
				o = accept(E, false)
			}
		case f[0] == "fail" && len(f) == 3:
			k, _ := strconv.Atoi(f[2])
			a := E
			if f[1] == "i" {
				a = I
			}
			a.out.mu.Lock()
			a.out.failIn = k
			a.out.mu.Unlock()
			o = "ok"
		}
		outs = append(outs, o)
		settle()
	}
	// let the agents finish: wait until nothing has been announced for a while (at most 3 s)
	count := func() int {
		I.mu.Lock()
		E.mu.Lock()
		defer I.mu.Unlock()
		defer E.mu.Unlock()
		return len(I.post) + len(E.post)
	}
	for last, quiet, waited := count(), 0, 0; quiet < 6 && waited < 60; waited++ {
		time.Sleep(50 * time.Millisecond)
		if c := count(); c != last {
			last, quiet = c, 0
		} else {
			quiet++
		}
	}
	rec := func(a *c09xAgent) string {
		id := connOf(a)
		if id == "" {
			return "-"
		}
		if proto == "dx" {
			c, err := a.dx.GetConnection(id)
			if err != nil {
				return "?"
			}
			return c.State
		}
		c, err := a.lc.GetConnection(id)
		if err != nil {
			return "?"
		}
		return c.State
	}
	show := func(a *c09xAgent) string {
		a.mu.Lock()
		defer a.mu.Unlock()
		if len(a.post) == 0 {
			return "-"
		}
		return strings.Join(a.post, ",")
	}
	return strings.Join(outs, "|") + fmt.Sprintf("|i:%s e:%s rec i=%s e=%s", show(I), show(E), rec(I), rec(E))
}

func c09xGen(r *Rng, n int) []string {
	var out []string
	for i := 0; i < n; i++ {
		proto := []string{"dx", "lc"}[i%2]
		ops := []string{"start", "acc e", "acc i"}
		// perturbations: repeated decisions at every point, a transport fault somewhere
		for k := r.N(4); k > 0; k-- {
			j := 1 + r.N(len(ops))
			extra := r.Pick([]string{"again e", "again i", "again i", "acc i", "acc e"})
			ops = append(ops[:j], append([]string{extra}, ops[j:]...)...)
		}
		if r.N(3) == 0 {
			j := r.N(len(ops))
			ops = append(ops[:j], append([]string{fmt.Sprintf("fail %s %d", r.Pick([]string{"e", "i"}), 1+r.N(2))}, ops[j:]...)...)
		}
		if r.N(3) == 0 { // the invitation is delivered once more, at any point of the thread's life
			j := 1 + r.N(len(ops))
			ops = append(ops[:j], append([]string{"reinv"}, ops[j:]...)...)
		}
		if r.N(5) == 0 {
			// the application declines exactly while the state store fails, and the thread goes on afterwards
			if r.Bool() {
				ops = []string{"start", "sfail e 1", r.Pick([]string{"stop e", "stop e", "cont e"}), "acc e", "acc i"}
			} else {
				ops = []string{"start", "acc e", "sfail i 1", r.Pick([]string{"stop i", "stop i", "cont i"}), "acc i"}
			}
		}
		if r.N(3) == 0 {
			// decisions on the parked event itself (stop / continue), with the state store failing underneath
			j := 1 + r.N(len(ops))
			who := r.Pick([]string{"e", "i"})
			extra := []string{r.Pick([]string{"stop ", "stop ", "cont "}) + who}
			if r.Bool() {
				extra = append([]string{fmt.Sprintf("sfail %s %d", who, 1+r.N(3))}, extra...)
			}
			ops = append(ops[:j], append(extra, ops[j:]...)...)
		}
		out = append(out, proto+"|"+strings.Join(ops, ";"))
	}
	return out
}
