package main

// C01 / C02: DIDComm envelopes. Every party has its own KMS.
//
// input  := CFG "|" MUT
//   CFG := packer,keytype,enc,nrec,payload,kidstyle
//     packer: aj (JWE authcrypt) | nj (JWE anoncrypt) | la (legacy authcrypt) | ln (legacy anoncrypt)
//     keytype: x25519 | p256 | p384 | p521 (JWE) ; ed (legacy)
//     enc: gcm | xc | c128 | c192 | c256 | c512 (JWE) ; - (legacy)
//     nrec: number of recipients; payload: e0 | b<n> (n pseudo random bytes) | j (JSON) ; kidstyle: dk | dd
//   MUT := none | flip:FIELD:PERMILLE | trunc:FIELD:N | hdr:KEY:VALUE | splice:FIELD | droprec:I | duprec:I | reser |
//          unprot:KEY:VALUE | swaprec
//     FIELD: protected | iv | ciphertext | tag | ek<i> (encrypted_key of recipient i) | kid<i> | sender<i> | riv<i>
// output := pack=ok|fail [mut=applied|na changed=0|1] then per party "p<i>=" RESULT [ "/" MUTATED-RESULT ]
//   RESULT := fail | ok:<payload equal 1|0>:<from: sender|none|other>:<to: self|other>

import (
	"bytes"
	"crypto/ecdsa"
	"crypto/elliptic"
	"encoding/base64"
	"encoding/json"
	"fmt"
	"math/big"
	"os"
	"runtime/debug"
	"strconv"
	"strings"

	"github.com/btcsuite/btcutil/base58"

	"github.com/hyperledger/aries-framework-go/component/kmscrypto/crypto/tinkcrypto"
	"github.com/hyperledger/aries-framework-go/component/kmscrypto/doc/jose"
	"github.com/hyperledger/aries-framework-go/component/kmscrypto/doc/jose/jwk/jwksupport"
	"github.com/hyperledger/aries-framework-go/component/kmscrypto/doc/util/kmsdidkey"
	kmscomp "github.com/hyperledger/aries-framework-go/component/kmscrypto/kms"
	"github.com/hyperledger/aries-framework-go/component/kmscrypto/kms/localkms"
	"github.com/hyperledger/aries-framework-go/component/kmscrypto/secretlock/noop"
	"github.com/hyperledger/aries-framework-go/component/models/did"
	"github.com/hyperledger/aries-framework-go/component/storageutil/mem"
	"github.com/hyperledger/aries-framework-go/component/kmscrypto/doc/util/fingerprint"
	"github.com/hyperledger/aries-framework-go/pkg/didcomm/packager"
	"github.com/hyperledger/aries-framework-go/pkg/didcomm/packer"
	"github.com/hyperledger/aries-framework-go/pkg/didcomm/packer/anoncrypt"
	"github.com/hyperledger/aries-framework-go/pkg/didcomm/packer/authcrypt"
	legacyanon "github.com/hyperledger/aries-framework-go/pkg/didcomm/packer/legacy/anoncrypt"
	legacyauth "github.com/hyperledger/aries-framework-go/pkg/didcomm/packer/legacy/authcrypt"
	"github.com/hyperledger/aries-framework-go/pkg/didcomm/transport"
	vdrapi "github.com/hyperledger/aries-framework-go/pkg/framework/aries/api/vdr"
	mockprovider "github.com/hyperledger/aries-framework-go/pkg/mock/provider"
	mockvdr "github.com/hyperledger/aries-framework-go/pkg/mock/vdr"
	cryptoapi "github.com/hyperledger/aries-framework-go/spi/crypto"
	kmsapi "github.com/hyperledger/aries-framework-go/spi/kms"
	"github.com/hyperledger/aries-framework-go/spi/secretlock"
)

type kmsProv struct {
	s kmsapi.Store
	l secretlock.Service
}

func (k kmsProv) StorageProvider() kmsapi.Store  { return k.s }
func (k kmsProv) SecretLock() secretlock.Service { return k.l }

type envParty struct {
	kms    kmsapi.KeyManager
	kid    string
	pubKey *cryptoapi.PublicKey // JWE: key agreement key
	didKey string
	rawPub []byte // legacy: ed25519 public key
	docID  string // DID-document style: did of the document that lists this key
	kaID   string // ... and the id of its keyAgreement entry
}

var envCrypto, _ = tinkcrypto.New()

var envKeyTypes = map[string]kmsapi.KeyType{
	"x25519": kmsapi.X25519ECDHKWType, "p256": kmsapi.NISTP256ECDHKWType, "p384": kmsapi.NISTP384ECDHKWType,
	"p521": kmsapi.NISTP521ECDHKWType, "ed": kmsapi.ED25519Type,
}

var envEncAlgs = map[string]jose.EncAlg{
	"gcm": jose.A256GCM, "xc": jose.XC20P, "c128": jose.A128CBCHS256, "c192": jose.A192CBCHS384,
	"c256": jose.A256CBCHS384, "c512": jose.A256CBCHS512,
}

func newEnvParty(kt kmsapi.KeyType) *envParty {
	st, err := kmscomp.NewAriesProviderWrapper(mem.NewProvider())
	if err != nil {
		panic(err)
	}
	k, err := localkms.New("local-lock://x", kmsProv{st, &noop.NoLock{}})
	if err != nil {
		panic(err)
	}
	kid, pubBytes, err := k.CreateAndExportPubKeyBytes(kt)
	if err != nil {
		panic(err)
	}
	p := &envParty{kms: k, kid: kid}
	if kt == kmsapi.ED25519Type {
		p.rawPub = pubBytes
		return p
	}
	dk, err := kmsdidkey.BuildDIDKeyByKeyType(pubBytes, kt)
	if err != nil {
		panic(err)
	}
	pk := &cryptoapi.PublicKey{}
	if err := json.Unmarshal(pubBytes, pk); err != nil {
		panic(err)
	}
	p.pubKey = pk
	p.didKey = dk
	return p
}

// a second key agreement key of the same type in the party's own KMS (created once per party): its did:key id
var envAltKIDs = map[*envParty]string{}

func envAltKID(p *envParty) string {
	if v, ok := envAltKIDs[p]; ok {
		return v
	}
	if p.pubKey == nil {
		envAltKIDs[p] = ""
		return ""
	}
	_, kt, err0 := p.kms.ExportPubKeyBytes(p.kid)
	if err0 != nil {
		kt = ""
	}
	if kt == "" {
		envAltKIDs[p] = ""
		return ""
	}
	_, pub, err := p.kms.CreateAndExportPubKeyBytes(kt)
	if err != nil {
		envAltKIDs[p] = ""
		return ""
	}
	dk, err := kmsdidkey.BuildDIDKeyByKeyType(pub, kt)
	if err != nil {
		dk = ""
	}
	envAltKIDs[p] = dk
	return dk
}

// party pool per key type (key generation is the expensive part); the pool is process wide
var envPool = map[string][]*envParty{}

func envParties(ktName string, n int) []*envParty {
	kt := envKeyTypes[strings.TrimSuffix(ktName, "-filler")]
	for len(envPool[ktName]) < n {
		envPool[ktName] = append(envPool[ktName], newEnvParty(kt))
	}
	return envPool[ktName][:n]
}

// DID documents for the "dd" kid style: each party's key sits in a document with 1..3 keyAgreement entries
type envVDR struct {
	docs map[string]*did.Doc
}

func (v *envVDR) registry() vdrapi.Registry {
	return &mockvdr.MockVDRegistry{ResolveFunc: func(id string, _ ...vdrapi.DIDMethodOption) (*did.DocResolution, error) {
		if d, ok := v.docs[id]; ok {
			return &did.DocResolution{DIDDocument: d}, nil
		}
		return nil, fmt.Errorf("did not found: %s", id)
	}}
}

func envKeyAgreement(p *envParty, ktName, docID, id string) (*did.Verification, error) {
	if ktName == "x25519" {
		vm := did.NewVerificationMethodFromBytes(id, "X25519KeyAgreementKey2019", docID, p.pubKey.X)
		return did.NewEmbeddedVerification(vm, did.KeyAgreement), nil
	}
	var curve elliptic.Curve
	switch ktName {
	case "p256":
		curve = elliptic.P256()
	case "p384":
		curve = elliptic.P384()
	default:
		curve = elliptic.P521()
	}
	x, y := new(big.Int).SetBytes(p.pubKey.X), new(big.Int).SetBytes(p.pubKey.Y)
	j, err := jwksupport.JWKFromKey(&ecdsa.PublicKey{Curve: curve, X: x, Y: y})
	if err != nil {
		return nil, err
	}
	vm, err := did.NewVerificationMethodFromJWK(id, "JsonWebKey2020", docID, j)
	if err != nil {
		return nil, err
	}
	return did.NewEmbeddedVerification(vm, did.KeyAgreement), nil
}

func buildEnvDocs(parties []*envParty, ktName string, r *Rng) *envVDR {
	v := &envVDR{docs: map[string]*did.Doc{}}
	filler := envParties(ktName+"-filler", 2) // keys nobody uses, to pad the keyAgreement lists
	for i, p := range parties {
		// DIDs as they occur: with dots, colons and percent escapes in the method specific id (did:web)
		docID := fmt.Sprintf("did:example:party%d", i)
		switch r.N(3) {
		case 1:
			docID = fmt.Sprintf("did:web:party%d.example.com", i)
		case 2:
			docID = fmt.Sprintf("did:web:example.com%%3A8443:users:p.%d", i)
		}
		n := 1 + r.N(3)
		pos := r.N(n)
		doc := &did.Doc{ID: docID, Context: []string{"https://www.w3.org/ns/did/v1"}}
		for j := 0; j < n; j++ {
			id := fmt.Sprintf("%s#ka-%d", docID, j)
			if j < pos && r.Bool() {
				// a key listed BEFORE the party's own whose fragment merely ends with the own key's fragment
				id = fmt.Sprintf("%s#old%d-ka-%d", docID, j, pos)
			}
			src := filler[j%2]
			if j == pos {
				src = p
				p.docID, p.kaID = docID, id
			}
			// the framework writes its own peer DID documents with RELATIVE verification method ids: every other document
			// here does so too (callers keep naming keys by the absolute id)
			vmID := id
			if r.N(2) == 0 {
				vmID = id[strings.Index(id, "#"):]
			}
			ka, err := envKeyAgreement(src, ktName, docID, vmID)
			if err != nil {
				panic(err)
			}
			doc.KeyAgreement = append(doc.KeyAgreement, *ka)
		}
		v.docs[docID] = doc
	}
	return v
}

func envPacker(kind string, p *envParty, enc jose.EncAlg, reg vdrapi.Registry) (packer.Packer, error) {
	prov := &mockprovider.Provider{KMSValue: p.kms, CryptoValue: envCrypto, StorageProviderValue: mem.NewProvider(),
		VDRegistryValue: reg}
	switch kind {
	case "aj":
		return authcrypt.New(prov, enc)
	case "nj":
		return anoncrypt.New(prov, enc)
	case "la":
		return legacyauth.New(prov), nil
	default:
		return legacyanon.New(prov), nil
	}
}

func envPayload(kind string) []byte {
	switch {
	case kind == "e0":
		return []byte{}
	case kind == "j":
		return []byte(`{"@id":"123","@type":"https://didcomm.org/basicmessage/1.0/message","content":"hello","~l10n":{"locale":"en"}}`)
	case strings.HasPrefix(kind, "b"):
		n, _ := strconv.Atoi(kind[1:])
		b := make([]byte, n)
		x := uint32(2463534242) + uint32(n)
		for i := range b {
			x ^= x << 13
			x ^= x >> 17
			x ^= x << 5
			b[i] = byte(x)
		}
		return b
	}
	return []byte("payload")
}

type envResult struct {
	ok      bool
	payload []byte
	from    []byte
	to      []byte
}

func (r envResult) show(payload []byte, sender, self *envParty, legacy bool, kidstyle string) string {
	if !r.ok {
		return "fail"
	}
	eq := "0"
	if bytes.Equal(r.payload, payload) {
		eq = "1"
	}
	from := "other"
	switch {
	case len(r.from) == 0:
		from = "none"
	case legacy && bytes.Equal(r.from, sender.rawPub):
		from = "sender"
	case !legacy && kidstyle == "dk" && bytes.Contains(r.from, []byte(sender.didKey)):
		from = "sender"
	case !legacy && kidstyle == "dd" && bytes.Contains(r.from, []byte(sender.kaID)):
		from = "sender"
	}
	to := "other"
	switch {
	case legacy && bytes.Equal(r.to, self.rawPub):
		to = "self"
	case !legacy && kidstyle == "dk" && bytes.Contains(r.to, []byte(self.didKey)):
		to = "self"
	case !legacy && kidstyle == "dd" && bytes.Contains(r.to, []byte(self.kaID)):
		to = "self"
	}
	return "ok:" + eq + ":" + from + ":" + to
}

func envUnpack(pk packer.Packer, env []byte) (res envResult) {
	defer func() {
		if e := recover(); e != nil {
			if os_trace() {
				fmt.Fprintf(os.Stderr, "unpack panic: %v\n%s\n", e, debug.Stack())
			}
			panic(fmt.Sprintf("unpack panicked: %v", e))
		}
	}()
	out, err := pk.Unpack(env)
	if err != nil {
		return envResult{}
	}
	return envResult{ok: true, payload: out.Message, from: out.FromKey, to: out.ToKey}
}

type envCase struct {
	kind, kt, enc, payload, kidstyle string
	nrec                             int
}

func parseEnvCase(s string) (envCase, bool) {
	f := strings.Split(s, ",")
	if len(f) != 6 {
		return envCase{}, false
	}
	n, _ := strconv.Atoi(f[3])
	return envCase{kind: f[0], kt: f[1], enc: f[2], nrec: n, payload: f[4], kidstyle: f[5]}, true
}

// pack builds the envelope for the case; it returns the parties (0 = sender, 1..n recipients, n+1 outsider) and the
// per-party packers.
func envBuild(c envCase, payload []byte, seed int) ([]byte, []*envParty, []packer.Packer, error) {
	parties := envParties(c.kt, c.nrec+2)
	var reg vdrapi.Registry = &mockvdr.MockVDRegistry{}
	if c.kidstyle == "dd" {
		reg = buildEnvDocs(parties, c.kt, NewRng(uint64(seed))).registry()
	}
	var packers []packer.Packer
	for _, p := range parties {
		pk, err := envPacker(c.kind, p, envEncAlgs[c.enc], reg)
		if err != nil {
			return nil, nil, nil, err
		}
		packers = append(packers, pk)
	}
	env, err := envBuildWith(c, payload, parties, packers)
	return env, parties, packers, err
}

// envBuildWith packs with the given (already constructed) parties and packers.
func envBuildWith(c envCase, payload []byte, parties []*envParty, packers []packer.Packer) ([]byte, error) {
	legacy := c.kind == "la" || c.kind == "ln"
	sender := parties[0]
	var recs [][]byte
	for i := 1; i <= c.nrec; i++ {
		if legacy {
			recs = append(recs, parties[i].rawPub)
			continue
		}
		pk := *parties[i].pubKey
		pk.KID = parties[i].didKey
		if c.kidstyle == "dd" {
			pk.KID = parties[i].kaID
		}
		m, _ := json.Marshal(&pk)
		recs = append(recs, m)
	}
	var senderID []byte
	switch {
	case c.kind == "la":
		senderID = sender.rawPub
	case c.kind == "aj" && c.kidstyle == "dd":
		senderID = []byte(sender.kid + "." + sender.kaID)
	case c.kind == "aj":
		senderID = []byte(sender.kid + "." + sender.didKey)
	}
	return packers[0].Pack("", payload, senderID, recs)
}

func c01Run(input string) string {
	parts := strings.SplitN(input, "|", 2)
	c, ok := parseEnvCase(parts[0])
	if !ok {
		return "bad-input"
	}
	mut := "none"
	if len(parts) == 2 {
		mut = parts[1]
	}
	legacy := c.kind == "la" || c.kind == "ln"
	payload := envPayload(c.payload)
	env, parties, packers, err := envBuild(c, payload, len(input))
	if err != nil {
		return "pack=fail"
	}
	var outs []string
	outs = append(outs, "pack=ok")
	var mutated []byte
	if mut != "none" {
		// a second, independent envelope (same parties, other payload) as splice donor
		donor, _, _, derr := envBuild(c, append([]byte("other-"), payload...), len(input))
		if derr != nil {
			donor = nil
		}
		var (
			m                []byte
			applied, changed bool
		)
		if mut == "forge:skid" {
			// the outsider builds a fresh ECDH-ES (anoncrypt) JWE for recipient 1 and names the SENDER's key in `skid`
			m, applied = envForgeSkid(c, parties)
			changed = true
		} else if mut == "forge:mallory" {
			m, applied = envForgeMallory(c, parties)
			changed = true
		} else if mut == "forge:apumallory" {
			m, applied = envForgeApuMallory(c, parties)
			changed = true
		} else if strings.HasPrefix(mut, "forge:") {
			m, applied = envForgeHand(c, parties, strings.TrimPrefix(mut, "forge:"))
			changed = true
		} else if mut == "corecip" {
			m, applied = envCoRecipient(c, env, parties)
			changed = true
		} else {
			m, applied, changed = envMutate(env, donor, mut, parties)
		}
		if !applied {
			outs = append(outs, "mut=na")
		} else {
			mutated = m
			ch := "0"
			if changed {
				ch = "1"
			}
			outs = append(outs, "mut=applied changed="+ch)
		}
	}
	for i, p := range parties {
		base := envUnpack(packers[i], env).show(payload, parties[0], p, legacy, c.kidstyle)
		s := fmt.Sprintf("p%d=%s", i, base)
		if mutated != nil {
			s += "/" + envUnpack(packers[i], mutated).show(payload, parties[0], p, legacy, c.kidstyle)
		}
		outs = append(outs, s)
	}
	if mut == "none" {
		// unpacking is not a one-shot affair: the same packer instances open a second, independent envelope of the same
		// parties (q<i>) and then the first one again (r<i>); both must come out as the first time.
		other := append([]byte("other-"), payload...)
		if second, derr := envBuildWith(c, other, parties, packers); derr == nil {
			for i, p := range parties {
				outs = append(outs, fmt.Sprintf("q%d=%s", i, envUnpack(packers[i], second).show(other, parties[0], p, legacy, c.kidstyle)))
			}
			for i, p := range parties {
				outs = append(outs, fmt.Sprintf("r%d=%s", i, envUnpack(packers[i], env).show(payload, parties[0], p, legacy, c.kidstyle)))
			}
		} else {
			outs = append(outs, "second=fail")
		}
		// the same message through the PACKAGER of every party: media type profile -> packer, sender and recipient keys
		// prepared from did:key ids or DID-URL key ids (g<i>)
		outs = append(outs, envViaPackager(c, payload, parties, packers, len(input))...)
	}
	return strings.Join(outs, " ")
}

type envPkgAdapter struct{ p *packager.Packager }

func (a envPkgAdapter) Pack(string, []byte, []byte, [][]byte) ([]byte, error) { return nil, fmt.Errorf("unused") }
func (a envPkgAdapter) Unpack(b []byte) (*transport.Envelope, error)         { return a.p.UnpackMessage(b) }
func (a envPkgAdapter) EncodingType() string                                 { return "" }

func envViaPackager(c envCase, payload []byte, parties []*envParty, packers []packer.Packer, seed int) []string {
	legacy := c.kind == "la" || c.kind == "ln"
	var reg vdrapi.Registry = &mockvdr.MockVDRegistry{}
	if c.kidstyle == "dd" && !legacy {
		reg = buildEnvDocs(parties, c.kt, NewRng(uint64(seed))).registry()
	}
	var pkgs []*packager.Packager
	for i := range parties {
		pg, err := packager.New(&mockprovider.Provider{PackerList: []packer.Packer{packers[i]}, PackerValue: packers[i], VDRegistryValue: reg,
			KMSValue: parties[i].kms})
		if err != nil {
			return []string{"gnew=fail"}
		}
		pkgs = append(pkgs, pg)
	}
	env := &transport.Envelope{Message: payload}
	keyID := func(p *envParty) string {
		switch {
		case legacy:
			dk, _ := fingerprint.CreateDIDKey(p.rawPub)
			return dk
		case c.kidstyle == "dd":
			return p.kaID
		}
		return p.didKey
	}
	if legacy {
		env.MediaTypeProfile = transport.MediaTypeRFC0019EncryptedEnvelope
	} else {
		env.MediaTypeProfile = transport.MediaTypeDIDCommV2Profile
	}
	if c.kind == "aj" || c.kind == "la" {
		env.FromKey = []byte(keyID(parties[0]))
	}
	for i := 1; i <= c.nrec; i++ {
		env.ToKeys = append(env.ToKeys, keyID(parties[i]))
	}
	packed, err := pkgs[0].PackMessage(env)
	if err != nil {
		if os_trace() {
			fmt.Fprintln(os.Stderr, "packager:", err)
		}
		return []string{"gpack=fail"}
	}
	var outs []string
	for i, p := range parties {
		outs = append(outs, fmt.Sprintf("g%d=%s", i, envUnpack(envPkgAdapter{pkgs[i]}, packed).show(payload, parties[0], p, legacy, c.kidstyle)))
	}
	return outs
}

// envForgeSkid: no private key of the sender is involved.
func envForgeSkid(c envCase, parties []*envParty) ([]byte, bool) {
	if c.kind != "aj" && c.kind != "nj" {
		return nil, false
	}
	rec := *parties[1].pubKey
	rec.KID = parties[1].didKey
	skid := parties[0].didKey
	if c.kidstyle == "dd" {
		rec.KID = parties[1].kaID
		skid = parties[0].kaID
	}
	encAlg := envEncAlgs[c.enc]
	enc, err := jose.NewJWEEncrypt(encAlg, "application/didcomm-encrypted+json", "", skid, nil,
		[]*cryptoapi.PublicKey{&rec}, envCrypto)
	if err != nil {
		return nil, false
	}
	jwe, err := enc.Encrypt([]byte(`{"forged":"by the outsider"}`))
	if err != nil {
		return nil, false
	}
	s, err := jwe.CompactSerialize(json.Marshal)
	if err != nil {
		return nil, false
	}
	return []byte(s), true
}

// ---- mutations -------------------------------------------------------------------------------------------------------

func b64Flip(s string, permille int) (string, bool) {
	if len(s) == 0 {
		return s, false
	}
	pos := permille * len(s) / 1000
	if pos >= len(s) {
		pos = len(s) - 1
	}
	alphabet := "ABCDEFGHIJKLMNOPQRSTUVWXYZabcdefghijklmnopqrstuvwxyz0123456789-_"
	i := strings.IndexByte(alphabet, s[pos])
	if i < 0 {
		return s, false
	}
	b := []byte(s)
	b[pos] = alphabet[(i+1)%64]
	return string(b), true
}

func b64Changed(a, b string) bool {
	da, ea := base64.RawURLEncoding.DecodeString(strings.TrimRight(a, "="))
	db, eb := base64.RawURLEncoding.DecodeString(strings.TrimRight(b, "="))
	if ea != nil || eb != nil {
		return true
	}
	return !bytes.Equal(da, db)
}

// envMutate applies one mutation; returns (mutated envelope, applicable?, decoded bytes of an authenticated field changed?)
func envMutate(env, donor []byte, mut string, parties []*envParty) ([]byte, bool, bool) {
	f := strings.Split(mut, ":")
	text := string(env)
	compact := !strings.HasPrefix(text, "{")
	// normalise to a JSON object (compact JWE: protected.encrypted_key.iv.ciphertext.tag)
	var obj map[string]interface{}
	if compact {
		seg := strings.Split(text, ".")
		if len(seg) != 5 {
			return nil, false, false
		}
		obj = map[string]interface{}{"protected": seg[0], "encrypted_key": seg[1], "iv": seg[2], "ciphertext": seg[3], "tag": seg[4]}
	} else if err := json.Unmarshal(env, &obj); err != nil {
		return nil, false, false
	}
	var donorObj map[string]interface{}
	if donor != nil {
		dt := string(donor)
		if !strings.HasPrefix(dt, "{") {
			seg := strings.Split(dt, ".")
			if len(seg) == 5 {
				donorObj = map[string]interface{}{"protected": seg[0], "encrypted_key": seg[1], "iv": seg[2], "ciphertext": seg[3], "tag": seg[4]}
			}
		} else {
			_ = json.Unmarshal(donor, &donorObj)
		}
	}
	reserialize := func() []byte {
		if compact {
			return []byte(strings.Join([]string{obj["protected"].(string), obj["encrypted_key"].(string), obj["iv"].(string),
				obj["ciphertext"].(string), obj["tag"].(string)}, "."))
		}
		b, _ := json.Marshal(obj)
		return b
	}
	// legacy envelopes keep the recipients inside the (base64, JSON) protected header
	legacyProt := func() (map[string]interface{}, bool) {
		ps, _ := obj["protected"].(string)
		raw, err := base64.URLEncoding.DecodeString(ps)
		if err != nil {
			raw, err = base64.RawURLEncoding.DecodeString(ps)
			if err != nil {
				return nil, false
			}
		}
		var m map[string]interface{}
		if json.Unmarshal(raw, &m) != nil {
			return nil, false
		}
		_, isLegacy := m["recipients"]
		return m, isLegacy
	}
	setProt := func(m map[string]interface{}, legacy bool) {
		b, _ := json.Marshal(m)
		if legacy {
			obj["protected"] = base64.URLEncoding.EncodeToString(b)
		} else {
			obj["protected"] = base64.RawURLEncoding.EncodeToString(b)
		}
	}
	recField := func(name string) (holder map[string]interface{}, key string, restore func(), ok bool) {
		// ek<i>, kid<i>, sender<i>, riv<i>
		for _, pre := range []string{"ek", "kid", "sender", "riv"} {
			if strings.HasPrefix(name, pre) {
				i, err := strconv.Atoi(name[len(pre):])
				if err != nil {
					return nil, "", nil, false
				}
				if pm, isLegacy := legacyProt(); isLegacy {
					recs, _ := pm["recipients"].([]interface{})
					if i >= len(recs) {
						return nil, "", nil, false
					}
					rec, _ := recs[i].(map[string]interface{})
					hdr, _ := rec["header"].(map[string]interface{})
					restore := func() { setProt(pm, true) }
					switch pre {
					case "ek":
						return rec, "encrypted_key", restore, true
					case "kid":
						return hdr, "kid", restore, true
					case "sender":
						return hdr, "sender", restore, true
					default:
						return hdr, "iv", restore, true
					}
				}
				if pre == "sender" || pre == "riv" {
					return nil, "", nil, false
				}
				recs, has := obj["recipients"].([]interface{})
				if !has {
					if i == 0 && pre == "ek" {
						return obj, "encrypted_key", func() {}, true
					}
					return nil, "", nil, false
				}
				if i >= len(recs) {
					return nil, "", nil, false
				}
				rec, _ := recs[i].(map[string]interface{})
				if pre == "ek" {
					return rec, "encrypted_key", func() {}, true
				}
				hdr, _ := rec["header"].(map[string]interface{})
				if hdr == nil {
					return nil, "", nil, false
				}
				return hdr, "kid", func() {}, true
			}
		}
		return nil, "", nil, false
	}
	switch f[0] {
	case "flip", "trunc", "splice":
		field := f[1]
		var holder map[string]interface{}
		key := field
		restore := func() {}
		if _, top := obj[field]; top {
			holder = obj
		} else {
			h, k, rs, ok := recField(field)
			if !ok {
				return nil, false, false
			}
			holder, key, restore = h, k, rs
		}
		cur, ok := holder[key].(string)
		if !ok {
			return nil, false, false
		}
		var next string
		switch f[0] {
		case "flip":
			pm, _ := strconv.Atoi(f[2])
			n, ok := b64Flip(cur, pm)
			if !ok {
				return nil, false, false
			}
			next = n
		case "trunc":
			n, _ := strconv.Atoi(f[2])
			if n >= len(cur) {
				return nil, false, false
			}
			next = cur[:len(cur)-n]
		default:
			if donorObj == nil {
				return nil, false, false
			}
			if _, top := donorObj[field]; top {
				next, _ = donorObj[field].(string)
			} else {
				// recipient fields of the donor: locate through a shadow mutation context
				save := obj
				obj = donorObj
				dh, dk, _, dok := recField(field)
				obj = save
				if !dok {
					return nil, false, false
				}
				next, _ = dh[dk].(string)
			}
			if next == "" || next == cur {
				return nil, false, false
			}
		}
		holder[key] = next
		restore()
		changed := b64Changed(cur, next)
		if key == "kid" {
			changed = cur != next
		}
		return reserialize(), true, changed
	case "hdr":
		pm, isLegacy := legacyProt()
		if pm == nil {
			return nil, false, false
		}
		var val interface{} = f[2]
		if f[2] == "@other" {
			// the key id of another party (for skid / kid edits)
			other := parties[len(parties)-1]
			val = other.didKey
			if other.didKey == "" {
				val = base58.Encode(other.rawPub)
			}
		}
		if f[2] == "@null" {
			val = nil
		}
		if cur, ok := pm[f[1]]; ok && cur == val {
			return nil, false, false
		}
		pm[f[1]] = val
		setProt(pm, isLegacy)
		return reserialize(), true, true
	case "unprot":
		if compact {
			return nil, false, false
		}
		other := parties[len(parties)-1]
		v := f[2]
		if v == "@other" {
			v = other.didKey
		}
		obj["unprotected"] = map[string]interface{}{f[1]: v}
		return reserialize(), true, false
	case "droprec", "duprec", "swaprec":
		if pm, isLegacy := legacyProt(); isLegacy {
			recs, _ := pm["recipients"].([]interface{})
			nr, ok := envEditRecs(recs, f)
			if !ok {
				return nil, false, false
			}
			pm["recipients"] = nr
			setProt(pm, true)
			return reserialize(), true, true
		}
		recs, has := obj["recipients"].([]interface{})
		if !has {
			return nil, false, false
		}
		nr, ok := envEditRecs(recs, f)
		if !ok {
			return nil, false, false
		}
		obj["recipients"] = nr
		return reserialize(), true, false
	case "altkid":
		// a single-recipient envelope re-serialised as flattened JSON with an UNPROTECTED per-recipient header that names
		// ANOTHER key the recipient holds: payload and sender unchanged - the recipient key must not change either
		if _, isLegacy := legacyProt(); isLegacy || obj["recipients"] != nil || obj["encrypted_key"] == nil || len(parties) < 2 ||
			parties[1].pubKey == nil {
			return nil, false, false
		}
		alt := envAltKID(parties[1])
		if alt == "" {
			return nil, false, false
		}
		o2 := map[string]interface{}{}
		for k, v := range obj {
			o2[k] = v
		}
		o2["header"] = map[string]interface{}{"kid": alt}
		b, _ := json.Marshal(o2)
		return b, true, true
	case "reser":
		// compact <-> flattened JSON with the same field values
		if compact {
			b, _ := json.Marshal(obj)
			return b, true, false
		}
		return nil, false, false
	}
	return nil, false, false
}

func envEditRecs(recs []interface{}, f []string) ([]interface{}, bool) {
	switch f[0] {
	case "droprec":
		i, _ := strconv.Atoi(f[1])
		if i >= len(recs) || len(recs) < 2 {
			return nil, false
		}
		return append(append([]interface{}{}, recs[:i]...), recs[i+1:]...), true
	case "duprec":
		i, _ := strconv.Atoi(f[1])
		if i >= len(recs) {
			return nil, false
		}
		return append(append([]interface{}{}, recs...), recs[i]), true
	default:
		if len(recs) < 2 {
			return nil, false
		}
		out := append([]interface{}{}, recs...)
		out[0], out[1] = out[1], out[0]
		return out, true
	}
}

// ---- generators ------------------------------------------------------------------------------------------------------

func envGenCfg(r *Rng) string {
	kind := []string{"aj", "aj", "nj", "nj", "la", "ln"}[r.N(6)]
	payload := []string{"e0", "b1", "b15", "b16", "b17", "b31", "b32", "b33", "j", "b1000", "b255"}[r.N(11)]
	nrec := 1 + r.N(4)
	if r.N(3) == 0 {
		nrec = 1
	}
	if kind == "la" || kind == "ln" {
		return fmt.Sprintf("%s,ed,-,%d,%s,dk", kind, nrec, payload)
	}
	kt := []string{"x25519", "p256", "p384", "p521"}[r.N(4)]
	encs := []string{"xc", "c128", "c192", "c256", "c512"}
	if kind == "nj" {
		encs = append(encs, "gcm", "gcm")
	}
	style := "dk"
	if r.N(4) == 0 {
		style = "dd"
	}
	return fmt.Sprintf("%s,%s,%s,%d,%s,%s", kind, kt, r.Pick(encs), nrec, payload, style)
}

func c01Gen(r *Rng, tier string) []string {
	n := 900
	if tier == "thorough" {
		n = 20000
	}
	var out []string
	for i := 0; i < n; i++ {
		out = append(out, envGenCfg(r)+"|none")
		if i%8 == 0 {
			// "together with ... the true sender key": valid envelopes sealed by hand whose sender hints (apu, skid, iss)
			// name somebody else than the party whose key authenticated the envelope; judged by the C02 contract
			kt := r.Pick([]string{"x25519", "p256", "p384", "p521"})
			mut := r.Pick([]string{"forge:apu", "forge:apu+skid", "forge:skid", "forge:apu+iss", "forge:mallory"})
			nrec := 1 + r.N(3)
			en := "xc"
			if mut == "forge:mallory" {
				nrec, en = 1, r.Pick([]string{"xc", "c128", "c512"})
			}
			out = append(out, fmt.Sprintf("aj,%s,%s,%d,%s,%s|%s", kt, en, nrec, r.Pick([]string{"j", "b40"}),
				r.Pick([]string{"dk", "dd"}), mut))
		}
	}
	return out
}

func c02Gen(r *Rng, tier string) []string {
	n := 2500
	if tier == "thorough" {
		n = 60000
	}
	fields := []string{"protected", "iv", "ciphertext", "tag", "ek0", "ek1", "kid0", "kid1", "sender0", "riv0", "riv1"}
	var out []string
	for i := 0; i < n; i++ {
		cfg := envGenCfg(r)
		var mut string
		switch c := r.N(20); {
		case c < 7:
			mut = fmt.Sprintf("flip:%s:%d", r.Pick(fields), r.N(1000))
		case c < 8:
			// attacker-built envelopes need JWE with a content encryption the toolkit implements
			kt := r.Pick([]string{"x25519", "p256", "p384", "p521"})
			kd, en := r.Pick([]string{"aj", "aj", "nj"}), "xc"
			if kd == "nj" {
				en = r.Pick([]string{"xc", "gcm"})
			}
			cfg = fmt.Sprintf("%s,%s,%s,%d,%s,%s", kd, kt, en, 2+r.N(2), r.Pick([]string{"j", "b40"}), r.Pick([]string{"dk", "dd"}))
			mut = r.Pick([]string{"forge:apu", "forge:apu+skid", "forge:skid", "corecip", "corecip", "forge:mallory", "forge:mallory",
				"forge:apumallory", "forge:apumallory"})
			if mut == "forge:apumallory" {
				// (sealed by hand the way the framework seals multi-recipient ECDH-1PU envelopes for X25519 keys)
				cfg = fmt.Sprintf("aj,x25519,xc,%d,j,%s", 2+r.N(2), r.Pick([]string{"dk", "dd"}))
			}
		case c < 9:
			mut = fmt.Sprintf("flip:%s:999", r.Pick(fields)) // last character: base64 trailing bits
		case c < 10:
			mut = fmt.Sprintf("trunc:%s:%d", r.Pick(fields), 1+r.N(3))
		case c < 14:
			keys := []string{"alg", "enc", "kid", "skid", "apu", "apv", "typ", "cty", "epk"}
			vals := []string{"@other", "ECDH-ES+A256KW", "ECDH-1PU+A256KW", "A256GCM", "XC20P", "application/didcomm-encrypted+json", "", "@null", "Authcrypt", "Anoncrypt"}
			mut = fmt.Sprintf("hdr:%s:%s", r.Pick(keys), r.Pick(vals))
		case c < 16:
			mut = "splice:" + r.Pick(fields)
		case c < 17:
			mut = fmt.Sprintf("droprec:%d", r.N(3))
		case c < 18:
			mut = fmt.Sprintf("duprec:%d", r.N(3))
		case c < 19:
			mut = []string{"swaprec", "reser", "forge:skid", "forge:skid", "forge:apu", "forge:apu+skid", "forge:apu+iss",
				"corecip", "corecip", "forge:mallory", "altkid", "altkid"}[r.N(12)]
			if mut == "altkid" || mut == "forge:mallory" {
				// single recipient (altkid), authcrypt (mallory), all key types and content encryptions
				kd := r.Pick([]string{"aj", "aj", "nj"})
				en := r.Pick([]string{"xc", "c128", "c512"}) // (the authcrypt packer refuses A256GCM)
				if kd == "nj" {
					en = r.Pick([]string{"xc", "gcm"})
				}
				cfg = fmt.Sprintf("%s,%s,%s,1,%s,%s", kd, r.Pick([]string{"x25519", "p256", "p384", "p521"}), en,
					r.Pick([]string{"j", "b40"}), r.Pick([]string{"dk", "dk", "dd"}))
			}
		default:
			mut = "unprot:" + r.Pick([]string{"skid", "kid", "alg", "apu"}) + ":@other"
		}
		out = append(out, cfg+"|"+mut)
	}
	return out
}

func init() {
	register("C01", &Prop{Gen: c01Gen, Run: c01Run})
	register("C02", &Prop{Gen: c02Gen, Run: c01Run})
}
