package main

// C03: every entry point that consumes data from another party returns a value or an error. Valid objects produced by
// the framework's own encoders are confused (a member replaced by null / number / string / array / object / removed,
// strings truncated, extended or emptied, length fields set to extremes) and handed to the real entry point in-process.
// A panic is caught by the runner (PANIC ...), a goroutine crash kills the worker and is attributed by the BEGIN line,
// a hang is cut by the per-case timeout of the check.
//
// input  := entry "|" variant "|" K "|" R
//   entry  : env (packers + packager) jwe jws vc vp did didkey sdjwt bbs presexch pp ic pickup mediator
//   variant: selects the valid starting object of the entry (packer kind, suite, message type, ...)
//   K      : index of the JSON position (or byte position) to confuse, taken modulo the number of positions
//   R      : index of the replacement
// output := ok | err | na                      (PANIC / CRASH / TIMEOUT come from the runner)

import (
	"encoding/base64"
	"encoding/json"
	"errors"
	"fmt"
	"sort"
	"strconv"
	"strings"
	"time"

	"github.com/btcsuite/btcutil/base58"

	"github.com/hyperledger/aries-framework-go/component/kmscrypto/crypto/primitive/bbs12381g2pub"
	"github.com/hyperledger/aries-framework-go/pkg/doc/cm"
	"github.com/hyperledger/aries-framework-go/component/kmscrypto/doc/jose"
	"github.com/hyperledger/aries-framework-go/component/kmscrypto/doc/util/fingerprint"
	"github.com/hyperledger/aries-framework-go/component/kmscrypto/doc/util/kmsdidkey"
	arieslog "github.com/hyperledger/aries-framework-go/component/log"
	"github.com/hyperledger/aries-framework-go/component/models/did"
	"github.com/hyperledger/aries-framework-go/component/models/jose/diddocresolver"
	"github.com/hyperledger/aries-framework-go/component/models/jwt"
	"github.com/hyperledger/aries-framework-go/component/models/jwt/didsignjwt"
	"github.com/hyperledger/aries-framework-go/component/models/presexch"
	sdjwtverifier "github.com/hyperledger/aries-framework-go/component/models/sdjwt/verifier"
	"github.com/hyperledger/aries-framework-go/component/models/verifiable"
	"github.com/hyperledger/aries-framework-go/component/storageutil/mem"
	vdrkey "github.com/hyperledger/aries-framework-go/component/vdr/key"
	"github.com/hyperledger/aries-framework-go/pkg/didcomm/common/service"
	"github.com/hyperledger/aries-framework-go/pkg/didcomm/packager"
	"github.com/hyperledger/aries-framework-go/pkg/didcomm/packer"
	"github.com/hyperledger/aries-framework-go/pkg/didcomm/protocol/issuecredential"
	"github.com/hyperledger/aries-framework-go/pkg/didcomm/protocol/mediator"
	"github.com/hyperledger/aries-framework-go/pkg/didcomm/protocol/messagepickup"
	"github.com/hyperledger/aries-framework-go/pkg/didcomm/protocol/presentproof"
	vdrapi "github.com/hyperledger/aries-framework-go/pkg/framework/aries/api/vdr"
	mockdispatcher "github.com/hyperledger/aries-framework-go/pkg/mock/didcomm/dispatcher"
	mockpackager "github.com/hyperledger/aries-framework-go/pkg/mock/didcomm/packager"
	mockprovider "github.com/hyperledger/aries-framework-go/pkg/mock/provider"
	mockvdr "github.com/hyperledger/aries-framework-go/pkg/mock/vdr"
	"github.com/hyperledger/aries-framework-go/pkg/store/connection"
	spilog "github.com/hyperledger/aries-framework-go/spi/log"
	spistorage "github.com/hyperledger/aries-framework-go/spi/storage"
)

// ---- the confusion engine --------------------------------------------------------------------------------------------

var c03Repl = []interface{}{nil, 0, -1, 4294967295, 1.5, "", "x", true, []interface{}{}, []interface{}{nil}, map[string]interface{}{},
	map[string]interface{}{"a": nil}, "\"", "é\x80", []interface{}{"x", 1}}

// c03Fresh copies a replacement value: the table is shared by all cases of a worker, and a later confusion may write INTO
// a map or array that an earlier one put into a document (a shared, mutated - in the end cyclic - replacement made a
// thorough run hang in the harness itself)
func c03Fresh(v interface{}) interface{} {
	switch t := v.(type) {
	case map[string]interface{}:
		m := make(map[string]interface{}, len(t))
		for k, x := range t {
			m[k] = c03Fresh(x)
		}
		return m
	case []interface{}:
		a := make([]interface{}, len(t))
		for i, x := range t {
			a[i] = c03Fresh(x)
		}
		return a
	}
	return v
}

type c03Pos struct {
	path []interface{}
}

// c03B64 in a path: the string at this point is base64url of a JSON object / array, the path continues inside it (the
// protected header of a JWE, the header and the claims of a JWS, ...)
type c03B64 struct{}

func c03Inner(s string) (interface{}, bool) {
	if len(s) < 4 {
		return nil, false
	}
	raw, err := base64.RawURLEncoding.DecodeString(strings.TrimRight(s, "="))
	if err != nil || len(raw) == 0 || (raw[0] != '{' && raw[0] != '[') {
		return nil, false
	}
	var inner interface{}
	if json.Unmarshal(raw, &inner) != nil {
		return nil, false
	}
	return inner, true
}

func c03Positions(v interface{}, path []interface{}, out *[]c03Pos) {
	if len(path) > 64 {
		return
	}
	if len(path) > 0 {
		*out = append(*out, c03Pos{append([]interface{}{}, path...)})
	}
	switch t := v.(type) {
	case string:
		if inner, ok := c03Inner(t); ok && len(path) < 12 {
			c03Positions(inner, append(append([]interface{}{}, path...), c03B64{}), out)
		}
	case map[string]interface{}:
		keys := make([]string, 0, len(t))
		for k := range t {
			keys = append(keys, k)
		}
		sort.Strings(keys)
		for _, k := range keys {
			c03Positions(t[k], append(append([]interface{}{}, path...), k), out)
		}
	case []interface{}:
		for i, x := range t {
			c03Positions(x, append(append([]interface{}{}, path...), i), out)
		}
	}
}

// confuse position k of the decoded JSON value with replacement r (r beyond the table: string surgery / removal)
// members that steer decoders (key type / algorithm / curve / suite selectors, selective-disclosure and JSON-LD keywords):
// with r >= c03InjectBase one of them is ADDED to (or overwrites a member of) the object the chosen position lives in, so
// that two members which each look fine contradict each other (an OKP key that says "alg":"ES256K", ...)
const c03InjectBase = 1000

var c03Inject = []struct {
	k string
	v interface{}
}{
	{"alg", "ES256K"}, {"alg", "EdDSA"}, {"alg", "ES256"}, {"alg", "none"}, {"alg", "Bls12381g2"}, {"alg", "es256k"},
	{"alg", "ECDH-1PU+A256KW"}, {"alg", "RS256"}, {"alg", "PS256"}, {"alg", "ES384"},
	{"kty", "EC"}, {"kty", "OKP"}, {"kty", "RSA"}, {"kty", "oct"},
	{"crv", "secp256k1"}, {"crv", "P-256"}, {"crv", "P-521"}, {"crv", "Ed25519"}, {"crv", "X25519"}, {"crv", "BLS12381_G2"},
	{"type", "JsonWebKey2020"}, {"type", "Ed25519VerificationKey2018"}, {"type", "Bls12381G2Key2020"},
	{"type", "X25519KeyAgreementKey2019"}, {"type", "EcdsaSecp256k1VerificationKey2019"}, {"type", "BbsBlsSignatureProof2020"},
	{"enc", "A256GCM"}, {"enc", "XC20P"}, {"typ", "JWT"}, {"cty", "JWT"}, {"zip", "DEF"}, {"skid", "x"}, {"apu", "eA"},
	{"d", "AA"}, {"use", "sig"}, {"x5c", []interface{}{"AA"}}, {"k", "AA"}, {"n", "AQAB"}, {"e", "AQAB"}, {"y", "AA"}, {"x", "AA"},
	{"_sd", []interface{}{"x"}}, {"_sd_alg", "sha-384"}, {"...", "x"}, {"cnf", map[string]interface{}{"jwk": map[string]interface{}{}}},
	{"@context", map[string]interface{}{"@base": "x"}}, {"id", "#x"}, {"@id", "#y"}, {"proofValue", "z"}, {"jws", "a..b"},
	{"created", "x"}, {"publicKeyJwk", map[string]interface{}{"kty": "OKP", "crv": "Ed25519", "x": "AA", "alg": "ES256K"}},
	{"publicKeyBase58", "1"}, {"publicKeyMultibase", "z"}, {"controller", []interface{}{}}, {"nonce", "!"},
	{"serviceEndpoint", []interface{}{}}, {"routingKeys", "x"}, {"recipientKeys", "x"}, {"priority", "x"},
}

func c03InjectInto(cur interface{}, r int) {
	if m, ok := cur.(map[string]interface{}); ok {
		inj := c03Inject[(r-c03InjectBase)%len(c03Inject)]
		m[inj.k] = c03Fresh(inj.v)
	}
}

func c03Confuse(root interface{}, k, r int) interface{} {
	var ps []c03Pos
	c03Positions(root, nil, &ps)
	if len(ps) == 0 {
		return root
	}
	p := ps[k%len(ps)].path
	inject := r >= c03InjectBase
	var set func(cur interface{}, path []interface{}) interface{}
	set = func(cur interface{}, path []interface{}) interface{} {
		last := len(path) == 1
		switch key := path[0].(type) {
		case c03B64:
			str, _ := cur.(string)
			inner, ok := c03Inner(str)
			if !ok || last {
				return cur
			}
			b, err := json.Marshal(set(inner, path[1:]))
			if err != nil {
				return cur
			}
			return base64.RawURLEncoding.EncodeToString(b)
		case string:
			m := cur.(map[string]interface{})
			if !last {
				m[key] = set(m[key], path[1:])
				return m
			}
			if inject {
				c03InjectInto(m, r)
				return m
			}
			n := len(c03Repl)
			switch {
			case r%(n+4) < n:
				m[key] = c03Fresh(c03Repl[r%(n+4)])
			case r%(n+4) == n:
				delete(m, key)
			default:
				m[key] = c03Surgery(m[key], r%(n+4)-n)
			}
			return m
		case int:
			a := cur.([]interface{})
			if !last {
				a[key] = set(a[key], path[1:])
				return a
			}
			if inject {
				c03InjectInto(a[key], r)
				return a
			}
			n := len(c03Repl)
			switch {
			case r%(n+4) < n:
				a[key] = c03Fresh(c03Repl[r%(n+4)])
			case r%(n+4) == n:
				return append(a[:key:key], a[key+1:]...)
			default:
				a[key] = c03Surgery(a[key], r%(n+4)-n)
			}
			return a
		}
		return cur
	}
	return set(root, p)
}

// strings: truncated, extended, base64-decoded-confused; numbers: extremes
func c03Surgery(v interface{}, how int) interface{} {
	switch t := v.(type) {
	case string:
		switch how {
		case 1:
			if len(t) > 1 {
				return t[:len(t)/2]
			}
			return ""
		case 2:
			return t + t
		default:
			// a base64url value: decode, confuse the JSON inside (if it is JSON) or cut the bytes, encode again
			raw, err := base64.RawURLEncoding.DecodeString(strings.TrimRight(t, "="))
			if err != nil {
				// not base64url (a DID, a key id, a URL ...): valid NON-ASCII characters in the middle of it (a decoder that
				// indexes a table with the rune, or slices by byte count, meets them here), or a trailing pad
				if len(t)%2 == 0 {
					return t[:len(t)/2] + "Ā€😀" + t[len(t)/2:]
				}
				return t + "="
			}
			var inner interface{}
			if json.Unmarshal(raw, &inner) == nil {
				b, _ := json.Marshal(c03Confuse(inner, len(t), len(raw)))
				return base64.RawURLEncoding.EncodeToString(b)
			}
			if len(raw) > 0 {
				return base64.RawURLEncoding.EncodeToString(raw[:len(raw)-1])
			}
			return "AA"
		}
	case float64:
		return []interface{}{-1.0, 2147483648.0, 1e308}[how%3]
	}
	return nil
}

func c03JSON(valid []byte, k, r int) []byte {
	var v interface{}
	if json.Unmarshal(valid, &v) != nil {
		return c03Bytes(valid, k, r)
	}
	b, err := json.Marshal(c03Confuse(v, k, r))
	if err != nil {
		return valid
	}
	return b
}

// a compact serialization (segments joined by "."; an SD-JWT combined format: "~") is confused as the array of its
// segments: a segment replaced, removed, cut - or a member INSIDE a base64url JSON segment confused
func c03Compact(tok, sep string, k, r int) string {
	var segs []interface{}
	for _, x := range strings.Split(tok, sep) {
		segs = append(segs, x)
	}
	out, ok := c03Confuse(segs, k, r).([]interface{})
	if !ok {
		return tok
	}
	var parts []string
	for _, x := range out {
		if str, ok := x.(string); ok {
			parts = append(parts, str)
		} else {
			b, _ := json.Marshal(x)
			parts = append(parts, base64.RawURLEncoding.EncodeToString(b))
		}
	}
	return strings.Join(parts, sep)
}

// byte strings: truncation, extension, a byte set to an extreme
// c03Exact returns the bytes in a slice WITHOUT spare capacity (as a decoder of unpadded base64, or a buffer made to
// measure, hands them over): a parser that slices past the end of such input panics, while on a slice with rounded-up
// capacity the same mistake goes unnoticed
func c03Exact(b []byte) []byte {
	out := make([]byte, len(b))
	copy(out, b)
	return out[:len(b):len(b)]
}

func c03Bytes(valid []byte, k, r int) []byte {
	if len(valid) == 0 {
		return []byte{byte(r)}
	}
	pos := k % len(valid)
	switch r % 6 {
	case 0:
		if k%2 == 1 && len(valid) > 9 {
			pos = len(valid) - 1 - (k/2)%8 // cut off the last 1..8 bytes: off-by-a-few length checks live at the tail
		}
		return c03Exact(valid[:pos])
	case 1:
		return c03Exact(append(append([]byte{}, valid...), valid[:pos]...))
	case 2:
		out := c03Exact(valid)
		out[pos] = 0xff
		return out
	case 3:
		out := c03Exact(valid)
		out[pos] = 0
		return out
	case 4:
		out := c03Exact(valid)
		out[pos] ^= 0x80
		return out
	}
	return c03Exact(append(append([]byte{}, valid[:pos]...), valid[pos+1:]...))
}

func c03Res(err error) string {
	if err != nil {
		return "err"
	}
	return "ok"
}

// ---- valid starting objects and entry points -------------------------------------------------------------------------

type c03Env struct {
	tokens map[string]string
	vcs    map[string][]byte
}

func c03Setup() {
	// the services log every refused message: keep the protocol stream clean
	arieslog.SetLevel("", spilog.CRITICAL)
	c08Setup()
	c07Setup()
	c16Setup()
	c17Setup()
	c20Setup()
}

func c03Run(input string) string {
	f := strings.Split(input, "|")
	if len(f) != 4 {
		return "bad-input"
	}
	k, _ := strconv.Atoi(f[2])
	r, _ := strconv.Atoi(f[3])
	switch f[0] {
	case "env":
		return c03Envelope(f[1], k, r)
	case "jws":
		return c03JWS(f[1], k, r)
	case "vc":
		return c03VC(f[1], k, r)
	case "did":
		return c03DID(f[1], k, r)
	case "didkey":
		return c03DIDKey(f[1], k, r)
	case "bbs":
		return c03BBS(f[1], k, r)
	case "sdjwt":
		return c03SDJWT(f[1], k, r)
	case "presexch":
		return c03PresExch(f[1], k, r)
	case "cm":
		return c03Manifest(f[1], k, r)
	case "proto":
		return c03Proto(f[1], k, r)
	case "claims":
		return c03Claims(f[1], k, r)
	}
	return "bad-input"
}

// packers and packager on confused envelopes (all four packers, two serializations)
func c03Envelope(variant string, k, r int) string {
	c, ok := parseEnvCase(variant)
	if !ok {
		return "bad-input"
	}
	env, parties, packers, err := envBuild(c, envPayload(c.payload), 1)
	if err != nil {
		return "na"
	}
	confused := c03JSON(env, k, r)
	if !strings.HasPrefix(string(env), "{") { // compact: confuse one of the five segments
		confused = []byte(c03Compact(string(env), ".", k, r))
	}
	// the recipient's own packer, and a packager that holds all four packers
	_, e1 := packers[1].Unpack(confused)
	prov := &mockprovider.Provider{KMSValue: parties[1].kms, CryptoValue: envCrypto, StorageProviderValue: mem.NewProvider(),
		VDRegistryValue: &mockvdr.MockVDRegistry{}}
	var all []packer.Packer
	for _, kind := range []string{"la", "ln", "aj", "nj"} {
		if pk, err := envPacker(kind, parties[1], jose.XC20P, prov.VDRegistryValue); err == nil {
			all = append(all, pk)
		}
	}
	pg, err := packager.New(&mockprovider.Provider{PackerList: all, PackerValue: all[0], VDRegistryValue: prov.VDRegistryValue})
	if err != nil {
		return "na"
	}
	_, e2 := pg.UnpackMessage(confused)
	// the transport wraps a packed message in quotes and base64: that path too
	_, e3 := pg.UnpackMessage([]byte("\"" + base64.URLEncoding.EncodeToString(confused) + "\""))
	_, e4 := jose.Deserialize(string(confused))
	if e1 == nil && e2 == nil && e3 == nil && e4 == nil {
		return "ok"
	}
	return "err"
}

func c03JWS(variant string, k, r int) string {
	// variant: "<alg>,<vm>,<entry>"
	v := strings.Split(variant, ",")
	if len(v) != 3 {
		return "bad-input"
	}
	typ, hash, enc := c08Honest(v[0])
	out := c08Run(strings.Join([]string{"tok", "jws", v[0], v[1], typ + "-a:" + hash + ":" + enc, "nest", "att", "none"}, "|"))
	tok := ""
	for _, w := range strings.Split(out, " ") {
		if strings.HasPrefix(w, "tok=") {
			tok = w[4:]
		}
	}
	seg := strings.Split(tok, ".")
	if len(seg) != 3 {
		return "na"
	}
	confused := c03Compact(tok, ".", k, r)
	resolver := jwt.KeyResolverFunc(didsignjwt.NewVDRKeyResolver(c08Resolver{}).PublicKeyFetcher())
	var err error
	switch v[2] {
	case "jws":
		_, err = jose.ParseJWS(confused, jwt.NewVerifier(resolver))
	case "jwt":
		_, _, err = jwt.Parse(confused, jwt.WithSignatureVerifier(jwt.NewVerifier(resolver)))
	case "vcjwt":
		_, err = verifiable.ParseCredential([]byte(confused), verifiable.WithPublicKeyFetcher(verifiable.PublicKeyFetcher(resolver.Resolve)),
			verifiable.WithJSONLDDocumentLoader(c07E.loader))
	default:
		err = didsignjwt.VerifyJWT(confused, c08Resolver{})
	}
	return c03Res(err)
}

func c03VC(variant string, k, r int) string {
	// variant: "<suite>,<repr>,<seed>,<cred|pres>"
	v := strings.Split(variant, ",")
	if len(v) != 4 {
		return "bad-input"
	}
	out := c07Run(strings.Join([]string{v[0], v[1], v[2], "none"}, "|"))
	parts := strings.Split(out, "|")
	if len(parts) != 3 {
		return "na"
	}
	signed := []byte(parts[1])
	if v[3] == "pres" {
		vp := []byte(`{"@context":["https://www.w3.org/2018/credentials/v1"],"type":["VerifiablePresentation"],"holder":"did:example:h","verifiableCredential":[` + string(signed) + `]}`)
		confused := c03JSON(vp, k, r)
		_, err := verifiable.ParsePresentation(confused, verifiable.WithPresJSONLDDocumentLoader(c07E.loader),
			verifiable.WithPresPublicKeyFetcher(verifiable.SingleKey(c07E.pubs["ed"], "Ed25519VerificationKey2018")))
		return c03Res(err)
	}
	if v[0] == "bbs" && k%2 == 1 {
		// the shape of a DERIVED credential (BbsBlsSignatureProof2020 with its nonce): the default suite selection reads it
		var m map[string]interface{}
		if json.Unmarshal(signed, &m) == nil {
			if p, ok := m["proof"].(map[string]interface{}); ok {
				p["type"], p["nonce"] = "BbsBlsSignatureProof2020", "bm9uY2U="
				signed, _ = json.Marshal(m)
			}
		}
	}
	confused := c03JSON(signed, k, r)
	_, err := verifiable.ParseCredential(confused, verifiable.WithJSONLDDocumentLoader(c07E.loader),
		verifiable.WithPublicKeyFetcher(verifiable.SingleKey(c07E.pubs["ed"], "Ed25519VerificationKey2018")))
	_, err2 := verifiable.ParseCredential(confused, verifiable.WithJSONLDDocumentLoader(c07E.loader), verifiable.WithDisabledProofCheck(),
		verifiable.WithStrictValidation())
	if err == nil && err2 == nil {
		return "ok"
	}
	return "err"
}

// tokens whose CLAIMS are confused before they are secured: the other party signs whatever it likes with its own key, so
// a verifier sees correctly signed (or, with the proof check disabled, unsecured) tokens with arbitrary claim sets.
// variant: "<vc|vp|jwt>,<none|ed>"
func c03Claims(variant string, k, r int) string {
	v := strings.Split(variant, ",")
	if len(v) != 2 {
		return "bad-input"
	}
	vc := map[string]interface{}{
		"@context": []interface{}{"https://www.w3.org/2018/credentials/v1"}, "type": []interface{}{"VerifiableCredential"},
		"issuer":            map[string]interface{}{"id": "did:example:issuer", "name": "I"},
		"credentialSubject": map[string]interface{}{"id": "did:example:subject", "name": "x"},
		"credentialStatus":  map[string]interface{}{"id": "https://example.edu/status/24", "type": "CredentialStatusList2017"},
		"credentialSchema":  []interface{}{}, "issuanceDate": "2020-01-01T19:23:24Z",
	}
	vcClaims := map[string]interface{}{"iss": "did:example:issuer", "sub": "did:example:subject", "nbf": 1577836800, "iat": 1577836800,
		"exp": 1893456000, "jti": "urn:uuid:c03", "vc": vc}
	secure := func(claims []byte) string {
		if v[1] == "none" {
			return base64.RawURLEncoding.EncodeToString([]byte(`{"alg":"none","typ":"JWT"}`)) + "." + base64.RawURLEncoding.EncodeToString(claims) + "."
		}
		in := base64.RawURLEncoding.EncodeToString([]byte(`{"alg":"EdDSA","kid":"did:example:issuer#key-1","typ":"JWT"}`)) + "." +
			base64.RawURLEncoding.EncodeToString(claims)
		sig, err := envCrypto.Sign([]byte(in), c07E.handles["ed"])
		if err != nil {
			return ""
		}
		return in + "." + base64.RawURLEncoding.EncodeToString(sig)
	}
	fetcher := verifiable.SingleKey(c07E.pubs["ed"], "Ed25519VerificationKey2018")
	var valid map[string]interface{}
	switch v[0] {
	case "vc", "jwt":
		valid = vcClaims
	case "vp":
		b, _ := json.Marshal(vcClaims)
		valid = map[string]interface{}{"iss": "did:example:holder", "jti": "urn:uuid:c03p", "aud": "did:example:verifier", "nbf": 1577836800,
			"vp": map[string]interface{}{"@context": []interface{}{"https://www.w3.org/2018/credentials/v1"},
				"type": []interface{}{"VerifiablePresentation"}, "verifiableCredential": []interface{}{secure(b), vc}}}
	default:
		return "bad-input"
	}
	// one to three confusions; every other case stays at the top level of the claim set (registered claims, "vc", "vp")
	rounds := 1 + (r/19)%3
	for i := 0; i < rounds; i++ {
		ki, ri := k/(i+1)+i*7, r+i*5
		if k%2 == 0 {
			var keys []string
			for key := range valid {
				keys = append(keys, key)
			}
			sort.Strings(keys)
			if len(keys) == 0 {
				break
			}
			key := keys[(ki/2)%len(keys)]
			n := len(c03Repl)
			switch x := ri % (n + 3); {
			case x < n:
				valid[key] = c03Fresh(c03Repl[x])
			default:
				delete(valid, key)
			}
		} else if m, ok := c03Confuse(valid, ki, ri).(map[string]interface{}); ok {
			valid = m
		}
	}
	b, err0 := json.Marshal(valid)
	if err0 != nil {
		return "na"
	}
	tok := secure(b)
	if tok == "" {
		return "na"
	}
	var err error
	switch v[0] {
	case "vc":
		if v[1] == "none" {
			_, err = verifiable.ParseCredential([]byte(tok), verifiable.WithDisabledProofCheck(), verifiable.WithJSONLDDocumentLoader(c07E.loader))
		} else {
			_, err = verifiable.ParseCredential([]byte(tok), verifiable.WithPublicKeyFetcher(fetcher), verifiable.WithJSONLDDocumentLoader(c07E.loader))
		}
	case "vp":
		if v[1] == "none" {
			_, err = verifiable.ParsePresentation([]byte(tok), verifiable.WithPresDisabledProofCheck(), verifiable.WithPresJSONLDDocumentLoader(c07E.loader))
		} else {
			_, err = verifiable.ParsePresentation([]byte(tok), verifiable.WithPresPublicKeyFetcher(fetcher), verifiable.WithPresJSONLDDocumentLoader(c07E.loader))
		}
	default:
		if v[1] == "none" {
			_, _, err = jwt.Parse(tok, jwt.WithSignatureVerifier(jwt.UnsecuredJWTVerifier()))
		} else {
			_, _, err = jwt.Parse(tok, jwt.WithSignatureVerifier(jwt.NewVerifier(jwt.KeyResolverFunc(fetcher))))
		}
	}
	return c03Res(err)
}

// c03KeyReprMismatch: every verification method of the document once with the OTHER key representation than its type
// announces (JsonWebKey2020 carrying publicKeyBase58, a base58 type carrying nothing but a type of JsonWebKey2020)
func c03KeyReprMismatch(v interface{}, n *int, target int) {
	switch t := v.(type) {
	case map[string]interface{}:
		_, hasJWK := t["publicKeyJwk"]
		_, has58 := t["publicKeyBase58"]
		_, hasMB := t["publicKeyMultibase"]
		if hasJWK || has58 || hasMB {
			if *n == target {
				if hasJWK {
					delete(t, "publicKeyJwk")
					t["publicKeyBase58"] = "H3C2AVvLMv6gmMNam3uVAjZpfkcJCwDwnZn6z3wXmqPV"
				} else {
					t["type"] = "JsonWebKey2020"
				}
			}
			*n++
		}
		for _, x := range t {
			c03KeyReprMismatch(x, n, target)
		}
	case []interface{}:
		for _, x := range t {
			c03KeyReprMismatch(x, n, target)
		}
	}
}

func c03DID(variant string, k, r int) string {
	seed, _ := strconv.Atoi(variant)
	src := c16DIDDoc(NewRng(uint64(seed)))
	if r%4 == 0 {
		// (before the confusion) one verification method gets the key representation its type does not announce
		b, _ := json.Marshal(src)
		var m interface{}
		if json.Unmarshal(b, &m) == nil {
			n := 0
			c03KeyReprMismatch(m, &n, -1) // count
			if n > 0 {
				total := n
				n = 0
				c03KeyReprMismatch(m, &n, k%total)
				if mm, ok := m.(map[string]interface{}); ok {
					src = mm
				}
			}
		}
	}
	doc, _ := json.Marshal(src)
	confused := c03JSON(doc, k, r)
	if r%8 == 0 {
		confused = doc // the mismatch alone
	}
	d, err := did.ParseDocument(confused)
	if err == nil {
		_, err = d.JSONBytes()
		if err == nil {
			_, err = service.CreateDestination(d)
			err = nil // a document without service is not an error of the parser
		}
		// every key id the document offers, resolved the way the JWE packers resolve the kid / skid of an envelope
		res := &diddocresolver.DIDDocResolver{VDRRegistry: &mockvdr.MockVDRegistry{
			ResolveFunc: func(string, ...vdrapi.DIDMethodOption) (*did.DocResolution, error) {
				return &did.DocResolution{DIDDocument: d}, nil
			}}}
		for _, list := range [][]did.Verification{d.KeyAgreement, d.Authentication, d.AssertionMethod} {
			for i := range list {
				id := list[i].VerificationMethod.ID
				if !strings.Contains(id, "#") {
					id = d.ID + "#" + id
				}
				_, _ = res.Resolve(id)
			}
		}
	}
	return c03Res(err)
}

func c03DIDKey(variant string, k, r int) string {
	valid := map[string]string{
		"ed":   "did:key:z6MkpTHR8VNsBxYAAWHut2Geadd9jSwuBV8xRoAnwWsdvktH",
		"x":    "did:key:z6LSbysY2xFMRpGMhb7tFTLMpeuPRaqaWM1yECx2AtzE3KCc",
		"p256": "did:key:zDnaerx9CtbPJ1q36T5Ln5wYt3MQYeGRG5ehnPAmxcf5mDZpv",
		"bls":  "did:key:zUC7K4ndUaGZgV7Cp2yJy6JtMoUHY6u7tkcSYUvPrEidqBmLCTLmi6d5WvwnUqejscAkERJ3bfjEiSYtdPkRSE8kSa11hFBr4sTgnbZ95SJj19PN2jdvJjyzpSZgxkyyxNnBNnY",
	}[variant]
	if valid == "" {
		return "bad-input"
	}
	id := valid[len("did:key:z"):]
	var confused string
	switch r % 5 {
	case 0:
		confused = "did:key:z" + id[:k%len(id)]
	case 1:
		confused = "did:key:z" + id + id[:k%len(id)]
	case 2:
		b := []byte(id)
		b[k%len(b)] = "0OIl+/é"[r%6]
		confused = "did:key:z" + string(b)
	case 3:
		confused = "did:key:" + id
		if k%2 == 1 {
			// a valid character outside ASCII somewhere in the fingerprint (the base58 library indexes a 256-entry table
			// with the RUNE)
			pos := k % len(id)
			confused = "did:key:z" + id[:pos] + []string{"Ā", "€", "😀", "ſ"}[(k/2)%4] + id[pos:]
		}
	default:
		// a valid base58 string of arbitrary bytes: multicodec varints that overflow, short keys
		raw := []byte{0xff, 0xff, 0xff, 0xff, 0xff, 0xff, 0xff, 0xff, 0xff, 0xff, 0x01, byte(k), byte(r)}
		confused = "did:key:z" + base58.Encode(raw[:1+k%len(raw)])
	}
	_, e1 := vdrkey.New().Read(confused)
	_, e2 := fingerprint.PubKeyFromDIDKey(confused)
	_, e3 := kmsdidkey.EncryptionPubKeyFromDIDKey(confused)
	_, e4 := kmsdidkey.GetBase58PubKeyFromDIDKey(confused)
	if e1 == nil && e2 == nil && e3 == nil && e4 == nil {
		return "ok"
	}
	return "err"
}

func c03BBS(variant string, k, r int) string {
	n, _ := strconv.Atoi(variant)
	if n < 1 || n > 12 {
		return "bad-input"
	}
	msgs := make([][]byte, n)
	for i := range msgs {
		msgs[i] = []byte(fmt.Sprintf("message-%d", i))
	}
	bbs := bbs12381g2pub.New()
	sig, err := bbs.Sign(msgs, c17K.priv)
	if err != nil {
		return "na"
	}
	proof, err := bbs.DeriveProof(msgs, sig, []byte("nonce"), c17K.pub, []int{0})
	if err != nil {
		return "na"
	}
	cp := c03Bytes(proof, k, r)
	// length fields set to extremes as well
	if r%7 == 6 && len(cp) > 160 {
		for i := 147; i < 151 && i < len(cp); i++ {
			cp[i] = 0xff
		}
	}
	e1 := bbs.VerifyProof(msgs[:1], cp, []byte("nonce"), c17K.pub)
	e2 := bbs.Verify(msgs, c03Bytes(sig, k, r), c17K.pub)
	e3 := bbs.Verify(msgs, sig, c03Bytes(c17K.pub, k, r))
	_, e4 := bbs.DeriveProof(msgs, c03Bytes(sig, k, r), []byte("nonce"), c17K.pub, []int{0})
	if e1 == nil && e2 == nil && e3 == nil && e4 == nil {
		return "ok"
	}
	return "err"
}

func c03SDJWT(variant string, k, r int) string {
	// a combined format built by the C18 harness: issuer-signed JWT ~ disclosures ~ [holder binding]
	c18LastCombined = ""
	_ = c18Run(strings.ReplaceAll(variant, "!", "|"))
	cf := c18LastCombined
	if cf == "" {
		return "na"
	}
	seg := strings.Split(cf, "~")
	i := k % len(seg)
	switch r % 5 {
	case 0:
		// confuse the JSON inside a disclosure / the JWT payload
		if strings.Contains(seg[i], ".") {
			p := strings.Split(seg[i], ".")
			if s, ok := c03Surgery(p[1%len(p)], 3).(string); ok && len(p) > 1 {
				p[1] = s
			}
			seg[i] = strings.Join(p, ".")
		} else if s, ok := c03Surgery(seg[i], 3).(string); ok {
			seg[i] = s
		}
	case 1:
		seg[i] = seg[i][:len(seg[i])/2]
	case 2:
		seg = append(seg[:i:i], seg[i+1:]...)
	case 3:
		seg[i] = base64.RawURLEncoding.EncodeToString([]byte(`[null,{"a":1}]`))
	default:
		seg[i] = base64.RawURLEncoding.EncodeToString([]byte(`["salt",3,[]]`))
	}
	confused := strings.Join(seg, "~")
	_, err := sdjwtverifier.Parse(confused, sdjwtverifier.WithSignatureVerifier(&c03NoSig{}),
		sdjwtverifier.WithLeewayForClaimsValidation(time.Hour))
	return c03Res(err)
}

type c03NoSig struct{}

func (c03NoSig) Verify(jose.Headers, []byte, []byte, []byte) error { return nil }

func c03PresExch(variant string, k, r int) string {
	defJSON := `{"id":"d1","input_descriptors":[{"id":"i1","schema":[{"uri":"https://www.w3.org/2018/credentials#VerifiableCredential"}],"constraints":{"limit_disclosure":"preferred","fields":[{"path":["$.credentialSubject.name","$.name"],"filter":{"type":"string","pattern":"A.*"}}]}}],"submission_requirements":[{"rule":"pick","count":1,"from":"A"}]}`
	vcJSON := `{"@context":["https://www.w3.org/2018/credentials/v1"],"id":"http://example.edu/credentials/1","type":["VerifiableCredential"],"issuer":"did:example:i","issuanceDate":"2020-01-01T00:00:00Z","credentialSubject":{"id":"did:example:s","name":"Alice"}}`
	if variant == "def" {
		defJSON = string(c03JSON([]byte(defJSON), k, r))
	} else {
		vcJSON = string(c03JSON([]byte(vcJSON), k, r))
	}
	pd := &presexch.PresentationDefinition{}
	if err := json.Unmarshal([]byte(defJSON), pd); err != nil {
		return "err"
	}
	vc, err := verifiable.ParseCredential([]byte(vcJSON), verifiable.WithDisabledProofCheck(), verifiable.WithCredDisableValidation(),
		verifiable.WithJSONLDDocumentLoader(c20Loader))
	if err != nil {
		return "err"
	}
	e0 := pd.ValidateSchema()
	_, e1 := pd.CreateVP([]*verifiable.Credential{vc}, c20Loader, verifiable.WithJSONLDDocumentLoader(c20Loader))
	_, e2 := pd.MatchSubmissionRequirement([]*verifiable.Credential{vc}, c20Loader)
	if e0 == nil && e1 == nil && e2 == nil {
		return "ok"
	}
	return "err"
}

// credential manifests (they come from the issuer): validation and resolution against a credential / a response
func c03Manifest(variant string, k, r int) string {
	manifest := `{"id":"m1","version":"0.1.0","issuer":{"id":"did:example:123","name":"Example Authority","styles":{"thumbnail":{"uri":"http://example.org/logo.png","alt":"logo"},"background":{"color":"#ff0000"},"text":{"color":"#d4d400"}}},` +
		`"output_descriptors":[{"id":"od1","schema":"https://www.w3.org/2018/credentials/v1","display":{"title":{"path":["$.title","$.vc.title"],"schema":{"type":"string"},"fallback":"A title"},` +
		`"subtitle":{"path":["$.minor"],"schema":{"type":"string"},"fallback":""},"description":{"text":"A description"},` +
		`"properties":[{"path":["$.credentialSubject.name"],"schema":{"type":"string"},"fallback":"-","label":"name"},{"path":["$.credentialSubject.id"],"schema":{"type":"string","format":"uri"},"fallback":"-","label":"id"}]},` +
		`"styles":{"hero":{"uri":"http://example.org/hero.png","alt":"hero"},"background":{"color":"#ff0000"},"text":{"color":"#d4d400"}}}],` +
		`"format":{"ldp_vc":{"proof_type":["Ed25519Signature2018"]}}}`
	vcJSON := `{"@context":["https://www.w3.org/2018/credentials/v1"],"id":"http://example.edu/credentials/1","type":["VerifiableCredential"],"issuer":"did:example:i","issuanceDate":"2020-01-01T00:00:00Z","title":"T","credentialSubject":{"id":"did:example:s","name":"Alice"}}`
	if variant == "manifest" {
		manifest = string(c03JSON([]byte(manifest), k, r))
	} else {
		vcJSON = string(c03JSON([]byte(vcJSON), k, r))
	}
	m := &cm.CredentialManifest{}
	if err := m.UnmarshalJSON([]byte(manifest)); err != nil {
		return "err"
	}
	_, e1 := m.ResolveCredential("od1", cm.RawCredentialToResolve([]byte(vcJSON)))
	var e2 error
	if vc, err := verifiable.ParseCredential([]byte(vcJSON), verifiable.WithDisabledProofCheck(), verifiable.WithCredDisableValidation(),
		verifiable.WithJSONLDDocumentLoader(c20Loader)); err == nil {
		_, e2 = m.ResolveCredential("od1", cm.CredentialToResolve(vc))
	}
	if e1 == nil && e2 == nil {
		return "ok"
	}
	return "err"
}

// the CLIENT side of message pickup: BatchPickup sends its request and handles the mediator's batch - data of the other
// party - in the caller's goroutine. The reply keeps the id and type that route it to the waiting call; everything else
// is confused.
func c03PickupClient(sp spistorage.Provider, k, r int) string {
	out := &mockdispatcher.MockOutbound{}
	prov := &mockprovider.Provider{StorageProviderValue: sp, ProtocolStateStorageProviderValue: mem.NewProvider(),
		OutboundDispatcherValue: out, PackagerValue: &mockpackager.Packager{UnpackErr: errors.New("not for me")}}
	svc, err := messagepickup.New(prov)
	if err != nil {
		return "na"
	}
	rec, err := connection.NewRecorder(prov)
	if err != nil {
		return "na"
	}
	if err := rec.SaveConnectionRecord(&connection.Record{ConnectionID: "c1", State: connection.StateNameCompleted,
		MyDID: "did:example:me", TheirDID: "did:example:them", Namespace: connection.MyNSPrefix}); err != nil {
		return "na"
	}
	ctx := service.NewDIDCommContext("did:example:me", "did:example:them", nil)
	out.ValidateSendToDID = func(msg interface{}, _, _ string) error {
		req, ok := msg.(service.DIDCommMsgMap)
		if !ok {
			return errors.New("unexpected request")
		}
		valid := map[string]interface{}{"@id": req.ID(), "@type": messagepickup.BatchMsgType,
			"messages~attach": []interface{}{
				map[string]interface{}{"id": "m1", "added_time": "2020-01-01T00:00:00Z", "msg": "e30="},
				map[string]interface{}{"id": "m2", "added_time": "2020-01-02T00:00:00Z", "msg": "e30="}}}
		b, _ := json.Marshal(valid)
		var m map[string]interface{}
		if json.Unmarshal(c03JSON(b, k, r), &m) != nil {
			return nil
		}
		m["@id"], m["@type"] = req.ID(), messagepickup.BatchMsgType
		b, _ = json.Marshal(m)
		if reply, err := service.ParseDIDCommMsgMap(b); err == nil {
			_, _ = svc.HandleInbound(reply, ctx)
		}
		return nil
	}
	done := make(chan string, 1)
	go func() {
		defer func() {
			if p := recover(); p != nil {
				done <- fmt.Sprintf("PANIC %v", p)
			}
		}()
		_, err := svc.BatchPickup("c1", 2)
		done <- c03Res(err)
	}()
	select {
	case res := <-done:
		return res
	case <-time.After(400 * time.Millisecond):
		return "err" // the reply did not decode: the call goes on waiting for one (its own 50 s limit)
	}
}

// inbound handlers of the protocol services on confused messages
func c03Proto(variant string, k, r int) string {
	sp := mem.NewProvider()
	msgr := &recMessenger{}
	prov := &c09Provider{m: msgr, sp: sp}
	actions := make(chan service.DIDCommAction, 64)
	go func() {
		for a := range actions {
			// continue every action with no options: the handlers behind it run on whatever was stored
			a.Continue(nil)
		}
	}()
	defer close(actions)
	v := strings.Split(variant, ",")
	handle := func(valid map[string]interface{}, in func(service.DIDCommMsg) error) string {
		b, _ := json.Marshal(valid)
		confused := c03JSON(b, k, r)
		msg, err := service.ParseDIDCommMsgMap(confused)
		if err != nil {
			return "err"
		}
		return c03Res(in(msg))
	}
	ctx := service.NewDIDCommContext("did:example:me", "did:example:them", nil)
	switch v[0] {
	case "pp2", "pp3":
		svc, err := presentproof.New(prov)
		if err != nil {
			return "na"
		}
		_ = svc.RegisterActionEvent(actions)
		d := &ppDriver{svc: svc, v3: v[0] == "pp3"}
		valid := map[string]interface{}(d.message(v[1], "t1", 1, false))
		if valid == nil {
			return "bad-input"
		}
		res := handle(valid, func(m service.DIDCommMsg) error { _, e := svc.HandleInbound(m, ctx); return e })
		svc.VerifSync()
		return res
	case "ic2", "ic3":
		svc, err := issuecredential.New(prov)
		if err != nil {
			return "na"
		}
		_ = svc.RegisterActionEvent(actions)
		d := &icDriver{svc: svc, v3: v[0] == "ic3"}
		valid := map[string]interface{}(d.message(v[1], "t1", 1, false))
		if valid == nil {
			return "bad-input"
		}
		res := handle(valid, func(m service.DIDCommMsg) error { _, e := svc.HandleInbound(m, ctx); return e })
		svc.VerifSync()
		return res
	case "pickup":
		if len(v) > 1 && v[1] == "client" {
			return c03PickupClient(sp, k, r)
		}
		out := &mockdispatcher.MockOutbound{}
		svc, err := messagepickup.New(&mockprovider.Provider{StorageProviderValue: sp, ProtocolStateStorageProviderValue: mem.NewProvider(),
			OutboundDispatcherValue: out})
		if err != nil {
			return "na"
		}
		_ = svc.AddMessage([]byte("m"), "did:example:them")
		valid := map[string]interface{}{"@id": "1", "@type": messagepickup.BatchPickupMsgType, "batch_size": 1, "~thread": map[string]interface{}{"thid": "t"}}
		if v[1] == "status" {
			valid = map[string]interface{}{"@id": "1", "@type": messagepickup.StatusRequestMsgType, "~thread": map[string]interface{}{"thid": "t"}}
		}
		return handle(valid, func(m service.DIDCommMsg) error {
			if v[1] == "status" {
				return svc.VerifHandleStatusRequest(m, "did:example:me", "did:example:them")
			}
			return svc.VerifHandleBatchPickup(m, "did:example:me", "did:example:them")
		})
	case "mediator":
		out := &mockdispatcher.MockOutbound{}
		pk, err := messagepickup.New(&mockprovider.Provider{StorageProviderValue: sp, ProtocolStateStorageProviderValue: mem.NewProvider(),
			OutboundDispatcherValue: out})
		if err != nil {
			return "na"
		}
		svc, err := mediator.New(&mockprovider.Provider{StorageProviderValue: sp, ProtocolStateStorageProviderValue: mem.NewProvider(),
			OutboundDispatcherValue: out, VDRegistryValue: &mockvdr.MockVDRegistry{},
			ServiceMap: map[string]interface{}{messagepickup.MessagePickup: pk}})
		if err != nil {
			return "na"
		}
		valid := map[string]interface{}{"@id": "1", "@type": mediator.KeylistUpdateMsgType,
			"updates": []interface{}{map[string]interface{}{"recipient_key": "k", "action": "add"}}}
		if v[1] == "forward" {
			valid = map[string]interface{}{"@id": "1", "@type": service.ForwardMsgType, "to": "k", "msg": map[string]interface{}{"protected": "e30"}}
		}
		return handle(valid, func(m service.DIDCommMsg) error {
			if v[1] == "forward" {
				return svc.VerifHandleForward(m)
			}
			return svc.VerifHandleKeylistUpdate(m, "did:example:me", "did:example:them")
		})
	}
	return "bad-input"
}

func c03Gen(r *Rng, tier string) []string {
	n := 6000
	if tier == "thorough" {
		n = 250000
	}
	var out []string
	envCfgs := []string{"aj,x25519,xc,1,j,dk", "aj,p256,c128,2,j,dk", "nj,p384,gcm,1,j,dk", "nj,x25519,xc,3,b40,dd", "la,ed,-,1,j,dk", "la,ed,-,2,j,dk",
		"ln,ed,-,1,j,dk", "ln,ed,-,2,b40,dk", "aj,p521,c512,2,j,dd"}
	ppMsgs := []string{"prop", "req", "reqc", "pres", "ack", "pr"}
	icMsgs := []string{"prop", "offer", "req", "cred", "ack", "pr"}
	for i := 0; i < n; i++ {
		k, rr := r.N(400), r.N(64)
		if r.N(5) == 0 {
			rr = c03InjectBase + r.N(len(c03Inject))
		}
		var entry, variant string
		switch x := r.N(20); {
		case x < 6:
			entry, variant = "env", r.Pick(envCfgs)
		case x < 8:
			entry, variant = "jws", r.Pick(c08Algs)+","+r.Pick([]string{"ed-raw-a", "p256-jwk-a", "rsa-raw-a", "k256-raw-a"})+","+r.Pick([]string{"jws", "jwt", "vcjwt", "did"})
			// keep algorithm and key consistent
			alg := strings.Split(variant, ",")[0]
			typ, _, _ := c08Honest(alg)
			variant = alg + "," + typ + "-" + r.Pick([]string{"raw", "jwk"}) + "-a," + r.Pick([]string{"jws", "jwt", "vcjwt", "did"})
		case x < 11:
			entry, variant = "vc", r.Pick([]string{"ed2018,pv", "ed2018,jws", "ed2020,pv", "bbs,pv", "jws2020,jws"})+","+strconv.Itoa(r.N(30))+","+r.Pick([]string{"cred", "cred", "pres"})
		case x < 13:
			entry, variant = "did", strconv.Itoa(r.N(200))
		case x < 14:
			entry, variant = "didkey", r.Pick([]string{"ed", "x", "p256", "bls"})
		case x < 15:
			entry, variant = "bbs", strconv.Itoa(1+r.N(6))
		case x < 16:
			entry, variant = "sdjwt", c18Gen(r, "quick")[0]
		case x < 17:
			if r.N(3) > 0 {
				entry, variant = "claims", r.Pick([]string{"vc", "vc", "vp", "vp", "jwt"})+","+r.Pick([]string{"none", "ed"})
			} else if r.Bool() {
				entry, variant = "presexch", r.Pick([]string{"def", "vc"})
			} else {
				entry, variant = "cm", r.Pick([]string{"manifest", "manifest", "vc"})
			}
		default:
			switch r.N(5) {
			case 0:
				entry, variant = "proto", r.Pick([]string{"pp2", "pp3"})+","+r.Pick(ppMsgs)
			case 1:
				entry, variant = "proto", r.Pick([]string{"ic2", "ic3"})+","+r.Pick(icMsgs)
			case 2:
				entry, variant = "proto", "pickup,"+r.Pick([]string{"batch", "status", "client"})
			default:
				entry, variant = "proto", "mediator,"+r.Pick([]string{"keylist", "forward"})
			}
		}
		out = append(out, fmt.Sprintf("%s|%s|%d|%d", entry, strings.ReplaceAll(variant, "|", "!"), k, rr))
	}
	return out
}

func init() {
	register("C03", &Prop{Gen: c03Gen, Run: c03Run, Setup: c03Setup})
}
