package main

// C19: wallet operations require a live token of that very wallet profile.
//
// input  := ops joined by ";"
// op     := create U | open U | openshort U | openbad U | close U | expire | expirep
//         | add W T ID V | get W T ID | getall W T | remove W T ID | keypair W T
//   U, W: profile (user) names; W is the wallet the operation is invoked on (a fresh wallet.New(W) instance per
//   operation, as the REST controller does); T: "t<i>" = the i-th token ever issued in this history, "g" = garbage
// output := outcomes joined by "|":
//   ok | exists | noprofile | already | err | locked | notfound | tok<i> | true | false | val V | ids a,b

import (
	"crypto/ed25519"
	"crypto/rand"
	"encoding/json"
	"errors"
	"fmt"
	"os"
	"sort"
	"strconv"
	"strings"
	"sync/atomic"
	"time"

	"github.com/hyperledger/aries-framework-go/component/models/ld/testutil"
	"github.com/hyperledger/aries-framework-go/component/storageutil/mem"
	"github.com/hyperledger/aries-framework-go/pkg/crypto/tinkcrypto"
	"github.com/hyperledger/aries-framework-go/pkg/kms"
	"github.com/hyperledger/aries-framework-go/component/kmscrypto/doc/util/fingerprint"
	"github.com/hyperledger/aries-framework-go/component/models/signature/suite"
	"github.com/btcsuite/btcutil/base58"
	"github.com/hyperledger/aries-framework-go/component/models/signature/suite/bbsblssignature2020"
	"github.com/hyperledger/aries-framework-go/component/models/signature/suite/ed25519signature2018"
	"github.com/hyperledger/aries-framework-go/component/models/verifiable"
	vdrkey "github.com/hyperledger/aries-framework-go/component/vdr/key"
	mockprovider "github.com/hyperledger/aries-framework-go/pkg/mock/provider"
	vdrpkg "github.com/hyperledger/aries-framework-go/pkg/vdr"
	"github.com/hyperledger/aries-framework-go/pkg/wallet"
	spi "github.com/hyperledger/aries-framework-go/spi/storage"
)

// keepProvider is an in-memory provider whose stores survive Close (mem deletes a store's data on Close, which
// would make "close the wallet" look like "wipe the wallet").
type keepProvider struct{ spi.Provider }

type keepStore struct{ spi.Store }

func (k keepStore) Close() error { return nil }

func (p keepProvider) OpenStore(name string) (spi.Store, error) {
	s, err := p.Provider.OpenStore(name)
	if err != nil {
		return nil, err
	}
	return keepStore{s}, nil
}

var c19Counter uint64

const (
	c19ShortExpiry = 400 * time.Millisecond
	c19ExpireSleep = 1000 * time.Millisecond
)

func c19Class(err error) string {
	if err == nil {
		return "ok"
	}
	switch {
	case errors.Is(err, wallet.ErrWalletLocked), errors.Is(err, wallet.ErrInvalidAuthToken):
		return "locked"
	case errors.Is(err, wallet.ErrAlreadyUnlocked):
		return "already"
	case errors.Is(err, spi.ErrDataNotFound):
		return "notfound"
	case strings.Contains(err.Error(), "already exists"):
		return "exists"
	}
	return "err"
}

var c19VC []byte

// a credential signed by a did:key issuer (resolvable without any wallet content)
func c19SignedVC() []byte {
	if c19VC != nil {
		return c19VC
	}
	pub := c07E.pubs["ed"]
	didKey, kid := fingerprint.CreateDIDKey(pub)
	raw := fmt.Sprintf(`{"@context":["https://www.w3.org/2018/credentials/v1"],"id":"http://example.edu/credentials/c19","type":["VerifiableCredential"],"issuer":%q,"issuanceDate":"2020-01-01T19:23:24Z","credentialSubject":{"id":"did:example:s"}}`, didKey)
	vc, err := verifiable.ParseCredential([]byte(raw), verifiable.WithDisabledProofCheck(), verifiable.WithJSONLDDocumentLoader(c07E.loader))
	if err != nil {
		panic(err)
	}
	created := time.Date(2020, 1, 2, 0, 0, 0, 0, time.UTC)
	err = vc.AddLinkedDataProof(&verifiable.LinkedDataProofContext{
		SignatureType: "Ed25519Signature2018", SignatureRepresentation: verifiable.SignatureProofValue,
		Suite:              ed25519signature2018.New(suite.WithSigner(suite.NewCryptoSigner(envCrypto, c07E.handles["ed"]))),
		VerificationMethod: kid, Created: &created,
	}, c07LDOpt(c07E.loader))
	if err != nil {
		panic(err)
	}
	b, err := vc.MarshalJSON()
	if err != nil {
		panic(err)
	}
	c19VC = b
	return b
}

const c19Manifest = `{"id":"c19-manifest","version":"0.1.0","issuer":{"id":"did:example:123","name":"Example Authority","styles":{}},
 "output_descriptors":[{"id":"od1","schema":"https://www.w3.org/2018/credentials/v1",
  "display":{"title":{"path":["$.title"],"schema":{"type":"string"},"fallback":"A credential"},
   "description":{"text":"a credential"},"properties":[{"path":["$.credentialSubject.id"],"schema":{"type":"string"},"fallback":"-","label":"subject"}]}}]}`

var (
	c19BBS      []byte
	c19BBSFrame map[string]interface{}
)

// a credential with a BBS+ proof by a did:key issuer, and a reveal frame for it
func c19BBSVC() ([]byte, map[string]interface{}) {
	if c19BBS != nil {
		return c19BBS, c19BBSFrame
	}
	didKey, kid := fingerprint.CreateDIDKeyByCode(fingerprint.BLS12381g2PubKeyMultiCodec, c07E.pubs["bbs"])
	ctx := `["https://www.w3.org/2018/credentials/v1","https://w3id.org/security/bbs/v1"]`
	raw := fmt.Sprintf(`{"@context":%s,"id":"http://example.edu/credentials/c19b","type":["VerifiableCredential"],"issuer":%q,"issuanceDate":"2020-01-01T19:23:24Z","credentialSubject":{"id":"did:example:s"}}`, ctx, didKey)
	vc, err := verifiable.ParseCredential([]byte(raw), verifiable.WithDisabledProofCheck(), verifiable.WithJSONLDDocumentLoader(c07E.loader))
	if err != nil {
		panic(err)
	}
	created := time.Date(2020, 1, 2, 0, 0, 0, 0, time.UTC)
	err = vc.AddLinkedDataProof(&verifiable.LinkedDataProofContext{
		SignatureType: "BbsBlsSignature2020", SignatureRepresentation: verifiable.SignatureProofValue,
		Suite:              bbsblssignature2020.New(suite.WithSigner(c07BBSSigner{c07E.handles["bbs"]})),
		VerificationMethod: kid, Created: &created,
	}, c07LDOpt(c07E.loader))
	if err != nil {
		panic(err)
	}
	b, err := vc.MarshalJSON()
	if err != nil {
		panic(err)
	}
	var frame map[string]interface{}
	_ = json.Unmarshal([]byte(fmt.Sprintf(`{"@context":%s,"type":["VerifiableCredential"],"@explicit":true,"issuer":{},"issuanceDate":{},"credentialSubject":{"@explicit":true}}`, ctx)), &frame)
	c19BBS, c19BBSFrame = b, frame
	return b, frame
}

// c19CrossKey: profile `owner` (live token tOwner on wallet w) imports a signing key and uses it; every OTHER profile that
// has a live session then tries to issue with that key through its own wallet and its own token. "" = all refused.
func c19CrossKey(w *wallet.Wallet, tOwner, owner string, created map[string]bool, tokens []string, tokenOwner map[string]string,
	newWallet func(string) (*wallet.Wallet, string)) string {
	pub, priv, err := ed25519.GenerateKey(rand.Reader)
	if err != nil {
		return ""
	}
	didKey, vmID := fingerprint.CreateDIDKey(pub)
	keyContent := fmt.Sprintf(`{"@context":["https://w3id.org/wallet/v1"],"id":%q,"controller":%q,"type":"Ed25519VerificationKey2018","privateKeyBase58":%q}`,
		vmID, didKey, base58.Encode(priv))
	if err := w.Add(tOwner, wallet.Key, []byte(keyContent)); err != nil {
		return "key-import-failed"
	}
	cred := []byte(fmt.Sprintf(`{"@context":["https://www.w3.org/2018/credentials/v1"],"id":"http://example.edu/credentials/c19x","type":["VerifiableCredential"],"issuer":%q,"issuanceDate":"2020-01-01T19:23:24Z","credentialSubject":{"id":"did:example:s"}}`, didKey))
	if _, err := w.Issue(tOwner, cred, &wallet.ProofOptions{Controller: didKey}); err != nil {
		return "issue-with-own-key-failed"
	}
	for other := range created {
		if other == owner {
			continue
		}
		wo, _ := newWallet(other)
		if wo == nil {
			continue
		}
		for _, t := range tokens {
			if tokenOwner[t] != other {
				continue
			}
			if _, err := wo.Issue(t, cred, &wallet.ProofOptions{Controller: didKey}); err == nil {
				return "key-of-another-profile-used"
			}
		}
	}
	return ""
}

func c19Run(input string) string {
	loader, err := testutil.DocumentLoader()
	if err != nil {
		return "setup-error " + err.Error()
	}
	cr, err := tinkcrypto.New()
	if err != nil {
		return "setup-error " + err.Error()
	}
	ctx := &mockprovider.Provider{
		StorageProviderValue: keepProvider{mem.NewProvider()},
		DocumentLoaderValue:  loader,
		CryptoValue:          cr,
		VDRegistryValue:      vdrpkg.New(vdrpkg.WithVDR(vdrkey.New())),
	}
	// session / store managers are process wide: make user names unique per case and per process
	prefix := fmt.Sprintf("p%dc%d-", os.Getpid(), atomic.AddUint64(&c19Counter, 1))
	created := map[string]bool{}
	// the profile "nobody" has the EMPTY user id (legal for a profile that keeps its keys on a key server; nothing here
	// talks to that server): "no user" and "the user with the empty id" are different answers of a lookup. The session
	// manager is process wide, so the case closes that wallet before it ends.
	user := func(u string) string {
		if u == "nobody" {
			return ""
		}
		return prefix + u
	}
	defer func() {
		if created["nobody"] {
			if w, err := wallet.New("", ctx); err == nil {
				w.Close()
			}
		}
	}()
	var tokens []string
	tokenOwner := map[string]string{}
	tok := func(t string) string {
		if strings.HasPrefix(t, "t") {
			i, err := strconv.Atoi(t[1:])
			if err == nil && i < len(tokens) {
				return tokens[i]
			}
		}
		return "garbage-" + t
	}
	newWallet := func(u string) (*wallet.Wallet, string) {
		w, err := wallet.New(user(u), ctx)
		if err != nil {
			return nil, "noprofile"
		}
		return w, ""
	}
	content := func(id, v string) []byte {
		return []byte(fmt.Sprintf(`{"@context":["https://w3id.org/wallet/v1"],"id":"%s","type":"Metadata","name":"%s"}`, id, v))
	}
	var outs []string
	for _, op := range strings.Split(input, ";") {
		if op == "" {
			continue
		}
		f := strings.Split(op, " ")
		o := "bad-op"
		switch f[0] {
		case "create":
			popt := wallet.WithPassphrase("pass-" + f[1])
			if f[1] == "nobody" {
				popt = wallet.WithKeyServerURL("http://localhost:1/kms/keystores/verif")
			}
			err := wallet.CreateProfile(user(f[1]), ctx, popt)
			if err == nil {
				created[f[1]] = true
				o = "ok"
			} else if strings.Contains(err.Error(), "already exists") {
				o = "exists"
			} else {
				o = "err"
			}
		case "open", "openshort", "openbad":
			w, e := newWallet(f[1])
			if w == nil {
				o = e
				break
			}
			pass := "pass-" + f[1]
			if f[0] == "openbad" {
				pass = "wrong"
			}
			opts := []wallet.UnlockOptions{wallet.WithUnlockByPassphrase(pass)}
			if f[1] == "nobody" {
				opts = []wallet.UnlockOptions{wallet.WithUnlockByAuthorizationToken("verif-kms-auth")}
				if f[0] == "openbad" {
					o = "err" // (an authorization token is not checked locally: no wrong-secret variant for this profile)
					break
				}
			}
			if f[0] == "openshort" {
				opts = append(opts, wallet.WithUnlockExpiry(c19ShortExpiry))
			}
			t, err := w.Open(opts...)
			if err != nil {
				o = c19Class(err)
			} else {
				tokens = append(tokens, t)
				tokenOwner[t] = f[1]
				o = fmt.Sprintf("tok%d", len(tokens)-1)
			}
		case "close":
			w, e := newWallet(f[1])
			if w == nil {
				o = e
				break
			}
			o = strconv.FormatBool(w.Close())
		case "expire":
			// enough time passes for every short-lived token to expire (nobody touches the sessions meanwhile: expired
			// entries stay in the session cache until somebody looks)
			time.Sleep(c19ExpireSleep)
			o = "ok"
		case "expirep":
			// the same - while every token issued so far keeps being presented to the wallets of the OTHER profiles (all
			// refused): a refused use must not keep a session alive
			o = "ok"
			for slice := 0; slice < 6; slice++ {
				time.Sleep(c19ExpireSleep / 6)
				for u := range created {
					w, _ := newWallet(u)
					if w == nil {
						continue
					}
					for _, t := range tokens {
						if tokenOwner[t] == u {
							continue // the token of this very profile: a use would legitimately renew it
						}
						if _, err := w.Get(t, wallet.Metadata, "x"); err == nil {
							o = "foreign-token-accepted-during-expire"
						}
					}
				}
			}
		case "add":
			w, e := newWallet(f[1])
			if w == nil {
				o = e
				break
			}
			o = c19Class(w.Add(tok(f[2]), wallet.Metadata, content(f[3], f[4])))
		case "get":
			w, e := newWallet(f[1])
			if w == nil {
				o = e
				break
			}
			b, err := w.Get(tok(f[2]), wallet.Metadata, f[3])
			if err != nil {
				o = c19Class(err)
			} else {
				s := string(b)
				i := strings.Index(s, `"name":"`)
				o = "val " + strings.TrimSuffix(s[i+8:], `"}`)
			}
		case "getall":
			w, e := newWallet(f[1])
			if w == nil {
				o = e
				break
			}
			m, err := w.GetAll(tok(f[2]), wallet.Metadata)
			if err != nil {
				o = c19Class(err)
				// the same request narrowed to a collection goes through another code path: it must be refused too
				if _, err2 := w.GetAll(tok(f[2]), wallet.Metadata, wallet.FilterByCollection("urn:c19:collection")); err2 == nil {
					o = "by-collection-path-not-guarded"
				}
			} else {
				var ids []string
				for k := range m {
					ids = append(ids, k)
				}
				sort.Strings(ids)
				if len(ids) == 0 {
					o = "ids -"
				} else {
					o = "ids " + strings.Join(ids, ",")
				}
			}
		case "remove":
			w, e := newWallet(f[1])
			if w == nil {
				o = e
				break
			}
			o = c19Class(w.Remove(tok(f[2]), wallet.Metadata, f[3]))
		case "keypair":
			w, e := newWallet(f[1])
			if w == nil {
				o = e
				break
			}
			_, err := w.CreateKeyPair(tok(f[2]), kms.ED25519Type)
			o = c19Class(err)
			bbsVC, frame := c19BBSVC()
			dopts := &wallet.DeriveOptions{Nonce: "n", Frame: frame}
			if err != nil {
				// operations that work on data handed in by the caller (no stored content needed) take the token as well
				if ok, e := w.Verify(tok(f[2]), wallet.WithRawCredentialToVerify(c19SignedVC())); e == nil && ok {
					o = "verify-raw-not-guarded"
				}
				if _, e := w.Derive(tok(f[2]), wallet.FromRawCredential(c19SignedVC()), &wallet.DeriveOptions{Nonce: "n"}); e == nil {
					o = "derive-raw-not-guarded"
				}
				// the same with a credential that CAN be derived from (BBS+ proof, issuer resolvable without the wallet), handed in
				// as bytes and as an instance
				if _, e := w.Derive(tok(f[2]), wallet.FromRawCredential(bbsVC), dopts); e == nil {
					o = "derive-raw-not-guarded"
				}
				if inst, e := verifiable.ParseCredential(bbsVC, verifiable.WithDisabledProofCheck(), verifiable.WithJSONLDDocumentLoader(loader)); e == nil {
					if _, e := w.Derive(tok(f[2]), wallet.FromCredential(inst), dopts); e == nil {
						o = "derive-instance-not-guarded"
					}
				}
				// a credential manifest resolved against a credential handed in by the caller
				if _, e := w.ResolveCredentialManifest(tok(f[2]), []byte(c19Manifest), wallet.ResolveRawCredential("od1", c19SignedVC())); e == nil {
					o = "resolve-manifest-not-guarded"
				}
			} else {
				if _, e := w.ResolveCredentialManifest(tok(f[2]), []byte(c19Manifest), wallet.ResolveRawCredential("od1", c19SignedVC())); e != nil {
					o = "resolve-manifest-with-live-token-failed"
				}
				// with a live token of the profile the derivation works (the probes above are not refused for another reason)
				if _, e := w.Derive(tok(f[2]), wallet.FromRawCredential(bbsVC), dopts); e != nil {
					o = "derive-with-live-token-failed"
				}
				// keys of this profile are of no use to another profile, not even through that profile's own live session
				if r := c19CrossKey(w, tok(f[2]), f[1], created, tokens, tokenOwner, newWallet); r != "" {
					o = r
				}
			}
		}
		outs = append(outs, o)
	}
	// leave no live session behind (the managers are process wide)
	for u := range created {
		if w, _ := newWallet(u); w != nil {
			w.Close()
		}
	}
	return strings.Join(outs, "|")
}

func c19Gen(r *Rng, tier string) []string {
	n := 1200
	if tier == "thorough" {
		n = 30000
	}
	users := []string{"alice", "bob", "carol"}
	ids := []string{"x", "y"}
	// "ALICE" is never created: a wallet asked for under another spelling of a user id is another (absent) profile
	variant := map[string]string{"alice": "ALICE", "bob": "Bob", "carol": "CAROL"}
	var out []string
	for i := 0; i < n; i++ {
		nu := 2 + r.N(2)
		withExpiry := r.N(12) == 0
		var ops []string
		ntok := 0
		// most histories start with profiles created and wallets opened, so that several tokens are live at once
		own := map[string]int{}
		isCreated := map[string]bool{}
		isOpen := map[string]bool{}
		for u := 0; u < nu; u++ {
			if r.N(8) > 0 {
				ops = append(ops, "create "+users[u])
				isCreated[users[u]] = true
			}
		}
		if r.N(4) == 0 {
			// the profile with the empty user id is open as well: its token is one more foreign token for everybody else
			ops = append(ops, "create nobody", "open nobody")
			ntok++
		}
		for u := 0; u < nu; u++ {
			if isCreated[users[u]] && r.N(4) > 0 {
				if withExpiry && r.N(2) == 0 {
					ops = append(ops, "openshort "+users[u])
				} else {
					ops = append(ops, "open "+users[u])
				}
				isOpen[users[u]] = true
				own[users[u]] = ntok
				ntok++
			}
		}
		curUser := ""
		pickTok := func() string {
			if t, ok := own[curUser]; ok && r.N(9) < 5 {
				return fmt.Sprintf("t%d", t) // (probably) the wallet's own latest token
			}
			if r.N(9) == 0 || ntok == 0 {
				if r.N(3) == 0 {
					return fmt.Sprintf("t%d", ntok+r.N(2)) // not issued (yet)
				}
				return "g"
			}
			return fmt.Sprintf("t%d", r.N(ntok))
		}
		for j := 6 + r.N(14); j > 0; j-- {
			u := users[r.N(nu)]
			curUser = u
			if r.N(16) == 0 {
				u = variant[u] // tokens are still picked as for the properly spelled profile
			}
			switch r.N(24) {
			case 0:
				ops = append(ops, "create "+u)
				isCreated[u] = true
			case 1, 2, 3:
				if withExpiry && r.N(2) == 0 {
					ops = append(ops, "openshort "+u)
				} else {
					ops = append(ops, "open "+u)
				}
				if isCreated[u] && !isOpen[u] {
					own[u] = ntok
					ntok++ // (approximation of the number of tokens issued: expiry is not tracked here)
					isOpen[u] = true
				}
			case 4:
				ops = append(ops, fmt.Sprintf("get %s %s %s", u, pickTok(), r.Pick(ids)))
			case 5:
				ops = append(ops, "openbad "+u)
			case 6:
				ops = append(ops, "close "+u)
				isOpen[u] = false
			case 7, 8:
				if withExpiry && r.N(2) == 0 {
					ops = append(ops, r.Pick([]string{"expire", "expirep", "expirep"}))
				} else {
					ops = append(ops, fmt.Sprintf("getall %s %s", u, pickTok()))
				}
			case 9, 10, 11, 12, 13:
				ops = append(ops, fmt.Sprintf("add %s %s %s v%d", u, pickTok(), r.Pick(ids), r.N(4)))
			case 14, 15, 16, 17:
				ops = append(ops, fmt.Sprintf("get %s %s %s", u, pickTok(), r.Pick(ids)))
			case 18, 19:
				ops = append(ops, fmt.Sprintf("getall %s %s", u, pickTok()))
			case 20, 21:
				ops = append(ops, fmt.Sprintf("remove %s %s %s", u, pickTok(), r.Pick(ids)))
			default:
				ops = append(ops, fmt.Sprintf("keypair %s %s", u, pickTok()))
			}
		}
		if i%40 == 7 {
			// guided: sessions that expire WITHOUT being presented again leave stale cache entries behind; then the
			// profile is re-opened, used, closed, and every token ever issued is tried again
			ops = []string{"create alice", "create bob", "open bob"}
			k := 1 + r.N(3)
			for j := 0; j < k; j++ {
				ops = append(ops, "openshort alice", "expire")
			}
			last := k + 1 // bob's token is t0, alice's short ones t1..tk
			ops = append(ops, "open alice", fmt.Sprintf("add alice t%d x v1", last))
			if r.N(2) == 0 {
				ops = append(ops, fmt.Sprintf("get alice t%d x", last))
			}
			ops = append(ops, "close alice")
			for t := last; t >= 0; t-- {
				ops = append(ops, fmt.Sprintf("get alice t%d x", t))
			}
			ops = append(ops, fmt.Sprintf("keypair alice t%d", last), fmt.Sprintf("getall alice t%d", last), "open alice",
				fmt.Sprintf("get alice t%d x", last+1), fmt.Sprintf("get alice t%d x", last))
		}
		out = append(out, strings.Join(ops, ";"))
	}
	return out
}

func init() {
	register("C19", &Prop{Gen: c19Gen, Run: c19Run, Setup: c07Setup})
}
