package main

// C11: storage providers and wrappers vs. the documented key-value contract.
//
// input  := <stack> "|" <pre ops ;-separated> "|" <ops ;-separated>
// stack  := mem | ldb | cached(S,S) | batched<n>(S) | fdet(S) | fnon(S)      (n may be negative: batchedm1)
// op     := put K V T | get K | gettags K | getbulk K,K | query E | delete K | batch K/V/T+K/V/T | flush | reopen
//   K: key, "_" = empty key;  V: hex | "e" (empty, non-nil) | "nil";  T: n=v,n=v | "-"
//   E: criteria joined by "&&", "=" stands for ":" ; "!" = empty expression
// output := outcomes joined by "|": ok | notfound | invalid | val HEX | tags T | vals V,V | rows K~V~T/K~V~T (sorted)

import (
	"encoding/hex"
	"errors"
	"fmt"
	"os"
	"sort"
	"strconv"
	"strings"

	"github.com/hyperledger/aries-framework-go/component/storage/leveldb"
	"github.com/hyperledger/aries-framework-go/component/storageutil/batchedstore"
	"github.com/hyperledger/aries-framework-go/component/storageutil/cachedstore"
	"github.com/hyperledger/aries-framework-go/component/storage/edv"
	"github.com/hyperledger/aries-framework-go/component/storageutil/formattedstore"
	"github.com/hyperledger/aries-framework-go/component/storageutil/formattedstore/exampleformatters"
	"github.com/hyperledger/aries-framework-go/component/storageutil/mem"
	spi "github.com/hyperledger/aries-framework-go/spi/storage"
)

type stackNode struct {
	kind string
	arg  int
	kids []*stackNode
}

func parseStack(s string) (*stackNode, string) {
	i := 0
	for i < len(s) && s[i] != '(' && s[i] != ',' && s[i] != ')' {
		i++
	}
	name := s[:i]
	rest := s[i:]
	n := &stackNode{kind: name}
	if strings.HasPrefix(name, "batched") {
		a := strings.TrimPrefix(name, "batched")
		a = strings.Replace(a, "m", "-", 1)
		n.arg, _ = strconv.Atoi(a)
		n.kind = "batched"
	}
	if strings.HasPrefix(rest, "(") {
		rest = rest[1:]
		for {
			var k *stackNode
			k, rest = parseStack(rest)
			n.kids = append(n.kids, k)
			if strings.HasPrefix(rest, ",") {
				rest = rest[1:]
				continue
			}
			rest = strings.TrimPrefix(rest, ")")
			break
		}
	}
	return n, rest
}

type stackEnv struct {
	bases map[string]spi.Provider
	fmts  map[string]formattedstore.Formatter // the example formatter keeps its key map in memory: one instance per position
	dirs  []string
}

func (e *stackEnv) cleanup() {
	for _, d := range e.dirs {
		_ = os.RemoveAll(d)
	}
}

var allTagNames = []string{"a", "b", "c", "Key"}

func (e *stackEnv) build(n *stackNode, path string) spi.Provider {
	switch n.kind {
	case "mem":
		if p, ok := e.bases[path]; ok {
			return p
		}
		p := mem.NewProvider()
		e.bases[path] = p
		return p
	case "ldb":
		if p, ok := e.bases[path]; ok {
			return p
		}
		dir, err := os.MkdirTemp("", "verif-c11-ldb")
		if err != nil {
			panic(err)
		}
		e.dirs = append(e.dirs, dir)
		p := leveldb.NewProvider(dir + "/db")
		e.bases[path] = p
		return p
	case "cached":
		return cachedstore.NewProvider(e.build(n.kids[0], path+".0"), e.build(n.kids[1], path+".1"))
	case "batched":
		return batchedstore.NewProvider(e.build(n.kids[0], path+".0"), n.arg)
	case "fdet", "fnon":
		f, ok := e.fmts[path]
		if !ok {
			f = exampleformatters.NewBase64Formatter(n.kind == "fdet")
			e.fmts[path] = f
		}
		return formattedstore.NewProvider(e.build(n.kids[0], path+".0"), f)
	case "edet", "enon":
		// the EDV encrypted formatter (real JWE encrypter / decrypter and MAC from a KMS): the same key-value behaviour as
		// any other formatter, with deterministic or random document ids
		if c12Shared == nil {
			c12SetupReal()
		}
		var opts []edv.EncryptedFormatterOption
		if n.kind == "edet" {
			opts = append(opts, edv.WithDeterministicDocumentIDs())
		}
		return formattedstore.NewProvider(e.build(n.kids[0], path+".0"),
			edv.NewEncryptedFormatter(c12Shared.enc, c12Shared.dec, c12Shared.mac, opts...))
	}
	panic("unknown stack kind " + n.kind)
}

func c11Key(s string) string {
	if s == "_" {
		return ""
	}
	return s
}

func c11Val(s string) []byte {
	switch s {
	case "nil":
		return nil
	case "e":
		return []byte{}
	}
	v, err := hex.DecodeString(s)
	if err != nil {
		panic("bad hex " + s)
	}
	return v
}

func c11Tags(s string) []spi.Tag {
	if s == "-" {
		return nil
	}
	var ts []spi.Tag
	for _, t := range strings.Split(s, ",") {
		nv := strings.SplitN(t, "=", 2)
		if len(nv) == 1 {
			nv = append(nv, "")
		}
		ts = append(ts, spi.Tag{Name: nv[0], Value: nv[1]})
	}
	return ts
}

func showVal(v []byte, nilAs string) string {
	if v == nil {
		return nilAs
	}
	if len(v) == 0 {
		return "e"
	}
	return hex.EncodeToString(v)
}

func showTags(ts []spi.Tag) string {
	if len(ts) == 0 {
		return "-"
	}
	p := make([]string, 0, len(ts))
	for _, t := range ts {
		p = append(p, t.Name+"="+t.Value)
	}
	sort.Strings(p)
	return strings.Join(p, ",")
}

func c11Class(err error) string {
	if errors.Is(err, spi.ErrDataNotFound) {
		return "notfound"
	}
	return "invalid"
}

func c11Apply(s spi.Store, line string) string {
	f := strings.Split(line, " ")
	switch f[0] {
	case "put":
		if err := s.Put(c11Key(f[1]), c11Val(f[2]), c11Tags(f[3])...); err != nil {
			return c11Class(err)
		}
		return "ok"
	case "get":
		v, err := s.Get(c11Key(f[1]))
		if err != nil {
			return c11Class(err)
		}
		return "val " + showVal(v, "e")
	case "gettags":
		t, err := s.GetTags(c11Key(f[1]))
		if err != nil {
			return c11Class(err)
		}
		return "tags " + showTags(t)
	case "getbulk":
		var ks []string
		if f[1] != "-" {
			for _, k := range strings.Split(f[1], ",") {
				ks = append(ks, c11Key(k))
			}
		}
		vs, err := s.GetBulk(ks...)
		if err != nil {
			return c11Class(err)
		}
		var p []string
		for _, v := range vs {
			p = append(p, showVal(v, "nil"))
		}
		return "vals " + strings.Join(p, ",")
	case "query":
		expr := strings.ReplaceAll(f[1], "=", ":")
		if expr == "!" {
			expr = ""
		}
		it, err := s.Query(expr)
		if err != nil {
			return c11Class(err)
		}
		var rows []string
		for {
			ok, err := it.Next()
			if err != nil {
				return "invalid"
			}
			if !ok {
				break
			}
			k, err1 := it.Key()
			v, err2 := it.Value()
			t, err3 := it.Tags()
			if err1 != nil || err2 != nil || err3 != nil {
				return "invalid"
			}
			rows = append(rows, k+"~"+showVal(v, "e")+"~"+showTags(t))
		}
		_ = it.Close()
		sort.Strings(rows)
		if len(rows) == 0 {
			return "rows -"
		}
		return "rows " + strings.Join(rows, "/")
	case "delete":
		if err := s.Delete(c11Key(f[1])); err != nil {
			return c11Class(err)
		}
		return "ok"
	case "batch":
		var ops []spi.Operation
		if f[1] != "-" {
			for _, o := range strings.Split(f[1], "+") {
				p := strings.Split(o, "/")
				ops = append(ops, spi.Operation{Key: c11Key(p[0]), Value: c11Val(p[1]), Tags: c11Tags(p[2])})
			}
		}
		if err := s.Batch(ops); err != nil {
			return c11Class(err)
		}
		return "ok"
	case "flush":
		if err := s.Flush(); err != nil {
			return c11Class(err)
		}
		return "ok"
	}
	return "bad-op"
}

func c11Run(input string) string {
	parts := strings.Split(input, "|")
	if len(parts) != 3 {
		return "bad-input"
	}
	root, _ := parseStack(parts[0])
	env := &stackEnv{bases: map[string]spi.Provider{}, fmts: map[string]formattedstore.Formatter{}}
	defer env.cleanup()
	// pre-populate through the inner stack (the wrapped provider), bypassing the outermost wrapper
	if parts[1] != "" {
		inner := root
		innerPath := "r"
		// a formatter expects formatted data below it, so only cached / batched wrappers are bypassed
		if root.kind == "cached" || root.kind == "batched" {
			inner = root.kids[0]
			innerPath = "r.0"
		}
		ip := env.build(inner, innerPath)
		st, err := ip.OpenStore("s")
		if err != nil {
			return "open-error " + err.Error()
		}
		for _, op := range strings.Split(parts[1], ";") {
			if r := c11Apply(st, op); r != "ok" {
				return "pre-error " + op + " -> " + r
			}
		}
		if err := st.Flush(); err != nil {
			return "pre-flush-error"
		}
	}
	p := env.build(root, "r")
	st, err := p.OpenStore("s")
	if err != nil {
		return "open-error " + err.Error()
	}
	var outs []string
	if parts[2] != "" {
		for _, op := range strings.Split(parts[2], ";") {
			if op == "reopen" {
				if err := st.Close(); err != nil {
					outs = append(outs, "invalid")
					continue
				}
				st, err = p.OpenStore("s")
				if err != nil {
					return strings.Join(append(outs, "open-error"), "|")
				}
				outs = append(outs, "ok")
				continue
			}
			outs = append(outs, c11Apply(st, op))
		}
	}
	_ = p.Close()
	return strings.Join(outs, "|")
}

var (
	c11Keys   = []string{"k1", "k2", "k3"}
	c11Vals   = []string{"01", "02", "0a0b", "e"}
	// "Key" is also the name of formattedstore's INTERNAL key tag: a caller's own tag of that name is a tag like any other
	c11TNames = []string{"a", "b", "c", "a", "b", "c", "Key"}
	c11TVals  = []string{"1", "2", ""}
)

func c11GenTags(r *Rng, allowBad bool) string {
	var ts []string
	used := map[string]bool{}
	for i := r.N(3); i > 0; i-- {
		n := r.Pick(c11TNames)
		if used[n] {
			continue
		}
		used[n] = true
		v := r.Pick(c11TVals)
		if allowBad && r.N(25) == 0 {
			v = "x:y"
		}
		ts = append(ts, n+"="+v)
	}
	if allowBad && r.N(40) == 0 {
		ts = append(ts, "d:e=1")
	}
	if len(ts) == 0 {
		return "-"
	}
	return strings.Join(ts, ",")
}

func c11GenKey(r *Rng) string {
	if r.N(14) == 0 {
		return "_"
	}
	return r.Pick(c11Keys)
}

func c11GenCrit(r *Rng) string {
	q := r.Pick(c11TNames)
	switch r.N(5) {
	case 0, 1:
		q += "=" + c11TVals[r.N(2)]
	case 2:
		q += "="
	}
	return q
}

func c11GenOp(r *Rng, conj bool) string {
	switch r.N(20) {
	case 0, 1, 2, 3, 4:
		v := r.Pick(c11Vals)
		if r.N(20) == 0 {
			v = "nil"
		}
		return fmt.Sprintf("put %s %s %s", c11GenKey(r), v, c11GenTags(r, true))
	case 5, 6, 7:
		return "get " + c11GenKey(r)
	case 8, 9:
		return "gettags " + c11GenKey(r)
	case 10:
		n := 1 + r.N(3)
		if r.N(15) == 0 {
			return "getbulk -"
		}
		var ks []string
		for i := 0; i < n; i++ {
			ks = append(ks, c11GenKey(r))
		}
		return "getbulk " + strings.Join(ks, ",")
	case 11, 12, 13:
		switch r.N(12) {
		case 0:
			return "query !"
		case 1:
			return "query a=1=2"
		}
		q := c11GenCrit(r)
		if conj && r.N(3) == 0 {
			q += "&&" + c11GenCrit(r)
			if r.N(4) == 0 {
				q += "&&" + c11GenCrit(r)
			}
		}
		return "query " + q
	case 14, 15:
		return "delete " + c11GenKey(r)
	case 16, 17:
		if r.N(15) == 0 {
			return "batch -"
		}
		n := 1 + r.N(4)
		var ops []string
		for i := 0; i < n; i++ {
			v := r.Pick(c11Vals)
			t := c11GenTags(r, false)
			if r.N(3) == 0 {
				v = "nil"
				if r.Bool() {
					t = "-" // (a delete operation may carry tags: they mean nothing, and must not go anywhere)
				}
			}
			ops = append(ops, c11GenKey(r)+"/"+v+"/"+t)
		}
		return "batch " + strings.Join(ops, "+")
	case 18:
		return "flush"
	default:
		return "reopen"
	}
}

var c11Stacks = []string{
	"mem", "ldb",
	"cached(mem,mem)", "cached(ldb,mem)",
	"batched0(mem)", "batched1(mem)", "batched2(mem)", "batched5(mem)", "batchedm1(mem)", "batched3(ldb)",
	"fdet(mem)", "fnon(mem)", "fdet(ldb)", "fnon(ldb)",
	"cached(batched2(mem),mem)", "batched2(cached(mem,mem))", "cached(cached(mem,mem),mem)",
	"batched3(batched2(mem))", "cached(fdet(mem),mem)", "cached(fnon(mem),mem)", "batched2(fdet(mem))",
	"batched2(fnon(mem))", "fdet(batched2(mem))", "fnon(cached(mem,mem))",
	"cached(batched2(cached(mem,mem)),mem)", "batched1(cached(batched5(mem),mem))",
	"cached(batched3(fdet(mem)),mem)", "batched2(cached(fnon(ldb),mem))", "fdet(cached(batched2(mem),mem))",
	"edet(mem)", "enon(mem)", "edet(ldb)", "cached(enon(mem),mem)", "batched2(edet(mem))",
}

// supportsConj: does the stack's query path understand "&&"? (mem does; formattedstore and leveldb parse a
// single criterion only — the SPI documents the advanced format as optional)
func c11SupportsConj(stack string) bool {
	return !strings.Contains(stack, "ldb") && !strings.Contains(stack, "fdet") && !strings.Contains(stack, "fnon") &&
		!strings.Contains(stack, "edet") && !strings.Contains(stack, "enon")
}

func c11Gen(r *Rng, tier string) []string {
	n := 6000
	if tier == "thorough" {
		n = 120000
	}
	var out []string
	for i := 0; i < n; i++ {
		stack := c11Stacks[i%len(c11Stacks)]
		conj := true
		var pre []string
		for j := r.N(4); j > 0; j-- {
			pre = append(pre, fmt.Sprintf("put %s %s %s", r.Pick(c11Keys), r.Pick(c11Vals), c11GenTags(r, false)))
		}
		var ops []string
		for j := 4 + r.N(12); j > 0; j-- {
			ops = append(ops, c11GenOp(r, conj))
		}
		out = append(out, stack+"|"+strings.Join(pre, ";")+"|"+strings.Join(ops, ";"))
	}
	return out
}

func init() {
	register("C11", &Prop{Gen: c11Gen, Run: c11Run})
}
