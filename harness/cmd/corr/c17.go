package main

// C17: BBS+ selective disclosure proofs (primitive bbs12381g2pub and the tinkcrypto service over KMS handles).
//
// input  := entry "|" n "|" kinds "|" R "|" nonce "|" NEG
//   entry : prim | tink
//   n     : number of signed messages; kinds: one letter per message  e (empty) s (short) l (long, 300 bytes) d (duplicate
//           of message 0)
//   R     : comma separated revealed indexes as handed to DeriveProof (may be unsorted)
//   nonce : e (empty) | s (short) | l (long)
//   NEG   : what the verifier is handed instead of the honest input
//           none | chg:J (J-th revealed message changed) | drop:J | swap:J (J-th and next revealed message swapped) |
//           sup (one more message appended) | pre (one more message prepended) | nonce | key |
//           flip:P (one bit of proof byte at permille P flipped) | bit:K (bit n+K of the payload's bit vector set, and one
//           more message appended: an index that no message has) | cnt (payload's message count changed) | trunc:K |
//           all (the verifier is handed ALL messages instead of the revealed ones)
// output := sign=<ok|err> verifysig=<ok|fail> derive=<ok|err> payload=<hex> honest=<ok|fail> neg=<ok|fail|na>

import (
	"sync"
	"sync/atomic"
	"crypto/sha256"
	"encoding/hex"
	"fmt"
	"sort"
	"strconv"
	"strings"

	"github.com/hyperledger/aries-framework-go/component/kmscrypto/crypto/primitive/bbs12381g2pub"
	kmscomp "github.com/hyperledger/aries-framework-go/component/kmscrypto/kms"
	"github.com/hyperledger/aries-framework-go/component/kmscrypto/kms/localkms"
	"github.com/hyperledger/aries-framework-go/component/kmscrypto/secretlock/noop"
	"github.com/hyperledger/aries-framework-go/component/storageutil/mem"
	kmsapi "github.com/hyperledger/aries-framework-go/spi/kms"
)

type c17Keys struct {
	pub, priv   []byte // primitive
	pub2        []byte
	kms         kmsapi.KeyManager
	kid, kid2   string
	pubKH, pubB interface{}
	privKH      interface{}
}

var c17K *c17Keys

func c17Setup() {
	k := &c17Keys{}
	pub, priv, err := bbs12381g2pub.GenerateKeyPair(sha256.New, []byte("seed-one-seed-one-seed-one-seed1"))
	if err != nil {
		panic(err)
	}
	k.pub, _ = pub.Marshal()
	k.priv, _ = priv.Marshal()
	pub2, _, err := bbs12381g2pub.GenerateKeyPair(sha256.New, []byte("seed-two-seed-two-seed-two-seed2"))
	if err != nil {
		panic(err)
	}
	k.pub2, _ = pub2.Marshal()
	newKMS := func() kmsapi.KeyManager {
		st, e := kmscomp.NewAriesProviderWrapper(mem.NewProvider())
		if e != nil {
			panic(e)
		}
		km, e := localkms.New("local-lock://c17", kmsProv{st, &noop.NoLock{}})
		if e != nil {
			panic(e)
		}
		return km
	}
	k.kms = newKMS()
	kid, pb, err := k.kms.CreateAndExportPubKeyBytes(kmsapi.BLS12381G2Type)
	if err != nil {
		panic(err)
	}
	k.kid = kid
	k.privKH, err = k.kms.Get(kid)
	if err != nil {
		panic(err)
	}
	k.pubKH, err = k.kms.PubKeyBytesToHandle(pb, kmsapi.BLS12381G2Type)
	if err != nil {
		panic(err)
	}
	km2 := newKMS()
	_, pb2, err := km2.CreateAndExportPubKeyBytes(kmsapi.BLS12381G2Type)
	if err != nil {
		panic(err)
	}
	k.pubB, err = km2.PubKeyBytesToHandle(pb2, kmsapi.BLS12381G2Type)
	if err != nil {
		panic(err)
	}
	c17K = k
}

func c17Message(i int, kind byte) []byte {
	switch kind {
	case 'e':
		return []byte{}
	case 'l':
		return []byte(strings.Repeat(fmt.Sprintf("long-message-%d/", i), 20))
	case 'd':
		return []byte("message-0")
	}
	return []byte(fmt.Sprintf("message-%d", i))
}

func c17Nonce(k string) []byte {
	switch k {
	case "e":
		return []byte{}
	case "l":
		return []byte(strings.Repeat("nonce-", 40))
	}
	return []byte("nonce-1")
}

func c17Run(input string) string {
	f := strings.Split(input, "|")
	if len(f) != 6 {
		return "bad-input"
	}
	if f[0] == "vc" {
		return c17RunVC(f)
	}
	if f[0] == "proof" {
		return c17RunProof(f)
	}
	entry := f[0]
	n, err := strconv.Atoi(f[1])
	if err != nil || n < 1 || n > 300 || len(f[2]) != n {
		return "bad-input"
	}
	var revealed []int
	for _, s := range strings.Split(f[3], ",") {
		v, e := strconv.Atoi(s)
		if e != nil {
			return "bad-input"
		}
		revealed = append(revealed, v)
	}
	nonce := c17Nonce(f[4])
	neg := strings.Split(f[5], ":")
	msgs := make([][]byte, n)
	for i := range msgs {
		msgs[i] = c17Message(i, f[2][i])
	}
	k := c17K
	bbs := bbs12381g2pub.New()
	var (
		sig   []byte
		verr  error
		proof []byte
		derr  error
	)
	sign := func() ([]byte, error) {
		if entry == "tink" {
			return envCrypto.SignMulti(msgs, k.privKH)
		}
		return bbs.Sign(msgs, k.priv)
	}
	verifySig := func(m [][]byte, s []byte) error {
		if entry == "tink" {
			return envCrypto.VerifyMulti(m, s, k.pubKH)
		}
		return bbs.Verify(m, s, k.pub)
	}
	derive := func(r []int) ([]byte, error) {
		if entry == "tink" {
			return envCrypto.DeriveProof(msgs, sig, nonce, r, k.pubKH)
		}
		return bbs.DeriveProof(msgs, sig, nonce, k.pub, r)
	}
	verifyProof := func(m [][]byte, p, nc []byte, otherKey bool) error {
		if entry == "tink" {
			kh := k.pubKH
			if otherKey {
				kh = k.pubB
			}
			return envCrypto.VerifyProof(m, p, nc, kh)
		}
		pk := k.pub
		if otherKey {
			pk = k.pub2
		}
		return bbs.VerifyProof(m, p, nc, pk)
	}
	sig, err = sign()
	if err != nil {
		return "sign=err"
	}
	verr = verifySig(msgs, sig)
	vs := "ok"
	if verr != nil {
		vs = "fail"
	}
	proof, derr = derive(append([]int{}, revealed...))
	if derr != nil {
		return fmt.Sprintf("sign=ok verifysig=%s derive=err", vs)
	}
	plen := 2 + n/8 + 1
	if len(proof) < plen {
		return fmt.Sprintf("sign=ok verifysig=%s derive=short", vs)
	}
	// the verifier's honest input: the revealed messages in ascending index order, each index once
	idx := append([]int{}, revealed...)
	sort.Ints(idx)
	var uniq []int
	for i, v := range idx {
		if i == 0 || v != idx[i-1] {
			uniq = append(uniq, v)
		}
	}
	var rm [][]byte
	for _, v := range uniq {
		rm = append(rm, msgs[v])
	}
	honest := "ok"
	buf := append([]byte{}, proof...)
	if e := verifyProof(rm, buf, nonce, false); e != nil {
		honest = "fail"
	}
	// the same proof bytes verify again (the verifier must not have altered them)
	if e := verifyProof(rm, buf, nonce, false); e != nil {
		honest += "+again=fail"
	}
	// several holders and verifiers at work in one process at the same time (nothing shared by the callers): every
	// honest operation still succeeds, and a proof derived under load verifies
	if honest == "ok" && vs == "ok" && len(input)%3 == 0 {
		var wg sync.WaitGroup
		var bad atomic.Int32
		for g := 0; g < 6; g++ {
			wg.Add(1)
			go func(g int) {
				defer wg.Done()
				defer func() {
					if recover() != nil {
						bad.Add(1)
					}
				}()
				for it := 0; it < 2; it++ {
					switch g % 3 {
					case 0:
						if verifyProof(rm, append([]byte{}, proof...), nonce, false) != nil {
							bad.Add(1)
						}
					case 1:
						if verifySig(msgs, sig) != nil {
							bad.Add(1)
						}
					default:
						p, e := derive(append([]int{}, revealed...))
						if e != nil || verifyProof(rm, p, nonce, false) != nil {
							bad.Add(1)
						}
					}
				}
			}(g)
		}
		wg.Wait()
		if bad.Load() > 0 {
			honest += "+concurrent=fail"
		}
	}
	// negative case
	m2 := append([][]byte{}, rm...)
	p2 := append([]byte{}, proof...)
	nc2 := nonce
	other := false
	applied := true
	arg := 0
	if len(neg) > 1 {
		arg, _ = strconv.Atoi(neg[1])
	}
	switch neg[0] {
	case "none":
		applied = false
	case "chg":
		if arg >= len(m2) {
			applied = false
			break
		}
		m2[arg] = append(append([]byte{}, m2[arg]...), 'x')
	case "drop":
		if arg >= len(m2) {
			applied = false
			break
		}
		m2 = append(m2[:arg:arg], m2[arg+1:]...)
	case "swap":
		if arg+1 >= len(m2) || string(m2[arg]) == string(m2[arg+1]) {
			applied = false
			break
		}
		m2[arg], m2[arg+1] = m2[arg+1], m2[arg]
	case "sup":
		m2 = append(m2, []byte("one more message"))
	case "pre":
		m2 = append([][]byte{[]byte("one more message")}, m2...)
	case "nonce":
		nc2 = append(append([]byte{}, nonce...), 'x')
	case "key":
		other = true
	case "flip":
		pos := arg * len(p2) / 1000
		if pos >= len(p2) {
			pos = len(p2) - 1
		}
		p2[pos] ^= 1 << uint(arg%8)
	case "bit":
		// bit vector = proof[2:plen], stored reversed: bit j of the vector lives in byte plen-1-j/8
		j := n + arg
		if j/8 >= plen-2 {
			applied = false
			break
		}
		p2[plen-1-j/8] |= 1 << uint(j%8)
		m2 = append(m2, []byte("message with an index nobody signed"))
	case "cnt":
		p2[1] ^= 1
	case "trunc":
		if arg >= len(p2) {
			applied = false
			break
		}
		p2 = p2[:len(p2)-1-arg]
	case "all":
		if len(uniq) == n {
			applied = false
			break
		}
		m2 = append([][]byte{}, msgs...)
	case "sweep":
	default:
		return "bad-input"
	}
	ns := "na"
	if neg[0] == "sweep" {
		// every K-th byte of the proof altered (all eight single-bit masks in turn over the positions): none may verify
		ns = "fail"
		for pos := arg % 4; pos < len(proof); pos += 4 {
			alt := append([]byte{}, proof...)
			alt[pos] ^= 1 << uint((pos/4)%8)
			if e := verifyProof(rm, alt, nonce, false); e == nil {
				ns = fmt.Sprintf("ok@%d", pos)
				break
			}
		}
	} else if applied {
		ns = "ok"
		if e := verifyProof(m2, p2, nc2, other); e != nil {
			ns = "fail"
		}
	}
	return fmt.Sprintf("sign=ok verifysig=%s derive=ok payload=%s honest=%s neg=%s", vs, hex.EncodeToString(proof[:plen]), honest, ns)
}

func c17Gen(r *Rng, tier string) []string {
	cases := 260
	if tier == "thorough" {
		cases = 9000
	}
	var out []string
	negs := func(n, k int) string {
		switch x := r.N(20); {
		case x < 2:
			return "none"
		case x < 5:
			return fmt.Sprintf("chg:%d", r.N(k))
		case x < 7:
			return fmt.Sprintf("drop:%d", r.N(k))
		case x < 9:
			return fmt.Sprintf("swap:%d", r.N(k))
		case x < 11:
			return "sup"
		case x < 12:
			return "pre"
		case x < 13:
			return "nonce"
		case x < 14:
			return "key"
		case x < 16:
			return fmt.Sprintf("flip:%d", r.N(1000))
		case x < 17:
			return fmt.Sprintf("bit:%d", r.N(8))
		case x < 18:
			return "cnt"
		case x < 19:
			return fmt.Sprintf("trunc:%d", r.N(40))
		}
		return "all"
	}
	kinds := func(n int) string {
		b := make([]byte, n)
		for i := range b {
			b[i] = "sssssseld"[r.N(9)]
		}
		return string(b)
	}
	emit := func(n int, rev []int) {
		var rs []string
		for _, v := range rev {
			rs = append(rs, strconv.Itoa(v))
		}
		out = append(out, fmt.Sprintf("%s|%d|%s|%s|%s|%s", r.Pick([]string{"prim", "prim", "tink"}), n, kinds(n),
			strings.Join(rs, ","), r.Pick([]string{"s", "s", "e", "l"}), negs(n, len(rev))))
	}
	// every non-empty subset for small n
	maxAll := 4
	if tier == "thorough" {
		maxAll = 7
	}
	for n := 1; n <= maxAll; n++ {
		for mask := 1; mask < 1<<uint(n); mask++ {
			var rev []int
			for i := 0; i < n; i++ {
				if mask&(1<<uint(i)) != 0 {
					rev = append(rev, i)
				}
			}
			emit(n, rev)
		}
	}
	sweeps := 8
	if tier == "thorough" {
		sweeps = 160
	}
	for i := 0; i < sweeps; i++ {
		n := 1 + r.N(6)
		rev := []int{r.N(n)}
		if n > 2 {
			rev = []int{0, n - 1}
		}
		out = append(out, fmt.Sprintf("prim|%d|%s|%d%s|s|sweep:%d", n, kinds(n), rev[0], map[bool]string{true: fmt.Sprintf(",%d", n-1), false: ""}[n > 2], i%4))
	}
	for len(out) < cases {
		n := 1 + r.N(32)
		if r.N(12) == 0 {
			n = []int{7, 8, 9, 15, 16, 17, 63, 64, 65}[r.N(9)]
		}
		var rev []int
		for i := 0; i < n; i++ {
			if r.N(3) == 0 {
				rev = append(rev, i)
			}
		}
		if len(rev) == 0 {
			rev = []int{r.N(n)}
		}
		if r.N(8) == 0 { // unsorted hand-over
			for i := len(rev) - 1; i > 0; i-- {
				j := r.N(i + 1)
				rev[i], rev[j] = rev[j], rev[i]
			}
		}
		if r.N(25) == 0 { // an index that does not exist
			rev = append(rev, n+r.N(3))
		}
		emit(n, rev)
	}
	nvc := 90
	if tier == "thorough" {
		nvc = 2500
	}
	out = append(out, c17VCGen(r, nvc)...)
	return out
}

func init() {
	register("C17", &Prop{Gen: c17Gen, Run: c17Run, Setup: c17Setup})
}
