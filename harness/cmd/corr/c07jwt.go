package main

// C07, JWT forms: a credential / presentation signed through the framework as a JWT (JWTClaims + MarshalJWS), the token
// TEXT altered, verified with ParseCredential / ParsePresentation; and a presentation with a linked data proof delivered
// inside an unsecured JWT whose own (unsigned) claims name another holder / id.
//
// input  := "jwt" "|" form "|" docseed "|" MUT
//   form : vc | vp (a JWT presentation holding the JWT credential) | vpu (LD-signed presentation inside an unsecured JWT)
//   MUT  : none | nl:<H|P|S>:<permille> | nlr:<H|P|S>:<permille> (CR LF) | flip:<H|P|S>:<permille> | last:<H|P|S> |
//          pad:<H|P|S>         (text of the token)
//          holder | id | both  (vpu only: iss / jti of the unsecured JWT name another holder / another id than the signed ones)
// output := "sign=<ok|err> base=<acc|rej> res=<acc|rej|noproof> applied=<0|1>" [" holder=<same|other> id=<same|other>"]

import (
	"crypto/ed25519"
	"encoding/base64"
	"encoding/json"
	"fmt"
	"strings"
	"time"

	"github.com/hyperledger/aries-framework-go/component/models/signature/suite"
	"github.com/hyperledger/aries-framework-go/component/models/signature/suite/ed25519signature2018"
	"github.com/hyperledger/aries-framework-go/component/models/verifiable"
)

type c07JWTSigner struct{ kh interface{} }

func (s c07JWTSigner) Sign(data []byte) ([]byte, error) { return envCrypto.Sign(data, s.kh) }
func (s c07JWTSigner) Alg() string                      { return "EdDSA" }

func c07MutateToken(tok string, mut string) (string, bool) {
	mf := strings.Split(mut, ":")
	parts := strings.Split(tok, ".")
	if len(parts) != 3 {
		return tok, false
	}
	idx := map[string]int{"H": 0, "P": 1, "S": 2}
	if len(mf) < 2 {
		return tok, false
	}
	i, ok := idx[mf[1]]
	if !ok {
		return tok, false
	}
	p := parts[i]
	pos := func() int {
		var pm int
		if len(mf) > 2 {
			fmt.Sscanf(mf[2], "%d", &pm)
		}
		return c08Pos(p, pm)
	}
	switch mf[0] {
	case "nl", "nlr", "flip":
		k := pos()
		if k < 0 {
			return tok, false
		}
		switch mf[0] {
		case "nl":
			p = p[:k] + "\n" + p[k:]
		case "nlr":
			p = p[:k] + "\r\n" + p[k:]
		default:
			j := strings.IndexByte(c08Alphabet, p[k])
			p = p[:k] + string(c08Alphabet[(j+1)%64]) + p[k+1:]
		}
	case "last":
		n := len(p)
		if n == 0 || n%4 == 0 {
			return tok, false
		}
		j := strings.IndexByte(c08Alphabet, p[n-1])
		p = p[:n-1] + string(c08Alphabet[j^1])
	case "pad":
		p += "="
	default:
		return tok, false
	}
	parts[i] = p
	return strings.Join(parts, "."), true
}

func c07RunJWT(form string, seed int, mut string) string {
	e := c07E
	signer := c07JWTSigner{e.handles["ed"]}
	fetcher := verifiable.SingleKey(ed25519.PublicKey(e.pubs["ed"]), "Ed25519VerificationKey2018")
	// a credential the JWT form admits: one subject with an id
	doc := c07Doc(seed % 60)
	if subs, ok := doc["credentialSubject"].([]interface{}); ok && len(subs) > 0 {
		doc["credentialSubject"] = subs[0]
	}
	docJSON, _ := json.Marshal(doc)
	vc, err := verifiable.ParseCredential(docJSON, verifiable.WithJSONLDDocumentLoader(e.loader), verifiable.WithDisabledProofCheck())
	if err != nil {
		return "sign=err parse"
	}
	claims, err := vc.JWTClaims(seed%2 == 0)
	if err != nil {
		return "sign=err claims"
	}
	vcTok, err := claims.MarshalJWS(verifiable.EdDSA, signer, "did:example:issuer#key-1")
	if err != nil {
		return "sign=err jws"
	}
	verifyVC := func(tok string) string {
		v, err := verifiable.ParseCredential([]byte(tok), verifiable.WithJSONLDDocumentLoader(e.loader), verifiable.WithPublicKeyFetcher(fetcher))
		if err != nil {
			if os_trace() {
				fmt.Println("#", err)
			}
			return "rej"
		}
		if v.JWT == "" && len(v.Proofs) == 0 {
			return "noproof"
		}
		return "acc"
	}
	verifyVP := func(tok string) (string, *verifiable.Presentation) {
		v, err := verifiable.ParsePresentation([]byte(tok), verifiable.WithPresJSONLDDocumentLoader(e.loader), verifiable.WithPresPublicKeyFetcher(fetcher))
		if err != nil {
			if os_trace() {
				fmt.Println("#", err)
			}
			return "rej", nil
		}
		if v.JWT == "" && len(v.Proofs) == 0 {
			return "noproof", v
		}
		return "acc", v
	}
	switch form {
	case "vc":
		base := verifyVC(vcTok)
		mt, applied := c07MutateToken(vcTok, mut)
		return fmt.Sprintf("sign=ok base=%s res=%s applied=%d", base, verifyVC(mt), b2i(applied))
	case "vp":
		vp, err := verifiable.NewPresentation(verifiable.WithJWTCredentials(vcTok))
		if err != nil {
			return "sign=err vp"
		}
		vp.ID, vp.Holder = "urn:uuid:c07-presentation", "did:example:issuer"
		pc, err := vp.JWTClaims([]string{"did:example:verifier"}, seed%2 == 0)
		if err != nil {
			return "sign=err vpclaims"
		}
		tok, err := pc.MarshalJWS(verifiable.EdDSA, signer, "did:example:issuer#key-1")
		if err != nil {
			return "sign=err vpjws"
		}
		base, _ := verifyVP(tok)
		mt, applied := c07MutateToken(tok, mut)
		res, _ := verifyVP(mt)
		return fmt.Sprintf("sign=ok base=%s res=%s applied=%d", base, res, b2i(applied))
	case "vpu":
		vp, err := verifiable.NewPresentation(verifiable.WithJWTCredentials(vcTok))
		if err != nil {
			return "sign=err vp"
		}
		const signedID, signedHolder = "urn:uuid:c07-presentation", "did:example:issuer"
		vp.ID, vp.Holder = signedID, signedHolder
		created := time.Date(2020, 5, 5, 5, 5, 5, 0, time.UTC)
		if err := vp.AddLinkedDataProof(&verifiable.LinkedDataProofContext{SignatureType: "Ed25519Signature2018",
			SignatureRepresentation: verifiable.SignatureProofValue, Created: &created, VerificationMethod: "did:example:issuer#key-1",
			Purpose: "authentication", Challenge: "c-1", Domain: "verifier.example",
			Suite: ed25519signature2018.New(suite.WithSigner(suite.NewCryptoSigner(envCrypto, e.handles["ed"])))}, c07LDOpt(e.loader)); err != nil {
			return "sign=err vpld"
		}
		signed, err := vp.MarshalJSON()
		if err != nil {
			return "sign=err vpjson"
		}
		wrap := func(iss, jti string) string {
			var vpm map[string]interface{}
			_ = json.Unmarshal(signed, &vpm)
			if seed%2 == 0 { // minimized: holder and id live in the JWT claims only
				delete(vpm, "holder")
				delete(vpm, "id")
			}
			pl, _ := json.Marshal(map[string]interface{}{"iss": iss, "jti": jti, "vp": vpm})
			return base64.RawURLEncoding.EncodeToString([]byte(`{"alg":"none","typ":"JWT"}`)) + "." + base64.RawURLEncoding.EncodeToString(pl) + "."
		}
		base, _ := verifyVP(wrap(signedHolder, signedID))
		iss, jti, applied := signedHolder, signedID, true
		switch mut {
		case "holder":
			iss = "did:example:another-holder"
		case "id":
			jti = "urn:uuid:another-presentation"
		case "both":
			iss, jti = "did:example:another-holder", "urn:uuid:another-presentation"
		default:
			applied = false
		}
		res, v := verifyVP(wrap(iss, jti))
		who, which := "-", "-"
		if v != nil {
			who, which = "same", "same"
			if v.Holder != signedHolder {
				who = "other"
			}
			if v.ID != signedID {
				which = "other"
			}
		}
		return fmt.Sprintf("sign=ok base=%s res=%s applied=%d holder=%s id=%s", base, res, b2i(applied), who, which)
	}
	return "bad-input"
}

func b2i(b bool) int {
	if b {
		return 1
	}
	return 0
}

func c07JWTGen(r *Rng, n int) []string {
	var out []string
	parts := []string{"H", "P", "P", "S", "S"}
	for i := 0; i < n; i++ {
		form := r.Pick([]string{"vc", "vc", "vp", "vpu"})
		var mut string
		if form == "vpu" {
			mut = r.Pick([]string{"none", "holder", "holder", "id", "both"})
		} else {
			switch x := r.N(12); {
			case x < 1:
				mut = "none"
			case x < 4:
				mut = fmt.Sprintf("nl:%s:%d", r.Pick(parts), r.N(1001))
			case x < 6:
				mut = fmt.Sprintf("nlr:%s:%d", r.Pick(parts), r.N(1001))
			case x < 10:
				mut = fmt.Sprintf("flip:%s:%d", r.Pick(parts), r.N(1001))
			case x < 11:
				mut = "last:" + r.Pick(parts)
			default:
				mut = "pad:" + r.Pick(parts)
			}
		}
		out = append(out, fmt.Sprintf("jwt|%s|%d|%s", form, r.N(60), mut))
	}
	return out
}
