// bbssoak: long soak runs behind finding C17-F5 (not part of the registered checks).
//   bbssoak loop <total> <messages> <workers>   derive + verify honest BBS+ proofs over and over; prints every rejected one
//   bbssoak <derived.json> <keys.txt>           verify a derived credential dumped by the C17 driver (VERIF_TRACE=1)
package main

import (
	"encoding/hex"
	"encoding/json"
	"fmt"
	"os"
	"strings"

	"github.com/hyperledger/aries-framework-go/component/kmscrypto/crypto/primitive/bbs12381g2pub"
	ldcontext "github.com/hyperledger/aries-framework-go/component/models/ld/context"
	ldtestutil "github.com/hyperledger/aries-framework-go/component/models/ld/testutil"
	"github.com/hyperledger/aries-framework-go/component/models/signature/suite"
	"github.com/hyperledger/aries-framework-go/component/models/signature/suite/bbsblssignatureproof2020"
	sigverifier "github.com/hyperledger/aries-framework-go/component/models/signature/verifier"
	"github.com/hyperledger/aries-framework-go/component/models/verifiable"
)

const ctxURL = "https://verif.example/ctx/v1"
const ctxDoc = `{"@context":{"@version":1.1,"ex":"https://verif.example/vocab#",
 "DegreeCredential":"ex:DegreeCredential","name":"ex:name","nick":"ex:nick","score":{"@id":"ex:score","@type":"http://www.w3.org/2001/XMLSchema#integer"},
 "tags":{"@id":"ex:tags","@container":"@set"},"degree":{"@id":"ex:degree"},"college":"ex:college","level":"ex:level",
 "knows":{"@id":"ex:knows"},"since":"ex:since","extra":"ex:extra","homepage":{"@id":"ex:homepage","@type":"@id"}}}`

type rec struct{ nonce []byte }

func (r rec) Verify(pk *sigverifier.PublicKey, doc, sig []byte) error {
	var msgs [][]byte
	for _, row := range strings.Split(string(doc), "\n") {
		if strings.TrimSpace(row) == "" {
			continue
		}
		row = strings.ReplaceAll(row, "<urn:bnid:_:c14n", "_:c14n") // not needed here
		msgs = append(msgs, []byte(row))
	}
	err := bbs12381g2pub.New().VerifyProof(msgs, sig, r.nonce, pk.Value)
	fmt.Printf("VERIFY err=%v\nkey=%x\nproof=%x\nnonce=%x\n", err, pk.Value, sig, r.nonce)
	for _, m := range msgs {
		fmt.Printf("msg=%s\n", hex.EncodeToString(m))
	}
	return err
}

func main() {
	if os.Args[1] == "loop" {
		var total, n, w int
		fmt.Sscan(os.Args[2], &total)
		fmt.Sscan(os.Args[3], &n)
		fmt.Sscan(os.Args[4], &w)
		loop(total, n, w)
		return
	}
	l, err := ldtestutil.DocumentLoader(ldcontext.Document{URL: ctxURL, Content: json.RawMessage(ctxDoc)})
	if err != nil {
		panic(err)
	}
	doc, _ := os.ReadFile(os.Args[1])
	kb, _ := os.ReadFile(os.Args[2])
	var keys [][]byte
	for _, h := range strings.Fields(string(kb)) {
		b, _ := hex.DecodeString(h)
		keys = append(keys, b)
	}
	fetch := func(_, keyID string) (*sigverifier.PublicKey, error) {
		for i := 0; i < 3; i++ {
			if strings.HasSuffix(keyID, fmt.Sprintf("#bbs-%d", i)) {
				return &sigverifier.PublicKey{Type: "Bls12381G2Key2020", Value: keys[i]}, nil
			}
		}
		return nil, fmt.Errorf("no key")
	}
	v := sigverifier.NewPublicKeyVerifier(rec{[]byte("nonce-1")}, sigverifier.WithExactPublicKeyType("Bls12381G2Key2020"))
	_, err = verifiable.ParseCredential(doc, verifiable.WithJSONLDDocumentLoader(l), verifiable.WithPublicKeyFetcher(fetch),
		verifiable.WithEmbeddedSignatureSuites(bbsblssignatureproof2020.New(suite.WithCompactProof(), suite.WithVerifier(v))))
	fmt.Println("RESULT", err)
}

func (r rec) KeyType() string   { return "" }
func (r rec) Curve() string     { return "" }
func (r rec) Algorithm() string { return "" }
