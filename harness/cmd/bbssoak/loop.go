package main

import (
	"crypto/rand"
	"crypto/sha256"
	"fmt"
	"sync"

	"github.com/hyperledger/aries-framework-go/component/kmscrypto/crypto/primitive/bbs12381g2pub"
)

// derive + verify, over and over: every honest proof has to be accepted
func loop(total, n, workers int) {
	var wg sync.WaitGroup
	var mu sync.Mutex
	fails := 0
	for w := 0; w < workers; w++ {
		wg.Add(1)
		go func(w int) {
			defer wg.Done()
			seed := make([]byte, 32)
			rand.Read(seed)
			pub, priv, _ := bbs12381g2pub.GenerateKeyPair(sha256.New, seed)
			pb, _ := pub.Marshal()
			pr, _ := priv.Marshal()
			bbs := bbs12381g2pub.New()
			msgs := make([][]byte, n)
			for i := range msgs {
				msgs[i] = []byte(fmt.Sprintf("message %d of worker %d", i, w))
			}
			sig, err := bbs.Sign(msgs, pr)
			if err != nil {
				panic(err)
			}
			var rev []int
			var rm [][]byte
			for i := 0; i < n; i++ {
				if i%5 != 3 {
					rev = append(rev, i)
					rm = append(rm, msgs[i])
				}
			}
			for it := 0; it < total/workers; it++ {
				proof, err := bbs.DeriveProof(msgs, sig, []byte("nonce"), pb, rev)
				if err != nil {
					mu.Lock()
					fails++
					fmt.Printf("DERIVE-FAIL worker=%d it=%d err=%v seed=%x sig=%x\n", w, it, err, seed, sig)
					mu.Unlock()
					continue
				}
				if err := bbs.VerifyProof(rm, proof, []byte("nonce"), pb); err != nil {
					mu.Lock()
					fails++
					fmt.Printf("VERIFY\nkey=%x\nproof=%x\nnonce=%x\n", pb, proof, []byte("nonce"))
					for _, m := range rm {
						fmt.Printf("msg=%x\n", m)
					}
					mu.Unlock()
				}
			}
		}(w)
	}
	wg.Wait()
	fmt.Println("fails", fails, "of", total)
}
