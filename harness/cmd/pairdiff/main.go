package main

import (
	"crypto/rand"
	"fmt"
	"os"
	"strconv"
	"sync"

	ml "github.com/IBM/mathlib"
)

func main() {
	total, _ := strconv.Atoi(os.Args[1])
	k, g := ml.Curves[ml.BLS12_381_BBS], ml.Curves[ml.BLS12_381_BBS_GURVY]
	var wg sync.WaitGroup
	var mu sync.Mutex
	var f1, f2, f3 int
	for w := 0; w < 16; w++ {
		wg.Add(1)
		go func(w int) {
			defer wg.Done()
			for it := 0; it < total/16; it++ {
				ab, pb, qb := make([]byte, 32), make([]byte, 32), make([]byte, 32)
				rand.Read(ab)
				rand.Read(pb)
				rand.Read(qb)
				ab[0] &= 0x3f
				pb[0] &= 0x3f
				qb[0] &= 0x3f
				check := func(c *ml.Curve) (bool, bool) {
					a := c.NewZrFromBytes(ab)
					p := c.GenG1.Mul(c.NewZrFromBytes(pb))
					q := c.GenG2.Mul(c.NewZrFromBytes(qb))
					ap, aq := p.Mul(a), q.Mul(a)
					np := p.Copy()
					np.Neg()
					prod := c.FExp(c.Pairing2(q, ap, aq, np))
					e1, e2 := c.FExp(c.Pairing(q, ap)), c.FExp(c.Pairing(aq, p))
					return prod.IsUnity(), e1.Equals(e2)
				}
				u, s := check(k)
				mu.Lock()
				if !u {
					f1++
					fmt.Printf("KILIC-PRODUCT a=%x p=%x q=%x\n", ab, pb, qb)
				}
				if !s {
					f2++
					fmt.Printf("KILIC-SEPARATE a=%x p=%x q=%x\n", ab, pb, qb)
				}
				mu.Unlock()
				if it%8 == 0 {
					if u2, s2 := check(g); !u2 || !s2 {
						mu.Lock()
						f3++
						fmt.Printf("GURVY a=%x p=%x q=%x %v %v\n", ab, pb, qb, u2, s2)
						mu.Unlock()
					}
				}
			}
		}(w)
	}
	wg.Wait()
	fmt.Println("kilic product failures", f1, "kilic separate failures", f2, "gurvy failures", f3, "of", total)
}
