module verifharness

go 1.20

require (
	github.com/IBM/mathlib v0.0.3-0.20230605104224-932ab92f2ce0
	github.com/btcsuite/btcd v0.22.3
	github.com/btcsuite/btcutil v1.0.3-0.20201208143702-a53e38424cce
	github.com/google/tink/go v1.7.0
	github.com/google/uuid v1.3.0
	github.com/hyperledger/aries-framework-go v0.3.2
	github.com/hyperledger/aries-framework-go/component/didconfig v0.0.0-20230622211121-852ce35730b4
	github.com/hyperledger/aries-framework-go/component/kmscrypto v0.0.0-20230622082138-3ffab1691857
	github.com/hyperledger/aries-framework-go/component/log v0.0.0-20230427134832-0c9969493bd3
	github.com/hyperledger/aries-framework-go/component/models v0.0.0-20230622171716-43af8054a539
	github.com/hyperledger/aries-framework-go/component/storage/edv v0.0.0-20221025204933-b807371b6f1e
	github.com/hyperledger/aries-framework-go/component/storage/leveldb v0.0.0-20221025204933-b807371b6f1e
	github.com/hyperledger/aries-framework-go/component/storageutil v0.0.0-20230427134832-0c9969493bd3
	github.com/hyperledger/aries-framework-go/component/vdr v0.0.0-20230622171716-43af8054a539
	github.com/hyperledger/aries-framework-go/spi v0.0.0-20230517133327-301aa0597250
	github.com/piprate/json-gold v0.5.1-0.20230111113000-6ddbe6e6f19f
	golang.org/x/crypto v0.1.0
	google.golang.org/protobuf v1.28.1
)

require (
	github.com/PaesslerAG/gval v1.1.0 // indirect
	github.com/PaesslerAG/jsonpath v0.1.1 // indirect
	github.com/VictoriaMetrics/fastcache v1.5.7 // indirect
	github.com/bluele/gcache v0.0.0-20190518031135-bc40bd653833 // indirect
	github.com/cenkalti/backoff/v4 v4.0.2 // indirect
	github.com/cespare/xxhash/v2 v2.1.1 // indirect
	github.com/consensys/bavard v0.1.13 // indirect
	github.com/consensys/gnark-crypto v0.9.1 // indirect
	github.com/davecgh/go-spew v1.1.1 // indirect
	github.com/go-jose/go-jose/v3 v3.0.1-0.20221117193127-916db76e8214 // indirect
	github.com/golang/protobuf v1.5.2 // indirect
	github.com/golang/snappy v0.0.4 // indirect
	github.com/hyperledger/fabric-amcl v0.0.0-20230602173724-9e02669dceb2 // indirect
	github.com/jinzhu/copier v0.0.0-20190924061706-b57f9002281a // indirect
	github.com/kawamuray/jsonpath v0.0.0-20201211160320-7483bafabd7e // indirect
	github.com/kilic/bls12-381 v0.1.1-0.20210503002446-7b7597926c69 // indirect
	github.com/minio/blake2b-simd v0.0.0-20160723061019-3f5f724cb5b1 // indirect
	github.com/minio/sha256-simd v0.1.1 // indirect
	github.com/mitchellh/mapstructure v1.5.0 // indirect
	github.com/mmcloughlin/addchain v0.4.0 // indirect
	github.com/mr-tron/base58 v1.2.0 // indirect
	github.com/multiformats/go-base32 v0.1.0 // indirect
	github.com/multiformats/go-base36 v0.1.0 // indirect
	github.com/multiformats/go-multibase v0.1.1 // indirect
	github.com/multiformats/go-multihash v0.0.13 // indirect
	github.com/multiformats/go-varint v0.0.5 // indirect
	github.com/pkg/errors v0.9.1 // indirect
	github.com/pmezard/go-difflib v1.0.0 // indirect
	github.com/pquerna/cachecontrol v0.1.0 // indirect
	github.com/rs/cors v1.7.0 // indirect
	github.com/spaolacci/murmur3 v1.1.0 // indirect
	github.com/stretchr/testify v1.8.1 // indirect
	github.com/syndtr/goleveldb v1.0.0 // indirect
	github.com/teserakt-io/golang-ed25519 v0.0.0-20210104091850-3888c087a4c8 // indirect
	github.com/tidwall/gjson v1.14.3 // indirect
	github.com/tidwall/match v1.1.1 // indirect
	github.com/tidwall/pretty v1.2.0 // indirect
	github.com/tidwall/sjson v1.1.4 // indirect
	github.com/xeipuuv/gojsonpointer v0.0.0-20190905194746-02993c407bfb // indirect
	github.com/xeipuuv/gojsonreference v0.0.0-20180127040603-bd5ef7bd5415 // indirect
	github.com/xeipuuv/gojsonschema v1.2.0 // indirect
	golang.org/x/exp v0.0.0-20230728194245-b0cb94b80691 // indirect
	golang.org/x/sys v0.2.0 // indirect
	gopkg.in/yaml.v3 v3.0.1 // indirect
	rsc.io/tmplfunc v0.0.3 // indirect
)

replace (
	github.com/hyperledger/aries-framework-go => /repo
	github.com/hyperledger/aries-framework-go/component/didconfig => /repo/component/didconfig
	github.com/hyperledger/aries-framework-go/component/kmscrypto => /repo/component/kmscrypto
	github.com/hyperledger/aries-framework-go/component/log => /repo/component/log
	github.com/hyperledger/aries-framework-go/component/models => /repo/component/models
	github.com/hyperledger/aries-framework-go/component/storage/edv => /repo/component/storage/edv
	github.com/hyperledger/aries-framework-go/component/storage/leveldb => /repo/component/storage/leveldb
	github.com/hyperledger/aries-framework-go/component/storageutil => /repo/component/storageutil
	github.com/hyperledger/aries-framework-go/component/vdr => /repo/component/vdr
	github.com/hyperledger/aries-framework-go/spi => /repo/spi
	github.com/hyperledger/aries-framework-go/test/component => /repo/test/component
)
