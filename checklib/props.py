"""per-property configuration of ./check"""


def c11_classify(inp, out):
    stack = inp.split("|", 1)[0]
    ks = ["stack:" + stack]
    for op in inp.split("|")[-1].split(";"):
        ks.append("op:" + op.split(" ")[0])
    for o in out.split("|"):
        ks.append("out:" + o.split(" ")[0])
    return ks


HISTORY_SHRINK = {"field_sep": "|", "op_sep": ";", "fields": [2, 1]}

def c15_classify(inp, out):
    ks = []
    for op in inp.split(";"):
        f = op.split(" ")
        ks.append("op:" + f[0])
        ks.append("fault:" + ("none" if f[-1] == "-" else ("send" if f[-1] == "x" else "store")))
        if f[0] == "pickup":
            n = int(f[2])
            ks.append("size:" + ("neg" if n < 0 else "zero" if n == 0 else "big" if n > 5 else "small"))
    for o in out.split("|")[:-1]:
        ks.append("out:" + o.split(" ")[0])
    return ks


def c08_classify(inp, out):
    f = inp.split("|")
    if f[0] == "b64":
        return ["kind:b64", "b64:" + ("err" if "dec=err" in out else "ok")]
    res = out.split(" ")[-1]
    _, entry, alg, vm, proc, claims, form, mut = f
    return ["entry:" + entry, "alg:" + alg, "vm:" + vm.rsplit("-", 1)[0], "proc:" + ":".join(proc.split(":")[1:]),
            "form:" + form, "mut:" + ":".join(mut.split(":")[:2]), res, "mut/res:" + mut.split(":")[0] + "/" + res]


def c17_classify(inp, out):
    f = inp.split("|")
    if f[0] == "proof":
        return ["entry:proof", out]
    if f[0] == "vc":
        sel = set(f[3].replace("-", ""))
        ks = ["entry:vc", "proofs:" + f[2], "frame:" + ("none" if not sel else "all" if sel >= set(f[1]) else
                                                      "beyond" if not sel <= set(f[1]) else "some"),
              "nonce:" + f[4], "vcneg:" + f[5].split(":")[0]]
        for w in out.split(" "):
            if w.startswith("neg=") or w.startswith("derive=") or w.startswith("verify=") or w.startswith("proofs="):
                ks.append("vc-" + w)
        return ks
    n = int(f[1])
    k = len(set(f[3].split(",")))
    ks = ["entry:" + f[0], "n:" + ("1" if n == 1 else "2-7" if n < 8 else "8-16" if n <= 16 else "17+"),
          "reveal:" + ("all" if k == n else "one" if k == 1 else "some"), "nonce:" + f[4], "neg:" + f[5].split(":")[0]]
    for w in out.split(" "):
        if w.startswith("neg=") or w.startswith("derive=") or w.startswith("honest="):
            ks.append(w)
    return ks


def c14_classify(inp, out):
    cfg, ops = inp.split("|", 1)
    f = cfg.split(",")
    ks = ["profile:" + f[0], "kt:" + f[1], "chain:" + f[2], "nrec:" + f[3], "auth:" + f[4]]
    for op, o in zip(ops.split(";"), out.split("|")):
        ks.append("op:" + op.split(" ")[0])
        if op == "send":
            for w in o.split(" "):
                if w.startswith("final:"):
                    ks.append("final:" + w[6:].split(",")[0].rstrip("0123456789"))
        elif op.startswith("fwd") or op.startswith("pick"):
            ks.append("out:" + o.split(":")[0])
    return ks


def c19_classify(inp, out):
    ks = []
    for op, o in zip(inp.split(";"), out.split("|")):
        ks.append("op:" + op.split(" ")[0])
        ks.append("out:" + o.split(" ")[0].rstrip("0123456789"))
    return ks


def c09_classify(inp, out):
    ks = ["proto:" + inp.split("|")[0]]
    for op in inp.split("|", 1)[1].split(";"):
        f = op.split(" ")
        ks.append("op:" + f[0] + (":" + f[2] if f[0] in ("in", "out") else ""))
    for o in out.split("|")[:-1]:
        ks.append("out:" + o.split(" ")[0])
        for w in o.split(" ")[1:]:
            if ":" in w:
                for st in w.split(":")[1].split(","):
                    ks.append("state:" + st)
    return ks


def c20_classify(inp, out):
    if inp.startswith("sd|"):
        _, spec, req = inp.split("|")
        names = [p.split(".")[-1] for p in req.split(",")]
        return ["entry:sdjwt", "sd:" + out.split(" ")[0], "requested:%d" % min(len(names), 4),
                "samename:" + ("yes" if len(set(names)) < len(names) or any(spec.count(n + "=") > 1 for n in names) else "no")]
    dims = []
    d = inp.split("|")[0]
    for tag, what in (("/s1", "schema:required-behind"), ("/s2", "schema:required-first"), ("/s3", "schema:none-required"),
                      ("/f1", "format:jwt"), ("/f2", "format:ldp"), ("/f3", "format:jwt-other-alg")):
        if tag in d:
            dims.append(what)
    nc = inp.split("|C:")[-1].count(";") + 1 if inp.split("|C:")[-1] else 0
    if nc > 10:
        dims.append("creds:more-than-ten")
    if "vparray" in out:
        dims.append("vparray:" + out.split("|")[-1].split(" ")[0])
    ks = dims + ["holder:" + out.split("|")[0].split(" ")[0], "verifier:" + out.split("|")[-1].split(" ")[0]]
    r = inp.split("|")[1]
    ks.append("req:" + ("none" if r == "R:-" else ("nested" if "[" in r else "flat")))
    for k in ("count=", "min=", "max=", "pick", "all"):
        if k in r:
            ks.append("rule:" + k.rstrip("="))
    return ks


def c18_classify(inp, out):
    import json as _j
    ks = []
    try:
        c = _j.loads(inp)
        o = _j.loads(out)
    except Exception:
        return ["unparsable"]
    ks.append("v%d" % c.get("v", 0))
    ks.append("structured" if c.get("st") else "flat")
    for k in ("rec", "alw", "nonsd"):
        if c.get(k):
            ks.append("opt:" + k)
    if c.get("decoy"):
        ks.append("opt:decoy")
    ks.append("hash:" + c.get("hash", ""))
    ks.append("hb:%d" % c.get("hb", 0))
    ks.append("mode:" + c.get("mode", ""))
    ks.append("tamper:" + str(o.get("tamper")))
    ks.append("out:" + (o["out"] if isinstance(o.get("out"), str) else "claims"))
    ks.append("disclosures:%d" % min(len(o.get("T") or []), 9))
    return ks


def c18_nontrivial(inp, out):
    import json as _j
    try:
        o = _j.loads(out)
    except Exception:
        return False
    return isinstance(o.get("out"), dict) and len(o.get("S") or []) >= 1 and len(o.get("T") or []) >= 2


def c01_classify(inp, out):
    f = inp.split("|")[0].split(",")
    ks = ["packer:" + f[0], "kt:" + f[1], "enc:" + f[2], "nrec:" + f[3], "payload:" + f[4], "kid:" + f[5]]
    m = inp.split("|")[1].split(":")
    ks.append("mut:" + m[0] + (":" + m[1] if len(m) > 1 and m[0] in ("flip", "trunc", "splice", "hdr", "unprot") else ""))
    ks.append("pack:" + out.split(" ")[0])
    for w in out.split(" "):
        if w.startswith("mut=") or w.startswith("changed="):
            ks.append(w)
        if "/" in w:
            ks.append("mutated:" + ("fail" if w.endswith("/fail") else "same-or-ok"))
    return ks


def c12_classify(inp, out):
    ks = ["mode:" + inp.split("|")[0]]
    for c in out.split(" || ")[0].split(" ; "):
        ks.append("call:" + c.split("(")[0])
    ks.append("scan:" + out.split("scan=")[-1].split(" ")[0])
    return ks


def kms_classify(inp, out):
    ks = ["lock:" + inp.split("|")[0]]
    for op in inp.split("|")[1].split(";"):
        f = op.split(" ")
        ks.append("op:" + f[0] + (":" + f[1] if f[0] in ("create", "createexp", "import") else ""))
    if "crash=" in inp:
        ks.append("crash:" + inp.split("crash=")[1])
    for o in out.split(" || ")[0].split(" "):
        ks.append("out:" + o)
    return ks



def c13_overlap(out):
    """did two operations of different goroutines overlap in time in history `out`?"""
    if not out.startswith("h="):
        return False
    evs = []
    for e in out[2:].split(" lin=")[0].split(";"):
        try:
            g = int(e.split(":")[0])
            t = e.split("@")[1].split("=")[0].split("-")
            evs.append((g, int(t[0]), int(t[1])))
        except Exception:
            return False
    for i, a in enumerate(evs):
        for b in evs[i + 1:]:
            if a[0] != b[0] and a[1] < b[2] and b[1] < a[2]:
                return True
    return False

ALL_EXTRACT = [{"args": ["states"], "out": "States.lean"}, {"args": ["keytypes"], "out": "KeyTypes.lean"},
               {"args": ["panicsites"], "out": "PanicSites.lean"}, {"args": ["locks"], "out": "Locks.lean"}]

PROPS = {
    "C11": {
        "lean_files": ["AriesVerif/C11/Spec.lean", "AriesVerif/C11/Model.lean", "AriesVerif/C11/Props.lean", "AriesVerif/C11/NonDet.lean",
                       "AriesVerif/C11/Drv.lean"],
        "lake_targets": ["AriesVerif"],
        "classify": c11_classify,
        "nontrivial": lambda inp, out: any(o.startswith(("val", "tags", "rows k", "vals")) for o in out.split("|")),
        "shrink": HISTORY_SHRINK,
        "thorough_seeds": 3,
        "rule": "seeded histories (4-15 ops from a 3-key/4-value/3-tag alphabet, pre-populated wrapped provider) over 29 "
                "wrapper stacks; a case is non-trivial when at least one read returned data; distinct = distinct (input, outcome) pairs",
        "trusted_base": ["goleveldb, encoding/json, encoding/base64 (modelled observationally)",
                         "formattedstore and LevelDB are modelled observationally (Spec with provider parameters), not line by line"],
        "assumptions": ["single-threaded histories (concurrency is C13)", "query options (paging / sorting) not used"],
    },
    "C15": {
        "lean_files": ["AriesVerif/C15/Spec.lean", "AriesVerif/C15/Model.lean", "AriesVerif/C15/Props.lean",
                       "AriesVerif/C15/Drv.lean"],
        "lake_targets": ["AriesVerif"],
        "classify": c15_classify,
        "nontrivial": lambda inp, out: "batch " in out and "batch -" not in out.replace("batch -|", ""),
        "shrink": {"field_sep": "|", "op_sep": ";", "fields": [0]},
        "thorough_seeds": 3,
        "rule": "seeded histories of add / status-request / batch-pickup (sizes 0, negative, larger than the inbox) for 1-3 "
                "recipients; two thirds of the histories inject single faults (i-th storage call of an op, or the send); "
                "non-trivial = at least one non-empty batch was handed out; distinct (input, outcome) pairs",
        "trusted_base": ["mock outbound dispatcher and fault-injecting store of the harness",
                         "encoding/json of the inbox document (modelled as the list + count it carries)"],
        "assumptions": ["handlers are driven synchronously through the verif hook (goroutine dispatch of HandleInbound is C13/C03)",
                        "single fault per operation, as the property quantifies"],
    },
    "C08": {
        "lean_files": ["AriesVerif/Base/B64.lean", "AriesVerif/C08/Model.lean", "AriesVerif/C08/Props.lean",
                       "AriesVerif/C08/Drv.lean"],
        "lake_targets": ["AriesVerif"],
        "classify": c08_classify,
        "nontrivial": lambda inp, out: out.endswith("res=acc") or ("|none" not in inp and out.endswith("res=rej")),
        "thorough_seeds": 2,
        "rule": "hand-built compact tokens: entry point (jose.ParseJWS+jwt.NewVerifier, jwt.Parse, didsignjwt.VerifyJWT, "
                "jwt.GetVerifier) x header alg (7 algorithms, none, HS256, other spellings) x verification method (6 key types, raw "
                "and JWK, overlapping ids k-1/k-11) x signing procedure (key, hash, P1363/DER, PSS/PKCS1; another key of the type; "
                "unsigned) x attached / detached / b64=false x text mutation (character flip at any position of each part, unused "
                "bits of the last character, line break, padding, header alg / kid rewritten, signature stripped, extra segment, "
                "altered detached payload); tokens without kid that bring their key along in a jwk header; did:key key ids whose fragment is the DID's own or a foreign fingerprint; JWT credentials through verifiable.ParseCredential with a key fetcher, with and without WithCredDisableValidation; " "plus random strings for the base64url tie; non-trivial = an accepted token or a "
                "rejected mutated/crossed one; distinct (input class, outcome)",
        "trusted_base": ["ideal signatures: only (key, procedure, message, signature) tuples the harness produced verify "
                         "(EUF-CMA; ECDSA (r, n-s) twin outside the model)",
                         "Go crypto (ed25519, ecdsa, rsa, btcec) for signing in the harness",
                         "Lean.Json parser standing in for encoding/json on the header (any disagreement on malformed headers ends in "
                         "a rejection on both sides because the header text is part of the signed message)"],
        "assumptions": ["one resolvable DID with 26 verification methods; key material generated once per run",
                        "DER-encoded ECDSA signatures are accepted on purpose (both encodings are a signature by the key)",
                        "completeness is not demanded by the property: a rejected honest token is only an L2 (model) matter"],
    },
    "C17": {
        "lean_files": ["AriesVerif/C17/Model.lean", "AriesVerif/C17/Props.lean", "AriesVerif/C17/Algebra.lean",
                       "AriesVerif/C17/Drv.lean", "AriesVerif/C17/Guards.lean", "AriesVerif/C17/Cred.lean"],
        "lake_targets": ["AriesVerif"],
        "classify": c17_classify,
        "nontrivial": lambda inp, out: ("honest=ok" in out or "verify=ok" in out) and ("neg=fail" in out or "neg=ok" in out),
        "thorough_seeds": 2,
        "case_timeout": 180,
        "rule": "sign / derive / verify through the primitive and through the tinkcrypto service (KMS handles): every non-empty "
                "subset of 1..4 messages (thorough: 1..7), random subsets of up to 32 (and 63..65) messages, empty / long / equal "
                "messages, three nonce shapes; the verifier is handed the honest input and one altered input (changed, dropped, "
                "swapped, supplemented, prepended message; all messages; other nonce / key; one flipped proof bit at any "
                "position; payload count or padding bit altered; truncated proof); each proof is verified twice with the same "
                "bytes; credential level (vc entry): generated JSON-LD credentials with 1..3 BbsBlsSignature2020 proofs (and "
                "Ed25519 proofs next to them), reveal frames over the subject's members, Credential.GenerateBBSSelectiveDisclosure, "
                "the derived credential verified as it is and altered (member changed / hidden member put back / member dropped / "
                "other nonce / other key / issuer changed / proof values of two proofs exchanged); recorded honest proofs of the "
                "corpus (proof entry) must verify; non-trivial = honest proof accepted and an altered input judged; distinct "
                "(input class, outcome)",
        "trusted_base": ["ideal proof system in the model: an untouched proof verifies exactly for the bound (index, message) "
                         "pairs, nonce and key (soundness of the Schnorr-style proof and independence of hashed generators are "
                         "cryptographic assumptions; Algebra.lean proves completeness and that the checked equation leaves no "
                         "freedom in the disclosed messages)",
                         "IBM/mathlib BLS12-381 arithmetic and pairing (found wrong once: finding C17-F5; the honest=ok / "
                         "verify=ok demand of the oracle is the standing control, the recorded proof in the corpus the regression)",
                         "message -> field element hashing is injective on the message alphabet of the harness",
                         "json-gold framing and URDNA2015 canonicalisation (the statements a frame selects)"],
        "assumptions": ["revealed indexes are distinct (the property quantifies over subsets)",
                        "credential level: subjects with an id, flat members and one nested node; a frame naming a member the "
                        "credential lacks is refused by the code (fail-closed), which the oracle accepts"],
    },
    "C04": {
        "lean_files": ["AriesVerif/C04/Codec.lean", "AriesVerif/C04/Aead.lean", "AriesVerif/C04/Props.lean",
                       "AriesVerif/C04/Table.lean", "AriesVerif/C04/Drv.lean"],
        "lake_targets": ["AriesVerif"],
        "classify": lambda inp, out: ["kind:" + inp.split("|")[0], "kt:" + (inp.split("|")[1] if inp[0] in "sa" else "-"),
                                      "neg:" + inp.split("|")[-1].split(":")[0]] +
                                     [w for w in out.split(" ") if w.startswith(("neg=", "honest=", "dec=", "back=", "padded="))],
        "nontrivial": lambda inp, out: "neg=fail" in out or "neg=ok" in out or "back=same" in out,
        "thorough_seeds": 2,
        "case_timeout": 900,   # a BLS signature over 65 537 messages takes about a minute, several under load
        "rule": "signatures: 8 creatable signing key types (+ secp256k1 DER, refused) x created / imported keys x six message "
                "shapes (empty, 1 byte, 64 KiB) x verification through the key's own public handle, through the exported and "
                "re-imported public key of ANOTHER key manager, and through signature/verifier.PublicKeyVerifier x altered "
                "input (other message, bit flip anywhere, truncation, appended byte, zero-padded P1363 halves, other key); MAC "
                "likewise; AEAD: five key types x messages x associated data x 0-2 rotations after encrypting x altered "
                "ciphertext / nonce / associated data / other key / nonce of another encryption / empty nonce; secp256k1 codecs "
                "on scalars with leading zero bytes; BLS12-381 G2 multi-message signatures through SignMulti / VerifyMulti (1..70 messages; 257, 65537, 65540 in the thorough tier; message changed / two messages exchanged / dropped / appended, other key, flipped signature bit); " "non-trivial = an altered input was judged or a codec round trip ran",
        "trusted_base": ["ideal primitives (a body opens only with its key, nonce and associated data; only produced signatures "
                         "verify)", "Tink and Go crypto implementations", "DER codec checked by correspondence only (no Lean proof)"],
        "assumptions": ["RSA key types are verify-side only in this framework and not driven here; BLS12-381 is C17",
                        "AES-CBC+HMAC key types are not creatable through kms.Create and are not driven"],
    },
    "C16": {
        "lean_files": ["AriesVerif/C16/Model.lean", "AriesVerif/C16/Props.lean", "AriesVerif/C16/RelId.lean", "AriesVerif/C16/Drv.lean"],
        "lake_targets": ["AriesVerif"],
        "classify": lambda inp, out: ["kind:" + inp.split("|")[0], "flags:" + inp.split("|")[1], "out:" + out.split("|")[0][:12],
                                      "size:" + ("S" if len(inp) < 600 else "M" if len(inp) < 2000 else "L")],
        "nontrivial": lambda inp, out: out.startswith("ok|") or "back=same" in out,
        "thorough_seeds": 2,
        "rule": "generated credentials (every optional member, one-value vs array forms, string vs object issuer and subject, "
                "inline contexts, custom members at every level with nested values, null, empty arrays/objects, non-integer and "
                "very large numbers), presentations with 0-2 embedded credentials, DID documents (three key encodings, relative "
                "and absolute ids, embedded vs referenced relationships, three service endpoint shapes, custom service members), "
                "credentials through the JWT form (minimised and full), key identifiers (did:key / fingerprint / vdr key / JWK) "
                "for six key types; validation on and off; 4% of the documents carry a member whose name equals a known one up "
                "to case; non-trivial = a document went through parse / serialize / parse / serialize; distinct (shape, outcome)",
        "trusted_base": ["Lean.Json as the reader of both texts (numbers exact)", "JSON-LD / JSON-schema validators of the "
                         "framework when validation is on (a refusal is not judged)"],
        "assumptions": ["member names are distinct within an object", "JWT dates are whole seconds in UTC (NumericDate)",
                        "an X25519 did:key is not resolvable by vdr/key (modelled as such)"],
    },
    "C07": {
        "lean_files": ["AriesVerif/C07/Model.lean", "AriesVerif/C07/Strict.lean", "AriesVerif/C07/Props.lean",
                       "AriesVerif/C07/Drv.lean"],
        "lake_targets": ["AriesVerif"],
        "classify": lambda inp, out: ["suite:" + inp.split("|")[0] + "/" + inp.split("|")[1], "mut:" + ":".join(inp.split("|")[3].split(":")[:2] if inp.split("|")[3].startswith(("add", "opt")) else inp.split("|")[3].split(":")[:1])] +
                                     [w for w in out.split("|")[0].split(" ") if w.startswith(("res=", "strict=", "applied="))],
        "nontrivial": lambda inp, out: "applied=1" in out and "base=acc" in out,
        "thorough_seeds": 2,
        "case_timeout": 180,
        "rule": "60 generated credentials (one or two subjects, nested nodes with and without id, set-valued terms, one- and "
                "two-element arrays of nodes, typed literals, @id-typed terms, issuer as string or object, custom context "
                "served in memory; arrays whose elements differ in size) x six suites (Ed25519Signature2018/2020, JsonWebSignature2020, "
                "EcdsaSecp256k1Signature2019, BbsBlsSignature2020, Data Integrity ecdsa-2019) x proofValue / detached JWS; the "
                "signed JSON is altered at a leaf chosen by index "
                "(changed, deleted), by a defined or an undefined member added at five depths (top, subject, nested object, "
                "element of a one- and of a two-element array), by reordering / duplicating a set, by changing each of the five "
                "proof options or the signature, by deleting the proof, by a second proof next to the genuine one (foreign type / "
                "altered copy), by an undefined type value; verified with default and with strict validation; "
                "a member that differs from a signed member only by case (Issuer, Type, IssuanceDate, ID) appended after the signed one, with the accepted credential's own view of id / issuer / date / types compared with the signed document; proof options as array / number / object (with and without a signed value of that option); JWT forms: JWT-VC and JWT-VP signed through the framework with the token text altered (line breaks, flipped characters, spare bits, padding), and an LD-signed presentation inside an unsecured JWT whose iss / jti name another holder / id; " "non-trivial = the alteration found a place in the document",
        "trusted_base": ["JSON-LD expansion and URDNA2015 (json-gold) are replaced by the `claims` reading of the generated "
                         "fragment (partial)", "signature primitives ideal", "compaction law: undefined members are dropped"],
        "assumptions": ["no @list container, no language maps, no @graph in the generated fragment",
                        "presentations and JWT-VC/VP are covered by C08 (JWS layer) and not driven here"],
    },
    "C03": {
        "lean_files": ["AriesVerif/C03/Decoders.lean", "AriesVerif/C03/Sites.lean", "AriesVerif/C03/Drv.lean"],
        "lake_targets": ["AriesVerif"],
        "classify": lambda inp, out: ["entry:" + inp.split("|")[0], "variant:" + inp.split("|")[1].split(",")[0][:12],
                                      "repl:" + str(int(inp.split("|")[3]) % 19), "out:" + out[:5]],
        "nontrivial": lambda inp, out: out in ("ok", "err"),
        "thorough_seeds": 2,
        "case_timeout": 60,
        "rule": "valid objects of the framework's own encoders (envelopes of all four packers in both serializations, compact "
                "JWS/JWT of seven algorithms, LD-signed credentials of five suites and presentations, credential manifests (validation and resolution against a credential), DID documents, did:key "
                "strings, BBS+ proofs / signatures / keys, SD-JWT combined formats, presentation definitions, inbound messages of "
                "present-proof / issue-credential (v2, v3), message pickup and mediator) confused at one position: a member "
                "replaced by null / 0 / -1 / 2^32-1 / 1.5 / \"\" / string / bool / [] / [null] / {} / removed, a string cut, doubled, "
                "its base64 content decoded, confused and encoded again, a number set to an extreme, bytes truncated / extended / "
                "set to 0x00 / 0xff; the confused object goes to the real entry point in-process; non-trivial = the entry point "
                "answered; distinct (entry, replacement class, outcome)",
        "trusted_base": ["the sweep is a SEARCH (no theorem quantifies over the Go code of the entry points); proved: panic-"
                         "freedom of the models in C03/Decoders.lean and, by the regenerated site / guard lists, that the "
                         "listed functions contain exactly the accounted panic sites and still contain the guards relied upon",
                         "go/ast lister of panic sites (cmd/extract/panicsites.go)"],
        "assumptions": ["didexchange / legacyconnection / outofband / introduce inbound handlers are not driven by the sweep "
                        "(they need a wired agent; C10 drives didexchange end to end)",
                        "resource use is bounded by the per-case timeout only; allocation is not measured"],
    },
    "C10": {
        "lean_files": ["AriesVerif/C10/Model.lean", "AriesVerif/C10/Props.lean", "AriesVerif/C10/Rot.lean", "AriesVerif/C10/Drv.lean"],
        "lake_targets": ["AriesVerif"],
        "classify": lambda inp, out: ["cfg:" + inp.split("|")[0]] + ["op:" + o.split(" ")[0] for o in inp.split("|")[1].split(";")] +
                                     ["out:" + o.split(" ")[0][:12] for o in out.split("|")],
        "nontrivial": lambda inp, out: "completed/completed" in out or (inp.startswith("rot,") and "ok[" in out),
        "shrink": {"field_sep": "|", "op_sep": ";", "fields": [1]},
        "thorough_seeds": 1,
        "case_timeout": 240,
        "rule": "three real aries.Framework agents on an in-process bus (key type x key agreement type x media type profile): "
                "didexchange invitations run to completion, two exchanges started together (messages interleave), basic "
                "messages over the connections with the (myDID, theirDID) the receiver's handler is given, then third-party "
                "traffic: a forged didexchange request attaching a document under the peer's DID (own keys, or the peer's keys with "
                "the service block replaced), an anoncrypt and an authcrypt message whose body names the peer; exchanges while "
                "one agent's storage writes are slow; resolve(TheirDID) before and after; non-trivial = an exchange completed. "
                "DID rotation (`rot,<id style>|...`): the from_prior handling of the DIDComm v2 middleware over a real connection "
                "recorder, KMS and crypto: rotations signed by the prior DID's key, by the other peer, by third parties, with the "
                "kid naming the signer's / the prior DID's / the new DID's method (relative and absolute ids), envelope sender "
                "equal to / different from the new DID, repeated rotations, plain messages; predicted exactly by Conn.Rot.step",
        "trusted_base": ["the bus delivers synchronously (no loss, no reordering beyond what the goroutines of the services do)",
                         "agent start-up, transports, retries and scheduling inside one agent are not modelled (partial)"],
        "assumptions": ["didexchange invitations only (out-of-band, implicit and legacy-connection invitations are not driven)",
                        "DID rotation is driven at the middleware (HandleInboundMessage), not through packed envelopes between agents",
                        "waiting for a state is polling with a 4 s limit"],
    },
    "C13": {
        "lean_files": ["AriesVerif/C13/Locks.lean", "AriesVerif/C13/Spec.lean", "AriesVerif/C13/Interleave.lean",
                       "AriesVerif/C13/Atomic.lean", "AriesVerif/C13/Textbook.lean", "AriesVerif/C13/Drv.lean"],
        "lake_targets": ["AriesVerif"],
        "race": True,
        "level": "proof",
        "classify": lambda inp, out: ["target:" + inp.split("|")[0], "goroutines:" + inp.split("|")[1],
                                     "ops-per-goroutine:" + inp.split("|")[2],
                                     "overlap:" + ("yes" if c13_overlap(out) else "no"),
                                     "lin:" + ("NONE" if out.endswith("lin=NONE") else "search-gave-up" if out.endswith("lin=GAVE-UP") else
                                              "witness" if " lin=" in out else out.split(" ")[0])],
        "nontrivial": lambda inp, out: c13_overlap(out),
        "thorough_seeds": 1,
        "case_timeout": 60,
        "rule": "G (2-5) goroutines run short operation lists on ONE shared instance of mem / cachedstore / batchedstore / "
                "formattedstore providers, localkms, the wallet session manager, a shared wallet and the message pickup inbox, the binary being "
                "built with the Go race detector and GOMAXPROCS varied 1..16 (KV targets: put / get / delete / tag query / provider calls; "
                "session manager: open / close / use of the latest token; inbox: add / pickup / pickup with failing delivery; "
                "one shared wallet: add / get / remove); every operation is timestamped (invoke, return); a "
                "search proposes a sequential order and the Lean side validates it against its sequential specification "
                "(Lin.validate, proved sound); a race report, a hang or an unexplained history is a violation; non-trivial = two "
                "operations of different goroutines overlapped in time",
        "trusted_base": ["the Go race detector (happens-before, only on the schedules that ran)",
                         "the lockset extractor (harness/cmd/extract/locks.go): syntactic, one function body at a time, "
                         "helper functions documented to run with the lock held are listed by hand in C13/Locks.lean",
                         "the Go runtime scheduler is not modelled: Interleave.lean proves the check-then-act shapes for every "
                         "interleaving of the model's atomic steps, the real schedules are only sampled (partial)"],
        "assumptions": ["logical clock taken with atomic adds around each call: an operation's real extent lies inside its recorded one",
                        "composite wallet.Open / Close (session + KMS + store life cycle) is not an atomic operation of the "
                        "specification; the session manager's createSession / closeSession are",
                        "schedules are not reproducible: a replay file carries the observed history, re-running it re-samples"],
    },
    "C14": {
        "lean_files": ["AriesVerif/C14/Model.lean", "AriesVerif/C14/Props.lean", "AriesVerif/C14/Drv.lean"],
        "lake_targets": ["AriesVerif"],
        "classify": c14_classify,
        "nontrivial": lambda inp, out: "final:got=c" in out or "final:got=inbox" in out,
        "shrink": {"field_sep": "|", "op_sep": ";", "fields": [1]},
        "thorough_seeds": 2,
        "case_timeout": 120,
        "rule": "seeded scenarios: media-type profile (IndyAgent, aip1, aip2;rfc19, aip2;rfc587, didcomm/v2) x key type x chain of "
                "0..6 mediators x 1-2 recipient keys x auth/anon, each with a history of keylist add/remove from three clients, "
                "endpoints going down and up, sends through the whole chain, forwards for registered / foreign / unregistered "
                "keys and pickups; non-trivial = a routed message reached a client or an inbox; distinct (input, outcome) pairs",
        "trusted_base": ["recording bus standing in for the transports; SendToDID half of the mediators' outbound recorded, not packed",
                         "symbolic encryption in the model (who holds a key in `rcpts` can open): the cryptographic half is C01/C02",
                         "plaintext-marker scan for the leak column (marker and its base64 form)"],
        "assumptions": ["forward and keylist-update handlers are driven synchronously through the verif hook",
                        "every agent has its own KMS, packager and dispatcher; mediators M2..Mn have honest registrations",
                        "the route table is last-writer-wins (no ownership check, remove unimplemented): modelled as the code does it"],
    },
    "C19": {
        "lean_files": ["AriesVerif/C19/Spec.lean", "AriesVerif/C19/Model.lean", "AriesVerif/C19/Props.lean",
                       "AriesVerif/C19/Drv.lean"],
        "lake_targets": ["AriesVerif"],
        "classify": c19_classify,
        "nontrivial": lambda inp, out: "tok1" in out and ("val " in out or "ids " in out) and "locked" in out,
        "shrink": {"field_sep": "|", "op_sep": ";", "fields": [0]},
        "thorough_seeds": 2,
        "case_timeout": 120,
        "rule": "seeded multi-profile histories (2-3 profiles; create / open / open with short expiry / wrong passphrase / close / "
                "expire / add / get / getall / remove / keypair), every content or key operation with a token drawn from ALL tokens "
                "issued so far (own, foreign, closed, expired), garbage or not-yet-issued; Verify / Derive probes with caller-supplied credentials (derivable BBS+ credential as bytes and as instance, positive control under a live token); credential manifest resolved against a caller-supplied credential (refused without, working with a live token); cross-profile key probe (owner imports and uses a key, every other live profile tries it through its own session); " "non-trivial = at least two wallets were "
                "opened, a read returned data and an operation was refused; distinct (input, outcome) pairs",
        "trusted_base": ["gcache expiry (real clock: 400 ms expiry, 1000 ms sleep)", "localkms / hkdf secret lock (passphrase check)",
                         "harness-owned in-memory provider whose stores survive Close"],
        "assumptions": ["one wallet.New instance per operation (as the REST/command controllers do)",
                        "Metadata content type stands for all content types (same contentStore code path)",
                        "DidComm wrapper methods are out of scope (they delegate to the guarded Wallet methods)"],
    },
    "C09": {
        "lean_files": ["AriesVerif/C09/Spec.lean", "AriesVerif/C09/Model.lean", "AriesVerif/C09/Props.lean",
                       "AriesVerif/C09/Drv.lean"],
        "lake_targets": ["AriesVerif"],
        "extract": [{"args": ["states"], "out": "States.lean"}],
        "classify": c09_classify,
        "nontrivial": lambda inp, out: out.count(":") >= 2,
        "shrink": {"field_sep": "|", "op_sep": ";", "fields": [1]},
        "thorough_seeds": 2,
        "rule": "transition tables of all five protocols regenerated by running CanTransitionTo / nextState on the complete domain; "
                "seeded message sequences (inbound / outbound messages of every type, fresh and reused threads, duplicates, out of "
                "order, every continue option / stop decision, and in a quarter of the histories a transport fault: the K-th send of the messenger fails); DID Exchange and the legacy Connection protocol between two real agents on an in-process bus, every decision taken - and repeated - through the accept-by-connection-id API, with transport faults; against the real present-proof and issue-credential services "
                "(v2 and v3); DID Exchange and legacy Connection between two real agents (decisions by connection id and on the parked event, repeated decisions, replayed invitation, transport and state-store faults); introduce (proposals, requests, responses, acks, problem reports, continue options, out-of-band entry point, messenger faults); " "non-trivial = at least two states were announced; distinct (input, outcome) pairs",
        "trusted_base": ["recording messenger / harness-owned store and event channels", "verif hooks VerifSync (listener barrier) "
                         "and the table enumeration exports", "hand-written Execute tables (ppExec, icExec) of the model"],
        "assumptions": ["didexchange / connection / introduce are decided at table level only (their service loops are driven in C10)",
                        "messenger never fails; middleware is the default one"],
    },
    "C20": {
        "lean_files": ["AriesVerif/C20/Model.lean", "AriesVerif/C20/Props.lean", "AriesVerif/C20/Drv.lean"],
        "lake_targets": ["AriesVerif"],
        "classify": c20_classify,
        "nontrivial": lambda inp, out: out.startswith("vp ") or out.startswith("ok shown="),
        "thorough_seeds": 2,
        "rule": "generated definitions (2-5 input descriptors in groups A-C with exists / const / pattern / minimum field constraints, "
                "submission requirements none | all | pick with count / min / max, nested up to depth 2, several top-level requirements) x "
                "generated credential sets (0-4 credentials incl. near misses: attribute present with the wrong value or type); real "
                "CreateVP then Match on the marshalled presentation; schema lists with a required entry in any position and degree credentials; the answer also as a presentation array matched with the merged submission (up to 13 credentials); the wallet query engine asked for two definitions; " "format requirements on descriptors (jwt_vc / ldp_vc) over mixed lists of JWT, LDP and plain credentials; " "SD-JWT credentials (two subject objects and subject members, equal claim names in different objects) under limit_disclosure: the display credential of what Match returns shows exactly the requested fields; " "non-trivial = a presentation was created; distinct (input, outcome) pairs",
        "trusted_base": ["gval/jsonpath and gojsonschema (constraint evaluation is the predicate credMatches of the driver, for the "
                         "generator's four filter kinds)", "unsigned JSON-LD credentials (proof check disabled on the verifier side)"],
        "assumptions": ["v1-style definitions with a schema uri matched by every generated credential (the verifier validates schemas by default)",
                        "limit_disclosure / subject_is_issuer / predicate filters not generated yet"],
    },
    "C18": {
        "lean_files": ["AriesVerif/C18/Model.lean", "AriesVerif/C18/Flat.lean", "AriesVerif/C18/Props.lean",
                       "AriesVerif/C18/Drv.lean", "AriesVerif/Base/Json.lean"],
        "lake_targets": ["AriesVerif"],
        "classify": c18_classify,
        "nontrivial": c18_nontrivial,
        "thorough_seeds": 2,
        "rule": "generated claim trees (depth <= 3, objects / arrays / strings / ints / bools) x issuer options (SD-JWT v2 and v5, "
                "structured, non-SD paths, recursive and always-include objects, decoys, sha-256/384/512) x presented subsets chosen by "
                "content hash (all / none / subset) x tampering (forged, duplicated, altered disclosure) x holder binding (none, right, "
                "wrong nonce / audience / key, required but missing); real issuer.New -> holder.CreatePresentation -> verifier.Parse; "
                "non-trivial = an honest presentation of >= 1 of >= 2 disclosures was verified; distinct (input, outcome) pairs",
        "trusted_base": ["SHA-2 and Ed25519 (ideal: digests are replaced by the index of the disclosure that hashes to them)",
                         "go-jose / encoding/json parsing; json.Number values are normalised to JSON numbers (C18-F3)"],
        "assumptions": ["claims without null members and without empty arrays / objects (C18-F1, C18-F2 record what happens otherwise)"],
    },
    "C01": {
        "lean_files": ["AriesVerif/C01/Model.lean", "AriesVerif/C01/Props.lean", "AriesVerif/C01/Drv.lean"],
        "lake_targets": ["AriesVerif"],
        "classify": c01_classify,
        "nontrivial": lambda inp, out: out.count("ok:1") >= 1,
        "thorough_seeds": 2,
        "case_timeout": 120,
        "rule": "configurations packer (JWE authcrypt / anoncrypt, legacy authcrypt / anoncrypt) x key type (X25519, P-256/384/521, "
                "Ed25519) x content encryption (A256GCM, XC20P, 4 CBC-HMAC variants) x 1-4 recipients x payload (empty, 1, block "
                "boundaries +-1, JSON, 255, 1000 bytes) x kid style (did:key, DID-document keyAgreement ids with 1-3 entries); every "
                "party (sender, each recipient, an outsider) has its OWN KMS and unpacks; non-trivial = a recipient recovered the payload",
        "trusted_base": ["Tink / go-jose / NaCl / chacha20poly1305 / AES (ideal: symbolic terms)", "did:key and JWK codecs (C16)"],
        "assumptions": ["N1 / N2: configurations in which Pack itself refuses are modelled as pack failures (DESIGN.md C01)"],
    },
    "C02": {
        "lean_files": ["AriesVerif/C01/Model.lean", "AriesVerif/C02/Props.lean", "AriesVerif/C01/Drv.lean"],
        "lake_targets": ["AriesVerif"],
        "classify": c01_classify,
        "nontrivial": lambda inp, out: "mut=applied" in out and out.count("ok:1") >= 1,
        "thorough_seeds": 2,
        "case_timeout": 120,
        "rule": "envelopes of the C01 generator x one mutation: base64 character flip / truncation at a position of protected, iv, "
                "ciphertext, tag, a recipient's encrypted_key / kid / (legacy) sender / iv; edit of a protected header member (alg, enc, "
                "kid, skid, apu, apv, typ, cty, epk); splice of a field from a second envelope of the same parties; drop / duplicate / "
                "swap recipients; compact -> JSON re-serialisation; added unprotected header; every party unpacks original and mutant; "
                "non-trivial = the mutation applied to an envelope that a recipient could read",
        "trusted_base": ["Tink / go-jose / NaCl / chacha20poly1305 / AES (ideal)", "encoding/base64 decides whether decoded bytes changed"],
        "assumptions": ["the model does not predict fail-vs-same per mutation; the oracle requires fail-or-same, and fail for authenticated fields"],
    },
    "C12": {
        "lean_files": ["AriesVerif/C12/Model.lean", "AriesVerif/C12/Props.lean", "AriesVerif/C12/Drv.lean"],
        "lake_targets": ["AriesVerif"],
        "classify": c12_classify,
        "nontrivial": lambda inp, out: "Put(" in out or "Batch(put" in out,
        "thorough_seeds": 2,
        "rule": "C11's operation generator (put / get / gettags / getbulk / query / delete / batch / flush, invalid inputs included) with "
                "long distinctive plaintexts for keys, values, tag names and tag values, through formattedstore + the real EDV "
                "EncryptedFormatter (real JWE encrypter, real HMAC key in a harness KMS) over a RECORDING provider, deterministic and "
                "random document ids, with and without SetStoreConfig; every argument of every provider call is mapped back to a symbolic "
                "term with the harness's keys and judged by the Lean Opaque predicate; independently every recorded byte string is scanned "
                "for every plaintext in raw / hex / base58 / base64 / base64url (3 alignments); the store re-configured in the middle of a history; content encryption A256GCM / XC20P / CBC-HMAC family, every unwrapped content encryption key inspected (random, fresh per write); the REST provider against an in-process vault server; " "non-trivial = something was stored",
        "trusted_base": ["HMAC-SHA256 and the JWE (ideal)", "the harness's recogniser of MACs / document ids / encrypted documents",
                         "store names (OpenStore / SetStoreConfig first argument) are outside the property as stated"],
        "assumptions": ["the WithEDVBatchCrypto configuration (outside the stated quantifier) is not driven; its batchFormat returns "
                        "plaintext tags (DESIGN.md section 8)"],
    },
    "C05": {
        "lean_files": ["AriesVerif/C05/Model.lean", "AriesVerif/C05/Props.lean", "AriesVerif/C05/Drv.lean", "AriesVerif/C12/Model.lean"],
        "lake_targets": ["AriesVerif"],
        "classify": kms_classify,
        "nontrivial": lambda inp, out: "secrets=0" not in out and "puts=0" not in out,
        "thorough_seeds": 2,
        "case_timeout": 120,
        "rule": "histories of Create / CreateAndExportPubKeyBytes / ImportPrivateKey (named, un-named, duplicate id) / Rotate / Get / "
                "ExportPubKeyBytes over 12 key types with the local secret lock in three configurations (raw master key, HKDF- and "
                "PBKDF2-protected master key) over a recording kms.Store; the private / symmetric key bytes of every key are obtained "
                "through Tink's cleartext export (harness side) and every value ever written plus everything the API returned plus the "
                "protected master key is scanned for them (and for the master key) in raw / hex / base58 / base64 / base64url; a second "
                "key manager with a wrong master key or passphrase must fail on every id; non-trivial = keys were stored and scanned",
        "trusted_base": ["Tink keyset encryption, AES-GCM secret lock, HKDF / PBKDF2 (ideal)", "protobuf field numbers of the Tink key "
                         "protos used to pick the secret bytes"],
        "assumptions": ["noop lock is out of scope (the property is conditional on a configured secret lock)"],
    },
    "C06": {
        "lean_files": ["AriesVerif/C05/Model.lean", "AriesVerif/C05/Props.lean", "AriesVerif/C05/Drv.lean"],
        "lake_targets": ["AriesVerif"],
        "classify": kms_classify,
        "nontrivial": lambda inp, out: "reopen: " in out and "ok/" in out,
        "thorough_seeds": 2,
        "case_timeout": 120,
        "rule": "the C05 histories, two thirds of them ending in a mutating call during which the store freezes after its k-th "
                "mutating storage call (k = 0, 1, 2: every crash point of Create / Import / Rotate); then a FRESH key manager is opened "
                "over the surviving store with the same master key and every key returned earlier is probed (Get, exported public key "
                "equal); created / imported asymmetric keys: returned id compared with jwkkid.CreateKID of the exported public key; "
                "non-trivial = at least one key was retrieved after the reopen",
        "trusted_base": ["Tink keyset encryption (ideal)", "jwkkid.CreateKID as the reference thumbprint (its own correctness is C16)"],
        "assumptions": ["signing with one instance / verifying with the other is covered by the exported-public-key equality only"],
    },
}
