"""per-property configuration of ./check"""


def c11_classify(inp, out):
    stack = inp.split("|", 1)[0]
    ks = ["stack:" + stack]
    for op in inp.split("|")[-1].split(";"):
        ks.append("op:" + op.split(" ")[0])
    for o in out.split("|"):
        ks.append("out:" + o.split(" ")[0])
    return ks


HISTORY_SHRINK = {"field_sep": "|", "op_sep": ";", "fields": [2, 1]}

PROPS = {
    "C11": {
        "lean_files": ["AriesVerif/C11/Spec.lean", "AriesVerif/C11/Model.lean", "AriesVerif/C11/Props.lean",
                       "AriesVerif/C11/Drv.lean"],
        "lake_targets": ["AriesVerif"],
        "classify": c11_classify,
        "nontrivial": lambda inp, out: any(o.startswith(("val", "tags", "rows k", "vals")) for o in out.split("|")),
        "shrink": HISTORY_SHRINK,
        "thorough_seeds": 3,
        "rule": "seeded histories (4-15 ops from a 3-key/4-value/3-tag alphabet, pre-populated wrapped provider) over 29 "
                "wrapper stacks; a case is non-trivial when at least one read returned data; distinct = distinct (input, outcome) pairs",
        "trusted_base": ["goleveldb, encoding/json, encoding/base64 (modelled observationally)",
                         "formattedstore and LevelDB are modelled observationally (Spec with provider parameters), not line by line"],
        "assumptions": ["single-threaded histories (concurrency is C13)", "query options (paging / sorting) not used"],
    },
}
