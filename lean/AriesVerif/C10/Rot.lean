/-! # C10 — DID rotation (`from_prior`) as `pkg/didcomm/common/middleware` handles it.

The victim's connections are identified by the DID the peer is known under (`their`). A message arrives whose envelope
authenticated the DID `env`; its `from_prior` claims "`iss` is now `sub`", carries a signature made with the key of
`signer` and names, as `kid`, the verification method of `kidOf`'s document.

`handleInboundRotate`, line by line:
* `getUnverifiedJWS`: `sub` must be the DID of the envelope's sender;
* a connection under `iss` is looked up; if there is none but one under `sub`, the rotation was already applied and the
  message passes without a signature check and without any change;
* otherwise `verifyJWSAndPayload`: the document of **`iss`** is resolved, `kid` must name one of ITS verification methods
  (`did.LookupPublicKey`, exact id match: with relative ids "#key-1" every document has that id, with absolute ids only
  `iss`'s own), and the signature must verify under that method's key — each DID has its own key, so: `signer = iss`;
* then the connection's `their` becomes `sub`.
A message without `from_prior` needs a connection under `env` (`GetConnectionRecordByTheirDID`). -/
namespace Conn.Rot

structure Msg where
  signer : String
  iss : String
  sub : String
  kidOf : String
  env : String
deriving Repr, DecidableEq

/-- does the kid resolve inside the document of `iss`? -/
def kidResolves (absIds : Bool) (m : Msg) : Bool := !absIds || m.kidOf == m.iss

/-- the signature check of `verifyJWSAndPayload` -/
def verified (absIds : Bool) (m : Msg) : Bool := kidResolves absIds m && m.signer == m.iss

/-- `conns`: the DID each connection's peer is known under -/
def step (absIds : Bool) (conns : List String) (m : Msg) : List String × Bool :=
  if m.env != m.sub then (conns, false)
  else if conns.contains m.iss then
    if verified absIds m then (conns.map fun t => if t == m.iss then m.sub else t, true)
    else (conns, false)
  else if conns.contains m.sub then (conns, true)      -- already rotated: passes, changes nothing
  else (conns, false)

/-- a message without `from_prior` -/
def plain (conns : List String) (env : String) : Bool := conns.contains env

/-- **No re-pointing without the key of the prior DID**: whoever does not sign with the key of `iss` changes nothing —
    for every state, every claimed `iss` / `sub`, every kid, every envelope sender. -/
theorem C10_rotation_needs_prior_key (absIds : Bool) (conns : List String) (m : Msg) (h : m.signer ≠ m.iss) :
    (step absIds conns m).1 = conns := by
  have hv : verified absIds m = false := by
    unfold verified
    have : (m.signer == m.iss) = false := by simpa using h
    simp [this]
  unfold step
  simp only [hv, Bool.false_eq_true, if_false]
  split
  · rfl
  · split
    · rfl
    · split <;> rfl

/-- with absolute key ids, a kid that names a method of ANOTHER document (the attacker's own key, seeded change C10-4)
    never passes either, even if that other party signs correctly with its own key -/
theorem C10_rotation_foreign_kid (conns : List String) (m : Msg) (h : m.kidOf ≠ m.iss) :
    (step true conns m).1 = conns := by
  have hv : verified true m = false := by
    unfold verified kidResolves
    have : (m.kidOf == m.iss) = false := by simpa using h
    simp [this]
  unfold step
  simp only [hv, Bool.false_eq_true, if_false]
  split
  · rfl
  · split
    · rfl
    · split <;> rfl

/-- an accepted rotation touches only connections that stood under `iss`: every other connection keeps its peer -/
theorem C10_rotation_only_that_connection (absIds : Bool) (conns : List String) (m : Msg) (t : String)
    (ht : t ∈ conns) (hne : t ≠ m.iss) : t ∈ (step absIds conns m).1 := by
  unfold step
  split
  · exact ht
  · split
    · split
      · refine List.mem_map.mpr ⟨t, ht, ?_⟩
        have : (t == m.iss) = false := by simpa using hne
        simp only [this, Bool.false_eq_true, if_false]
      · exact ht
    · split <;> exact ht

/-- the sender of the envelope must be the new DID: nobody announces a rotation on behalf of a third DID -/
theorem C10_rotation_sender_is_sub (absIds : Bool) (conns : List String) (m : Msg) (h : m.env ≠ m.sub) :
    step absIds conns m = (conns, false) := by
  unfold step
  have : (m.env != m.sub) = true := by simpa using h
  simp [this]

/-- whole histories: if no message of the history is signed with the key of its `iss`, the connections stay as they
    were, whatever else the messages say (induction over the history) -/
theorem C10_rotation_history (absIds : Bool) (ms : List Msg) (conns : List String)
    (h : ∀ m ∈ ms, m.signer ≠ m.iss) :
    ms.foldl (fun c m => (step absIds c m).1) conns = conns := by
  induction ms generalizing conns with
  | nil => rfl
  | cons m rest ih =>
    simp only [List.foldl_cons]
    rw [C10_rotation_needs_prior_key absIds conns m (h m (by simp))]
    exact ih conns (fun m' hm' => h m' (by simp [hm']))

/-! ## the thread id → connection index of the recorder (`SaveNamespaceThreadID` / `GetConnectionRecordByNSThreadID`):
a map keyed by the whole thread id (the store key is an injective image of it) -/

def threadPut (m : List (String × String)) (t c : String) : List (String × String) := (t, c) :: m.filter (·.1 != t)

def threadGet (m : List (String × String)) (t : String) : Option String := (m.find? (·.1 == t)).map (·.2)

theorem threadGet_put_same (m : List (String × String)) (t c : String) : threadGet (threadPut m t c) t = some c := by
  simp [threadGet, threadPut]

/-- **a thread id saved for another exchange never changes what this thread id maps to**, however much of their text the
    two share (seeded change C10-6: the store key was cut to the first 32 bytes of the thread id) -/
theorem C10_thread_ids_do_not_collide (m : List (String × String)) (t t' c : String) (h : t' ≠ t) :
    threadGet (threadPut m t' c) t = threadGet m t := by
  have hne : (t' == t) = false := by simpa using h
  simp only [threadGet, threadPut, List.find?_cons, hne]
  congr 1
  induction m with
  | nil => rfl
  | cons x xs ih =>
    by_cases hx : x.1 = t'
    · have h1 : (x.1 != t') = false := by simp [hx]
      have h2 : (x.1 == t) = false := by simp [hx, h]
      simp only [List.filter_cons, h1, List.find?_cons, h2]
      exact ih
    · have h1 : (x.1 != t') = true := by simp [hx]
      simp only [List.filter_cons, h1, if_true, List.find?_cons]
      split
      · rfl
      · exact ih

/-- non-vacuity: an honest rotation IS applied, a forged one is not -/
example : step true ["b", "m"] ⟨"b", "b", "b2", "b", "b2"⟩ = (["b2", "m"], true) := by decide
example : step true ["b", "m"] ⟨"m", "b", "m2", "m", "m2"⟩ = (["b", "m"], false) := by decide
example : step false ["b", "m"] ⟨"m", "b", "m2", "m", "m2"⟩ = (["b", "m"], false) := by decide

end Conn.Rot
