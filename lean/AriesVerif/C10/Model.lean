/-! # C10 — Model (partial): what an agent stores while connections are established, and how inbound messages are
attributed.

* stores are maps: connection records by id, thread index, key → DID index (`pkg/store/did`), peer DID store
  `DID → document` (`component/vdr/peer/store.go`);
* an exchange is a sequence of writes with FRESH keys (peer DIDs are hashes of fresh documents, connection and thread
  ids are UUIDs);
* inbound attribution (`inbound.getDIDs`): the sender key of an authenticated envelope is looked up in the key index;
  an envelope WITHOUT sender key falls back to the plaintext `from` member (C10-F2). -/
namespace Conn

abbrev Store (V : Type) := String → Option V

/-- plain `Put`: the last writer wins (the peer DID store before the repair of C10-F1) -/
def putOverwrite {V : Type} (s : Store V) (k : String) (v : V) : Store V := fun k' => if k' = k then some v else s k'

/-- the peer DID store after the repair: a DID that is stored keeps its document -/
def putKeep {V : Type} [DecidableEq V] (s : Store V) (k : String) (v : V) : Store V :=
  match s k with
  | some _ => s
  | none => putOverwrite s k v

def applyKeep {V : Type} [DecidableEq V] (s : Store V) : List (String × V) → Store V
  | [] => s
  | (k, v) :: rest => applyKeep (putKeep s k v) rest

def applyOverwrite {V : Type} (s : Store V) : List (String × V) → Store V
  | [] => s
  | (k, v) :: rest => applyOverwrite (putOverwrite s k v) rest

/-- a DID document, as far as routing is concerned: who is reached and whose key encrypts -/
structure Doc where
  endpointOf : String
  keyOf : String
deriving DecidableEq, Repr

/-- inbound attribution -/
structure Envelope where
  fromKey : Option String       -- authenticated sender key (authcrypt), none for anoncrypt
  plaintextFrom : Option String -- the `from` member of the decrypted message

def attributeMsg (keyIndex : Store String) (e : Envelope) : Option String :=
  match e.fromKey with
  | some k => keyIndex k
  | none => e.plaintextFrom          -- C10-F2: taken from the message body, which anybody can write

/-- the contract: only an authenticated sender key attributes a message -/
def attributeSpec (keyIndex : Store String) (e : Envelope) : Option String :=
  match e.fromKey with
  | some k => keyIndex k
  | none => none

/-- connection record -/
structure Rec where
  my : String
  their : String
  state : String
deriving DecidableEq, Repr

/-- the writes of one completed exchange between inviter `a` and invitee `b` with fresh DIDs `da`, `db` -/
def exchangeWritesDid (a b da db : String) : List (String × Doc) := [(db, ⟨b, b⟩), (da, ⟨a, a⟩)]

end Conn
