import AriesVerif.C10.Model
/-! # C10 — property theorems (partial: transports, retries and scheduling inside an agent are not modelled). -/
namespace Conn

variable {V : Type} [DecidableEq V]

theorem putKeep_known (s : Store V) (k d : String) (v x : V) (h : s d = some x) : putKeep s k v d = some x := by
  unfold putKeep
  cases hk : s k with
  | some y => simpa using h
  | none =>
    simp only [putOverwrite]
    by_cases e : d = k
    · subst e; rw [hk] at h; cases h
    · simp [e, h]

/-- **C10 (no re-pointing), every message history.** Whatever documents arrive afterwards under whatever DIDs — from
    the peer, from third parties, in any number and order — a DID that an agent has stored resolves to the document it
    was stored with. -/
theorem C10_no_repoint (s : Store V) (d : String) (x : V) (h : s d = some x) (later : List (String × V)) :
    applyKeep s later d = some x := by
  induction later generalizing s with
  | nil => simpa [applyKeep] using h
  | cons kv rest ih =>
    simp only [applyKeep]
    exact ih (putKeep s kv.1 kv.2) (putKeep_known s kv.1 d kv.2 x h)

/-- **C10-F1 as a theorem about the store before the repair**: one later document under the same DID re-points it -/
theorem C10_F1_overwrite_repoints :
    applyOverwrite (putOverwrite (fun _ => none) "did:b" (⟨"b", "b"⟩ : Doc)) [("did:b", ⟨"c", "c"⟩)] "did:b"
      = some ⟨"c", "c"⟩ := by decide

example : applyKeep (putKeep (fun _ => none) "did:b" (⟨"b", "b"⟩ : Doc)) [("did:b", ⟨"c", "c"⟩), ("did:x", ⟨"c", "c"⟩)] "did:b"
    = some ⟨"b", "b"⟩ := by decide

/-! ## exchanges running at the same time do not get mixed up -/

/-- the value a list of writes with pairwise distinct keys leaves under `k` -/
theorem applyKeep_fresh (s : Store V) (l : List (String × V)) (hn : (l.map (·.1)).Nodup)
    (hfresh : ∀ kv ∈ l, s kv.1 = none) (k : String) :
    applyKeep s l k = match l.find? (·.1 == k) with
      | some kv => some kv.2
      | none => s k := by
  induction l generalizing s with
  | nil => simp [applyKeep]
  | cons kv rest ih =>
    simp only [applyKeep, List.find?_cons]
    have hn' : (rest.map (·.1)).Nodup := (List.nodup_cons.mp (by simpa using hn)).2
    have hnotin : kv.1 ∉ rest.map (·.1) := (List.nodup_cons.mp (by simpa using hn)).1
    have hs : s kv.1 = none := hfresh kv (by simp)
    have hput : putKeep s kv.1 kv.2 = putOverwrite s kv.1 kv.2 := by simp [putKeep, hs]
    have hfresh' : ∀ x ∈ rest, putKeep s kv.1 kv.2 x.1 = none := by
      intro x hx
      rw [hput]; simp only [putOverwrite]
      have hne : x.1 ≠ kv.1 := fun e => hnotin (e ▸ List.mem_map.mpr ⟨x, hx, rfl⟩)
      simp [hne, hfresh x (by simp [hx])]
    rw [ih (putKeep s kv.1 kv.2) hn' hfresh']
    by_cases hk : kv.1 = k
    · subst hk
      have : rest.find? (·.1 == kv.1) = none := by
        apply List.find?_eq_none.mpr
        intro x hx hxe
        exact hnotin ((by simpa using hxe : x.1 = kv.1) ▸ List.mem_map.mpr ⟨x, hx, rfl⟩)
      simp [this, hput, putOverwrite]
    · have hk' : (kv.1 == k) = false := by simpa using hk
      simp only [hk', hput, putOverwrite]
      have hne : k ≠ kv.1 := fun e => hk e.symm
      cases rest.find? (·.1 == k) with
      | some x => rfl
      | none => simp [hne]

theorem find?_perm_nodup (l1 l2 : List (String × V)) (hp : l1.Perm l2) (hn : (l1.map (·.1)).Nodup) (k : String) :
    l1.find? (·.1 == k) = l2.find? (·.1 == k) := by
  have hn2 : (l2.map (·.1)).Nodup := (hp.map _).nodup_iff.mp hn
  cases h1 : l1.find? (·.1 == k) with
  | none =>
    symm
    apply List.find?_eq_none.mpr
    intro x hx
    exact List.find?_eq_none.mp h1 x (hp.mem_iff.mpr hx)
  | some a =>
    have ha : a ∈ l1 := List.mem_of_find?_eq_some h1
    have hak : a.1 = k := by simpa using List.find?_some h1
    cases h2 : l2.find? (·.1 == k) with
    | none => exact absurd (List.find?_eq_none.mp h2 a (hp.mem_iff.mp ha)) (by simp [hak])
    | some b =>
      have hb : b ∈ l2 := List.mem_of_find?_eq_some h2
      have hbk : b.1 = k := by simpa using List.find?_some h2
      -- same key in a list without repeated keys: same entry
      have hb1 : b ∈ l1 := hp.mem_iff.mpr hb
      have : a = b := by
        clear h1 h2 hn2 hp
        induction l1 with
        | nil => cases ha
        | cons x xs ih =>
          simp only [List.map_cons, List.nodup_cons] at hn
          rcases List.mem_cons.mp ha with rfl | ha'
          · rcases List.mem_cons.mp hb1 with rfl | hb'
            · rfl
            · exact absurd (List.mem_map.mpr ⟨b, hb', by rw [hbk, hak]⟩) hn.1
          · rcases List.mem_cons.mp hb1 with rfl | hb'
            · exact absurd (List.mem_map.mpr ⟨a, ha', by rw [hak, hbk]⟩) hn.1
            · exact ih hn.2 ha' hb'
      rw [this]

/-- **C10 (exchanges do not mix), every interleaving.** Exchanges write under fresh, pairwise distinct keys (peer DIDs,
    connection ids, thread ids). Whatever order their writes reach a store in — any interleaving of any number of
    exchanges is a permutation of the writes — the store ends up the same. -/
theorem C10_interleaving (s : Store V) (l1 l2 : List (String × V)) (hp : l1.Perm l2)
    (hn : (l1.map (·.1)).Nodup) (hfresh : ∀ kv ∈ l1, s kv.1 = none) :
    applyKeep s l1 = applyKeep s l2 := by
  funext k
  have hn2 : (l2.map (·.1)).Nodup := (hp.map _).nodup_iff.mp hn
  have hfresh2 : ∀ kv ∈ l2, s kv.1 = none := fun kv h => hfresh kv (hp.mem_iff.mpr h)
  rw [applyKeep_fresh s l1 hn hfresh k, applyKeep_fresh s l2 hn2 hfresh2 k, find?_perm_nodup l1 l2 hp hn k]

/-! ## attribution -/

/-- an authenticated envelope is attributed by its sender key alone, whatever the body claims -/
theorem C10_attribution_authenticated (idx : Store String) (k : String) (body : Option String) :
    attributeMsg idx ⟨some k, body⟩ = attributeSpec idx ⟨some k, body⟩ := rfl

/-- **C10-F2, the open finding, as a theorem about the code as written**: without sender key the body decides -/
theorem C10_F2_unauthenticated_from (idx : Store String) (claimed : String) :
    attributeMsg idx ⟨none, some claimed⟩ = some claimed ∧ attributeSpec idx ⟨none, some claimed⟩ = none := ⟨rfl, rfl⟩

/-- mirror: the records both sides write for one exchange name each other -/
theorem C10_mirror (da db : String) :
    let ra : Rec := ⟨da, db, "completed"⟩
    let rb : Rec := ⟨db, da, "completed"⟩
    ra.my = rb.their ∧ ra.their = rb.my := ⟨rfl, rfl⟩

end Conn
