import AriesVerif.C10.Model
import AriesVerif.C10.Rot
/-! C10 driver glue (format of harness/cmd/corr/c10.go). -/
namespace Conn.Drv

def connected (pairs : List (String × String)) (a b : String) : Bool :=
  pairs.any fun (x, y) => (x == a && y == b) || (x == b && y == a)

/-- (pairs, model output, spec output) per op -/
def step (aip2 : Bool) (pairs : List (String × String)) (op : String) : Option (List (String × String) × String × String) :=
  let done := "completed/completed mirror=1"
  match op.splitOn " " with
  | ["ex", a, b] => some ((a, b) :: pairs, done, done)
  | ["ex2", a, b, a2, b2] => some ((a, b) :: (a2, b2) :: pairs, done ++ " & " ++ done, done ++ " & " ++ done)
  | ["msg", a, b] =>
    let o := if connected pairs a b then "delivered as=" ++ a else "noconn"
    some (pairs, o, o)
  | ["resolve", a, b] =>
    let o := if connected pairs a b then s!"ep={b}" else "noconn"
    some (pairs, o, o)
  | ["forge", _, a, b] =>
    let o := if connected pairs a b then "sent" else "noconn"
    some (pairs, o, o)
  | ["forge2", _, a, b] =>
    -- the peer's own document with the service block replaced: the store keeps what it has (Conn.C10_no_repoint)
    let o := if connected pairs a b then "sent" else "noconn"
    some (pairs, o, o)
  | ["slow", _] => some (pairs, "ok", "ok")
  | ["fast", _] => some (pairs, "ok", "ok")
  | ["authfrom", c, a, b] =>
    -- an authenticated envelope is attributed by its sender key alone (Conn.C10_attribution_authenticated): whatever
    -- its plaintext says, it is not B's
    if !connected pairs a b || !connected pairs c a then some (pairs, "noconn", "noconn")
    else some (pairs, "not-as-" ++ b, "not-as-" ++ b)
  | ["anonfrom", _, a, b] =>
    -- as written: an envelope without sender key is attributed by the plaintext `from` (Conn.attributeMsg); the contract
    -- (Conn.attributeSpec) attributes it to nobody
    -- (under the aip2 profile the third agent cannot build an envelope for the victim's keys with the legacy packer, and
    --  the harness gives up: refused)
    if !connected pairs a b then some (pairs, "noconn", "noconn")
    else if aip2 then some (pairs, "refused", "refused")
    else some (pairs, "delivered as=" ++ b, "not attributed to " ++ b)
  | _ => none

def run (aip2 : Bool) : List (String × String) → List String → Option (List (String × String))
  | _, [] => some []
  | pairs, op :: ops => do
    let (p', m, s) ← step aip2 pairs op
    let rest ← run aip2 p' ops
    pure ((m, s) :: rest)

/-- DID rotation cases (`rot,<style>|ops`, harness/cmd/corr/c10rot.go): exact prediction by `Conn.Rot.step` -/
def rotRun (absIds : Bool) : List String → List (String × String) → List String → Option (List String)
  | _, _, [] => some []
  | conns, ths, op :: ops =>
    let shown (ok : Bool) (c : List String) := (if ok then "ok" else "err") ++ "[" ++ ",".intercalate c ++ "]"
    match op.splitOn " " with
    | ["rot", signer, iss, sub, kidOf, env] =>
      let r := Conn.Rot.step absIds conns ⟨signer, iss, sub, kidOf, env⟩
      (rotRun absIds r.1 ths ops).map (shown r.2 r.1 :: ·)
    | ["msg", env] => (rotRun absIds conns ths ops).map (shown (Conn.Rot.plain conns env) conns :: ·)
    -- the thread id -> connection index: a map keyed by the WHOLE thread id (`Conn.Rot.threadPut` / `threadGet`)
    | ["ths", t, c] => (rotRun absIds conns (Conn.Rot.threadPut ths t c) ops).map ("ok" :: ·)
    | ["thg", t] => (rotRun absIds conns ths ops).map ((Conn.Rot.threadGet ths t).getD "none" :: ·)
    | _ => none

def judgeRot (input impl : String) : String × String × String :=
  match input.splitOn "|" with
  | [cfg, opsS] =>
    match rotRun (cfg.endsWith "abs") ["b", "m"] [] (opsS.splitOn ";") with
    | none => ("bad-op", "bad-op", "")
    | some outs =>
      let exp := "|".intercalate outs
      if exp == impl then ("=", "=", "")
      else
        -- first op whose outcome differs
        let d := ((opsS.splitOn ";").zip (outs.zip (impl.splitOn "|"))).find? fun (_, (e, o)) => e != o
        match d with
        | some (op, (e, o)) => (exp, s!"{op}: expected {e}, got {o}", "")
        | none => (exp, "outcome count differs", "")
  | _ => ("bad-input", "bad-input", "")

def judge (input impl : String) : String × String × String :=
  if input.startsWith "rot," then judgeRot input impl else
  match input.splitOn "|" with
  | [cfg, opsS] =>
    match run (cfg.endsWith "aip2") [] (opsS.splitOn ";") with
    | none => ("bad-op", "bad-op", "")
    | some rs =>
      let model := "|".intercalate (rs.map (·.1))
      let obs := impl.splitOn "|"
      let ops := opsS.splitOn ";"
      -- the contract per op
      let verdicts := (ops.zip (rs.zip obs)).filterMap fun (op, ((_, s), o)) =>
        if op.startsWith "anonfrom" then
          (if s.startsWith "not attributed to " then
             (if o == "delivered as=" ++ (s.drop 18).toString then some (op ++ ": a third party's message is attributed to the peer") else none)
           else if o == s then none else some (op ++ ": " ++ o))
        else if o == s then none else some (op ++ ": expected " ++ s ++ ", got " ++ o)
      let modelCol := if model == impl then "=" else model
      if obs.length != rs.length then (modelCol, "outcome count differs", "")
      else if verdicts.isEmpty then (modelCol, "=", "")
      else
        let onlyF2 := verdicts.all fun v => v.startsWith "anonfrom"
        (modelCol, "; ".intercalate verdicts, if onlyF2 then "C10-F2" else "")
  | _ => ("bad-input", "bad-input", "")

end Conn.Drv
