import AriesVerif.C15.Model
/-! # C14 — Model: nested forwards (`outbound.createPackedNestedForwards`), mediator hops (`mediator.handleForward`)
and the route table fed by keylist updates (`mediator.handleKeylistUpdate`). Encryption is symbolic: an envelope
`enc rs m` can be opened by exactly the holders of the keys in `rs`. -/
namespace Route

abbrev KeyId := Nat

inductive Msg
  | app (id : Nat)                          -- the application message (plaintext)
  | fwd (to : KeyId) (inner : Msg)          -- {"@type": forward, "to": to, "msg": inner}
  | enc (rcpts : List KeyId) (inner : Msg)  -- packed envelope for the holders of `rcpts`
deriving DecidableEq, Repr

/-- `for i, key := range keys { if i+1 >= len(keys) {break}; msg = pack(forward{to: key, msg}, [keys[i+1]]) }`
    with `keys = recipientKeys[0] :: routingKeys`. -/
def nest : Msg → List KeyId → Msg
  | m, k :: k' :: rest => nest (.enc [k'] (.fwd k m)) (k' :: rest)
  | m, _ => m

/-- what the holder of `k` obtains from an incoming envelope: it opens its layer and reads the forward. -/
def hop (k : KeyId) : Msg → Option (KeyId × Msg)
  | .enc rs (.fwd to inner) => if k ∈ rs then some (to, inner) else none
  | _ => none

/-- the mediators act last routing key first; each passes `inner` on to the agent registered for `to`. -/
def relay : List KeyId → Msg → Option (KeyId × Msg)
  | [], _ => none
  | [k], m => hop k m
  | k :: ks, m => match hop k m with
      | some (_, inner) => relay ks inner
      | none => none

/-- `reads K t m`: can somebody who holds exactly the keys `K` obtain the term `t` from `m`? -/
def reads (K : List KeyId) (t : Msg) : Msg → Bool
  | .app i => t == .app i
  | .fwd to inner => t == .fwd to inner || reads K t inner
  | .enc rs inner => t == .enc rs inner || (rs.any (fun r => K.contains r) && reads K t inner)

/-- who can open an envelope -/
def openers : Msg → List KeyId
  | .enc rs _ => rs
  | _ => []

/-! ## the mediator next to the clients: route table, reachability, inbox (the C15 model) -/

structure Med where
  routes : List (KeyId × Nat)      -- (key, client) pairs, newest first: `routeStore.Put(key, theirDID)`
  offline : List Nat               -- clients whose endpoint is unreachable
  inbox : C15.Model.Store          -- messagepickup store, keyed by the client's DID
  sentTo : List (Nat × List KeyId) -- ghost: message id ↦ keys its innermost envelope was packed for

def Med.init : Med := ⟨[], [], C15.Model.init, []⟩

def lookup (k : KeyId) : List (KeyId × Nat) → Option Nat
  | [] => none
  | (k', c) :: rest => if k' = k then some c else lookup k rest

def clientDid (c : Nat) : String := s!"did:test:c{c}"

inductive Delivery
  | sent (c : Nat)
  | held (c : Nat)
  | err
deriving DecidableEq, Repr

/-- `handleForward`: route lookup by `to`; `outbound.Forward` to the registered DID; when that fails the message is
    put in that DID's inbox. -/
def Med.forward (m : Med) (to : KeyId) (id : Nat) : Med × Delivery :=
  match lookup to m.routes with
  | none => (m, .err)
  | some c =>
    if m.offline.contains c then
      let r := C15.Model.addMessage m.inbox (clientDid c) id .none
      ({ m with inbox := r.1 }, .held c)
    else (m, .sent c)

/-- `handleKeylistUpdate`: `add` overwrites the entry for the key (no ownership check), `remove` is not implemented
    and answers `server_error`. -/
def Med.add (m : Med) (c : Nat) (k : KeyId) : Med := { m with routes := (k, c) :: m.routes }

inductive Op
  | add (c : Nat) (k : KeyId)
  | rem (c : Nat) (k : KeyId)
  | off (c : Nat)
  | on (c : Nat)
  | fwd (k : KeyId) (id : Nat) (rcpts : List KeyId)   -- a forward addressed to `k` whose payload is packed for `rcpts`
  | pick (c : Nat)
deriving Repr

inductive Out
  | resp (result : String)
  | ok
  | delivery (d : Delivery)
  | batch (ms : Option (List Nat))
deriving Repr

def Med.step (m : Med) : Op → Med × Out
  | .add c k => (m.add c k, .resp "success")
  | .rem _ _ => (m, .resp "server_error")
  | .off c => ({ m with offline := c :: m.offline.filter (· != c) }, .ok)
  | .on c => ({ m with offline := m.offline.filter (· != c) }, .ok)
  | .fwd k id rs =>
      let r := m.forward k id
      ({ r.1 with sentTo := (id, rs) :: r.1.sentTo }, .delivery r.2)
  | .pick c =>
      match C15.Model.batchPickup m.inbox (clientDid c) 100 .none with
      | (s, .batch ms) => ({ m with inbox := s }, .batch (some ms))
      | (s, _) => ({ m with inbox := s }, .batch none)

def Med.run (m : Med) : List Op → Med
  | [] => m
  | op :: ops => (m.step op).1.run ops

/-- the client that most recently registered `k` in a history (oldest op first) -/
def lastAdder (k : KeyId) : List Op → Option Nat
  | [] => none
  | op :: ops =>
    match lastAdder k ops with
    | some c => some c
    | none => match op with
      | .add c k' => if k' = k then some c else none
      | _ => none

end Route
