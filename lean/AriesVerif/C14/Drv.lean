import AriesVerif.C14.Model
import AriesVerif.Base.Util
/-! C14 driver glue (same line format as harness/cmd/corr/c14.go).

`handle` runs the term-level model (`nest`, `hop`, `reads`, `Med.step` with the C15 inbox model); `handleSpec` is the
closed-form contract: layer `i` is opened by mediator `i` only, names the previous key, leaks nothing; the innermost
mediator hands the message to the client that registered the key most recently (`lastAdder` over the history so far),
or holds it in a FIFO inbox (C15 Spec) while that client is unreachable; an unregistered key is refused. -/
namespace Route.Drv
open Route Util

def keyOf : String → Option KeyId
  | "k0" => some 0 | "k1" => some 201 | "k2" => some 202 | "k3" => some 203 | _ => none

def clientOf : String → Option Nat
  | "c0" => some 0 | "c1" => some 1 | "c2" => some 2 | _ => none

/-- the agent holding a key -/
def holder (k : KeyId) : String :=
  if k == 0 then "c0" else if k == 100 then "Rb" else if k == 201 then "c1" else if k == 202 then "c2"
  else if k == 203 then "O" else s!"M{k}"

def keyName (k : KeyId) : String := if k == 0 then "k0" else holder k

def ownKey (c : Nat) : KeyId := if c == 0 then 0 else 200 + c

def showOpeners (rs : List KeyId) : String :=
  if rs.isEmpty then "-" else "+".intercalate (sortStrings (rs.map holder))

structure Cfg where
  n : Nat
  nrec : Nat

def parseCfg (s : String) : Option Cfg :=
  match s.splitOn "," with
  | [_, _, n, nrec, _] => do let n ← n.toNat?; let r ← nrec.toNat?; pure ⟨n, r⟩
  | _ => none

def rcptsOf (c : Cfg) : List KeyId := if c.nrec == 2 then [0, 100] else [0]

def showDelivery : Delivery → String
  | .sent c => s!"sent:c{c}" | .held c => s!"held:c{c}" | .err => "err"

/-- the chain part of a `send`: returns the items for layers n..2 and the envelope that reaches mediator 1 -/
def upperLayers (id : Nat) : Nat → Msg → List String × Option Msg
  | 0, cur => ([], some cur)
  | 1, cur => ([], some cur)
  | i + 1, cur =>
    match hop (i + 1) cur with
    | none => ([s!"L{i+1}:open={showOpeners (openers cur)},to=-,leak=0,next=err"], none)
    | some (to, inner) =>
      let leak := if reads [i + 1] (.app id) cur then "1" else "0"
      let item := s!"L{i+1}:open={showOpeners (openers cur)},to={keyName to},leak={leak},next=sent:M{to}"
      let r := upperLayers id i inner
      (item :: r.1, r.2)

def canOpen (c : Nat) (m : Med) (id : Nat) : Bool :=
  match m.sentTo.find? (·.1 == id) with
  | some (_, rs) => rs.contains (ownKey c)
  | none => false

def stepLine (cfg : Cfg) (m : Med) (seq : Nat) (op : String) : Option (Med × String) :=
  match op.splitOn " " with
  | ["add", c, k] => do let c ← clientOf c; let k ← keyOf k; pure ((m.step (.add c k)).1, "ok:success")
  | ["addb", c, k] =>     -- the registration reaches a second instance of the mediator over the same store: same effect
    do let c ← clientOf c; let k ← keyOf k; pure ((m.step (.add c k)).1, "ok:success")
  | ["addf", c, k] =>     -- the store fails during the registration: the client is told, the route table is as before
    do let _ ← clientOf c; let _ ← keyOf k; pure (m, "ok:server_error")
  | ["rem", c, k] => do let c ← clientOf c; let k ← keyOf k; pure ((m.step (.rem c k)).1, "ok:server_error")
  | ["off", c] => do let c ← clientOf c; pure ((m.step (.off c)).1, "ok")
  | ["on", c] => do let c ← clientOf c; pure ((m.step (.on c)).1, "ok")
  | ["send"] =>
    let rs := rcptsOf cfg
    let inner := Msg.enc rs (.app seq)
    let wire := nest inner (0 :: (List.range cfg.n).map (· + 1))
    if cfg.n == 0 then
      if m.offline.contains 0 then some (m, "send=err")
      else some (m, s!"send=ok final:got=c0,open={showOpeners (openers wire)},payload={if (openers wire).contains 0 then "1" else "0"}")
    else
      let (items, cur) := upperLayers seq cfg.n wire
      match cur with
      | none => some (m, " ".intercalate ("send=ok" :: items ++ ["final:lost"]))
      | some cur =>
        match hop 1 cur with
        | none => some (m, " ".intercalate ("send=ok" :: items ++
            [s!"L1:open={showOpeners (openers cur)},to=-,leak=0,next=err", "final:lost"]))
        | some (to, env) =>
          let leak := if reads [1] (.app seq) cur then "1" else "0"
          let r := m.step (.fwd to seq rs)
          let d := match r.2 with | .delivery d => d | _ => .err
          let l1 := s!"L1:open={showOpeners (openers cur)},to={keyName to},leak={leak},next={showDelivery d}"
          let fin := match d with
            | .sent c => s!"final:got=c{c},open={showOpeners (openers env)},payload={if (openers env).contains 0 then "1" else "0"}"
            | .held c => s!"final:got=inbox:c{c}"
            | .err => "final:lost"
          some (r.1, " ".intercalate ("send=ok" :: items ++ [l1, fin]))
  | ["fwd", k] => do
    let k ← keyOf k
    let r := m.step (.fwd k seq [k])
    let d := match r.2 with | .delivery d => d | _ => .err
    let s := match d with
      | .sent c => s!"sent:c{c}:open={holder k}"
      | d => showDelivery d
    pure (r.1, s)
  | ["pick", c] => do
    let c ← clientOf c
    let r := m.step (.pick c)
    let s := match r.2 with
      | .batch (some ms) =>
        if ms.isEmpty then "batch:-"
        else "batch:" ++ ",".intercalate (ms.map fun id => if canOpen c m id then s!"m{id}" else "x")
      | _ => "err"
    pure (r.1, s)
  | _ => none

def runLines (cfg : Cfg) : Med → Nat → List String → Option (List String)
  | _, _, [] => some []
  | m, seq, op :: ops => do
    let (m', out) ← stepLine cfg m seq op
    let rest ← runLines cfg m' (seq + 1) ops
    pure (out :: rest)

def handle (input : String) : String :=
  match input.splitOn "|" with
  | [cfg, ops] =>
    match parseCfg cfg with
    | none => "bad-input"
    | some c =>
      match runLines c Med.init 1 (ops.splitOn ";") with
      | some outs => "|".intercalate outs
      | none => "bad-op"
  | _ => "bad-input"

/-! ## closed-form contract -/

structure SpecState where
  hist : List Op                      -- history so far, newest first
  offline : List Nat
  inbox : C15.Inboxes
  sentTo : List (Nat × List KeyId)

def specForward (s : SpecState) (k : KeyId) (id : Nat) (rs : List KeyId) : SpecState × Delivery :=
  let s := { s with sentTo := (id, rs) :: s.sentTo }
  match lastAdder k s.hist.reverse with
  | none => (s, .err)
  | some c =>
    if s.offline.contains c then
      ({ s with inbox := (C15.step s.inbox (.add (clientDid c) id .none)).1 }, .held c)
    else (s, .sent c)

def specStep (cfg : Cfg) (s : SpecState) (seq : Nat) (op : String) : Option (SpecState × String) :=
  match op.splitOn " " with
  | ["add", c, k] => do
    let c ← clientOf c; let k ← keyOf k
    pure ({ s with hist := .add c k :: s.hist }, "ok:success")
  | ["addb", c, k] => do
    let c ← clientOf c; let k ← keyOf k
    pure ({ s with hist := .add c k :: s.hist }, "ok:success")
  | ["addf", c, k] => do let _ ← clientOf c; let _ ← keyOf k; pure (s, "ok:server_error")
  | ["rem", c, k] => do let _ ← clientOf c; let _ ← keyOf k; pure (s, "ok:server_error")
  | ["off", c] => do let c ← clientOf c; pure ({ s with offline := c :: s.offline }, "ok")
  | ["on", c] => do let c ← clientOf c; pure ({ s with offline := s.offline.filter (· != c) }, "ok")
  | ["send"] =>
    let rs := rcptsOf cfg
    let final := s!"open={showOpeners rs},payload=1"
    if cfg.n == 0 then
      if s.offline.contains 0 then some (s, "send=err") else some (s, s!"send=ok final:got=c0,{final}")
    else
      let upper := ((List.range (cfg.n - 1)).map fun j =>
        let i := cfg.n - j
        s!"L{i}:open=M{i},to=M{i-1},leak=0,next=sent:M{i-1}")
      let r := specForward s 0 seq rs
      let l1 := s!"L1:open=M1,to=k0,leak=0,next={showDelivery r.2}"
      let fin := match r.2 with
        | .sent c => s!"final:got=c{c},{final}"
        | .held c => s!"final:got=inbox:c{c}"
        | .err => "final:lost"
      some (r.1, " ".intercalate ("send=ok" :: upper ++ [l1, fin]))
  | ["fwd", k] => do
    let k ← keyOf k
    let r := specForward s k seq [k]
    let str := match r.2 with
      | .sent c => s!"sent:c{c}:open={holder k}"
      | d => showDelivery d
    pure (r.1, str)
  | ["pick", c] => do
    let c ← clientOf c
    let r := C15.step s.inbox (.pickup (clientDid c) 100 .none)
    let str := match r.2 with
      | .batch ms =>
        if ms.isEmpty then "batch:-"
        else "batch:" ++ ",".intercalate (ms.map fun id =>
          match s.sentTo.find? (·.1 == id) with
          | some (_, rs) => if rs.contains (ownKey c) then s!"m{id}" else "x"
          | none => "x")
      | _ => "err"
    pure ({ s with inbox := r.1 }, str)
  | _ => none

def specLines (cfg : Cfg) : SpecState → Nat → List String → Option (List String)
  | _, _, [] => some []
  | s, seq, op :: ops => do
    let (s', out) ← specStep cfg s seq op
    let rest ← specLines cfg s' (seq + 1) ops
    pure (out :: rest)

def handleSpec (input : String) : String :=
  match input.splitOn "|" with
  | [cfg, ops] =>
    match parseCfg cfg with
    | none => "bad-input"
    | some c =>
      match specLines c ⟨[], [], fun _ => none, []⟩ 1 (ops.splitOn ";") with
      | some outs => "|".intercalate outs
      | none => "bad-op"
  | _ => "bad-input"

end Route.Drv
