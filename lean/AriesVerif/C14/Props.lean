import AriesVerif.C14.Model
/-! # C14 — property theorems (routing keys of every number, route histories of every length). -/
namespace Route

/-- the view of the outermost mediator: its layer names the previous key and wraps the rest of the nesting. -/
theorem nest_snoc (m : Msg) (r : KeyId) (ks : List KeyId) (k : KeyId) :
    nest m (r :: (ks ++ [k])) = .enc [k] (.fwd ((r :: ks).getLast (by simp)) (nest m (r :: ks))) := by
  induction ks generalizing m r with
  | nil => simp [nest]
  | cons k1 ks ih =>
    have h1 : nest m (r :: (k1 :: ks ++ [k])) = nest (.enc [k1] (.fwd r m)) (k1 :: (ks ++ [k])) := by
      simp [nest]
    have h2 : nest m (r :: k1 :: ks) = nest (.enc [k1] (.fwd r m)) (k1 :: ks) := by simp [nest]
    rw [h1, ih, h2]
    simp [List.getLast_cons]

theorem relay_cons (k : KeyId) (ks : List KeyId) (m : Msg) (h : ks ≠ []) :
    relay (k :: ks) m = match hop k m with
      | some (_, inner) => relay ks inner
      | none => none := by
  cases ks with
  | nil => exact absurd rfl h
  | cons y ys => cases hh : hop k m <;> simp [relay, hh]

/-- **C14 (unwrap), every chain length.** Unwrapping by the mediators in order (last routing key first) hands
    exactly the original packed message to the holder of the recipient key, and the last mediator is told that key. -/
theorem relay_rev (m : Msg) (r : KeyId) (ks : List KeyId) (h : ks ≠ []) :
    relay ks (nest m (r :: ks.reverse)) = some (r, m) := by
  induction ks generalizing m r with
  | nil => exact absurd rfl h
  | cons k rest ih =>
    rw [List.reverse_cons, nest_snoc]
    cases hrest : rest with
    | nil => simp [relay, hop, nest]
    | cons a as =>
      have hne : rest ≠ [] := by simp [hrest]
      rw [← hrest, relay_cons _ _ _ hne]
      simp only [hop, List.mem_singleton, if_true]
      exact ih m r hne

theorem C14_unwrap (m : Msg) (r : KeyId) (rk : List KeyId) (h : rk ≠ []) :
    relay rk.reverse (nest m (r :: rk)) = some (r, m) := by
  have := relay_rev m r rk.reverse (by simpa using h)
  simpa using this

/-- no routing key: nothing is wrapped. -/
theorem C14_unwrap_nil (m : Msg) (r : KeyId) : nest m [r] = m := by simp [nest]

/-- **C14 (view).** A mediator that opens the outermost layer with key `k` learns the key of the next hop and an
    envelope; when there is a further hop that envelope is packed for the next hop's key only. -/
theorem C14_view (m : Msg) (r : KeyId) (ks : List KeyId) (k : KeyId) :
    hop k (nest m (r :: (ks ++ [k]))) = some ((r :: ks).getLast (by simp), nest m (r :: ks)) := by
  rw [nest_snoc]; simp [hop]

theorem C14_view_inner (m : Msg) (r : KeyId) (ks : List KeyId) (k' : KeyId) :
    openers (nest m (r :: (ks ++ [k']))) = [k'] := by
  rw [nest_snoc]; rfl

theorem reads_nest (K : List KeyId) (t m : Msg) (ks : List KeyId)
    (ht : ∀ rs to inner, t ≠ .enc rs inner ∧ t ≠ .fwd to inner) (h : reads K t m = false) :
    reads K t (nest m ks) = false := by
  induction ks generalizing m with
  | nil => simpa [nest] using h
  | cons k rest ih =>
    cases rest with
    | nil => simpa [nest] using h
    | cons k' rest' =>
      have : nest m (k :: k' :: rest') = nest (.enc [k'] (.fwd k m)) (k' :: rest') := by simp [nest]
      rw [this]
      apply ih
      have h1 := (ht [k'] k (.fwd k m)).1
      have h2 := (ht [k'] k m).2
      simp [reads, h, h1, h2]

/-- **C14 (opacity).** Whoever holds none of the keys the application message was packed for — any mediator, any
    coalition of all mediators, the transport — cannot obtain the application message from what is sent. -/
theorem C14_opaque (K : List KeyId) (i : Nat) (rs : List KeyId) (ks : List KeyId)
    (hK : ∀ r ∈ rs, r ∉ K) :
    reads K (.app i) (nest (.enc rs (.app i)) ks) = false := by
  apply reads_nest
  · intro rs to inner; exact ⟨by simp, by simp⟩
  · simp [reads]; exact hK

/-- and the recipient does obtain it (the statement above is not vacuous) -/
theorem C14_recipient_reads (K : List KeyId) (i : Nat) (rs : List KeyId) (r : KeyId)
    (hr : r ∈ rs) (hk : r ∈ K) :
    reads K (.app i) (.enc rs (.app i)) = true := by
  simp [reads]; exact ⟨r, hr, hk⟩

/-! ## routing table -/

theorem routes_run (m : Med) (ops : List Op) (k : KeyId) :
    lookup k (m.run ops).routes = match lastAdder k ops with
      | some c => some c
      | none => lookup k m.routes := by
  induction ops generalizing m with
  | nil => simp [Med.run, lastAdder]
  | cons op ops ih =>
    simp only [Med.run, lastAdder]
    rw [ih]
    cases hl : lastAdder k ops with
    | some c => rfl
    | none =>
      cases op with
      | add c k' =>
        simp only [Med.step, Med.add, lookup]
        by_cases hk : k' = k <;> simp [hk]
      | rem c k' => simp [Med.step]
      | off c => simp [Med.step]
      | on c => simp [Med.step]
      | fwd k' id rs =>
        simp only [Med.step, Med.forward]
        cases lookup k' m.routes with
        | none => rfl
        | some c => dsimp only; split <;> rfl
      | pick c =>
        simp only [Med.step]
        split <;> rfl

/-- **C14 (route), every history.** After any history of keylist updates, forwards and pickups from any number of
    clients, the mediator's table maps a key to the client that most recently registered it, and to nobody when no
    client did. -/
theorem C14_route_table (ops : List Op) (k : KeyId) :
    lookup k (Med.init.run ops).routes = lastAdder k ops := by
  rw [routes_run]; cases lastAdder k ops <;> simp [Med.init, lookup]

/-- a forward is handed to (or held for) the registered client and nobody else -/
theorem C14_forward_registered (m : Med) (to : KeyId) (id c : Nat)
    (h : (m.forward to id).2 = .sent c ∨ (m.forward to id).2 = .held c) : lookup to m.routes = some c := by
  unfold Med.forward at h
  cases hl : lookup to m.routes with
  | none => simp [hl] at h
  | some c' =>
    simp only [hl] at h
    split at h <;> simp at h <;> simp [h]

/-- a forward for a key nobody registered is refused and changes nothing -/
theorem C14_forward_unregistered (m : Med) (to : KeyId) (id : Nat) (h : lookup to m.routes = none) :
    m.forward to id = (m, .err) := by
  simp [Med.forward, h]

theorem addMessage_other (s : C15.Model.Store) (d d' : String) (x : Nat) (h : d' ≠ d) :
    (C15.Model.addMessage s d x .none).1 d' = s d' := by
  unfold C15.Model.addMessage
  simp only [C15.Model.fails]
  cases s d <;> simp [C15.Model.put, h]

/-- holding a message touches the inbox of the registered client only -/
theorem C14_held_only_there (m : Med) (to : KeyId) (id : Nat) (d : String)
    (h : ∀ c, lookup to m.routes = some c → d ≠ clientDid c) :
    (m.forward to id).1.inbox d = m.inbox d := by
  unfold Med.forward
  cases hl : lookup to m.routes with
  | none => rfl
  | some c =>
    dsimp only
    split
    · exact addMessage_other _ _ _ _ (h c hl)
    · rfl

/-- a held message is in the registered client's inbox afterwards (it is not dropped) -/
theorem C14_held_there (m : Med) (to : KeyId) (id c : Nat) (h : (m.forward to id).2 = .held c) :
    ∃ doc, (m.forward to id).1.inbox (clientDid c) = some doc ∧ id ∈ doc.msgs := by
  unfold Med.forward at h ⊢
  cases hl : lookup to m.routes with
  | none => simp [hl] at h
  | some c' =>
    simp only [hl] at h ⊢
    split at h
    · rename_i hoff
      simp at h; subst h
      simp only [hoff, if_true]
      unfold C15.Model.addMessage
      simp only [C15.Model.fails]
      cases hs : m.inbox (clientDid c') with
      | none => simp [C15.Model.put, C15.Model.encode]
      | some doc => simp [C15.Model.put, C15.Model.encode]
    · simp at h

/-- non-vacuity: four routing keys, two recipient keys -/
example : relay [4, 3, 2, 1] (nest (.enc [9, 10] (.app 0)) [9, 1, 2, 3, 4]) = some (9, .enc [9, 10] (.app 0)) := by decide
example : reads [1, 2, 3, 4] (.app 0) (nest (.enc [9, 10] (.app 0)) [9, 1, 2, 3, 4]) = false := by decide
example : reads [10] (.app 0) (.enc [9, 10] (.app 0)) = true := by decide
example : lastAdder 7 [.add 0 7, .fwd 7 1 [7], .add 1 7, .rem 1 7] = some 1 := by decide

end Route
