import AriesVerif.C18.Flat
import AriesVerif.C18.Model
/-! # C18 — property theorems -/
namespace C18
open Flat

/-- **exactness** (flat claims): for every claim list, every selective-disclosure choice and every sub-list of the
    disclosures the holder presents, the verifier outputs exactly the always-visible claims plus the chosen ones, with
    their issued values -/
theorem C18_exact (claims : List Claim) (sdNames : List String) (chosen : List Disc)
    (hsub : chosen.Sublist (issue claims sdNames).discs)
    (hnames : ((issue claims sdNames).visible ++ chosen.map (·.claim)).map (·.name) |>.Nodup)
    (hnd : (issue claims sdNames).discs.Nodup) :
    Flat.verify (present (issue claims sdNames) chosen)
      = some ((issue claims sdNames).visible ++ chosen.map (·.claim)) := by
  unfold Flat.verify present
  have h1 : chosen.all (issue claims sdNames).sd.contains = true := by
    rw [List.all_eq_true]; intro d hd
    have : d ∈ (issue claims sdNames).discs := hsub.subset hd
    simpa [issue] using this
  have h2 : chosen.Nodup := hnd.sublist hsub
  simp only [h1, h2, Bool.not_true, Bool.false_eq_true, if_false, decide_true, hnames, if_true]

/-- the issuer's disclosures are pairwise distinct (fresh salts), so `C18_exact`'s premise is met by every issuance -/
theorem issue_nodup (claims : List Claim) (sdNames : List String) : (issue claims sdNames).discs.Nodup := by
  unfold issue
  simp only
  generalize (claims.filter fun c => sdNames.contains c.name) = l
  have : ∀ (l : List Claim) (k : Nat), ((l.zipIdx k).map fun (c, i) => (⟨i, c⟩ : Disc)).Nodup := by
    intro l
    induction l with
    | nil => intro k; simp
    | cons x xs ih =>
      intro k
      simp only [List.zipIdx_cons, List.map_cons, List.nodup_cons]
      refine ⟨?_, ih (k + 1)⟩
      intro hm
      simp only [List.mem_map, Prod.exists] at hm
      obtain ⟨c, i, hmem, heq⟩ := hm
      have hi : i = k := by injection heq
      have := List.le_snd_of_mem_zipIdx hmem  -- k + 1 ≤ i
      omega
  exact this l 0

/-- a disclosure the issuer never committed to is rejected, whatever else is presented -/
theorem C18_uncommitted_rejected (i : Issued) (chosen : List Disc) (d : Disc) (h : d ∉ i.sd) :
    Flat.verify (present i (d :: chosen)) = none := by
  unfold Flat.verify present
  have : (d :: chosen).all i.sd.contains = false := by
    simp only [List.all_cons, Bool.and_eq_false_imp]
    intro hc; exact absurd (List.contains_iff_mem.mp hc) h
  simp [this]

/-- a duplicated disclosure is rejected -/
theorem C18_duplicate_rejected (i : Issued) (chosen : List Disc) (d : Disc) (h : d ∈ chosen) :
    Flat.verify (present i (d :: chosen)) = none := by
  unfold Flat.verify present
  by_cases hall : (d :: chosen).all i.sd.contains = true
  · have : ¬ (d :: chosen).Nodup := by simp [h]
    simp [hall, this]
  · simp [hall]

/-- an altered disclosure (any change of salt, name or value) of a committed one is a different disclosure: rejected
    unless the issuer also committed to the altered triple -/
theorem C18_altered_rejected (i : Issued) (chosen : List Disc) (d d' : Disc) (_hne : d' ≠ d) (h : d' ∉ i.sd) :
    Flat.verify (present i (d' :: chosen)) = none := C18_uncommitted_rejected i chosen d' h

/-- nothing about an undisclosed claim is in the verifier's output: every output claim is visible or chosen -/
theorem C18_output_subset (p : Presentation) (out : List Claim) (h : Flat.verify p = some out) (c : Claim) (hc : c ∈ out) :
    c ∈ p.visible ∨ ∃ d ∈ p.discs, d.claim = c := by
  unfold Flat.verify at h
  split at h; · cases h
  split at h; · cases h
  simp only at h
  split at h
  · cases h
    rcases List.mem_append.mp hc with h1 | h1
    · exact Or.inl h1
    · right
      obtain ⟨d, hd, rfl⟩ := List.mem_map.mp h1
      exact ⟨d, hd, rfl⟩
  · cases h

end C18
