/-! # C18 — flat claims: issuer digests, holder subset, verifier reconstruction with an ideal salted hash.
    (The general, nested model is `C18/Model.lean`; this file carries the statements that are proved for all inputs.) -/
namespace C18.Flat

structure Claim where
  name : String
  value : Nat
deriving DecidableEq, Repr

/-- a disclosure is (salt, name, value); its digest is an injective symbolic hash of the triple -/
structure Disc where
  salt : Nat
  claim : Claim
deriving DecidableEq, Repr

abbrev Digest := Disc          -- ideal hash: the digest *is* the pre-image, compared only for equality

structure Issued where
  visible : List Claim         -- always-visible claims in the signed payload
  sd : List Digest             -- `_sd` array in the signed payload
  discs : List Disc            -- disclosures handed to the holder

/-- issuer: every claim in `sdNames` gets a fresh salt (its index) and moves behind a digest -/
def issue (claims : List Claim) (sdNames : List String) : Issued :=
  let sdc := claims.filter fun c => sdNames.contains c.name
  let ds := sdc.zipIdx.map fun (c, i) => (⟨i, c⟩ : Disc)
  { visible := claims.filter (fun c => !sdNames.contains c.name), sd := ds, discs := ds }

structure Presentation where
  visible : List Claim
  sd : List Digest
  discs : List Disc            -- chosen by the holder (or forged by someone else)

def present (i : Issued) (chosen : List Disc) : Presentation := ⟨i.visible, i.sd, chosen⟩

/-- verifier: every presented disclosure must hash to a digest of the signed payload, no disclosure twice, no name
    clash; output = visible ++ disclosed -/
def verify (p : Presentation) : Option (List Claim) :=
  if !p.discs.all p.sd.contains then none                         -- digest not found in the SD-JWT
  else if !p.discs.Nodup then none                                  -- duplicated disclosure
  else
    let out := p.visible ++ p.discs.map (·.claim)
    if (out.map (·.name)).Nodup then some out else none            -- claim name already exists at this level

end C18.Flat
