import AriesVerif.Base.Json
/-! # C18 — Model: the verifier's reconstruction (`common.discloseClaimValue`, `VerifyDisclosuresInSDJWT`,
`GetDisclosedClaims`, `verifier.Parse`) over SYMBOLIC digests (ideal salted hash): a digest is `"#i"`, the index of the
disclosure that hashes to it, or `"#decoy"`. `T` is the list of all disclosures the issuer produced (decoded arrays
`[salt, name, value]` or `[salt, value]`), `S` the indices presented. -/
namespace C18
open Base

inductive Err | dupDigest | badElements | nameClash | notFound | badStruct | fuel
deriving Repr, DecidableEq

/-- `"#12"` ↦ 12; `"#decoy"` and anything else ↦ none -/
def digestId (s : String) : Option Nat :=
  match s.toList with
  | '#' :: d => (String.ofList d).toNat?
  | _ => none

structure Ctx where
  T : List J
  S : List Nat
  cleanup : Bool        -- `cleanupDigestsClaims`

structure Acc where
  seen : List String    -- `nestedSD`: digests met so far
  found : List Nat      -- presented disclosures whose digest was reached (`IsValueParsed`)

def discArr (c : Ctx) (i : Nat) : Option (List J) :=
  match c.T[i]? with
  | some (.arr l) => some l
  | _ => none

mutual
/-- `discloseClaimValue` -/
def disclose (c : Ctx) : Nat → J → Acc → Except Err (J × Acc)
  | 0, _, _ => .error .fuel
  | fuel + 1, .arr l, a => do
      let (vs, a') ← discloseArr c fuel l a
      if vs.isEmpty then pure (.null, a') else pure (.arr vs, a')      -- an empty result is returned as nil
  | fuel + 1, .obj kvs, a => do
      -- the `_sd` digests of this level first
      let sd := match (kvs.find? (·.1 == "_sd")).map (·.2) with
        | some (.arr ds) => ds
        | _ => []
      let (disclosed, missing, a1) ← discloseSD c fuel sd a
      let start : List (String × J) :=
        if !c.cleanup && !missing.isEmpty then [("_sd", .arr missing)] else []
      let (rest, a2) ← discloseMembers c fuel (kvs.filter fun kv => kv.1 != "_sd" && !(kv.1 == "_sd_alg" && c.cleanup))
        (disclosed ++ start) a1
      pure (.obj (J.sortKeys rest), a2)
  | _ + 1, v, a => pure (v, a)

/-- array elements: `{"...": digest}` elements are replaced by the disclosed value or dropped; other elements are kept as
    they are (they are NOT descended into) -/
def discloseArr (c : Ctx) : Nat → List J → Acc → Except Err (List J × Acc)
  | 0, _, _ => .error .fuel
  | _ + 1, [], a => pure ([], a)
  | fuel + 1, e :: es, a =>
    let dg : Option J := match e with
      | .obj kvs => (kvs.find? (fun kv => kv.1 == "...")).map (fun kv => kv.2)
      | _ => none
    match dg with
    | none => do
        let (r, a') ← discloseArr c fuel es a
        pure (e :: r, a')
    | some (J.str d) =>
        if a.seen.contains d then .error .dupDigest else
        let a1 : Acc := { a with seen := d :: a.seen }
        match digestId d with
        | some i =>
          if c.S.contains i then
            match discArr c i with
            | some [_, v] => do
                let (v', a2) ← disclose c fuel v { a1 with found := i :: a1.found }
                let (r, a3) ← discloseArr c fuel es a2
                pure (v' :: r, a3)
            | _ => .error .badElements
          else do
            let (r, a') ← discloseArr c fuel es a1
            pure (if c.cleanup then r else e :: r, a')
        | none => do
            let (r, a') ← discloseArr c fuel es a1
            pure (if c.cleanup then r else e :: r, a')
    | some _ => .error .badStruct

/-- the `_sd` list of one object level: (disclosed members, digests without a presented disclosure) -/
def discloseSD (c : Ctx) : Nat → List J → Acc → Except Err (List (String × J) × List J × Acc)
  | 0, _, _ => .error .fuel
  | _ + 1, [], a => pure ([], [], a)
  | fuel + 1, d :: ds, a =>
    match d with
    | .str dg =>
      if a.seen.contains dg then .error .dupDigest else
      let a1 : Acc := { a with seen := dg :: a.seen }
      match (digestId dg).filter c.S.contains with
      | some i =>
        match discArr c i with
        | some [_, .str name, v] => do
            let (v', a2) ← disclose c fuel v { a1 with found := i :: a1.found }
            let (r, m, a3) ← discloseSD c fuel ds a2
            if r.any (·.1 == name) then .error .nameClash else pure ((name, v') :: r, m, a3)
        | _ => .error .badElements
      | none => do
          let (r, m, a2) ← discloseSD c fuel ds a1
          pure (r, d :: m, a2)
    | _ => .error .badStruct

/-- the remaining members of an object; a member that discloses to nil is dropped -/
def discloseMembers (c : Ctx) : Nat → List (String × J) → List (String × J) → Acc →
    Except Err (List (String × J) × Acc)
  | 0, _, _, _ => .error .fuel
  | _ + 1, [], acc, a => pure (acc, a)
  | fuel + 1, (k, v) :: kvs, acc, a => do
      let (v', a1) ← disclose c fuel v a
      if acc.any (·.1 == k) then .error .nameClash else
      match v' with
      | .null => discloseMembers c fuel kvs acc a1
      | _ => discloseMembers c fuel kvs (acc ++ [(k, v')]) a1
end

def fuel : Nat := 64

inductive Tamper | none | forge | dup | alter
deriving DecidableEq, Repr

/-- `verifier.Parse`: duplicates, stage 1 (every presented disclosure must be reached), holder verification, stage 2 -/
def verify (E : J) (T : List J) (S : List Nat) (tamper : Tamper) (hb : Nat) : Option J :=
  -- a forged or altered disclosure hashes to a digest the issuer never signed (ideal hash); a duplicate is refused outright
  if tamper != .none then none else
  match disclose ⟨T, S, false⟩ fuel E ⟨[], []⟩ with
  | .error _ => none
  | .ok (_, a) =>
    if !(S.all a.found.contains) then none else          -- "disclosure digest not found in SD-JWT"
    -- 1 and 8: a correct binding; everything else: wrong nonce / audience / key, or binding required and missing
    if hb ≥ 2 && hb != 8 then none else
    match disclose ⟨T, S, true⟩ fuel E ⟨[], []⟩ with
    | .ok (out, _) => some out
    | .error _ => none

end C18
