import AriesVerif.C18.Model
import AriesVerif.Base.Util
/-! C18 driver glue. The harness line carries the run-time artefacts (symbolic payload `E`, disclosure table `T`,
    presented indices `S`) together with the verifier's output; the driver (1) predicts the verifier's output with
    the model and (2) evaluates the property's oracle: the output must be exactly the ORIGINAL claims restricted to
    what is always visible plus what was chosen (`project`), and tampered presentations must be rejected. -/
namespace C18.Drv
open C18 Base Util

def registered : List String := ["iss", "iat", "exp", "nbf", "cnf", "sub", "aud", "jti", "_sd", "_sd_alg"]

def natList (j : Option J) : List Nat :=
  match j with
  | some (.arr l) => l.filterMap fun | .num n => some n.toNat | _ => none
  | _ => []

def sdIds (e : J) : List Nat :=
  match e.get? "_sd" with
  | some (.arr ds) => ds.filterMap fun | .str s => digestId s | _ => none
  | _ => []

/-- the disclosure of this level that carries claim `k` -/
def findDisc (T : List J) (ids : List Nat) (k : String) : Option (Nat × J) :=
  ids.findSome? fun i =>
    let t : Option J := T[i]?
    match t with
    | some (J.arr [_, J.str n, v]) => if n == k then some (i, v) else none
    | _ => none

inductive Flag | claimNotCommitted (k : String) | invented (k : String) | shape (k : String)
deriving Repr

mutual
/-- the ORIGINAL claims `cl` restricted to what the presentation reveals; structure and choice come from `e` / `T` / `S`,
    values from the original claims -/
partial def project (T : List J) (S : List Nat) (cl e : J) : Except String J :=
  match cl, e with
  | .obj ckvs, .obj ekvs => do
    let ids := sdIds e
    let mut out : List (String × J) := []
    for (k, cv) in ckvs do
      match (ekvs.find? (·.1 == k)).map (·.2) with
      | some ev =>            -- in the clear at this level
        let v ← projectVal T S cv ev
        out := out ++ [(k, v)]
      | none =>
        match findDisc T ids k with
        | none => throw s!"CLAIM-NOT-COMMITTED {k}"
        | some (i, tv) =>
          if S.contains i then
            let v ← projectVal T S cv tv
            out := out ++ [(k, v)]
    for (k, _) in ekvs do
      if !registered.contains k && !(ckvs.any (·.1 == k)) then throw s!"INVENTED {k}"
    pure (.obj (J.sortKeys out))
  | _, _ => throw "SHAPE"

partial def projectVal (T : List J) (S : List Nat) (cv ev : J) : Except String J :=
  match cv, ev with
  | .obj _, .obj ekvs =>
    -- a nested object that still has structure (structured / always-include / recursive disclosure) …
    if ekvs.any (·.1 == "_sd") || true then project T S cv ev else pure cv
  | .arr cl, .arr el =>
    if cl.length != el.length then throw "ARRAY-LENGTH" else do
    let mut out : List J := []
    for (c, e) in cl.zip el do
      let dg : Option J := match e with
        | .obj kvs => (kvs.find? (fun kv => kv.1 == "...")).map (fun kv => kv.2)
        | _ => none
      match dg with
      | some (J.str d) =>
        match digestId d with
        | some i => if S.contains i then out := out ++ [c]
        | none => pure ()
      | _ => out := out ++ [c]
    pure (.arr out)
  | _, _ => pure cv
end

/-- strict reading: what was issued in the clear stays visible even when it is an array none of whose elements is
    disclosed. The code returns nil for an empty result and drops the member (C18-F1): `dropEmpty` applies that rule. -/
partial def dropEmpty : J → J
  | .obj kvs => .obj (kvs.filterMap fun (k, v) =>
      match dropEmpty v with
      | .arr [] => none
      | .null => none
      | v' => some (k, v'))
  | .arr l => .arr (l.map dropEmpty)
  | v => v

/-- issuer-option semantics for leaves: walking the clear containers of the signed payload, a leaf claim at path `p` is
    in the clear exactly when `p` is listed as non-selectively-disclosable -/
partial def visibility (nonsd : List String) (pre : String) (cl e : J) : Option String :=
  match cl, e with
  | .obj ckvs, .obj ekvs =>
    ckvs.findSome? fun (k, cv) =>
      let p := if pre == "" then k else pre ++ "." ++ k
      let ev : Option J := (ekvs.find? (fun kv => kv.1 == k)).map (fun kv => kv.2)
      match cv, ev with
      | J.obj _, some (J.obj sub) =>
          if nonsd.contains p then none else visibility nonsd p cv (J.obj sub)   -- clear container: descend
      | J.obj _, _ => none
      | J.arr _, _ => none
      | _, some _ => if nonsd.contains p then none else some s!"CLAIM-IN-CLEAR-NOT-LISTED {p}"
      | _, none => if nonsd.contains p then some s!"NON-SD-CLAIM-HIDDEN {p}" else none
  | _, _ => none

def parseTamper : String → Tamper
  | "forge" => .forge | "dup" => .dup | "alter" => .alter
  -- another base64url spelling of a genuine disclosure is not the committed string: an altered / a duplicated disclosure
  | "respell" => .alter | "duprespell" => .dup
  | _ => .none

/-- (model column, spec column, tags) -/
def judge (input impl : String) : String × String × String :=
  match J.parse input, J.parse impl with
  | some cse, some res =>
    match res.get? "out" with
    | some (.str "reject") | some (.obj _) =>
      let implOut := match res.get? "out" with | some (.obj kvs) => some (J.obj kvs) | _ => none
      let E := (res.get? "E").getD .null
      let T := match res.get? "T" with | some (.arr l) => l | _ => []
      let S := natList (res.get? "S")
      let tamper := parseTamper (match res.get? "tamper" with | some (.str s) => s | _ => "none")
      let hb := match res.get? "hb" with | some (.num n) => n.toNat | _ => 0
      let show_ := fun (o : Option J) => match o with | some j => j.render | none => "reject"
      let model := verify E T S tamper hb
      let modelCol := if show_ model == show_ implOut then "=" else "model: " ++ show_ model
      -- oracle
      let claims := (cse.get? "claims").getD .null
      let orphan := -- a disclosure presented without the disclosure that contains its digest cannot be verified
        match disclose ⟨T, S, false⟩ fuel E ⟨[], []⟩ with
        | .ok (_, a) => !(S.all a.found.contains)
        | .error _ => true
      -- the holder's own check of the issuer's output: one claim per disclosure; altered signature and uncommitted
      -- disclosure refused
      let hpBad := match res.get? "hp" with
        | some (.str hp) => hp != s!"{T.length}/err/err"
        | _ => false
      -- the credential-level holder API: what is presented for a selection by claim names is exactly the selection
      let clBad := match res.get? "cl" with
        | some (.str cl) => (match cl.splitOn "/" with | [a, b] => a != b | _ => false)
        | _ => false
      if clBad then
        (modelCol, "CREDENTIAL-LEVEL-SELECTION: presented/selected = " ++
          (match res.get? "cl" with | some (.str cl) => cl | _ => "?"), "")
      else if hpBad then
        (modelCol, "HOLDER-PARSE: expected " ++ s!"{T.length}/err/err" ++ ", got " ++
          (match res.get? "hp" with | some (.str hp) => hp | _ => "?"), "")
      else if tamper != .none || (hb ≥ 2 && hb != 8) then
        (modelCol, if implOut.isNone then "=" else "TAMPERED-PRESENTATION-ACCEPTED", "")
      else if orphan then
        (modelCol, if implOut.isNone then "=" else "UNVERIFIABLE-DISCLOSURE-ACCEPTED", "")
      else
        let nonsd := match cse.get? "nonsd" with
          | some (.arr l) => l.filterMap fun | .str s => some s | _ => none
          | _ => []
        match visibility nonsd "" claims E with
        | some msg => (modelCol, "ISSUER " ++ msg, "")
        | none =>
        match project T S claims E with
        | .error msg => (modelCol, "ORACLE " ++ msg, "")
        | .ok expClaims =>
          -- registered / technical members of the payload are always visible
          let regs := match E with
            | .obj kvs => kvs.filter fun kv => registered.contains kv.1 && kv.1 != "_sd" && kv.1 != "_sd_alg"
            | _ => []
          let strict := match expClaims with | .obj kvs => J.obj (J.sortKeys (kvs ++ regs)) | v => v
          match implOut with
          | none => (modelCol, "HONEST-PRESENTATION-REJECTED", "")
          | some o =>
            if o.render == strict.render then (modelCol, "=", "")
            else if (dropEmpty o).render == (dropEmpty strict).render then
              (modelCol, "expected: " ++ strict.render, "C18-F1")
            else (modelCol, "expected: " ++ strict.render, "")
    | some (.str other) => ("=", if other == "issue-error" then "=" else "HARNESS " ++ other, "")
    | _ => ("bad-output", "bad-output", "")
  | _, _ => ("bad-json", "bad-json", "")

end C18.Drv
