/-! C03 driver glue: the contract of every entry point of the sweep is "a value or an error". -/
namespace C03.Drv

def judge (_input impl : String) : String × String × String :=
  if impl == "ok" || impl == "err" || impl == "na" then ("=", "=", "")
  else ("=", "ENTRY-POINT-DID-NOT-RETURN-A-VALUE-OR-AN-ERROR: " ++ impl, "")

end C03.Drv
