import AriesVerif.Generated.PanicSites
import AriesVerif.C03.Decoders
/-! # C03 — every syntactic panic site of the listed decoder functions is accounted for.

`Generated.sites` / `Generated.guards` are regenerated from the current source on every run (go/ast). Each entry below
names the branch condition of the SAME function that dominates the site (or "" when the site cannot fail by
construction: a map lookup, an index into a fixed-size array, `strings.Split(..)[0]`), and the theorem of
`Decoders.lean` that carries the bounds argument. A new unchecked access, or a removed or altered guard, makes one of
the two `decide` obligations fail. -/
namespace C03

structure Accounted where
  fn : String
  kind : String
  expr : String
  guard : String        -- a branch condition of `fn`, verbatim, or ""
  why : String

def accounted : List Accounted := [
  ⟨"BBSG2Pub.VerifyProof", "index", "messages[i]", "len(payload.revealed) > len(messages)", "i ranges over payload.revealed"⟩,
  ⟨"BBSG2Pub.VerifyProof", "index", "payload.revealed[i]", "range payload.revealed", "range index"⟩,
  ⟨"BBSG2Pub.VerifyProof", "index", "revealedMessages[payload.revealed[i]]", "", "map"⟩,
  ⟨"BBSG2Pub.VerifyProof", "slice", "proof[payload.lenInBytes():]", "err != nil", "parsePoKPayload checked len(bytes) >= offset: Crash.pokPayload_no_panic"⟩,
  ⟨"Endpoint.URI", "index", "o[0]", "len(o) == 0", "Crash.endpointFirst_no_panic"⟩,
  ⟨"Endpoint.URI", "index", "o[\"origins\"]", "", "map"⟩,
  ⟨"Endpoint.URI", "index", "s.rawDIDCommV2[0]", "len(s.rawDIDCommV2) > 0", "guarded"⟩,
  ⟨"Endpoint.URI", "index", "uri[0]", "len(uri) == 0", "Crash.endpointFirst_no_panic"⟩,
  ⟨"ParseProofG1", "index", "responses[i]", "for i < length", "made with that length"⟩,
  ⟨"ParseProofG1", "slice", "bytes[:g1CompressedSize]", "len(bytes) < g1CompressedSize+4", "guarded"⟩,
  ⟨"ParseProofG1", "slice", "bytes[offset : offset+4]", "len(bytes) < g1CompressedSize+4", "guarded"⟩,
  ⟨"ParseProofG1", "slice", "bytes[offset : offset+frCompressedSize]",
    "length < 0 || length > (len(bytes)-g1CompressedSize-4)/frCompressedSize", "Crash.parseProofG1_no_panic"⟩,
  ⟨"ParseSignatureProof", "index", "g1Points[0]", "", "made with 3 elements"⟩,
  ⟨"ParseSignatureProof", "index", "g1Points[1]", "", "made with 3 elements"⟩,
  ⟨"ParseSignatureProof", "index", "g1Points[2]", "", "made with 3 elements"⟩,
  ⟨"ParseSignatureProof", "index", "g1Points[i]", "range g1Points", "range index"⟩,
  ⟨"ParseSignatureProof", "slice", "sigProofBytes[offset : offset+4]", "len(sigProofBytes) < offset+4", "Crash.parseSignatureProof_no_panic"⟩,
  ⟨"ParseSignatureProof", "slice", "sigProofBytes[offset : offset+g1CompressedSize]", "len(sigProofBytes) < g1CompressedSize*3", "guarded"⟩,
  ⟨"ParseSignatureProof", "slice", "sigProofBytes[offset : offset+proof1BytesLen]",
    "proof1BytesLen < 0 || proof1BytesLen > len(sigProofBytes)-offset", "Crash.parseSignatureProof_no_panic"⟩,
  ⟨"ParseSignatureProof", "slice", "sigProofBytes[offset:]",
    "proof1BytesLen < 0 || proof1BytesLen > len(sigProofBytes)-offset", "Crash.parseSignatureProof_no_panic"⟩,
  ⟨"PubKeyFromFingerprint", "index", "fingerprint[0]", "len(fingerprint) < 2 || fingerprint[0] != 'z'", "short-circuit"⟩,
  ⟨"PubKeyFromFingerprint", "index", "fingerprint[i]", "for i < len(fingerprint)", "loop bound"⟩,
  ⟨"PubKeyFromFingerprint", "slice", "fingerprint[1:]", "len(fingerprint) < 2 || fingerprint[0] != 'z'", "guarded"⟩,
  ⟨"PubKeyFromFingerprint", "slice", "mc[br+g1CompressedSize:]",
    "len(mc) < br+g1CompressedSize || len(mc[br+g1CompressedSize:]) != bls12381G2PublicKeyLen", "short-circuit"⟩,
  ⟨"PubKeyFromFingerprint", "slice", "mc[br:]", "br <= 0", "Crash.fingerprintSlice_no_panic"⟩,
  ⟨"Service.handleBatchPickup", "slice", "msgs[0:end]", "end < 0", "Crash.batchPickup_no_panic"⟩,
  ⟨"Service.handleBatchPickup", "slice", "msgs[end:]", "end < 0", "Crash.batchPickup_no_panic"⟩,
  ⟨"context.verifySignature", "slice", "sigData[timestampLength:]", "len(sigData) <= timestampLength", "guarded (signed data of fewer bytes than the timestamp is refused first)"⟩,
  ⟨"extractRecipientHeaders", "index", "headers[HeaderAlgorithm]", "", "map"⟩,
  ⟨"extractRecipientHeaders", "index", "headers[HeaderEPK]", "", "map"⟩,
  ⟨"extractRecipientHeaders", "index", "headers[HeaderKeyID]", "", "map"⟩,
  ⟨"extractRecipientHeaders", "index", "headers[\"apu\"]", "", "map"⟩,
  ⟨"extractRecipientHeaders", "index", "headers[\"apv\"]", "", "map"⟩,
  ⟨"populateServices", "index", "entries[0]", "ok && len(entries) > 0", "guarded"⟩,
  ⟨"populateServices", "index", "firstEntry[\"accept\"]", "", "map"⟩,
  ⟨"populateServices", "index", "firstEntry[\"routingKeys\"]", "", "map"⟩,
  ⟨"populateServices", "index", "firstEntry[\"uri\"]", "", "map"⟩,
  ⟨"populateServices", "index", "rawService[jsonldID]", "", "map"⟩,
  ⟨"populateServices", "index", "rawService[jsonldPriority]", "", "map"⟩,
  ⟨"populateServices", "index", "rawService[jsonldRecipientKeys]", "", "map"⟩,
  ⟨"populateServices", "index", "rawService[jsonldRoutingKeys]", "", "map"⟩,
  ⟨"populateServices", "index", "rawService[jsonldServicePoint]", "", "map"⟩,
  ⟨"populateServices", "index", "rawService[jsonldType]", "", "map"⟩,
  ⟨"getEncodingType", "index", "strings.Split(string(encMessage), \".\")[0]", "", "Split returns at least one part"⟩,
  ⟨"getEncodingType", "index", "strings.Split(string(encodedEnvelope), \".\")[0]", "", "Split returns at least one part"⟩,
  ⟨"getEncodingType", "slice", "encMessage[1 : len(encMessage)-1]",
    "len(encMessage) > 1 && bytes.HasPrefix(encMessage, doubleQuote) && bytes.HasSuffix(encMessage, doubleQuote)",
    "Crash.unquote_no_panic"⟩,
  ⟨"parseCompacted", "index", "parts[jwsHeaderPart]", "len(parts) != jwsPartsCount", "three parts"⟩,
  ⟨"parseCompacted", "index", "parts[jwsPayloadPart]", "len(parts) != jwsPartsCount", "three parts"⟩,
  ⟨"parseCompacted", "index", "parts[jwsSignaturePart]", "len(parts) != jwsPartsCount", "three parts"⟩,
  ⟨"parsePoKPayload", "slice", "bytes[0:2]", "len(bytes) < 2", "Crash.pokPayload_no_panic"⟩,
  ⟨"parsePoKPayload", "slice", "bytes[2:offset]", "len(bytes) < offset", "Crash.pokPayload_no_panic"⟩,
  ⟨"signingInput", "index", "headers[HeaderB64Payload]", "", "map"⟩,
  ⟨"verifySignature", "index", "kidParts[0]", "len(kidParts) < 2", "Crash.kidFragment_no_panic"⟩,
  ⟨"verifySignature", "index", "kidParts[1]", "len(kidParts) < 2", "Crash.kidFragment_no_panic"⟩
]

def siteAccounted (s : String × String × String) : Bool :=
  accounted.any fun a => a.fn == s.1 && a.kind == s.2.1 && a.expr == s.2.2

/-- every index / slice / unchecked assertion / panic call of the listed functions, as they are NOW, is accounted for -/
theorem all_sites_accounted : Generated.sites.all siteAccounted = true := by decide +kernel

/-- every guard an entry relies on is still, verbatim, a branch condition of that function -/
theorem all_guards_present :
    accounted.all (fun a => a.guard == "" || Generated.guards.contains (a.fn, a.guard)) = true := by decide +kernel

/-- `ProofG1.Verify` keeps the arity check the bounds argument of `sumOfG1Products` rests on, `handleStatusRequest`
    its nil check of the optional thread decorator -/
theorem extra_guards_present :
    Generated.guards.contains ("ProofG1.Verify", "len(pg1.responses) != len(bases)") = true ∧
    Generated.guards.contains ("Service.handleStatusRequest", "request.Thread != nil") = true ∧
    Generated.guards.contains ("BBSG2Pub.VerifyProof", "ind >= payload.messagesCount") = true := by decide +kernel

end C03
