/-! # C03 — faithful models of the places where the repository's own code slices, indexes or asserts data that comes
from another party. Every such operation is an explicit `panic` outcome of the model unless a guard of the source
dominates it; the theorems say the `panic` outcome is unreachable for EVERY input. For each defect that was repaired the
model of the old code is kept with the input on which it panics. -/
namespace Crash

inductive Out
  | ok
  | err
  | panic
deriving DecidableEq, Repr

/-- Go's `s[lo:hi]`: panics unless `0 ≤ lo ≤ hi ≤ len(s)` (bounds are integers: a negative one panics) -/
def sliceOk (len : Nat) (lo hi : Int) : Bool := decide (0 ≤ lo ∧ lo ≤ hi ∧ hi ≤ (len : Int))

/-- Go's `s[i]` -/
def indexOk (len : Nat) (i : Int) : Bool := decide (0 ≤ i ∧ i < (len : Int))

/-! ## `packager.getEncodingType`: a quoted, base64 wrapped message is unwrapped with `encMessage[1 : len-1]` -/

def unquote (len : Nat) (startsWithQuote endsWithQuote : Bool) : Out :=
  if len > 1 && startsWithQuote && endsWithQuote then
    (if sliceOk len 1 ((len : Int) - 1) then .ok else .panic)
  else .ok

/-- before the repair of C03-F9 the length was not looked at: the one-byte message `"` is its own prefix and suffix -/
def unquoteOld (len : Nat) (startsWithQuote endsWithQuote : Bool) : Out :=
  if startsWithQuote && endsWithQuote then
    (if sliceOk len 1 ((len : Int) - 1) then .ok else .panic)
  else .ok

theorem unquote_no_panic (len : Nat) (a b : Bool) : unquote len a b ≠ .panic := by
  unfold unquote sliceOk
  by_cases h : (len > 1 && a && b) = true
  · simp only [h, if_true]
    have hl : len > 1 := by simp at h; exact h.1.1
    have : (0 : Int) ≤ 1 ∧ (1 : Int) ≤ (len : Int) - 1 ∧ (len : Int) - 1 ≤ (len : Int) := by omega
    simp [this]
  · simp [h]

theorem unquoteOld_panics : unquoteOld 1 true true = .panic := by decide

/-! ## BBS+ `ParseSignatureProof` / `ParseProofG1`: lengths read from the proof bytes -/

/-- framing of `ParseProofG1` on `n` received bytes whose 4-byte count field says `count` -/
def parseProofG1 (n count : Nat) : Out :=
  if n < 48 + 4 then .err
  else if count > (n - 48 - 4) / 32 then .err
  else
    -- the loop slices bytes[off : off+32] for off = 52 + 32 i, i < count: the last one reaches 52 + 32 count
    if sliceOk n 52 (52 + 32 * (count : Int)) then .ok else .panic

theorem parseProofG1_no_panic (n count : Nat) : parseProofG1 n count ≠ .panic := by
  unfold parseProofG1 sliceOk
  by_cases h1 : n < 48 + 4
  · simp [h1]
  · by_cases h2 : count > (n - 48 - 4) / 32
    · simp [h1, h2]
    · simp only [h1, h2, if_false]
      have : (0 : Int) ≤ 52 ∧ (52 : Int) ≤ 52 + 32 * (count : Int) ∧ 52 + 32 * (count : Int) ≤ (n : Int) := by
        have := Nat.div_mul_le_self (n - 48 - 4) 32
        omega
      simp [this]

/-- framing of `ParseSignatureProof` on `n` received bytes whose 4-byte field (at offset 144) says `len1` -/
def parseSignatureProof (n len1 : Nat) : Out :=
  if n < 48 * 3 then .err
  else if n < 144 + 4 then .err
  else if len1 > n - 148 then .err
  else if sliceOk n 144 148 && sliceOk n 148 (148 + (len1 : Int)) && sliceOk n (148 + (len1 : Int)) n then .ok
  else .panic

/-- before the repair of C03-F8: only the first guard -/
def parseSignatureProofOld (n len1 : Nat) : Out :=
  if n < 48 * 3 then .err
  else if sliceOk n 144 148 && sliceOk n 148 (148 + (len1 : Int)) && sliceOk n (148 + (len1 : Int)) n then .ok
  else .panic

theorem parseSignatureProof_no_panic (n len1 : Nat) : parseSignatureProof n len1 ≠ .panic := by
  unfold parseSignatureProof sliceOk
  by_cases h1 : n < 48 * 3
  · simp [h1]
  · by_cases h2 : n < 144 + 4
    · simp [h1, h2]
    · by_cases h3 : len1 > n - 148
      · simp [h1, h2, h3]
      · simp only [h1, h2, h3, if_false]
        have a : (0 : Int) ≤ 144 ∧ (144 : Int) ≤ 148 ∧ (148 : Int) ≤ (n : Int) := by omega
        have b : (0 : Int) ≤ 148 ∧ (148 : Int) ≤ 148 + (len1 : Int) ∧ 148 + (len1 : Int) ≤ (n : Int) := by omega
        have c : (0 : Int) ≤ 148 + (len1 : Int) ∧ 148 + (len1 : Int) ≤ (n : Int) ∧ (n : Int) ≤ (n : Int) := by omega
        simp [a, b, c]

theorem parseSignatureProofOld_panics :
    parseSignatureProofOld 144 0 = .panic ∧ parseSignatureProofOld 400 4294967295 = .panic := by decide

/-- `ProofG1.Verify`: `sumOfG1Products` indexes `scalars[i]` for every base; one more scalar (the challenge) is appended -/
def proofVerify (bases responses : Nat) : Out :=
  if responses ≠ bases then .err
  else if indexOk (responses + 1) (bases : Int) then .ok else .panic

def proofVerifyOld (bases responses : Nat) : Out :=
  if indexOk (responses + 1) (bases : Int) then .ok else .panic

theorem proofVerify_no_panic (b r : Nat) : proofVerify b r ≠ .panic := by
  unfold proofVerify indexOk
  by_cases h : r ≠ b
  · simp [h]
  · have hb : r = b := by simpa using h
    subst hb
    simp only [ne_eq, not_true_eq_false, if_false]
    simp only [decide_eq_true_eq]
    split
    · simp
    · rename_i hh; exact absurd (by omega) hh

theorem proofVerifyOld_panics : proofVerifyOld 5 2 = .panic := by decide

/-! ## message pickup `handleBatchPickup`: `msgs[0:end]`, `msgs[end:]` with `end` from the request -/

def batchPickup (len : Nat) (batchSize : Int) : Out :=
  let e0 : Int := if batchSize < (len : Int) then batchSize else len
  let e : Int := if e0 < 0 then 0 else e0
  if sliceOk len 0 e && sliceOk len e len then .ok else .panic

def batchPickupOld (len : Nat) (batchSize : Int) : Out :=
  let e : Int := if batchSize < (len : Int) then batchSize else len
  if sliceOk len 0 e && sliceOk len e len then .ok else .panic

theorem batchPickup_no_panic (len : Nat) (b : Int) : batchPickup len b ≠ .panic := by
  unfold batchPickup sliceOk
  simp only
  split <;> split <;> simp <;> omega

theorem batchPickupOld_panics : batchPickupOld 3 (-1) = .panic := by decide

/-! ## JWT verifier: `kid` split at '#', fragment taken by index -/

def kidFragment (parts : Nat) : Out :=
  if parts < 2 then .err else if indexOk parts 0 && indexOk parts 1 then .ok else .panic

def kidFragmentOld (parts : Nat) : Out :=
  if indexOk parts 0 && indexOk parts 1 then .ok else .panic

theorem kidFragment_no_panic (parts : Nat) : kidFragment parts ≠ .panic := by
  unfold kidFragment indexOk
  by_cases h : parts < 2
  · simp [h]
  · simp only [h, if_false]
    simp only [Bool.and_eq_true, decide_eq_true_eq]
    split
    · simp
    · rename_i hh; exact absurd (by omega) hh

/-- `strings.Split` never returns an empty slice: one part is the case "kid without fragment" -/
theorem kidFragmentOld_panics : kidFragmentOld 1 = .panic := by decide

/-! ## fingerprint: multicodec varint then `mc[br:]` -/

/-- `br` is what `binary.Uvarint` reports: > 0 bytes read, 0 buffer too small, < 0 overflow -/
def fingerprintSlice (mcLen : Nat) (br : Int) (maxBytes : Nat) : Out :=
  if br ≤ 0 then .err
  else if br > (maxBytes : Int) then .err
  else if br > (mcLen : Int) then .panic      -- cannot happen: Uvarint never reports more bytes than it was given
  else if sliceOk mcLen br mcLen then .ok else .panic

theorem fingerprintSlice_no_panic (mcLen : Nat) (br : Int) (maxBytes : Nat) (hread : br ≤ (mcLen : Int)) :
    fingerprintSlice mcLen br maxBytes ≠ .panic := by
  unfold fingerprintSlice sliceOk
  by_cases h1 : br ≤ 0
  · simp [h1]
  · by_cases h2 : br > (maxBytes : Int)
    · simp [h1, h2]
    · have h3 : ¬ br > (mcLen : Int) := by omega
      simp only [h1, h2, h3, if_false]
      have : (0 : Int) ≤ br ∧ br ≤ (mcLen : Int) ∧ (mcLen : Int) ≤ (mcLen : Int) := by omega
      simp [this]

/-- before the repair of C03-F10 a negative byte count (overflowing varint) reached the slice expression -/
def fingerprintSliceOld (mcLen : Nat) (br : Int) : Out :=
  if br = 0 then .err else if sliceOk mcLen br mcLen then .ok else .panic

theorem fingerprintSliceOld_panics : fingerprintSliceOld 11 (-11) = .panic := by decide

/-! ## service endpoint: first element of an array that may be empty -/

def endpointFirst (len : Nat) : Out := if len = 0 then .err else if indexOk len 0 then .ok else .panic
def endpointFirstOld (len : Nat) : Out := if indexOk len 0 then .ok else .panic

theorem endpointFirst_no_panic (len : Nat) : endpointFirst len ≠ .panic := by
  unfold endpointFirst indexOk
  by_cases h : len = 0
  · simp [h]
  · simp only [h, if_false]
    simp only [decide_eq_true_eq]
    split
    · simp
    · rename_i hh; exact absurd (by omega) hh

theorem endpointFirstOld_panics : endpointFirstOld 0 = .panic := by decide

/-! ## BBS+ payload: `bytes[0:2]`, `bytes[2:offset]`, `proof[payload.lenInBytes():]` -/

def pokPayload (n count : Nat) : Out :=
  if n < 2 then .err
  else if n < 2 + count / 8 + 1 then .err
  else if sliceOk n 0 2 && sliceOk n 2 (2 + (count : Int) / 8 + 1) && sliceOk n (2 + (count : Int) / 8 + 1) n then .ok
  else .panic

theorem pokPayload_no_panic (n count : Nat) : pokPayload n count ≠ .panic := by
  unfold pokPayload sliceOk
  by_cases h1 : n < 2
  · simp [h1]
  · by_cases h2 : n < 2 + count / 8 + 1
    · simp [h1, h2]
    · simp only [h1, h2, if_false]
      have hc : ((count / 8 : Nat) : Int) = (count : Int) / 8 := by simp
      have a : (0 : Int) ≤ 0 ∧ (0 : Int) ≤ 2 ∧ (2 : Int) ≤ (n : Int) := by omega
      have b : (0 : Int) ≤ 2 ∧ (2 : Int) ≤ 2 + (count : Int) / 8 + 1 ∧ 2 + (count : Int) / 8 + 1 ≤ (n : Int) := by omega
      have c : (0 : Int) ≤ 2 + (count : Int) / 8 + 1 ∧ 2 + (count : Int) / 8 + 1 ≤ (n : Int) ∧ (n : Int) ≤ (n : Int) := by omega
      simp [a, b, c]

end Crash
