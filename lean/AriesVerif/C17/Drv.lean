import AriesVerif.C17.Model
import AriesVerif.C17.Cred
import AriesVerif.Base.Util
/-! C17 driver glue (format of harness/cmd/corr/c17.go). -/
namespace Bbs.Drv
open Bbs Util

def content (i : Nat) (kind : Char) : String :=
  match kind with
  | 'e' => "" | 'l' => s!"long-{i}" | 'd' => "message-0" | _ => s!"message-{i}"

def insertSorted (x : Nat) : List Nat → List Nat
  | [] => [x]
  | y :: ys => if x < y then x :: y :: ys else if x == y then y :: ys else y :: insertSorted x ys

def sortUniq (l : List Nat) : List Nat := l.foldr insertSorted []

structure Pred where
  line : String          -- the whole expected output line, as the code behaves
  specNeg : String       -- neg outcome demanded by the contract
  modelNeg : String

def swapAt {α : Type} (l : List α) (j : Nat) : List α :=
  match l[j]?, l[j+1]? with
  | some a, some b => (l.set j b).set (j + 1) a
  | _, _ => l

def predict (input : String) : Option Pred :=
  match input.splitOn "|" with
  | [_, nS, kinds, rS, _, neg] => do
    let n ← nS.toNat?
    let R ← (rS.splitOn ",").mapM (·.toNat?)
    let ks := kinds.toList
    if R.any (fun r => n ≤ r) then
      pure ⟨"sign=ok verifysig=ok derive=err", "-", "-"⟩
    else
      let uniq := sortUniq R
      let payload ← toBytes n uniq
      let honest := uniq.map fun i => content i (ks.getD i 's')
      let all := (List.range n).map fun i => content i (ks.getD i 's')
      let k := honest.length
      let negF := neg.splitOn ":"
      let arg := ((negF.getD 1 "0").toNat?).getD 0
      -- (applies?, supplied vector, same nonce, same key, proof intact)
      let r : Bool × List String × Bool × Bool × Bool :=
        match negF.headD "" with
        | "none" => (false, honest, true, true, true)
        | "chg" => if arg < k then (true, honest.set arg ((honest.getD arg "") ++ "x"), true, true, true)
                   else (false, honest, true, true, true)
        | "drop" => if arg < k then (true, honest.eraseIdx arg, true, true, true) else (false, honest, true, true, true)
        | "swap" => if arg + 1 < k && honest.getD arg "" != honest.getD (arg + 1) "" then
                      (true, swapAt honest arg, true, true, true) else (false, honest, true, true, true)
        | "sup" => (true, honest ++ ["one more message"], true, true, true)
        | "pre" => (true, "one more message" :: honest, true, true, true)
        | "nonce" => (true, honest, false, true, true)
        | "key" => (true, honest, true, false, true)
        | "flip" => (true, honest, true, true, false)
        | "cnt" => (true, honest, true, true, false)
        | "trunc" => (true, honest, true, true, false)
        | "sweep" => (true, honest, true, true, false)        -- every altered proof: none verifies
        | "bit" => if (n + arg) / 8 < n / 8 + 1 then (true, honest ++ ["extra"], true, true, false)
                   else (false, honest, true, true, true)
        | "all" => if k == n then (false, honest, true, true, true) else (true, all, true, true, true)
        | _ => (false, honest, true, true, true)
      let (applies, supplied, sn, sk, pi) := r
      let show_ (b : Bool) : String := if b then "ok" else "fail"
      let m := if applies then show_ (verifyOutcome n uniq honest supplied sn sk pi) else "na"
      let sp := if applies then show_ (specOutcome honest supplied sn sk pi) else "na"
      let hex := toHex (payload.map fun b => UInt8.ofNat b)
      pure ⟨s!"sign=ok verifysig=ok derive=ok payload={hex} honest=ok neg={m}", sp, m⟩
  | _ => none

/-- credential level (format of harness/cmd/corr/c17vc.go): (expected line, is the frame within the credential) -/
def predictVC (input : String) : Option (String × Bool) :=
  match input.splitOn "|" with
  | [_, pS, proofs, sS, _, neg] =>
    let present := pS.toList
    let frame := if sS == "-" then [] else sS.toList
    let nb := (proofs.toList.filter (· == 'b')).length
    if nb == 0 then some ("derive=err", true)
    else if !(frame.all (present.contains ·)) then
      -- the frame names a member the credential lacks: json-gold's framing yields no subject, derivation is refused
      let members := String.ofList (Cred.frameSelect present frame)
      some (s!"derive=ok members={members} proofs={nb} types=ok verify=ok", false)
    else
      let members := Cred.frameSelect present frame
      let negF := neg.splitOn ":"
      let x : Char := ((negF.getD 1 "").toList.headD ' ')
      let n : String :=
        match negF.headD "" with
        | "chg" => if members.contains x then "fail" else "na"
        | "drop" => if members.contains x then "fail" else "na"
        | "add" => if present.contains x && !members.contains x then "fail" else "na"
        | "nonce" => "fail" | "key" => "fail" | "issuer" => "fail"
        | "swap" => if nb ≥ 2 then "fail" else "na"
        | _ => "na"
      some (s!"derive=ok members={String.ofList members} proofs={nb} types=ok verify=ok neg={n}", true)
  | _ => none

/-- (model column, spec column, tags) -/
def judge (input impl : String) : String × String × String :=
  if input.startsWith "proof|" then
    -- a recorded honest proof (corpus): completeness (`Algebra.lean`) says the verifier accepts it
    (if impl == "verify=ok" then ("=", "=", "") else ("verify=ok", "HONEST-PROOF-NOT-ACCEPTED", ""))
  else if input.startsWith "vc|" then
    match predictVC input with
    | none => ("bad-input", "bad-input", "")
    | some (line, true) =>
      if impl == line then ("=", "=", "")
      else
        let words := impl.splitOn " "
        let what :=
          if words.contains "verify=ok" && words.contains "neg=ok" then "ALTERED-DERIVED-CREDENTIAL-ACCEPTED"
          else if (words.find? (·.startsWith "verify=fail")).isSome then "HONEST-DERIVED-CREDENTIAL-NOT-ACCEPTED"
          else "derived credential differs: " ++ line
        (line, what, "")
    | some (okPrefix, false) =>
      -- refusing is what the code does; a correct derivation would be within the property as well
      if impl == "derive=err" then ("=", "=", "")
      else if impl.startsWith okPrefix then ("derive=err", "=", "")
      else ("derive=err", "derived credential differs: " ++ okPrefix, "")
  else
  match predict input with
  | none => ("bad-input", "bad-input", "")
  | some p =>
    let modelCol := if p.line == impl then "=" else p.line
    -- the contract on what was observed: honest accepted, negative case as demanded
    let words := impl.splitOn " "
    if words.contains "derive=err" || words.contains "sign=err" then
      (modelCol, if p.line == impl then "=" else "derive/sign outcome differs: " ++ p.line, "")
    else
      let honestOk := words.contains "honest=ok"
      let negObs := ((words.find? (·.startsWith "neg=")).map fun w => (w.drop 4).toString).getD "?"
      if !honestOk then (modelCol, "HONEST-PROOF-NOT-ACCEPTED", "")
      else if negObs == p.specNeg then (modelCol, "=", "")
      else (modelCol, s!"contract demands neg={p.specNeg}",
            if p.specNeg == "fail" && negObs == "ok" && p.modelNeg == "ok" then "C17-F1" else "")

end Bbs.Drv
