import AriesVerif.C17.Model
/-! # C17 — property theorems, bookkeeping part (every message count, every revealed set). -/
namespace Bbs

theorem orBit_length (bv : List Nat) (r : Nat) : (orBit bv r).length = bv.length := by simp [orBit]

theorem foldl_orBit_length (R : List Nat) (bv : List Nat) : (R.foldl orBit bv).length = bv.length := by
  induction R generalizing bv with
  | nil => rfl
  | cons r R ih => simp [List.foldl_cons, ih, orBit_length]

theorem bitvector_length (len : Nat) (R : List Nat) : (bitvector len R).length = len := by
  simp [bitvector, foldl_orBit_length]

theorem testBit_one_shiftLeft (k b : Nat) : (1 <<< k).testBit b = decide (k = b) := by
  rw [Nat.one_shiftLeft, Nat.testBit_two_pow]

theorem orBit_testBit (bv : List Nat) (r idx b : Nat) (hidx : idx < bv.length) :
    ((orBit bv r).getD idx 0).testBit b =
      ((bv.getD idx 0).testBit b || (decide (r / 8 = idx) && decide (r % 8 = b))) := by
  unfold orBit
  by_cases h : r / 8 = idx
  · subst h
    simp [List.getD_eq_getElem?_getD, List.getElem?_set, hidx, Nat.testBit_or, testBit_one_shiftLeft]
  · have h' : ¬ idx = r / 8 := fun e => h e.symm
    simp [List.getD_eq_getElem?_getD, List.getElem?_set, h, h']

theorem foldl_orBit_testBit (R : List Nat) (bv : List Nat) (idx b : Nat) (hidx : idx < bv.length) :
    ((R.foldl orBit bv).getD idx 0).testBit b =
      ((bv.getD idx 0).testBit b || R.any fun r => decide (r / 8 = idx) && decide (r % 8 = b)) := by
  induction R generalizing bv with
  | nil => simp
  | cons r R ih =>
    rw [List.foldl_cons, ih (orBit bv r) (by simpa [orBit_length] using hidx), orBit_testBit bv r idx b hidx]
    simp [List.any_cons, Bool.or_assoc]

theorem bitvector_testBit (len : Nat) (R : List Nat) (idx b : Nat) (hidx : idx < len) :
    (((bitvector len R).getD idx 0).testBit b) = R.any fun r => decide (r / 8 = idx) && decide (r % 8 = b) := by
  unfold bitvector
  rw [foldl_orBit_testBit R _ idx b (by simpa using hidx)]
  simp [List.getD_eq_getElem?_getD, hidx]

theorem mem_bitvectorToIndexes (data : List Nat) (x : Nat) :
    x ∈ bitvectorToIndexes data ↔ x < 8 * data.length ∧ (data.getD (x / 8) 0).testBit (x % 8) = true := by
  simp [bitvectorToIndexes, List.mem_filter]

theorem bitvectorToIndexes_sorted (data : List Nat) : (bitvectorToIndexes data).Pairwise (· < ·) := by
  unfold bitvectorToIndexes
  exact List.Pairwise.filter _ List.pairwise_lt_range

/-- two strictly ascending lists with the same members are the same list -/
theorem sorted_ext : ∀ (a b : List Nat), a.Pairwise (· < ·) → b.Pairwise (· < ·) → (∀ x, x ∈ a ↔ x ∈ b) → a = b
  | [], [], _, _, _ => rfl
  | [], y :: ys, _, _, h => by have := (h y).mpr (by simp); simp at this
  | x :: xs, [], _, _, h => by have := (h x).mp (by simp); simp at this
  | x :: xs, y :: ys, ha, hb, h => by
    have hax := List.pairwise_cons.mp ha
    have hby := List.pairwise_cons.mp hb
    have hxy : x = y := by
      have h1 : x ∈ y :: ys := (h x).mp (by simp)
      have h2 : y ∈ x :: xs := (h y).mpr (by simp)
      rcases List.mem_cons.mp h1 with e | hx
      · exact e
      · rcases List.mem_cons.mp h2 with e | hy
        · exact e.symm
        · have := hby.1 x hx; have := hax.1 y hy; omega
    subst hxy
    congr 1
    apply sorted_ext xs ys hax.2 hby.2
    intro z
    constructor
    · intro hz
      have : z ∈ x :: ys := (h z).mp (by simp [hz])
      rcases List.mem_cons.mp this with e | hz'
      · have := hax.1 z hz; omega
      · exact hz'
    · intro hz
      have : z ∈ x :: xs := (h z).mpr (by simp [hz])
      rcases List.mem_cons.mp this with e | hz'
      · have := hby.1 z hz; omega
      · exact hz'

/-- the verifier reads back exactly the revealed index set -/
theorem indexes_of_bitvector (n : Nat) (R : List Nat) (hs : R.Pairwise (· < ·)) (hr : ∀ r ∈ R, r < n) :
    bitvectorToIndexes (bitvector (n / 8 + 1) R) = R := by
  apply sorted_ext _ _ (bitvectorToIndexes_sorted _) hs
  intro x
  rw [mem_bitvectorToIndexes, bitvector_length]
  constructor
  · rintro ⟨hx, hb⟩
    rw [bitvector_testBit _ _ _ _ (by omega)] at hb
    obtain ⟨r, hrm, hrr⟩ := List.any_eq_true.mp hb
    simp only [Bool.and_eq_true, decide_eq_true_eq] at hrr
    have : r = x := by omega
    exact this ▸ hrm
  · intro hx
    have hxn := hr x hx
    refine ⟨by omega, ?_⟩
    rw [bitvector_testBit _ _ _ _ (by omega)]
    exact List.any_eq_true.mpr ⟨x, hx, by simp⟩

/-- **C17 (payload), every message count and every revealed set.** What `DeriveProof` writes in front of the proof is
    read back by `VerifyProof` as the same message count and the same revealed indexes, whatever follows it. -/
theorem C17_payload (n : Nat) (R : List Nat) (tail : List Nat) (hn : n < 65536)
    (hs : R.Pairwise (· < ·)) (hr : ∀ r ∈ R, r < n) :
    ∃ bs, toBytes n R = some bs ∧ bs.length = lenInBytes n ∧ parse (bs ++ tail) = some (n, R) := by
  have hall : R.all (fun r => r / 8 < n / 8 + 1) = true := by
    rw [List.all_eq_true]; intro r hrm; have := hr r hrm; simp; omega
  refine ⟨_, by simp [toBytes, hall], ?_, ?_⟩
  · simp [bitvector_length, lenInBytes]; omega
  · have hcount : n / 256 % 256 * 256 + n % 256 = n := by omega
    simp only [List.cons_append, List.nil_append, parse, hcount]
    have hlen : ((bitvector (n / 8 + 1) R).reverse ++ tail).length ≥ n / 8 + 1 := by
      simp [bitvector_length]
    rw [if_neg (by omega)]
    have htake : ((bitvector (n / 8 + 1) R).reverse ++ tail).take (n / 8 + 1) = (bitvector (n / 8 + 1) R).reverse := by
      rw [List.take_append_of_le_length (by simp [bitvector_length])]
      rw [List.take_of_length_le (by simp [bitvector_length])]
    rw [htake, List.reverse_reverse, indexes_of_bitvector n R hs hr]

/-- an index that no message has is an error of `toBytes` only when its byte lies outside the vector: the padding bits
    of the last byte can be set (this is why `VerifyProof` has to check `index < messagesCount` itself) -/
example : toBytes 3 [5] = some [0, 3, 32] ∧ parse [0, 3, 32] = some (3, [5]) := by decide
example : toBytes 3 [8] = none := by decide
/-- non-vacuity: 10 messages, indexes 0 3 9 -/
example : toBytes 10 [0, 3, 9] = some [0, 10, 2, 9] ∧ parse ([0, 10, 2, 9] ++ [77, 78]) = some (10, [0, 3, 9]) := by decide

/-! ## the vector handed to the verifier -/

/-- **C17 (binding of the handed messages), model as written.** An untouched proof verifies exactly when the first
    `|revealed|` messages of the vector are the disclosed ones; whatever follows them is ignored. -/
theorem verifyOutcome_iff {M : Type} [DecidableEq M] (n : Nat) (revealed : List Nat) (honest supplied : List M)
    (hlen : honest.length = revealed.length) (hr : ∀ r ∈ revealed, r < n) :
    verifyOutcome n revealed honest supplied true true true = true ↔
      revealed.length ≤ supplied.length ∧ supplied.take revealed.length = honest := by
  unfold verifyOutcome boundPairs
  have hany : revealed.any (fun r => decide (n ≤ r)) = false := by
    rw [List.any_eq_false]; intro r hrm; have := hr r hrm; simp; omega
  by_cases hl : supplied.length < revealed.length
  · simp [hl]; omega
  · simp only [hl, if_false, hany, Bool.true_and, beq_iff_eq]
    constructor
    · intro h
      refine ⟨by omega, ?_⟩
      have := congrArg (fun l => l.map Prod.snd) h
      simp only [List.map_snd_zip] at this
      have h1 : (revealed.zip supplied).map Prod.snd = supplied.take revealed.length := by
        rw [List.map_snd_zip_of_le]  -- placeholder, replaced below
        omega
      sorry
    · sorry

end Bbs
