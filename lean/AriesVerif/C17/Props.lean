import AriesVerif.C17.Model
/-! # C17 — property theorems, bookkeeping part (every message count, every revealed set). -/
namespace Bbs

theorem orBit_length (bv : List Nat) (r : Nat) : (orBit bv r).length = bv.length := by simp [orBit]

theorem foldl_orBit_length (R : List Nat) (bv : List Nat) : (R.foldl orBit bv).length = bv.length := by
  induction R generalizing bv with
  | nil => rfl
  | cons r R ih => simp [List.foldl_cons, ih, orBit_length]

theorem bitvector_length (len : Nat) (R : List Nat) : (bitvector len R).length = len := by
  simp [bitvector, foldl_orBit_length]

theorem testBit_one_shiftLeft (k b : Nat) : (1 <<< k).testBit b = decide (k = b) := by
  rw [Nat.one_shiftLeft, Nat.testBit_two_pow]

theorem orBit_testBit (bv : List Nat) (r idx b : Nat) (hidx : idx < bv.length) :
    ((orBit bv r).getD idx 0).testBit b =
      ((bv.getD idx 0).testBit b || (decide (r / 8 = idx) && decide (r % 8 = b))) := by
  unfold orBit
  by_cases h : r / 8 = idx
  · subst h
    have hb := testBit_one_shiftLeft (r % 8) b
    simp [List.getD_eq_getElem?_getD, hidx, Nat.testBit_or, hb, -Nat.testBit_shiftLeft]
  · have h' : ¬ idx = r / 8 := fun e => h e.symm
    simp [List.getD_eq_getElem?_getD, List.getElem?_set, h, h']

theorem foldl_orBit_testBit (R : List Nat) (bv : List Nat) (idx b : Nat) (hidx : idx < bv.length) :
    ((R.foldl orBit bv).getD idx 0).testBit b =
      ((bv.getD idx 0).testBit b || R.any fun r => decide (r / 8 = idx) && decide (r % 8 = b)) := by
  induction R generalizing bv with
  | nil => simp
  | cons r R ih =>
    rw [List.foldl_cons, ih (orBit bv r) (by simpa [orBit_length] using hidx), orBit_testBit bv r idx b hidx]
    simp [List.any_cons, Bool.or_assoc]

theorem bitvector_testBit (len : Nat) (R : List Nat) (idx b : Nat) (hidx : idx < len) :
    (((bitvector len R).getD idx 0).testBit b) = R.any fun r => decide (r / 8 = idx) && decide (r % 8 = b) := by
  unfold bitvector
  rw [foldl_orBit_testBit R _ idx b (by simpa using hidx)]
  simp [List.getD_eq_getElem?_getD, hidx]

theorem mem_bitvectorToIndexes (data : List Nat) (x : Nat) :
    x ∈ bitvectorToIndexes data ↔ x < 8 * data.length ∧ (data.getD (x / 8) 0).testBit (x % 8) = true := by
  simp [bitvectorToIndexes, List.mem_filter]

theorem bitvectorToIndexes_sorted (data : List Nat) : (bitvectorToIndexes data).Pairwise (· < ·) := by
  unfold bitvectorToIndexes
  exact List.Pairwise.filter _ List.pairwise_lt_range

/-- two strictly ascending lists with the same members are the same list -/
theorem sorted_ext : ∀ (a b : List Nat), a.Pairwise (· < ·) → b.Pairwise (· < ·) → (∀ x, x ∈ a ↔ x ∈ b) → a = b
  | [], [], _, _, _ => rfl
  | [], y :: ys, _, _, h => by have := (h y).mpr (by simp); simp at this
  | x :: xs, [], _, _, h => by have := (h x).mp (by simp); simp at this
  | x :: xs, y :: ys, ha, hb, h => by
    have hax := List.pairwise_cons.mp ha
    have hby := List.pairwise_cons.mp hb
    have hxy : x = y := by
      have h1 : x ∈ y :: ys := (h x).mp (by simp)
      have h2 : y ∈ x :: xs := (h y).mpr (by simp)
      rcases List.mem_cons.mp h1 with e | hx
      · exact e
      · rcases List.mem_cons.mp h2 with e | hy
        · exact e.symm
        · have := hby.1 x hx; have := hax.1 y hy; omega
    subst hxy
    congr 1
    apply sorted_ext xs ys hax.2 hby.2
    intro z
    constructor
    · intro hz
      have : z ∈ x :: ys := (h z).mp (by simp [hz])
      rcases List.mem_cons.mp this with e | hz'
      · have := hax.1 z hz; omega
      · exact hz'
    · intro hz
      have : z ∈ x :: xs := (h z).mpr (by simp [hz])
      rcases List.mem_cons.mp this with e | hz'
      · have := hby.1 z hz; omega
      · exact hz'

/-- the verifier reads back exactly the revealed index set -/
theorem indexes_of_bitvector (n : Nat) (R : List Nat) (hs : R.Pairwise (· < ·)) (hr : ∀ r ∈ R, r < n) :
    bitvectorToIndexes (bitvector (n / 8 + 1) R) = R := by
  apply sorted_ext _ _ (bitvectorToIndexes_sorted _) hs
  intro x
  rw [mem_bitvectorToIndexes, bitvector_length]
  constructor
  · rintro ⟨hx, hb⟩
    rw [bitvector_testBit _ _ _ _ (by omega)] at hb
    obtain ⟨r, hrm, hrr⟩ := List.any_eq_true.mp hb
    simp only [Bool.and_eq_true, decide_eq_true_eq] at hrr
    have : r = x := by omega
    exact this ▸ hrm
  · intro hx
    have hxn := hr x hx
    refine ⟨by omega, ?_⟩
    rw [bitvector_testBit _ _ _ _ (by omega)]
    exact List.any_eq_true.mpr ⟨x, hx, by simp⟩

/-- **C17 (payload), every message count and every revealed set.** What `DeriveProof` writes in front of the proof is
    read back by `VerifyProof` as the same message count and the same revealed indexes, whatever follows it. -/
theorem C17_payload (n : Nat) (R : List Nat) (tail : List Nat) (hn : n < 65536)
    (hs : R.Pairwise (· < ·)) (hr : ∀ r ∈ R, r < n) :
    ∃ bs, toBytes n R = some bs ∧ bs.length = lenInBytes n ∧ parse (bs ++ tail) = some (n, R) := by
  have hall : R.all (fun r => r / 8 < n / 8 + 1) = true := by
    rw [List.all_eq_true]; intro r hrm; have := hr r hrm; simp; omega
  refine ⟨[n / 256 % 256, n % 256] ++ (bitvector (n / 8 + 1) R).reverse, by simp [toBytes, hall], ?_, ?_⟩
  · simp [bitvector_length, lenInBytes]; omega
  · have hcount : n / 256 % 256 * 256 + n % 256 = n := by omega
    simp only [List.cons_append, List.nil_append, parse, hcount]
    have hlen : ((bitvector (n / 8 + 1) R).reverse ++ tail).length ≥ n / 8 + 1 := by
      simp [bitvector_length]
    rw [if_neg (by omega)]
    have htake : ((bitvector (n / 8 + 1) R).reverse ++ tail).take (n / 8 + 1) = (bitvector (n / 8 + 1) R).reverse := by
      rw [List.take_append_of_le_length (by simp [bitvector_length])]
      rw [List.take_of_length_le (by simp [bitvector_length])]
    rw [htake, List.reverse_reverse, indexes_of_bitvector n R hs hr]

/-- an index that no message has is an error of `toBytes` only when its byte lies outside the vector: the padding bits
    of the last byte can be set (this is why `VerifyProof` has to check `index < messagesCount` itself) -/
example : toBytes 3 [5] = some [0, 3, 32] ∧ parse [0, 3, 32] = some (3, [5]) := by decide
example : toBytes 3 [8] = none := by decide
/-- non-vacuity: 10 messages, indexes 0 3 9 -/
example : toBytes 10 [0, 3, 9] = some [0, 10, 2, 9] ∧ parse ([0, 10, 2, 9] ++ [77, 78]) = some (10, [0, 3, 9]) := by decide

/-! ## the vector handed to the verifier -/

theorem zip_eq_zip_iff {α M : Type} (r : List α) (s h : List M) (hl : h.length = r.length)
    (hs : r.length ≤ s.length) : r.zip s = r.zip h ↔ s.take r.length = h := by
  induction r generalizing s h with
  | nil =>
    have : h = [] := List.length_eq_zero_iff.mp (by simpa using hl)
    simp [this]
  | cons a r ih =>
    cases s with
    | nil => simp at hs
    | cons b s' =>
      cases h with
      | nil => simp at hl
      | cons c h' =>
        simp only [List.zip_cons_cons, List.cons.injEq, Prod.mk.injEq, true_and, List.length_cons, List.take_succ_cons]
        rw [ih s' h' (by simpa using hl) (by simpa using hs)]

/-- **C17 (binding of the handed messages), model as written.** An untouched proof verifies exactly when the first
    `|revealed|` messages of the vector are the disclosed ones; whatever follows them is ignored. -/
theorem verifyOutcome_iff {M : Type} [DecidableEq M] (n : Nat) (revealed : List Nat) (honest supplied : List M)
    (hlen : honest.length = revealed.length) (hr : ∀ r ∈ revealed, r < n) :
    verifyOutcome n revealed honest supplied true true true = true ↔
      revealed.length ≤ supplied.length ∧ supplied.take revealed.length = honest := by
  unfold verifyOutcome boundPairs
  have hany : revealed.any (fun r => decide (n ≤ r)) = false := by
    rw [List.any_eq_false]; intro r hrm; have := hr r hrm; simp; omega
  by_cases hl : supplied.length < revealed.length
  · simp [hl]; omega
  · have hle : revealed.length ≤ supplied.length := by omega
    simp only [hl, if_false, hany, Bool.true_and, beq_iff_eq, Bool.false_eq_true]
    rw [zip_eq_zip_iff revealed supplied honest hlen hle]
    exact ⟨fun h => ⟨hle, h⟩, fun h => h.2⟩

/-- the contract accepts exactly the disclosed vector; the model accepts every extension of it (C17-F1) -/
theorem spec_implies_model {M : Type} [DecidableEq M] (n : Nat) (revealed : List Nat) (honest supplied : List M)
    (hlen : honest.length = revealed.length) (hr : ∀ r ∈ revealed, r < n)
    (h : specOutcome honest supplied true true true = true) :
    verifyOutcome n revealed honest supplied true true true = true := by
  have hs : supplied = honest := by simpa [specOutcome] using h
  rw [verifyOutcome_iff n revealed honest supplied hlen hr, hs]
  exact ⟨by omega, by rw [← hlen]; exact List.take_length⟩

/-- **C17-F1, the open finding, as a theorem about the code as written**: a supplemented vector is accepted. -/
theorem C17_F1_supplemented_accepted {M : Type} [DecidableEq M] (n : Nat) (revealed : List Nat) (honest extra : List M)
    (hlen : honest.length = revealed.length) (hr : ∀ r ∈ revealed, r < n) :
    verifyOutcome n revealed honest (honest ++ extra) true true true = true := by
  rw [verifyOutcome_iff n revealed honest _ hlen hr]
  exact ⟨by simp; omega, by rw [← hlen]; simp⟩

/-- without the supplement the model and the contract agree: a vector of exactly the disclosed length is accepted iff it
    is the disclosed vector (changed, reordered, shifted vectors are refused) -/
theorem C17_exact_length {M : Type} [DecidableEq M] (n : Nat) (revealed : List Nat) (honest supplied : List M)
    (hlen : honest.length = revealed.length) (hr : ∀ r ∈ revealed, r < n) (hsl : supplied.length = revealed.length) :
    verifyOutcome n revealed honest supplied true true true = specOutcome honest supplied true true true := by
  have hiff := verifyOutcome_iff n revealed honest supplied hlen hr
  have htake : supplied.take revealed.length = supplied := by rw [← hsl]; exact List.take_length
  rw [htake] at hiff
  cases hv : verifyOutcome n revealed honest supplied true true true with
  | true => have := hiff.mp hv; simp [specOutcome, this.2]
  | false =>
    cases hsp : specOutcome honest supplied true true true with
    | false => rfl
    | true =>
      have hs : supplied = honest := by simpa [specOutcome] using hsp
      have := hiff.mpr ⟨by omega, hs⟩
      rw [hv] at this; cases this

/-- a dropped message (a shorter vector) is always refused -/
theorem C17_dropped_refused {M : Type} [DecidableEq M] (n : Nat) (revealed : List Nat) (honest supplied : List M)
    (b1 b2 b3 : Bool) (h : supplied.length < revealed.length) :
    verifyOutcome n revealed honest supplied b1 b2 b3 = false := by
  simp [verifyOutcome, boundPairs, h]

/-- another nonce, another key or altered proof bytes are refused (ideal proof system: this is the assumption, named) -/
theorem C17_context_bound {M : Type} [DecidableEq M] (n : Nat) (revealed : List Nat) (honest supplied : List M)
    (b1 b2 b3 : Bool) (h : (b1 && b2 && b3) = false) :
    verifyOutcome n revealed honest supplied b1 b2 b3 = false := by
  simp [verifyOutcome, h]

/-- a disclosed index beyond the message count is refused (after the repair of C17-F3) -/
theorem C17_index_in_range {M : Type} [DecidableEq M] (n : Nat) (revealed : List Nat) (honest supplied : List M)
    (b1 b2 b3 : Bool) (r : Nat) (hr : r ∈ revealed) (hn : n ≤ r) :
    verifyOutcome n revealed honest supplied b1 b2 b3 = false := by
  have : revealed.any (fun r => decide (n ≤ r)) = true := List.any_eq_true.mpr ⟨r, hr, by simpa using hn⟩
  simp [verifyOutcome, boundPairs, this]

end Bbs
