import AriesVerif.Generated.PanicSites
/-! # C17 — the two checks the proof-of-knowledge bookkeeping rests on, tied to the CURRENT source.

`Generated.guards` is regenerated from the source on every run (go/ast: every branch condition of the listed functions).
The completeness / binding theorems of `Algebra.lean` are about a verifier that takes exactly one response per base and
uses the Fiat–Shamir challenge for the statement point; the payload theorems of `Props.lean` are about a verifier that
refuses an index beyond the message count. These are the branch conditions that make the real verifier such a one. -/
namespace Bbs.Guards
open C03

/-- one response per base, no more and no fewer: with a surplus response that response would take the place of the
    challenge and the proof would no longer be bound to the nonce (or to anything) -/
theorem arity_is_exact :
    Generated.guards.contains ("ProofG1.Verify", "len(pg1.responses) != len(bases)") = true := by decide +kernel

/-- a disclosed index beyond the message count is refused (padding bits of the bit vector included) -/
theorem index_in_range_checked :
    Generated.guards.contains ("BBSG2Pub.VerifyProof", "ind >= payload.messagesCount") = true := by decide +kernel

/-- fewer messages than disclosed indexes are refused -/
theorem enough_messages_checked :
    Generated.guards.contains ("BBSG2Pub.VerifyProof", "len(payload.revealed) > len(messages)") = true := by decide +kernel

end Bbs.Guards
