/-! # C17 — credential level: a reveal frame, the statements it selects, and the indexes handed to `DeriveProof`
for every BbsBlsSignature2020 proof of the credential (`bbsblssignatureproof2020/signer.go`).

A credential is canonicalised into a list of statements (N-Quads).  Every BBS+ proof signed
`proofStatements ++ documentStatements`; the statements of the proof options differ from proof to proof (verification
method, created), the document statements are the same for all of them.  `buildDocVerificationData` frames the document
with the reveal frame and looks every statement of the framed document up in the document statements
(`revealIndexes`); `buildVerificationData` turns them, per proof, into the index list for `DeriveProof`:
all statements of the proof options, then the document indexes shifted by the number of proof statements. -/
namespace Bbs.Cred

/-- members of the credential subject that the derived credential shows: those of the credential that the frame names
    (`@explicit: true`) -/
def frameSelect {α : Type} [BEq α] (present frame : List α) : List α := present.filter (frame.contains ·)

/-- `buildVerificationData`: `revealIndexes[i] = i` for the `p` proof statements, then
    `revealIndexes[i+p] = p + docVerData.revealIndexes[i]` -/
def revealIdx (p : Nat) (docIdx : List Nat) : List Nat := List.range p ++ docIdx.map (· + p)

/-- the messages a list of indexes discloses -/
def disclosed {M : Type} (all : List M) (idx : List Nat) : List (Option M) := idx.map (all[·]?)

/-- `SelectiveDisclosure`: one index list per BBS+ proof, each computed from the SAME document indexes -/
def perProof (proofLens : List Nat) (docIdx : List Nat) : List (List Nat) := proofLens.map (revealIdx · docIdx)

/-! ## what the derived credential shows -/

theorem derived_only_selected {α : Type} [BEq α] [LawfulBEq α] (present frame : List α) (x : α)
    (h : x ∈ frameSelect present frame) : x ∈ present ∧ x ∈ frame := by
  unfold frameSelect at h
  simp [List.mem_filter] at h
  exact h

theorem derived_all_selected {α : Type} [BEq α] [LawfulBEq α] (present frame : List α) (x : α)
    (hp : x ∈ present) (hf : x ∈ frame) : x ∈ frameSelect present frame := by
  unfold frameSelect
  simp [List.mem_filter]
  exact ⟨hp, hf⟩

/-- nothing the frame does not name is shown -/
theorem hidden_stays_hidden {α : Type} [BEq α] [LawfulBEq α] (present frame : List α) (x : α)
    (hf : x ∉ frame) : x ∉ frameSelect present frame :=
  fun h => hf (derived_only_selected present frame x h).2

/-- the order of the credential is kept (the frame cannot reorder) -/
theorem derived_sublist {α : Type} [BEq α] (present frame : List α) :
    (frameSelect present frame).Sublist present := by
  unfold frameSelect; exact List.filter_sublist

/-! ## the indexes handed to DeriveProof -/

theorem revealIdx_length (p : Nat) (docIdx : List Nat) : (revealIdx p docIdx).length = p + docIdx.length := by
  simp [revealIdx]

/-- every index exists in the signed vector -/
theorem revealIdx_in_range (p n : Nat) (docIdx : List Nat) (h : ∀ i ∈ docIdx, i < n) :
    ∀ j ∈ revealIdx p docIdx, j < p + n := by
  intro j hj
  simp [revealIdx] at hj
  rcases hj with hj | ⟨a, ha, rfl⟩
  · omega
  · have := h a ha; omega

private theorem getElem?_range_append {M : Type} (ps ds : List M) :
    (List.range ps.length).map ((ps ++ ds)[·]?) = ps.map some := by
  apply List.ext_getElem?
  intro i
  simp only [List.getElem?_map]
  by_cases hi : i < ps.length
  · simp [hi, List.getElem?_append_left hi]
  · simp [hi]

/-- THE bookkeeping theorem: for a proof with statements `ps`, the disclosed messages are all statements of the proof
    options followed by exactly the document statements the frame selected — whatever the number of proof statements
    is, hence for the first, the second, … proof of a credential alike -/
theorem revealIdx_discloses {M : Type} (ps ds : List M) (docIdx : List Nat) :
    disclosed (ps ++ ds) (revealIdx ps.length docIdx) = ps.map some ++ disclosed ds docIdx := by
  unfold disclosed revealIdx
  rw [List.map_append, getElem?_range_append, List.map_map]
  congr 1
  apply List.map_congr_left
  intro a _
  simp only [Function.comp]
  rw [List.getElem?_append_right (by omega)]
  congr 1
  omega

/-- ascending document indexes give ascending indexes (the payload's bit vector lists them in that order) -/
theorem revealIdx_ascending (p : Nat) (docIdx : List Nat) (h : docIdx.Pairwise (· < ·)) :
    (revealIdx p docIdx).Pairwise (· < ·) := by
  unfold revealIdx
  rw [List.pairwise_append]
  refine ⟨List.pairwise_lt_range, ?_, ?_⟩
  · rw [List.pairwise_map]
    exact h.imp (by intro a b hab; omega)
  · intro a ha b hb
    simp at ha hb
    rcases hb with ⟨c, _, rfl⟩
    omega

/-- every proof of the credential gets the document indexes of the frame — proof number `k` discloses the same
    document statements as proof number 0 -/
theorem perProof_same_document {M : Type} (proofs : List (List M)) (ds : List M) (docIdx : List Nat) (k : Nat)
    (hk : k < proofs.length) :
    disclosed (proofs[k] ++ ds) ((perProof (proofs.map List.length) docIdx)[k]'(by simp [perProof]; exact hk))
      = proofs[k].map some ++ disclosed ds docIdx := by
  simp only [perProof, List.getElem_map]
  exact revealIdx_discloses _ _ _

/-- non-vacuity: two proofs with 4 statements each over a 6-statement document, the frame selecting statements 1, 4, 5 -/
example : perProof [4, 4] [1, 4, 5] = [[0, 1, 2, 3, 5, 8, 9], [0, 1, 2, 3, 5, 8, 9]] := by decide

/-- … and what a shared, in-place shifted index list would do to the second proof (seeded change C17-3): it discloses
    other statements than the derived document contains -/
example : revealIdx 4 ([1, 4, 5].map (· + 4)) ≠ revealIdx 4 [1, 4, 5] := by decide

end Bbs.Cred
