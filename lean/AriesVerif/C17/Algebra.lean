import Mathlib.Algebra.Module.Basic
import Mathlib.Algebra.BigOperators.Group.Finset.Basic
import Mathlib.Algebra.Field.Basic
import Mathlib.LinearAlgebra.LinearIndependent.Defs
import Mathlib.Tactic.Module
import Mathlib.Tactic.LinearCombination
/-! # C17 — the group side of BBS+ selective disclosure over an abstract module.

`K` is the scalar field (Fr), `G` the group G1 written additively as a `K`-module. `h i` are the message generators,
`m i` the signed messages, `R` the set of revealed positions among `0..n-1`.

* `vc1_complete`, `vc2_complete`: what `DeriveProof` computes satisfies the two equations `VerifyProof` checks, for every
  message count and every revealed set (completeness of `proofVC1` / `proofVC2` with the bookkeeping of hidden and
  disclosed generators).
* `abar_is_x_aprime`: the pairing check `e(A', w) = e(Ā, g2)` holds because `Ā = x • A'`.
* `vc2_binds_disclosed`: for a fixed proof and a fixed non-zero challenge, at most one assignment of disclosed messages
  satisfies the second equation when the generators are linearly independent — the equation itself leaves no freedom
  in the disclosed messages (that hashed generators are independent, and that the prover cannot pick the challenge, are
  the cryptographic assumptions that stay outside). -/
namespace Bbs.Algebra

open Finset

variable {K G : Type} [Field K] [AddCommGroup G] [Module K G]

/-- `computeB`: g1 + s•h0 + Σ mᵢ•hᵢ -/
def B (g1 h0 : G) (h : ℕ → G) (m : ℕ → K) (s : K) (n : ℕ) : G :=
  g1 + s • h0 + ∑ i ∈ range n, m i • h i

/-- the pairing check: with a valid signature `(x+e)•A = b`, `Ā = r1•b − e•A'` is `x•A'` for `A' = r1•A` -/
theorem abar_is_x_aprime (A b : G) (x e r1 : K) (hsig : (x + e) • A = b) :
    r1 • b - e • (r1 • A) = x • (r1 • A) := by
  rw [← hsig]; module

/-- first equation: bases `[A', h0]`, secrets `[-e, r2]`, blinding `ρ1 ρ2`, responses `ρ − c·secret`,
    checked against `Ā − d` -/
theorem vc1_complete (A b h0 : G) (e r1 r2 c ρ1 ρ2 : K) :
    let aPrime := r1 • A
    let aBar := r1 • b - e • aPrime
    let d := r1 • b - r2 • h0
    let C1 := ρ1 • aPrime + ρ2 • h0
    (ρ1 - c * (-e)) • aPrime + (ρ2 - c * r2) • h0 + c • (aBar - d) - C1 = 0 := by
  intro aPrime aBar d C1
  simp only [aPrime, aBar, d, C1]
  module

/-- second equation, every message count `n` and every revealed set `R ⊆ range n`: bases `[d, h0] ++ hidden hᵢ`,
    secrets `[-r3, s', hidden mᵢ]`, checked against `-(g1 + Σ_{i∈R} mᵢ•hᵢ)` -/
theorem vc2_complete (g1 h0 : G) (h : ℕ → G) (m ρ : ℕ → K) (s r1 r2 c ρd ρ0 : K) (n : ℕ) (R : Finset ℕ)
    (hR : R ⊆ range n) (hr1 : r1 ≠ 0) :
    let b := B g1 h0 h m s n
    let d := r1 • b - r2 • h0
    let r3 := r1⁻¹
    let s' := s - r2 * r3
    let hidden := range n \ R
    let C2 := ρd • d + ρ0 • h0 + ∑ i ∈ hidden, ρ i • h i
    let pr := -(g1 + ∑ i ∈ R, m i • h i)
    (ρd - c * (-r3)) • d + (ρ0 - c * s') • h0 + ∑ i ∈ hidden, (ρ i - c * m i) • h i + c • pr - C2 = 0 := by
  intro b d r3 s' hidden C2 pr
  have hsplit : ∑ i ∈ range n, m i • h i = ∑ i ∈ hidden, m i • h i + ∑ i ∈ R, m i • h i :=
    (sum_sdiff hR).symm
  have hresp : ∑ i ∈ hidden, (ρ i - c * m i) • h i =
      ∑ i ∈ hidden, ρ i • h i - c • ∑ i ∈ hidden, m i • h i := by
    rw [smul_sum, ← sum_sub_distrib]
    apply sum_congr rfl
    intro i _
    module
  have hinv : r3 * r1 = 1 := inv_mul_cancel₀ hr1
  have hd : r3 • d = b - (r2 * r3) • h0 := by
    simp only [d]
    rw [smul_sub, smul_smul, hinv, one_smul, smul_smul, mul_comm r3 r2]
  simp only [C2, pr, s', hresp]
  have hb : b = g1 + s • h0 + (∑ i ∈ hidden, m i • h i + ∑ i ∈ R, m i • h i) := by
    simp only [b, B, hsplit]
  -- everything is linear in the opaque sums once r3•d is replaced
  have key : (c * r3) • d = c • (b - (r2 * r3) • h0) := by rw [mul_smul, hd]
  have : (ρd - c * -r3) • d = ρd • d + (c * r3) • d := by module
  rw [this, key, hb]
  module

/-- the second equation as a predicate on the disclosed messages `μ` (everything else fixed by the proof) -/
def vc2Holds (g1 : G) (h : ℕ → G) (R : Finset ℕ) (c : K) (fixed C2 : G) (μ : ℕ → K) : Prop :=
  fixed + c • (-(g1 + ∑ i ∈ R, μ i • h i)) - C2 = 0

/-- **no freedom in the disclosed messages**: for one proof and one non-zero challenge, two assignments that both
    satisfy the equation agree on every revealed position, provided the generators are linearly independent -/
theorem vc2_binds_disclosed (g1 : G) (h : ℕ → G) (R : Finset ℕ) (c : K) (fixed C2 : G) (μ μ' : ℕ → K)
    (hc : c ≠ 0) (hli : LinearIndependent K h)
    (h1 : vc2Holds g1 h R c fixed C2 μ) (h2 : vc2Holds g1 h R c fixed C2 μ') :
    ∀ i ∈ R, μ i = μ' i := by
  unfold vc2Holds at h1 h2
  have hdiff : c • ∑ i ∈ R, (μ i - μ' i) • h i = 0 := by
    have e : c • ∑ i ∈ R, (μ i - μ' i) • h i =
        c • (∑ i ∈ R, μ i • h i) - c • (∑ i ∈ R, μ' i • h i) := by
      rw [← smul_sub, ← sum_sub_distrib]
      congr 1
      apply sum_congr rfl
      intro i _
      module
    rw [e]
    have := congrArg₂ (· - ·) h2 h1
    simp only [sub_zero] at this
    -- h2 - h1 : c•(-(g1+Σμ')) - c•(-(g1+Σμ)) = 0
    have h3 : c • (∑ i ∈ R, μ i • h i) - c • (∑ i ∈ R, μ' i • h i) =
        (fixed + c • (-(g1 + ∑ i ∈ R, μ' i • h i)) - C2) - (fixed + c • (-(g1 + ∑ i ∈ R, μ i • h i)) - C2) := by
      module
    rw [h3, h1, h2, sub_zero]
  have hsum : ∑ i ∈ R, (μ i - μ' i) • h i = 0 := by
    rcases smul_eq_zero.mp hdiff with hc0 | hs
    · exact absurd hc0 hc
    · exact hs
  intro i hi
  have := linearIndependent_iff'.mp hli R (fun i => μ i - μ' i) hsum i hi
  exact sub_eq_zero.mp this

end Bbs.Algebra
