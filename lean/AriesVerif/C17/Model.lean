/-! # C17 — Model: the index bookkeeping of BBS+ selective disclosure (`bbs12381g2pub`).

* the proof-of-knowledge payload `(messagesCount, bit vector of revealed indexes)` and its byte codec
  (`pokPayload.toBytes`, `parsePoKPayload`, `bitvectorToIndexes`);
* how `VerifyProof` binds the vector of messages it is handed to the disclosed indexes.
The group side (commitments, responses, pairing) is in `C17/Algebra.lean`. Bytes are natural numbers below 256. -/
namespace Bbs

def lenInBytes (n : Nat) : Nat := 2 + n / 8 + 1

/-- `bitvector[r/8] |= 1 << (r%8)` -/
def orBit (bv : List Nat) (r : Nat) : List Nat :=
  bv.set (r / 8) (bv.getD (r / 8) 0 ||| (1 <<< (r % 8)))

def bitvector (len : Nat) (R : List Nat) : List Nat := R.foldl orBit (List.replicate len 0)

/-- `pokPayload.toBytes`: big-endian count, then the bit vector with its bytes reversed; an index whose byte is beyond
    the vector is an error -/
def toBytes (n : Nat) (R : List Nat) : Option (List Nat) :=
  if R.all (fun r => r / 8 < n / 8 + 1) then
    some ([n / 256 % 256, n % 256] ++ (bitvector (n / 8 + 1) R).reverse)
  else none

/-- `bitvectorToIndexes`: positions of the set bits, ascending (the Go loop walks the bytes in order and, inside a byte,
    the bits from the least significant one) -/
def bitvectorToIndexes (data : List Nat) : List Nat :=
  (List.range (8 * data.length)).filter fun x => (data.getD (x / 8) 0).testBit (x % 8)

/-- `parsePoKPayload` (of a proof: payload followed by the rest) -/
def parse (bytes : List Nat) : Option (Nat × List Nat) :=
  match bytes with
  | a :: b :: rest =>
    let n := a * 256 + b
    if rest.length < n / 8 + 1 then none
    else some (n, bitvectorToIndexes (rest.take (n / 8 + 1)).reverse)
  | _ => none

/-! ## the verifier's use of the message vector it is handed -/

/-- `VerifyProof`: `revealedMessages[payload.revealed[i]] = messages[i]`, then `verifyVC2Proof` walks all positions and
    takes `messages[revealedMessagesInd++]` at every disclosed one. Result: the (index, message) pairs that enter the
    verification equation, or `none` when the call is refused beforehand. Messages beyond the disclosed count are never
    looked at (C17-F1). -/
def boundPairs {M : Type} (n : Nat) (revealed : List Nat) (supplied : List M) : Option (List (Nat × M)) :=
  if supplied.length < revealed.length then none
  else if revealed.any (fun r => n ≤ r) then none
  else some (revealed.zip supplied)

/-- ideal proof system: an untouched proof for `honest` (the signed messages at the disclosed indexes) verifies exactly
    when the pairs that enter the equation are the honest ones, under the same nonce and key -/
def verifyOutcome {M : Type} [DecidableEq M] (n : Nat) (revealed : List Nat) (honest supplied : List M)
    (sameNonce sameKey proofIntact : Bool) : Bool :=
  sameNonce && sameKey && proofIntact &&
  match boundPairs n revealed supplied with
  | none => false
  | some ps => ps == revealed.zip honest

/-- the contract: exactly the disclosed messages -/
def specOutcome {M : Type} [DecidableEq M] (honest supplied : List M) (sameNonce sameKey proofIntact : Bool) : Bool :=
  sameNonce && sameKey && proofIntact && supplied == honest

end Bbs
