import AriesVerif.C01.Model
/-! # C02 — property theorems: a modified or re-attributed envelope is never accepted as something else -/
namespace Env

/-- **integrity of the content**: any envelope an attacker assembles around the ORIGINAL ciphertext — other recipient
    entries, other headers, other associated data, spliced from anywhere — either fails or yields exactly the original
    payload: the AEAD binds payload, content key and associated data -/
theorem C02_same_cipher_same_payload (ring : List KeyId) (e e' : Envelope) (res : Result)
    (hc : e'.cipher = e.cipher) (h : unpack ring e' = some res) : res.payload = e.cipher.payload := by
  unfold unpack at h
  split at h; · cases h
  split at h; · cases h
  split at h
  · cases h; rw [hc]
  · cases h

/-- **associated data**: changing the protected header / aad (any re-serialisation, any edited member) makes the
    original ciphertext undecryptable -/
theorem C02_aad_change_fails (ring : List KeyId) (e : Envelope) (aad' : Nat) (h : aad' ≠ e.cipher.aad) :
    unpack ring { e with aad := aad' } = none := by
  unfold unpack
  simp only
  split; · rfl
  split; · rfl
  simp [h]

/-- shape of an accepted envelope: the reported sender is the protected `skid`, and if there is one, the key-encryption
    key of the entry that was used is the 1PU term over exactly that sender -/
theorem accepted_shape (ring : List KeyId) (e : Envelope) (res : Result) (hres : unpack ring e = some res) :
    res.fromKey = e.skid ∧ ∃ r ∈ e.recipients,
      (e.skid = none ∨ ∃ s, e.skid = some s ∧ r.kek = Kek.onePU r.epk s r.kid e.tag) := by
  unfold unpack at hres
  split at hres
  · cases hres
  · rename_i r hf
    have hmem : r ∈ e.recipients := List.mem_of_find?_eq_some hf
    split at hres
    · cases hres
    · rename_i cek hun
      split at hres
      · cases hres
        refine ⟨rfl, r, hmem, ?_⟩
        cases hs : e.skid with
        | none => exact Or.inl rfl
        | some s =>
          right; refine ⟨s, rfl, ?_⟩
          unfold unwrap at hun
          rw [hs] at hun
          split at hun
          · cases hun
          · cases halg : r.alg with
            | es => simp [halg] at hun
            | onePU =>
              simp only [halg] at hun
              split at hun
              · rename_i hk; exact hk
              · cases hun
      · cases hres

/-- **no re-attribution**: whatever envelope an outsider builds from key-encryption keys it can derive with the private
    keys `own`, no key ring unpacks it as coming from a key `b` the outsider does not hold — in particular an envelope
    from sender A cannot be turned into one "from" B -/
theorem C02_no_reattribution (own ring : List KeyId) (e : Envelope) (res : Result) (b : KeyId)
    (hb : own.contains b = false) (hbuild : buildable own e = true)
    (hres : unpack ring e = some res) : res.fromKey ≠ some b := by
  obtain ⟨hfrom, r, hmem, hcase⟩ := accepted_shape ring e res hres
  intro hb'
  rw [hfrom] at hb'
  rcases hcase with hnone | ⟨s, hs, hw⟩
  · rw [hnone] at hb'; cases hb'
  · rw [hs] at hb'; injection hb' with hsb; subst hsb
    have hbr := (List.all_eq_true.mp hbuild) r hmem
    rw [hw] at hbr
    simp only [Bool.and_eq_true] at hbr
    rw [hbr.2] at hb; cases hb

/-- C02-F1 (repaired): Mallory (keys 7, 8) holds nothing of Bob (key 2). Before the fix Alice (key 1) unpacked Mallory's
    ECDH-ES envelope carrying `skid = Bob` as Bob's; now it is refused -/
def forged : Envelope :=
  { skid := some 2, recipients := [⟨1, .es, 7, .es 7 1, 99⟩], aad := 5, tag := 0, cipher := ⟨99, 5, [1, 2, 3]⟩ }

theorem forgery_accepted_before_fix :
    buildable [7, 8] forged = true ∧ unpackOld [1] forged = some ⟨[1, 2, 3], some 2, 1⟩ := by decide

theorem forgery_refused_now : unpack [1] forged = none := by decide

/-! ## which header names the sender key (`JWEDecrypt.Decrypt`, `fetchSKIDFromAPU`; authcrypt `extractSenderKey`)

Two headers can name the sender of an ECDH-1PU envelope: `skid`, and — for envelopes with several recipients — `apu`
(PartyUInfo, the sender key reference fed into the key derivation). The decrypter AUTHENTICATES with the key one of them
names; the packer ATTRIBUTES the envelope (`FromKey`) to the key `skid` names. The two must be the same header whenever
both are present and differ. -/

/-- the reference the decrypter resolves the sender key from: `skid` first, `apu` only when there is no `skid` (and the
    envelope has several recipients) -/
def authRef (skid apu : Option String) (multi : Bool) : Option String :=
  match skid with
  | some s => some s
  | none => if multi then apu else none

/-- the order of seeded change C02-8 -/
def authRefApuFirst (skid apu : Option String) (multi : Bool) : Option String :=
  match (if multi then apu else none) with
  | some a => some a
  | none => skid

/-- what the packer reports as the sender -/
def attributedTo (skid : Option String) : Option String := skid

/-- **the key that authenticated the envelope is the key it is attributed to**, whatever the headers say, whenever the
    envelope is attributed to anybody -/
theorem C02_attribution_is_authentication (skid apu : Option String) (multi : Bool) (s : String)
    (h : attributedTo skid = some s) : authRef skid apu multi = some s := by
  unfold attributedTo at h
  subst h
  rfl

/-- with `apu` first, an envelope wrapped with the outsider's key (`apu = mallory`) and labelled `skid = alice` is
    authenticated as mallory's and attributed to alice -/
theorem C02_apu_first_splits_them :
    authRefApuFirst (some "alice") (some "mallory") true = some "mallory" ∧ attributedTo (some "alice") = some "alice" := by
  decide

end Env
