import AriesVerif.C20.Model
/-! # C20 — property theorems -/
namespace C20

/-- what `isLenApplicable` means: count is exact, min / max are bounds, 0 = unset -/
theorem lenOK_iff (c mn mx v : Nat) :
    lenOK c mn mx v = true ↔ (c > 0 → v = c) ∧ (mn > 0 → mn ≤ v) ∧ (mx > 0 → v ≤ mx) := by
  unfold lenOK
  simp only [Bool.and_eq_true, Bool.not_eq_true', Bool.and_eq_false_iff, decide_eq_false_iff_not, bne_eq_false_iff_eq,
    decide_eq_true_eq, bne_iff_ne, ne_eq, gt_iff_lt]
  constructor
  · rintro ⟨⟨h1, h2⟩, h3⟩
    refine ⟨fun hc => ?_, fun hm => ?_, fun hx => ?_⟩
    · rcases h1 with h | h
      · exact absurd hc h
      · simpa using h
    · rcases h2 with h | h
      · exact absurd hm h
      · omega
    · rcases h3 with h | h
      · exact absurd hx h
      · omega
  · rintro ⟨h1, h2, h3⟩
    refine ⟨⟨?_, ?_⟩, ?_⟩
    · by_cases hc : 0 < c
      · right; simpa using h1 hc
      · left; exact hc
    · by_cases hm : 0 < mn
      · right; have := h2 hm; omega
      · left; exact hm
    · by_cases hx : 0 < mx
      · right; have := h3 hx; omega
      · left; exact hx

/-- whatever `incrementUntilValid` returns satisfies the requirement (every tree, every state, every fuel) -/
theorem incrementUntilValid_sound (req : R) (fuel : Nat) (it : Iter) (h : (incrementUntilValid req fuel it).2 ≠ []) :
    req.sat (incrementUntilValid req fuel it).2 = true := by
  induction fuel generalizing it with
  | zero => simp [incrementUntilValid] at h
  | succ n ih =>
    unfold incrementUntilValid at h ⊢
    simp only at h ⊢
    split
    · rename_i he; simp [he] at h
    · rename_i he
      split
      · rename_i hs; exact hs
      · rename_i hs
        simp only [he, hs] at h
        exact ih _ h

/-- `Next` only hands out satisfying descriptor subsets -/
theorem next_sound (req : R) (it : Iter) (ex : List String) (h : (next req it ex).2 ≠ []) :
    req.sat (next req it ex).2 = true := by
  unfold next at h ⊢
  exact incrementUntilValid_sound req _ _ h

/-- a solution that passes `evalSol` consists of descriptors for which matching credentials were found -/
theorem evalSol_sound (matchesAny : String → Bool) (sol : List String) (h : HSt)
    (hinv : ∀ d ∈ h.matched, matchesAny d = true) (hs : (evalSol matchesAny sol h).1 = true) :
    ∀ d ∈ sol, matchesAny d = true := by
  induction sol generalizing h with
  | nil => intro d hd; cases hd
  | cons x xs ih =>
    unfold evalSol at hs
    intro d hd
    by_cases hev : h.evaluated.contains x = true
    · simp only [hev, if_true] at hs
      by_cases hm : h.matched.contains x = true
      · simp only [hm, if_true] at hs
        rcases List.mem_cons.mp hd with rfl | hd'
        · exact hinv _ (List.contains_iff_mem.mp hm)
        · exact ih h hinv hs d hd'
      · have hm' : h.matched.contains x = false := Bool.eq_false_iff.mpr hm
        simp only [hm', Bool.false_eq_true, if_false] at hs
    · simp only [hev, Bool.false_eq_true, if_false] at hs
      by_cases hx : matchesAny x = true
      · simp only [hx, if_true] at hs
        have hinv' : ∀ d ∈ ({ evaluated := x :: h.evaluated, matched := x :: h.matched } : HSt).matched,
            matchesAny d = true := by
          intro d' hd'
          rcases List.mem_cons.mp hd' with rfl | h2
          · exact hx
          · exact hinv d' h2
        rcases List.mem_cons.mp hd with rfl | hd'
        · exact hx
        · exact ih _ hinv' hs d hd'
      · simp [hx] at hs

/-- `evalSol` keeps the invariant "matched descriptors have matching credentials" -/
theorem evalSol_inv (matchesAny : String → Bool) (sol : List String) (h : HSt)
    (hinv : ∀ d ∈ h.matched, matchesAny d = true) :
    ∀ d ∈ (evalSol matchesAny sol h).2.2.matched, matchesAny d = true := by
  induction sol generalizing h with
  | nil => simpa [evalSol] using hinv
  | cons x xs ih =>
    unfold evalSol
    by_cases hev : h.evaluated.contains x = true
    · simp only [hev, if_true]
      by_cases hm : h.matched.contains x = true
      · simp only [hm, if_true]; exact ih h hinv
      · simp only [hm, Bool.false_eq_true, if_false]; exact hinv
    · simp only [hev, Bool.false_eq_true, if_false]
      by_cases hx : matchesAny x = true
      · simp only [hx, if_true]
        apply ih
        intro d' hd'
        rcases List.mem_cons.mp hd' with rfl | h2
        · exact hx
        · exact hinv d' h2
      · simp only [hx, Bool.false_eq_true, if_false]; exact hinv

theorem holderLoop_sound (req : R) (matchesAny : String → Bool) (fuel : Nat) (it : Iter) (ex : List String) (h : HSt)
    (hinv : ∀ d ∈ h.matched, matchesAny d = true) (sol : List String)
    (hs : holderLoop req matchesAny fuel it ex h = some sol) :
    req.sat sol = true ∧ ∀ d ∈ sol, matchesAny d = true := by
  induction fuel generalizing it ex h with
  | zero => simp [holderLoop] at hs
  | succ n ih =>
    unfold holderLoop at hs
    simp only at hs
    split at hs
    · cases hs
    · rename_i hne
      split at hs
      · rename_i hsolved
        cases hs
        refine ⟨next_sound req it ex (by intro h0; simp [h0] at hne), ?_⟩
        exact evalSol_sound matchesAny _ h hinv hsolved
      · exact ih _ _ _ (evalSol_inv matchesAny _ h hinv) hs

/-- **holder soundness**: whatever descriptor subset `CreateVP` settles on satisfies the definition's submission
    requirements (every requirement tree, every descriptor list) and every descriptor in it has a matching credential -/
theorem C20_holder_sound (req : R) (pdDescs : List String) (matchesAny : String → Bool) (sol : List String)
    (h : holder req pdDescs matchesAny = some sol) :
    req.sat sol = true ∧ ∀ d ∈ sol, matchesAny d = true := by
  unfold holder at h
  exact holderLoop_sound req matchesAny _ _ _ _ (by intro d hd; cases hd) sol h

/-- **agreement**: the verifier side (after the `fix:` commit) accepts what the holder side produced for the same
    definition -/
theorem C20_agree (req : R) (pdDescs : List String) (matchesAny : String → Bool) (sol : List String)
    (h : holder req pdDescs matchesAny = some sol) : verifier req sol = true :=
  (C20_holder_sound req pdDescs matchesAny sol h).1

/-- the descriptor map: every matching credential of every chosen descriptor (`merge`) -/
def submission (matchesDC : String → String → Bool) (creds : List String) (sol : List String) : List (String × String) :=
  sol.flatMap fun d => (creds.filter (matchesDC d)).map fun c => (d, c)

/-- **only matching credentials are included**: every (descriptor, credential) pair of the descriptor map matches, so
    a credential that satisfies no descriptor is never part of a presentation -/
theorem C20_only_matching (matchesDC : String → String → Bool) (creds sol : List String) (d c : String)
    (h : (d, c) ∈ submission matchesDC creds sol) : matchesDC d c = true ∧ c ∈ creds ∧ d ∈ sol := by
  unfold submission at h
  simp only [List.mem_flatMap, List.mem_map, List.mem_filter, Prod.mk.injEq] at h
  obtain ⟨d', hd', c', ⟨hc', hm⟩, rfl, rfl⟩ := h
  exact ⟨hm, hc', hd'⟩

/-! ## C20-F1 (repaired) and non-vacuity -/

/-- `pick 1 from {d1, d2}` with only d1 matchable: the holder submits {d1}; the verifier as written before the fix
    rejected it, the repaired one accepts -/
example :
    let req := R.leaf ["d1", "d2"] 1 0 0
    holder req ["d1", "d2"] (· == "d1") = some ["d1"] ∧ verifierOld ["d1", "d2"] ["d1"] = false ∧
    verifier req ["d1"] = true := by decide

/-- exclusion jump: d1 has no credential, the iterator drops it and still finds {d2, d3} for `pick min 2` -/
example : holder (R.leaf ["d1", "d2", "d3"] 0 2 3) ["d1", "d2", "d3"] (· != "d1") = some ["d2", "d3"] := by decide

/-- nested requirement: all of [pick 1 of A={d1,d2}, all of B={d3}] -/
example : holder (R.node (.cons (.leaf ["d1", "d2"] 1 0 0) (.cons (.leaf ["d3"] 1 0 0) .nil)) 2 0 0)
    ["d1", "d2", "d3"] (fun _ => true) = some ["d1", "d3"] := by decide

end C20
