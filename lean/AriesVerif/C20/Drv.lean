import AriesVerif.C20.Model
import AriesVerif.Base.Util
/-! C20 driver glue: parse the definition / credentials (format of harness/cmd/corr/c20.go), build the requirement
    logic as `makeRequirement` + `toLogic` do, evaluate the generator's field constraints, predict holder and verifier,
    and judge the implementation's output (oracle). -/
namespace C20.Drv
open C20 Util

structure Desc where
  id : String
  groups : List Char
  kind : Char
  attr : String
  val : String
  /-- schema list of the descriptor: "s0" any credential; "s1" / "s2" a REQUIRED degree entry behind / in front of the
      entry every credential satisfies; "s3" both entries, none required -/
  schema : String := "s0"
deriving Repr

structure Cred where
  id : String
  attrs : List (String × String)
deriving Repr

/-- submission requirement as parsed from the input -/
inductive SR where
  | from_ (all : Bool) (group : Char) (count min max : Nat)
  | nested (all : Bool) (kids : List SR) (count min max : Nat)

def parseDesc (s : String) : Option Desc :=
  match s.splitOn "/" with
  | [id, g, k, a, v] => some ⟨id, if g == "-" then [] else g.toList, k.toList.headD 'e', a, v, "s0"⟩
  | [id, g, k, a, v, sch] =>
    if ["s1", "s2", "s3", "f1", "f2", "f3"].contains sch then some ⟨id, if g == "-" then [] else g.toList, k.toList.headD 'e', a, v, sch⟩
    else none
  | _ => none

def parseCred (s : String) : Option Cred :=
  match s.splitOn "/" with
  | [id] => some ⟨id, []⟩
  | [id, kvs] => some ⟨id, if kvs == "" then [] else (kvs.splitOn ",").filterMap fun kv =>
      match kv.splitOn "=" with | [k, v] => some (k, v) | _ => none⟩
  | _ => none

def kvNat (kvs : List String) (key : String) : Nat :=
  (kvs.filterMap fun kv => match kv.splitOn "=" with
    | [k, v] => if k == key then v.toNat? else none
    | _ => none).headD 0

/-- recursive descent on characters: RULE(G;k=v) | RULE[req,req;k=v] -/
partial def parseSR (cs : List Char) : Option (SR × List Char) :=
  let (isAll, rest) : Bool × List Char :=
    if cs.take 3 == "all".toList then (true, cs.drop 3) else (false, cs.drop 4)
  match rest with
  | '(' :: r =>
    let body := String.ofList (r.takeWhile (· != ')'))
    let after := (r.dropWhile (· != ')')).drop 1
    match body.splitOn ";" with
    | g :: kvs => some (.from_ isAll (g.toList.headD 'A') (kvNat kvs "count") (kvNat kvs "min") (kvNat kvs "max"), after)
    | [] => none
  | '[' :: r =>
    let rec kids (cs : List Char) (acc : List SR) : Option (List SR × List Char) :=
      match parseSR cs with
      | none => none
      | some (k, rest) =>
        match rest with
        | ',' :: rest' => kids rest' (acc ++ [k])
        | _ => some (acc ++ [k], rest)
    match kids r [] with
    | none => none
    | some (ks, rest) =>
      let tail := String.ofList (rest.takeWhile (· != ']'))
      let after := (rest.dropWhile (· != ']')).drop 1
      let kvs := (tail.splitOn ";").filter (· != "")
      some (.nested isAll ks (kvNat kvs "count") (kvNat kvs "min") (kvNat kvs "max"), after)
  | _ => none

/-- `toRequirement` + `toLogic`; `none` = "no descriptors for from" -/
partial def toLogic (descs : List Desc) : SR → Option R
  | .from_ isAll g c mn mx =>
    let ds := (descs.filter fun d => d.groups.contains g).map (·.id)
    if ds.isEmpty then none else
    let count := if isAll then ds.length else c
    let mx' := if count == 0 && mx == 0 then ds.length else mx
    some (.leaf ds count mn mx')
  | .nested isAll ks c mn mx =>
    match ks.mapM (toLogic descs) with
    | none => none
    | some rs =>
      let count := if isAll then rs.length else c
      let mx' := if count == 0 && mx == 0 then rs.length else mx
      some (.node (rs.foldr RL.cons RL.nil) count mn mx')

/-- `makeRequirement` -/
def makeLogic (descs : List Desc) (reqs : Option (List SR)) : Option R :=
  match reqs with
  | none => some (.leaf (descs.map (·.id)) descs.length 0 0)
  | some rs =>
    match rs.mapM (toLogic descs) with
    | none => none
    | some ls => some (.node (ls.foldr RL.cons RL.nil) ls.length 0 0)

def isNum (v : String) : Bool := v.toNat?.isSome

/-- the generator's field constraints: exists / string const / string pattern ^val / number minimum -/
def filterPasses (kind : Char) (val v : String) : Bool :=
  match kind with
  | 'c' => !isNum v && v == val
  | 'p' => !isNum v && (v.toList.take val.length == val.toList)
  | 'm' => (match v.toNat?, val.toNat? with | some x, some m => x ≥ m | _, _ => false)
  | _ => false

/-- `filterSchema`: at least one schema of the list is satisfied and every REQUIRED one is — whatever their order.
    Degree credentials are the ones whose id starts with `g`. -/
def schemaOk (d : Desc) (c : Cred) : Bool :=
  if d.schema == "s1" || d.schema == "s2" then c.id.startsWith "g"
  -- `filterFormat`: f1 = JWT credentials signed with EdDSA (ids `j…`), f2 = credentials with an Ed25519Signature2018
  -- linked data proof (ids `l…`), f3 = JWT credentials signed with ES256 (there are none)
  else if d.schema == "f1" then c.id.startsWith "j"
  else if d.schema == "f2" then c.id.startsWith "l"
  else if d.schema == "f3" then false
  else true

def credMatches (d : Desc) (c : Cred) : Bool :=
  schemaOk d c &&
  -- upper case kinds: the filter sits on an OPTIONAL field (absent is fine, present must pass), next to the required
  -- field "attribute a0 exists"
  if d.kind == 'C' || d.kind == 'P' || d.kind == 'M' then
    (c.attrs.any (·.1 == "a0")) &&
      (match c.attrs.find? (·.1 == d.attr) with
       | none => true
       | some (_, v) => filterPasses d.kind.toLower d.val v)
  else
  match c.attrs.find? (·.1 == d.attr) with
  | none => false
  | some (_, v) =>
    match d.kind with
    | 'e' => true
    | 'c' => !isNum v && v == d.val
    | 'p' => !isNum v && (v.toList.take d.val.length == d.val.toList)
    | 'm' | 'q' => match v.toNat?, d.val.toNat? with
        | some x, some m => x ≥ m
        | _, _ => false
    | _ => false          -- 'n': constraints without `fields` match nothing (filterConstraints: applicable stays false)

structure Case where
  descs : List Desc
  reqs : Option (List SR)
  creds : List Cred

def parseCase (input : String) : Option Case :=
  match input.splitOn "|" with
  | [d, r, c] =>
    let ds := ((String.ofList (d.toList.drop 2)).splitOn ";").mapM parseDesc
    let rs := String.ofList (r.toList.drop 2)
    let cstr := String.ofList (c.toList.drop 2)
    let cs := if cstr == "" then some [] else (cstr.splitOn ";").mapM parseCred
    let reqs : Option (Option (List SR)) :=
      if rs == "-" then some none
      else ((rs.splitOn "+").mapM fun (s : String) => match parseSR s.toList with
        | some (sr, []) => some sr | _ => none).map some
    match ds, reqs, cs with
    | some ds, some reqs, some cs => some ⟨ds, reqs, cs⟩
    | _, _, _ => none
  | _ => none

def pairsOf (cse : Case) (sol : List String) : List String :=
  sortStrings (sol.flatMap fun d =>
    match cse.descs.find? (·.id == d) with
    | none => []
    | some dd => (cse.creds.filter (credMatches dd)).map fun c =>
        -- what the presentation shows for the constrained attribute: a predicate descriptor only gets `true`
        let shown := if dd.kind == 'q' then "true"
          else ((c.attrs.find? (·.1 == dd.attr)).map (·.2)).getD "absent"
        s!"{d}:{c.id}[{shown}]")

/-- SD-JWT credentials under `limit_disclosure: required` (format of harness/cmd/corr/c20sd.go): the claims of the
    credential subject as (path, value) -/
def sdClaims (spec : String) : List (String × String) :=
  (spec.splitOn ";").flatMap fun part =>
    match part.splitOn ":" with
    | [o, kvs] => (kvs.splitOn ",").filterMap fun kv =>
        match kv.splitOn "=" with
        | [k, v] => some (if o == "t" then k else o ++ "." ++ k, v)
        | _ => none
    | _ => []

/-- the credential the verifier gets back for the descriptor shows exactly the requested fields with their issued values;
    a requested field the credential does not have means the credential does not match -/
def handleSD (spec req : String) : String :=
  let claims := sdClaims spec
  let wanted := (req.splitOn ",").eraseDups
  if wanted.all fun p => claims.any (·.1 == p) then
    "ok shown=" ++ ",".intercalate (sortStrings (wanted.map fun p => p ++ "=" ++ ((claims.find? (·.1 == p)).map (·.2)).getD ""))
  else "nocreds"

/-- `MatchSubmissionRequirement` (`makeRequirementsForMatch` + `matchRequirement`): one node per requirement in
    pre-order; a `from` node lists its descriptors (definition order) each with ALL credentials that satisfy it, a
    `from_nested` node lists nothing itself; without submission requirements there is one node with every descriptor -/
partial def msrNodes (cse : Case) : SR → List String
  | .from_ _ g _ _ _ =>
    [",".intercalate ((cse.descs.filter fun d => d.groups.contains g).map fun d =>
      d.id ++ "=" ++ "+".intercalate (sortStrings ((cse.creds.filter (credMatches d)).map (·.id))))]
  | .nested _ ks _ _ _ => "" :: ks.flatMap (msrNodes cse)

def msrExpected (cse : Case) : String :=
  match cse.reqs with
  | none => ",".intercalate (cse.descs.map fun d =>
      d.id ++ "=" ++ "+".intercalate (sortStrings ((cse.creds.filter (credMatches d)).map (·.id))))
  | some rs => ";".intercalate (rs.flatMap (msrNodes cse))

/-- version 2 definitions (an optional field, a format requirement) are not put to `MatchSubmissionRequirement` by the harness -/
def isV2 (cse : Case) : Bool := cse.descs.any fun d =>
  d.kind == 'C' || d.kind == 'P' || d.kind == 'M' || d.schema == "f1" || d.schema == "f2" || d.schema == "f3"

/-- BBS+ credentials under `limit_disclosure: required` (format of harness/cmd/corr/c20bbs.go): the credential the
    verifier gets back reveals exactly the requested leaves of the credential subject (every requested path exists in the
    harness's credential) -/
def handleBBS (req : String) : String :=
  "ok shown=" ++ ",".intercalate (sortStrings (req.splitOn ",").eraseDups)

/-- two descriptors over the same BBS+ credential (format of `c20RunBBS2`): each gets exactly its own leaves -/
def handleBBS2 (input : String) : String :=
  match input.splitOn "|" with
  | [_, r0, r1] =>
    let leaves (r : String) := ",".intercalate (sortStrings (r.splitOn ",").eraseDups)
    "ok d0=" ++ leaves r0 ++ ";d1=" ++ leaves r1
  | _ => "bad-input"

def handle (input : String) : String :=
  if input.startsWith "bbs2|" then handleBBS2 input else
  if input.startsWith "bbs|" then handleBBS (String.ofList (input.toList.drop 4)) else
  if input.startsWith "sd|" then
    (match input.splitOn "|" with | [_, spec, req] => handleSD spec req | _ => "bad-input") else
  match parseCase input with
  | none => "bad-input"
  | some cse =>
    match makeLogic cse.descs cse.reqs with
    | none => "err no descriptors for from|-"
    | some req =>
      let matchesAny := fun d => match cse.descs.find? (·.id == d) with
        | some dd => cse.creds.any (credMatches dd) | none => false
      match holder req (cse.descs.map (·.id)) matchesAny with
      | none => "nocreds|-"
      | some sol =>
        let v := if verifier req sol then "ok " ++ ",".intercalate (sortStrings sol) else "reject"
        let m := if verifier req sol then "|msr " ++ (if isV2 cse then "-" else msrExpected cse) else ""
        "vp " ++ ",".intercalate (pairsOf cse sol) ++ "|" ++ v ++ m

/-- all sublists (the oracle's brute force over descriptor subsets; n ≤ 6) -/
def sublists : List String → List (List String)
  | [] => [[]]
  | x :: xs => let r := sublists xs; r ++ r.map (x :: ·)

/-- the property on an observed run:
    * a created presentation uses a descriptor subset that satisfies the requirement logic, every (descriptor, credential)
      pair in its descriptor map really credMatches, and the verifier accepts it and returns exactly those descriptors;
    * "no credentials" is only reported when no non-empty subset of the matchable descriptors satisfies the requirement -/
def oracle (input implOut : String) : String :=
  if input.startsWith "bbs2|" then
    (let want := handleBBS2 input
     if implOut == want then implOut
     else "LIMITED-DISCLOSURE-SHOWS-OTHER-FIELDS-THAN-REQUESTED: expected " ++ want) else
  if input.startsWith "bbs|" then
    (let want := handleBBS (String.ofList (input.toList.drop 4))
     if implOut == want then implOut
     else "LIMITED-DISCLOSURE-SHOWS-OTHER-FIELDS-THAN-REQUESTED: expected " ++ want) else
  if input.startsWith "sd|" then
    (match input.splitOn "|" with
     | [_, spec, req] =>
       let want := handleSD spec req
       if implOut == want then implOut
       else if want == "nocreds" then "CREDENTIAL-WITHOUT-A-REQUESTED-FIELD-PRESENTED"
       else "LIMITED-DISCLOSURE-SHOWS-OTHER-FIELDS-THAN-REQUESTED: expected " ++ want
     | _ => "bad-input") else
  match parseCase input with
  | none => "bad-input"
  | some cse =>
    match makeLogic cse.descs cse.reqs with
    | none => if implOut == "err no descriptors for from|-" then implOut else "EXPECTED-DEFINITION-ERROR"
    | some req =>
      match implOut.splitOn "|" with
      | h :: v :: more =>
        let msrBad := match more with
          | [m] => m != "msr " ++ (if isV2 cse then "-" else msrExpected cse)
          | [] => false
          | _ => true
        if msrBad then "MATCHED-SUBMISSION-REQUIREMENT-DIFFERS: expected msr " ++ msrExpected cse
        else if h.startsWith "walletquery-differs" then "WALLET-QUERY-ANSWER-DIFFERS-FROM-CREATEVP " ++ h
        else if h == "nocreds" then
          -- only descriptors the requirement mentions can be submitted
          let matchable := ((cse.descs.filter fun d => cse.creds.any (credMatches d)).map (·.id)).filter (R.all req).contains
          let solvable := (sublists matchable).any fun s => !s.isEmpty && req.sat s
          if solvable then "HOLDER-MISSED-A-SOLUTION" else implOut
        else if h.startsWith "vp " then
          let pairs := ((String.ofList (h.toList.drop 3)).splitOn ",").filter (· != "")
          let parsed := pairs.filterMap fun p => match p.splitOn ":" with
            | [d, c] => match c.splitOn "[" with
              | [cid, sh] => some (d, cid, String.ofList (sh.toList.takeWhile (· != ']')))
              | _ => none
            | _ => none
          let sol := (parsed.map (·.1)).eraseDups
          let badPair := parsed.any fun (d, c, _) =>
            match cse.descs.find? (·.id == d), cse.creds.find? (·.id == c) with
            | some dd, some cc => !credMatches dd cc
            | _, _ => true
          -- the credential the descriptor map points to must show the issued value, or only `true` under a predicate
          let badShown := parsed.any fun (d, c, sh) =>
            match cse.descs.find? (·.id == d), cse.creds.find? (·.id == c) with
            | some dd, some cc =>
              if dd.kind == 'q' then sh != "true"
              else sh != ((cc.attrs.find? (·.1 == dd.attr)).map (·.2)).getD "absent"
            | _, _ => true
          if badPair then "NON-MATCHING-CREDENTIAL-INCLUDED"
          else if badShown then "DESCRIPTOR-MAPPED-TO-WRONG-CREDENTIAL-VARIANT"
          else if !req.sat sol then "HOLDER-SOLUTION-VIOLATES-REQUIREMENTS"
          else if v != "ok " ++ ",".intercalate (sortStrings sol) then "VERIFIER-DISAGREES"
          else implOut
        else "UNEXPECTED-HOLDER-ERROR"
      | _ => "bad-output"

end C20.Drv
