/-! # C20 — Model: Presentation Exchange, holder side (`CreateVP`) and verifier side (`Match`).

`requirementlogic.go` (IsSatisfiedBy, the bitset solution iterator with descriptor exclusion), `definition.go`
(toRequirement / makeRequirement / toLogic / applyRequirement / merge) and `api.go` (Match, evalSubmissionRequirements)
are modelled as written; constraint evaluation (JSONPath + JSON-schema filter, external libraries) is the predicate
`matches`, which the driver computes for the simple field constraints the generator emits. -/
namespace C20

mutual
/-- `RequirementLogic` after `toLogic` -/
inductive R where
  | leaf (descs : List String) (count min max : Nat)      -- `from` a group
  | node (kids : RL) (count min max : Nat)                -- `from_nested`
inductive RL where
  | nil
  | cons (r : R) (rest : RL)
end

/-- `isLenApplicable` -/
def lenOK (count min max val : Nat) : Bool :=
  !(count > 0 && val != count) && !(min > 0 && min > val) && !(max > 0 && max < val)

mutual
/-- `IsSatisfiedBy` -/
def R.sat (chosen : List String) : R → Bool
  | .leaf ds c mn mx => lenOK c mn mx ((ds.eraseDups.filter chosen.contains).length)
  | .node ks c mn mx => lenOK c mn mx (RL.countSat chosen ks)
def RL.countSat (chosen : List String) : RL → Nat
  | .nil => 0
  | .cons r rest => (if R.sat chosen r then 1 else 0) + RL.countSat chosen rest
end

mutual
/-- `GetAllDescriptors` -/
def R.all : R → List String
  | .leaf ds _ _ _ => ds
  | .node ks _ _ _ => RL.all ks
def RL.all : RL → List String
  | .nil => []
  | .cons r rest => R.all r ++ RL.all rest
end

/-! ## the bitset solution iterator -/

structure Iter where
  state : Nat
  descs : List String
deriving Repr

/-- `current`: the descriptors whose bit is set -/
def current (it : Iter) : List String :=
  (it.descs.zipIdx.filter fun (_, i) => it.state.testBit i).map (·.1)

/-- `incrementUntilValid`, with fuel (the state space is `2 ^ descs.length`) -/
def incrementUntilValid (req : R) : Nat → Iter → Iter × List String
  | 0, it => (it, [])
  | fuel + 1, it =>
    let c := current it
    if c.isEmpty then (it, [])
    else if req.sat c then (it, c)
    else incrementUntilValid req fuel { it with state := it.state + 1 }

/-- `excludeDescriptors`: drop the excluded descriptors; jump to the first state above the current one that does not
    involve the largest excluded bit -/
def exclude (it : Iter) (ex : List String) : Iter :=
  let idxs := (it.descs.zipIdx.filter fun (d, _) => ex.contains d).map (·.2)
  if idxs.isEmpty then { it with state := it.state + 1 } else
  let largest := idxs.foldl Nat.max 0
  let bit := 2 ^ largest
  let st := (it.state / bit) * bit + bit          -- AndNot (bit - 1); Add bit
  { state := st / 2 ^ idxs.length,                -- Rsh len(exclude)
    descs := (it.descs.zipIdx.filter fun (_, i) => !idxs.contains i).map (·.1) }

/-- `Next(exclude)` -/
def next (req : R) (it : Iter) (ex : List String) : Iter × List String :=
  let it' := exclude it ex
  incrementUntilValid req (2 ^ it'.descs.length + 1) it'

/-- `NewBitsetIterator`: the definition's descriptors (in order) that the requirement mentions -/
def newIter (req : R) (pdDescs : List String) : Iter := ⟨0, pdDescs.filter (R.all req).contains⟩

/-! ## holder: `applyRequirement` -/

structure HSt where
  evaluated : List String
  matched : List String

/-- one pass over a candidate solution: (solved?, descriptor to exclude, state) -/
def evalSol (matchesAny : String → Bool) : List String → HSt → Bool × List String × HSt
  | [], h => (true, [], h)
  | d :: ds, h =>
    if h.evaluated.contains d then
      if h.matched.contains d then evalSol matchesAny ds h else (false, [], h)
    else
      let h1 : HSt := { h with evaluated := d :: h.evaluated }
      if matchesAny d then evalSol matchesAny ds { h1 with matched := d :: h1.matched }
      else (false, [d], h1)

def holderLoop (req : R) (matchesAny : String → Bool) : Nat → Iter → List String → HSt → Option (List String)
  | 0, _, _, _ => none
  | fuel + 1, it, ex, h =>
    let r := next req it ex
    if r.2.isEmpty then none else
    let e := evalSol matchesAny r.2 h
    if e.1 then some r.2 else holderLoop req matchesAny fuel r.1 e.2.1 e.2.2

/-- the descriptor subset `CreateVP` settles on (`none` = ErrNoCredentials) -/
def holder (req : R) (pdDescs : List String) (matchesAny : String → Bool) : Option (List String) :=
  let it := newIter req pdDescs
  holderLoop req matchesAny (2 ^ it.descs.length + it.descs.length + 2) it [] ⟨[], []⟩

/-! ## verifier: `Match` -/

/-- `evalSubmissionRequirements` after the `fix:` commit: the definition's requirement logic decides -/
def verifier (req : R) (matched : List String) : Bool := req.sat matched

/-- as written before the fix: every input descriptor had to be matched, whatever the rules say -/
def verifierOld (pdDescs matched : List String) : Bool := pdDescs.all matched.contains

end C20
