import AriesVerif.C01.Model
/-! # C01 — property theorems: round trip for every recipient, failure for every non-recipient -/
namespace Env

theorem find_pack (auth : Bool) (sender : KeyId) (rs : List KeyId) (cek epk aad tag : Nat) (m : Bytes)
    (ring : List KeyId) :
    (pack auth sender rs cek epk aad tag m).recipients.find? (fun r => ring.contains r.kid)
      = (rs.find? (fun r => ring.contains r)).map fun r =>
          if auth then ⟨r, .onePU, epk, .onePU epk sender r tag, cek⟩ else ⟨r, .es, epk, .es epk r, cek⟩ := by
  unfold pack
  simp only
  induction rs with
  | nil => rfl
  | cons r rs ih =>
    simp only [List.map_cons, List.find?_cons]
    cases auth <;> by_cases h : ring.contains r = true <;> simp_all

/-- **round trip**: whatever payload is packed for whatever list of recipient keys (any length), a party whose key ring
    holds one of them — `r` being the first such key in the list — unpacks exactly that payload, addressed to `r`, and
    for authenticated encryption attributed to the true sender -/
theorem C01_roundtrip (auth : Bool) (sender : KeyId) (rs : List KeyId) (cek epk aad tag : Nat) (m : Bytes)
    (ring : List KeyId) (r : KeyId) (hfirst : rs.find? (fun r => ring.contains r) = some r) :
    unpack ring (pack auth sender rs cek epk aad tag m)
      = some ⟨m, if auth then some sender else none, r⟩ := by
  have hr : ring.contains r = true := by
    have := List.find?_some hfirst
    simpa using this
  have hr' : r ∈ ring := by simpa using hr
  unfold unpack
  rw [find_pack, hfirst]
  cases auth <;> simp [unwrap, hr', pack]

/-- **only recipients**: a party holding none of the recipient private keys never obtains the payload -/
theorem C01_nonrecipient (auth : Bool) (sender : KeyId) (rs : List KeyId) (cek epk aad tag : Nat) (m : Bytes)
    (ring : List KeyId) (h : ∀ r ∈ rs, ring.contains r = false) :
    unpack ring (pack auth sender rs cek epk aad tag m) = none := by
  have : rs.find? (fun r => ring.contains r) = none := by
    rw [List.find?_eq_none]; intro r hr
    have := h r hr
    simpa using this
  unfold unpack
  rw [find_pack, this]
  rfl

/-- every recipient of a multi-recipient envelope (each with its own key ring holding exactly its own key) succeeds -/
theorem C01_every_recipient (auth : Bool) (sender : KeyId) (rs : List KeyId) (cek epk aad tag : Nat) (m : Bytes)
    (r : KeyId) (hr : r ∈ rs) :
    unpack [r] (pack auth sender rs cek epk aad tag m) = some ⟨m, if auth then some sender else none, r⟩ := by
  apply C01_roundtrip
  induction rs with
  | nil => cases hr
  | cons x xs ih =>
    simp only [List.find?_cons]
    by_cases hx : x = r
    · subst hx; simp
    · have : ([r].contains x) = false := by simp [hx]
      simp only [this]
      rcases List.mem_cons.mp hr with h | h
      · exact absurd h.symm hx
      · exact ih h

/-- non-vacuity -/
example : unpack [7] (pack true 1 [5, 7, 9] 42 3 100 8 [1, 2, 3]) = some ⟨[1, 2, 3], some 1, 7⟩ := by decide
example : unpack [4] (pack false 1 [5, 7, 9] 42 3 100 8 [1, 2, 3]) = none := by decide

end Env
