/-! # C01 / C02 — Model: DIDComm envelopes with symbolic (ideal) cryptography.

A key pair is a number; holding it in a key ring means holding the private part. A key-encryption key is the term that
records which secrets went into its derivation (ECDH-ES: ephemeral × recipient; ECDH-1PU: ephemeral × sender × recipient,
with the content tag bound in). A wrapped key opens only with exactly that term, a ciphertext only with its content key
and the associated data it was produced under. Every attacker-steerable dispatch of the unpack path is explicit: which
recipient entry is tried, which derivation its `alg` selects, where the reported sender comes from. -/
namespace Env

abbrev KeyId := Nat
abbrev Bytes := List Nat

inductive Alg | es | onePU
deriving DecidableEq, Repr

inductive Kek
  | es (epk rcpt : KeyId)
  | onePU (epk sender rcpt : KeyId) (tag : Nat)
deriving DecidableEq, Repr

structure Recipient where
  kid : KeyId            -- key the entry is addressed to
  alg : Alg              -- derivation named in the header (attacker chosen on a crafted envelope)
  epk : KeyId
  kek : Kek              -- the term the content key was wrapped under
  cek : Nat              -- the wrapped content key
deriving DecidableEq, Repr

/-- the AEAD ciphertext as an opaque object: content key, associated data, plaintext -/
structure Cipher where
  cek : Nat
  aad : Nat
  payload : Bytes
deriving DecidableEq, Repr

structure Envelope where
  skid : Option KeyId    -- protected `skid`
  recipients : List Recipient
  aad : Nat              -- the associated data as received (protected header bytes [+ aad])
  tag : Nat
  cipher : Cipher
deriving Repr

structure Result where
  payload : Bytes
  fromKey : Option KeyId
  toKey : KeyId
deriving DecidableEq, Repr

/-- packers: anoncrypt = ECDH-ES, no skid; authcrypt = ECDH-1PU with the sender's key, `skid` in the protected header -/
def pack (auth : Bool) (sender : KeyId) (rs : List KeyId) (cek epk aad tag : Nat) (m : Bytes) : Envelope :=
  { skid := if auth then some sender else none,
    recipients := rs.map fun r =>
      if auth then ⟨r, .onePU, epk, .onePU epk sender r tag, cek⟩ else ⟨r, .es, epk, .es epk r, cek⟩,
    aad := aad, tag := tag, cipher := ⟨cek, aad, m⟩ }

/-- `UnwrapKey`: the key ring must hold the recipient key; the derivation is chosen by `alg`; a sender key is only
    meaningful (and, after the `fix:` commit, only accepted) with ECDH-1PU -/
def unwrap (ring : List KeyId) (sender : Option KeyId) (tag : Nat) (r : Recipient) : Option Nat :=
  if !ring.contains r.kid then none else
  match r.alg, sender with
  | .es, some _ => none                                   -- fix: "a sender key cannot be authenticated with ECDH-ES"
  | .es, none => if r.kek = .es r.epk r.kid then some r.cek else none
  | .onePU, some s => if r.kek = .onePU r.epk s r.kid tag then some r.cek else none
  | .onePU, none => none

/-- `Packer.Unpack` + `JWEDecrypt.Decrypt`: the first recipient entry whose key is in the ring decides -/
def unpack (ring : List KeyId) (e : Envelope) : Option Result :=
  match e.recipients.find? (fun r => ring.contains r.kid) with
  | none => none
  | some r =>
    match unwrap ring e.skid e.tag r with
    | none => none
    | some cek =>
      if cek = e.cipher.cek ∧ e.aad = e.cipher.aad then some ⟨e.cipher.payload, e.skid, r.kid⟩ else none

/-- the unwrap as it was before the fix: the ES branch ignored a supplied sender key -/
def unwrapOld (ring : List KeyId) (sender : Option KeyId) (tag : Nat) (r : Recipient) : Option Nat :=
  if !ring.contains r.kid then none else
  match r.alg, sender with
  | .es, _ => if r.kek = .es r.epk r.kid then some r.cek else none
  | .onePU, some s => if r.kek = .onePU r.epk s r.kid tag then some r.cek else none
  | .onePU, none => none

def unpackOld (ring : List KeyId) (e : Envelope) : Option Result :=
  match e.recipients.find? (fun r => ring.contains r.kid) with
  | none => none
  | some r =>
    match unwrapOld ring e.skid e.tag r with
    | none => none
    | some cek =>
      if cek = e.cipher.cek ∧ e.aad = e.cipher.aad then some ⟨e.cipher.payload, e.skid, r.kid⟩ else none

/-- what an outsider holding the private keys `own` can build: key-encryption keys it can derive itself (ES with an
    ephemeral key of its own; 1PU only with an ephemeral AND the sender key of its own) -/
def buildable (own : List KeyId) (e : Envelope) : Bool :=
  e.recipients.all fun r => match r.kek with
    | .es epk _ => own.contains epk
    | .onePU epk s _ _ => own.contains epk && own.contains s

end Env
