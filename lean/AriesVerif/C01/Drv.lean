import AriesVerif.C01.Model
import AriesVerif.Base.Util
/-! C01 / C02 driver glue (format of harness/cmd/corr/c01.go). Parties: 0 = sender, 1..n = recipients, n+1 = outsider;
    each party's key ring holds exactly its own key. -/
namespace Env.Drv
open Env Util

structure Cfg where
  kind : String
  kt : String
  enc : String
  nrec : Nat
  payload : String
  kidstyle : String

def parseCfg (s : String) : Option Cfg :=
  match s.splitOn "," with
  | [k, kt, enc, n, p, st] => n.toNat?.map fun n => ⟨k, kt, enc, n, p, st⟩
  | _ => none

/-- configurations in which `Pack` itself refuses (validated by the correspondence):
    N1 authcrypt with A256CBC-HS384 on the NIST curves ("invalid CBC-HMAC key size 56");
    N2 an empty payload with a stream AEAD (A256GCM / XC20P) and JSON serialisation, i.e. ≥ 2 recipients
       ("ciphertext cannot be empty") -/
def packFails (c : Cfg) : Bool :=
  (c.kind == "aj" && c.enc == "c256" && c.kt != "x25519") ||
  ((c.kind == "aj" || c.kind == "nj") && c.payload == "e0" && (c.enc == "gcm" || c.enc == "xc") && c.nrec ≥ 2)

def showRes (self : KeyId) (m : Bytes) (r : Option Result) : String :=
  match r with
  | none => "fail"
  | some res =>
    let eq := if res.payload == m then "1" else "0"
    let from_ := match res.fromKey with | none => "none" | some k => if k == 0 then "sender" else "other"
    let to := if res.toKey == self then "self" else "other"
    s!"ok:{eq}:{from_}:{to}"

/-- baseline outcome of every party, from the symbolic model -/
def baseline (c : Cfg) : List String :=
  let auth := c.kind == "aj" || c.kind == "la"
  let rs := (List.range c.nrec).map (· + 1)
  let m : Bytes := [1, 2, 3]
  let e := pack auth 0 rs 42 77 5 9 m
  (List.range (c.nrec + 2)).map fun i => showRes i m (unpack [i] e)

def handle (input : String) : String :=
  match input.splitOn "|" with
  | cfg :: _ =>
    match parseCfg cfg with
    | none => "bad-input"
    | some c =>
      if packFails c then "pack=fail" else
      -- `unpack` is a function of the key ring and the envelope: a second envelope of the same parties (q) and the
      -- first one again (r) come out as the first time
      let b := (baseline c).zipIdx
      -- ... and the same message through every party's PACKAGER (keys named by did:key / DID-URL ids, packer chosen by
      -- media type profile) comes out the same again (g)
      "pack=ok " ++ " ".intercalate (b.map (fun (s, i) => s!"p{i}={s}") ++ b.map (fun (s, i) => s!"q{i}={s}")
        ++ b.map (fun (s, i) => s!"r{i}={s}") ++ b.map (fun (s, i) => s!"g{i}={s}"))
  | _ => "bad-input"

/-- C02: (model column, spec column). The baseline part of the outcome must be what the model predicts; the mutated part
    must be, for every party, a failure or exactly the baseline; a change of the decoded bytes of an authenticated field
    (protected header, iv, ciphertext, tag, or any header edit) must fail for everybody. -/
def judgeMut (input impl : String) : String × String :=
  match input.splitOn "|" with
  | [cfg, mutS] =>
    match parseCfg cfg with
    | none => ("bad-input", "bad-input")
    | some c =>
      let words := impl.splitOn " "
      if words.head? == some "pack=fail" then
        (if packFails c then "=" else "model: pack=ok", "=")
      else
        let base := baseline c
        let parties := words.filter fun w => w.startsWith "p" && !w.startsWith "pack"
        let parsed := parties.map fun w =>
          match ((w.splitOn "=").drop 1) with
          | [r] => match r.splitOn "/" with
            | [b, m] => (b, some m)
            | [b] => (b, none)
            | _ => ("?", none)
          | _ => ("?", none)
        let modelOk := packFails c == false && parsed.map (·.1) == base
        let modelCol := if modelOk then "=" else "model-baseline: " ++ " ".intercalate base
        let changed := words.contains "changed=1"
        let field := match mutS.splitOn ":" with | _ :: f :: _ => f | _ => ""
        let kindM := (mutS.splitOn ":").headD ""
        let authenticated := kindM == "hdr" ||
          ((kindM == "flip" || kindM == "trunc" || kindM == "splice") &&
            (field == "protected" || field == "iv" || field == "ciphertext" || field == "tag"))
        -- an envelope built by an outsider (no sender key involved) may be accepted, but only as an unattributed one
        let unattributed (m : String) : Bool := (m.splitOn ":").getD 2 "" == "none"
        let bad := parsed.any fun (b, m) => match m with
          | none => false
          | some m => m != "fail" && m != b && !(kindM == "forge" && field != "skid" && unattributed m)
        let accepted := kindM != "forge" && parsed.any fun (_, m) => match m with | some m => m != "fail" | none => false
        if bad then (modelCol, "MODIFIED-ENVELOPE-ACCEPTED-AS-SOMETHING-ELSE")
        else if authenticated && changed && accepted then (modelCol, "AUTHENTICATED-FIELD-CHANGED-BUT-ACCEPTED")
        else (modelCol, "=")
  | _ => ("bad-input", "bad-input")

end Env.Drv
