/-! # C05 / C06 — Model: the local key manager as sequences of storage steps over an encrypted-keyset store.

An entry of the store is the symbolic term written by `storeKeySet` / `writeImportedKey`:
`json{encryptedKeyset := aead (envelope key) keyset, keysetInfo := public}`. Key ids: the JWK thumbprint of the public key
(a function `thumb` of the key) for created asymmetric keys, random for symmetric keys and for keys imported without a
caller-chosen id (C06-F2), the caller's string for named imports. Every call is a list of storage steps so that a crash
is a prefix of that list. -/
namespace Kms

inductive KeyClass | asym | sym
deriving DecidableEq, Repr

/-- a key: its secret material is the number `secret`; `pub = secret + 1000000` stands for the public key -/
structure Key where
  secret : Nat
  cls : KeyClass
deriving DecidableEq, Repr

inductive IdKind
  | thumb (secret : Nat)        -- thumbprint of the public key
  | random (n : Nat)
  | named (s : String)
deriving DecidableEq, Repr

/-- what the store holds under an id: the keys of the keyset (primary last), encrypted under the master key `mk` -/
structure Entry where
  master : Nat
  keys : List Key
deriving DecidableEq, Repr

/-- the key store as a total function (extensional reasoning); `none` = no entry under that id -/
abbrev Store := IdKind → Option Entry

def putE (s : Store) (id : IdKind) (e : Entry) : Store := fun i => if i = id then some e else s i
def delE (s : Store) (id : IdKind) : Store := fun i => if i = id then none else s i

inductive Step
  | put (id : IdKind) (e : Entry)
  | del (id : IdKind)
deriving DecidableEq, Repr

def applyStep (s : Store) : Step → Store
  | .put id e => putE s id e
  | .del id => delE s id

/-- the id `storeKeySet` chooses -/
def idFor (k : Key) (fresh : Nat) : IdKind :=
  match k.cls with
  | .asym => .thumb k.secret
  | .sym => .random fresh

/-- storage steps of the mutating calls (after the `fix:` commit Rotate stores the new keyset before it deletes the old
    entry) -/
def createSteps (mk : Nat) (k : Key) (fresh : Nat) : List Step := [.put (idFor k fresh) ⟨mk, [k]⟩]

def importSteps (mk : Nat) (k : Key) (id : IdKind) : List Step := [.put id ⟨mk, [k]⟩]

def rotateSteps (mk : Nat) (old : IdKind) (e : Entry) (k' : Key) (fresh : Nat) : List Step :=
  let newId := idFor k' fresh
  [.put newId ⟨mk, e.keys ++ [k']⟩] ++ (if newId == old then [] else [.del old])

/-- Rotate as it was before the fix -/
def rotateStepsOld (mk : Nat) (old : IdKind) (e : Entry) (k' : Key) (fresh : Nat) : List Step :=
  [.del old, .put (idFor k' fresh) ⟨mk, e.keys ++ [k']⟩]

/-- the process dies after `n` steps of a call -/
def crashAt (s : Store) (steps : List Step) (n : Nat) : Store := (steps.take n).foldl applyStep s

/-- a key manager opened with master key `mk` can use the entry under `id` as key `k` iff the entry was encrypted under
    `mk` (ideal AEAD) and contains `k` -/
def usable (mk : Nat) (s : Store) (id : IdKind) (k : Key) : Prop :=
  ∃ e, s id = some e ∧ e.master = mk ∧ k ∈ e.keys

/-- key material `k` is still usable under SOME id -/
def retrievable (mk : Nat) (s : Store) (k : Key) : Prop := ∃ id, usable mk s id k

end Kms
