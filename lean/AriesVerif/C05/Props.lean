import AriesVerif.C05.Model
import AriesVerif.C12.Model
/-! # C05 / C06 — property theorems -/
namespace Kms

/-! ## C06 — durability under every crash point -/

theorem usable_putE_other {mk : Nat} {s : Store} {id id' : IdKind} {k : Key} (e : Entry)
    (h : usable mk s id k) (hne : id ≠ id') : usable mk (putE s id' e) id k := by
  obtain ⟨e0, h1, h2, h3⟩ := h
  exact ⟨e0, by simp [putE, hne, h1], h2, h3⟩

theorem usable_delE_other {mk : Nat} {s : Store} {id id' : IdKind} {k : Key}
    (h : usable mk s id k) (hne : id ≠ id') : usable mk (delE s id') id k := by
  obtain ⟨e0, h1, h2, h3⟩ := h
  exact ⟨e0, by simp [delE, hne, h1], h2, h3⟩

/-- **create / import never destroy another key**, at any crash point: a key usable under `id` before the call is
    usable under `id` after any prefix of the call's storage steps, provided the call writes a different id (a created
    asymmetric key whose thumbprint equals an existing id IS that key; a requested id that exists is refused by
    `verifyRequestedID`) -/
theorem C06_put_durable (mk : Nat) (s : Store) (id newId : IdKind) (k : Key) (e : Entry) (n : Nat)
    (h : usable mk s id k) (hne : id ≠ newId) : usable mk (crashAt s [.put newId e] n) id k := by
  unfold crashAt
  cases n with
  | zero => simpa using h
  | succ m => simpa [applyStep] using usable_putE_other e h hne

/-- **rotate, at every crash point**: the key material that was usable under `old` before the call is still retrievable
    after any prefix of Rotate's storage steps — under the old id as long as it has not been deleted, under the new id
    afterwards (the rotated keyset contains the old keys) -/
theorem C06_rotate_durable (mk : Nat) (s : Store) (old : IdKind) (e : Entry) (k k' : Key) (fresh n : Nat)
    (hs : s old = some e) (hmk : e.master = mk) (hk : k ∈ e.keys) :
    retrievable mk (crashAt s (rotateSteps mk old e k' fresh) n) k := by
  have hold : usable mk s old k := ⟨e, hs, hmk, hk⟩
  unfold crashAt rotateSteps
  by_cases hid : (idFor k' fresh == old) = true
  · -- the new id equals the old one: a single put that overwrites the entry with a keyset that still contains k
    have hid' : idFor k' fresh = old := by simpa using hid
    simp only [hid, if_true, List.append_nil]
    cases n with
    | zero => exact ⟨old, by simpa using hold⟩
    | succ m =>
      refine ⟨old, ⟨mk, e.keys ++ [k']⟩, ?_, rfl, ?_⟩
      · simp [applyStep, putE, hid']
      · simp [hk]
  · have hne : idFor k' fresh ≠ old := by simpa using hid
    simp only [hid, Bool.false_eq_true, if_false]
    match n with
    | 0 => exact ⟨old, by simpa using hold⟩
    | 1 =>
      refine ⟨old, ?_⟩
      simpa [applyStep] using usable_putE_other _ hold (Ne.symm hne)
    | (m + 2) =>
      refine ⟨idFor k' fresh, ⟨mk, e.keys ++ [k']⟩, ?_, rfl, ?_⟩
      · simp [applyStep, putE, delE, hne]
      · simp [hk]

/-- **rotate never destroys another key** -/
theorem C06_rotate_other (mk : Nat) (s : Store) (old id : IdKind) (e : Entry) (k k' : Key) (fresh n : Nat)
    (h : usable mk s id k) (h1 : id ≠ old) (h2 : id ≠ idFor k' fresh) :
    usable mk (crashAt s (rotateSteps mk old e k' fresh) n) id k := by
  unfold crashAt rotateSteps
  by_cases hid : (idFor k' fresh == old) = true
  · simp only [hid, if_true, List.append_nil]
    cases n with
    | zero => simpa using h
    | succ m => simpa [applyStep] using usable_putE_other _ h h2
  · simp only [hid, Bool.false_eq_true, if_false]
    match n with
    | 0 => simpa using h
    | 1 => simpa [applyStep] using usable_putE_other _ h h2
    | (m + 2) =>
      simp only [List.cons_append, List.nil_append, List.take_succ_cons, List.take_zero, List.foldl_cons, applyStep]
      have := usable_delE_other (id' := old) (usable_putE_other ⟨mk, e.keys ++ [k']⟩ h h2) h1
      simpa using this

/-- C06-F1 (repaired): with the old order a crash after the first step loses the key -/
example : let k : Key := ⟨7, .asym⟩
    let s : Store := fun i => if i = .thumb 7 then some ⟨1, [k]⟩ else none
    (crashAt s (rotateStepsOld 1 (.thumb 7) ⟨1, [k]⟩ ⟨8, .asym⟩ 0) 1) (.thumb 7) = none ∧
    (crashAt s (rotateStepsOld 1 (.thumb 7) ⟨1, [k]⟩ ⟨8, .asym⟩ 0) 1) (.thumb 8) = none := by
  decide

/-- **the key id of a created asymmetric key is a function of the key alone** (not of the history, the store or
    randomness) -/
theorem C06_kid_pure (k : Key) (h : k.cls = .asym) (f1 f2 : Nat) : idFor k f1 = idFor k f2 := by
  simp [idFor, h]

/-- **wrong master key**: nothing is usable through a key manager opened with another master key -/
theorem C05_wrong_master (mk mk' : Nat) (s : Store) (hs : ∀ id e, s id = some e → e.master = mk) (hne : mk' ≠ mk)
    (id : IdKind) (k : Key) : ¬ usable mk' s id k := by
  rintro ⟨e, h1, h2, _⟩
  exact hne (by rw [← h2, hs id e h1])

/-! ## C05 — what reaches the store and the callers is opaque w.r.t. key material (symbolic terms of `Sym`) -/
open Sym

/-- the term `storeKeySet` / `writeImportedKey` writes: the keyset under the envelope AEAD, the keyset info in clear -/
def storedTerm (mk : Nat) (e : Entry) (nonce : Nat) : Term :=
  .tuple [.pub "encryptedKeyset", .b64 (.aead mk nonce (.tuple (e.keys.map fun k => .atom (toString k.secret)))),
          .pub "keysetInfo", .pub "typeUrl/status/keyId/outputPrefix"]

/-- what the API returns for a key: its id and its public key -/
def returnedTerms (id : IdKind) : List Term :=
  match id with
  | .thumb s => [.b64 (.mac 0 (.pub (toString (s + 1000000)))), .pub (toString (s + 1000000))]   -- hash of the PUBLIC key
  | .random n => [.b64 (.rnd n)]
  | .named str => [.pub str]

theorem C05_stored_opaque (mk : Nat) (e : Entry) (nonce : Nat) : Opaque (storedTerm mk e nonce) = true := by
  simp [storedTerm, Opaque, OpaqueL]

theorem C05_returned_opaque (id : IdKind) : OpaqueL (returnedTerms id) = true := by
  cases id <;> simp [returnedTerms, Opaque, OpaqueL]

/-- **every history**: all store writes and all returns of any sequence of key manager calls are opaque -/
theorem C05_history_opaque (mk : Nat) (writes : List (Entry × Nat)) (rets : List IdKind) :
    OpaqueL (writes.map (fun w => storedTerm mk w.1 w.2)) = true ∧ OpaqueL (rets.flatMap returnedTerms) = true := by
  constructor
  · induction writes with
    | nil => rfl
    | cons w ws ih => simp [OpaqueL, C05_stored_opaque, ih]
  · induction rets with
    | nil => rfl
    | cons r rs ih =>
      have hr := C05_returned_opaque r
      have : ∀ a b : List Term, OpaqueL (a ++ b) = (OpaqueL a && OpaqueL b) := by
        intro a b
        induction a with
        | nil => simp [OpaqueL]
        | cons x xs ih2 => simp [OpaqueL, ih2, Bool.and_assoc]
      simp [List.flatMap_cons, this, hr, ih]

/-- the master key itself is only ever held under the passphrase-derived lock -/
theorem C05_lock (passKey nonce mk : Nat) : Opaque (.aead passKey nonce (.atom (toString mk))) = true := rfl

/-! ### the envelope inside an entry (`tink KMSEnvelopeAEAD` over `keywrapper.LocalAEAD`): the keyset is encrypted under
a fresh data key, the data key is wrapped by the secret lock under the master key, and the two travel together -/

/-- what the envelope AEAD writes: `len ‖ wrapped data key ‖ AEAD(data key, keyset)` -/
def envelopeTerm (wrappedDek : Term) (dek : Nat) (nonce : Nat) (e : Entry) : Term :=
  .tuple [.pub "len", wrappedDek, .aead dek nonce (.tuple (e.keys.map fun k => .atom (toString k.secret)))]

/-- the data key as the secret lock hands it back: wrapped under the master key -/
def wrapped (mk n : Nat) (dek : Nat) : Term := .aead mk n (.atom ("dek:" ++ toString dek))

/-- **the envelope of every entry is opaque**: keyset and data key both lie under an AEAD, for every master key, data key,
    nonce pair and keyset -/
theorem C05_envelope_opaque (mk n1 dek n2 : Nat) (e : Entry) :
    Opaque (envelopeTerm (wrapped mk n1 dek) dek n2 e) = true := by
  simp [envelopeTerm, wrapped, Opaque, OpaqueL]

theorem C05_envelope_history_opaque (mk : Nat) (writes : List (Nat × Nat × Nat × Entry)) :
    OpaqueL (writes.map fun w => envelopeTerm (wrapped mk w.1 w.2.1) w.2.1 w.2.2.1 w.2.2.2) = true := by
  induction writes with
  | nil => rfl
  | cons w ws ih => simp [OpaqueL, C05_envelope_opaque, ih]

/-- the two seeded changes of round 4 / 6 as terms: a key manager whose envelope was swapped for the no-op lock writes the
    data key in clear (C05-6), and a key wrapper that returns a shared scratch buffer can write ANOTHER keyset's unwrapped
    data key where the wrapped one belongs (C05-7) — neither is opaque, which is what the no-master-key reopen and the
    data-key scan of the check look for -/
theorem C05_noop_envelope_not_opaque (dek n2 : Nat) (e : Entry) :
    Opaque (envelopeTerm (.atom ("dek:" ++ toString dek)) dek n2 e) = false := by
  simp [envelopeTerm, Opaque, OpaqueL]

theorem C05_foreign_dek_not_opaque (dek dek' n2 : Nat) (e : Entry) :
    Opaque (envelopeTerm (.atom ("dek:" ++ toString dek')) dek n2 e) = false := by
  simp [envelopeTerm, Opaque, OpaqueL]

/-- a cleartext keyset write (what the property forbids) is NOT opaque: the predicate can tell -/
example : Opaque (.tuple [.pub "key", .b64 (.atom "42")]) = false := by decide

end Kms
