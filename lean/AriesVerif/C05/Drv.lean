import AriesVerif.C05.Model
import AriesVerif.Base.Util
/-! C05 / C06 driver glue (format of harness/cmd/corr/c05.go): a small bookkeeping machine predicts which calls succeed,
    which ids exist in the store after the history (and after a crash inside the last call), and what a fresh key manager
    over the surviving store can retrieve. -/
namespace Kms.Drv
open Util

structure K where
  idTok : Nat            -- identity of the key id (dupid re-uses the token of key 0)
  asym : Bool
  flag : String          -- "1" thumbprint, "0" not, "-" symmetric
  named : Bool
  live : Bool            -- false once rotated away
  pubKnown : Bool
deriving Repr

structure St where
  keys : List K
  store : List Nat       -- id tokens that have an entry
  next : Nat
deriving Repr

def isAsym (kt : String) : Bool :=
  ["ed25519", "ed25519seed", "p256der", "p256", "p384", "p521", "x25519kw", "p256kw", "p384kw", "p521kw", "bbs", "secp256k1"].contains kt

/-- key types for which `kmsdidkey` derives a key id from the did:key form (key agreement keys and Ed25519) -/
def didKeyDerivable (kt : String) : Bool := ["ed25519", "x25519kw", "p256kw", "p384kw", "p521kw"].contains kt

/-- NIST key agreement keys: the did:key built from the public JWK equals the did:key built from the key (flag `j1`) -/
def jwkDidKey (kt : String) : Bool := ["p256kw", "p384kw", "p521kw"].contains kt

def importable (kt : String) : Bool := ["ed25519", "ed25519seed", "p256", "p256der", "p384", "secp256k1"].contains kt

/-- one call; `failAt` = index of the mutating storage call that fails (crash), if any. Returns (state, outcome) -/
def step (s : St) (op : String) (failAt : Option Nat) : St × String :=
  let failsAt (i : Nat) : Bool := match failAt with | some k => k ≤ i | none => false
  match op.splitOn " " with
  | ["create", kt] =>
    if failsAt 0 then (s, "err") else
    let k : K := ⟨s.next, isAsym kt, if isAsym kt then "1" else "-", false, true, false⟩
    ({ keys := s.keys ++ [k], store := s.next :: s.store, next := s.next + 1 },
      "ok:" ++ k.flag ++ (if didKeyDerivable kt then "d1" else "") ++ (if jwkDidKey kt then "j1" else ""))
  | ["createexp", kt] =>
    if failsAt 0 then (s, "err") else
    if !isAsym kt then ({ s with store := s.next :: s.store, next := s.next + 1 }, "err")   -- created, export refused
    else
      let k : K := ⟨s.next, true, "1", false, true, true⟩
      ({ keys := s.keys ++ [k], store := s.next :: s.store, next := s.next + 1 },
        "ok:1" ++ (if didKeyDerivable kt then "d1" else "") ++ (if jwkDidKey kt then "j1" else ""))
  | ["import", kt, mode] =>
    if !importable kt then (s, "skip") else
    let dup := mode == "dupid" && !s.keys.isEmpty
    let tok := if dup then (s.keys.head?.map (·.idTok)).getD s.next else s.next
    if dup && s.store.contains tok then (s, "err")            -- verifyRequestedID: the id exists
    else if failsAt 0 then (s, "err") else
    let named := mode == "id" || dup
    let k : K := ⟨tok, true, "0", named, true, false⟩
    ({ keys := s.keys ++ [k], store := tok :: s.store, next := s.next + 1 }, "ok:0")
  | ["rotate", i] =>
    match i.toNat? with
    | none => (s, "bad")
    | some i =>
      match s.keys[i]? with
      | none => (s, "skip")
      | some k =>
        if !k.live then (s, "skip") else       -- the harness does not rotate through a rotated-away entry
        if !s.store.contains k.idTok then (s, "err") else
        if failsAt 0 then (s, "err") else
        if failsAt 1 then ({ s with store := s.next :: s.store, next := s.next + 1 }, "err")   -- new stored, old kept
        else
          let nk : K := ⟨s.next, k.asym, if k.asym then "1" else "-", false, true, false⟩
          ({ keys := (s.keys.set i { k with live := false }) ++ [nk],
             store := s.next :: s.store.filter (· != k.idTok), next := s.next + 1 }, "ok")
  | ["get", i] =>
    match i.toNat?.bind (s.keys[·]?) with
    | none => (s, "skip")
    | some k => (s, if s.store.contains k.idTok then "ok" else "err")
  | ["export", i] =>
    match i.toNat? with
    | none => (s, "bad")
    | some i =>
      match s.keys[i]? with
      | none => (s, "skip")
      | some k =>
        if !k.live then (s, "skip") else       -- nor does it export through one
        if s.store.contains k.idTok && k.asym then ({ s with keys := s.keys.set i { k with pubKnown := true } }, "ok")
        else (s, "err")
  | ["box"] => (s, "ok")      -- the CryptoBox reads a key; it writes nothing and changes no key
  | _ => (s, "bad")

/-- `rfault`: the first storage READ of the last call meets a transient fault (the harness puts such a fault under a
    call that begins by probing the store: an import): the call fails and nothing changes -/
def runOps (c06 : Bool) (ops : List String) (crash : Option Nat) (rfault : Bool := false) : St × List String :=
  let n := ops.length
  (ops.zipIdx).foldl (fun (acc : St × List String) (op, i) =>
    let fa := if i + 1 == n then crash else none
    let r := if rfault && i + 1 == n then (acc.1, "err") else step acc.1 op fa
    let o := if c06 then
        (if r.2.startsWith "ok:" && (op.startsWith "create" || op.startsWith "import") then r.2
         else (r.2.splitOn ":").headD r.2)
      else (r.2.splitOn ":").headD r.2
    (r.1, acc.2 ++ [o])) (⟨[], [], 0⟩, [])

def parse (input : String) : Option (List String × Option Nat) :=
  match input.splitOn "|" with
  | [_, ops] => some (ops.splitOn ";", none)
  | [_, ops, cr] => some (ops.splitOn ";", (String.ofList (cr.toList.drop 6)).toNat?)
  | _ => none

/-- C06: model outcome line -/
def handle06 (input : String) : String :=
  match parse input with
  | none => "bad-input"
  | some (ops, crash) =>
    let r := runOps true ops crash (input.endsWith "|rfault=1")
    let lastFailed := (r.2.getLast?.map (·.startsWith "err")).getD false
    let probes := r.1.keys.map fun k =>
      let ok := r.1.store.contains k.idTok
      let same := if ok && k.pubKnown && k.live then "1" else "-"
      s!"{if k.live then "live" else "rotated-away"}:{if ok then "ok" else "fail"}/{same}"
    " ".intercalate r.2 ++ s!" || crashed={lastFailed && crash.isSome} reopen: " ++ " ".intercalate probes

/-- C06 oracle on the implementation's line: every key that was usable before the (possibly interrupted) last call is
    retrievable by a fresh key manager, as the same key; created or un-named imported asymmetric keys carry the
    thumbprint id -/
def oracle06 (impl : String) : String × String :=
  match impl.splitOn " || " with
  | [opsS, tail] =>
    let outs := opsS.splitOn " "
    let notThumb := outs.any fun o => o == "ok:0" || o.startsWith "ok:0d"
    let didKeyDiffers := outs.any fun o => o.endsWith "d0" || o.endsWith "d?" || o.endsWith "d-" ||
      o.endsWith "j0" || o.endsWith "j?" || (o.splitOn "d0").length > 1 || (o.splitOn "d?").length > 1
    let probes := ((tail.splitOn "reopen: ").getLast?.getD "").splitOn " " |>.filter (· != "")
    let lost := probes.any fun p => p.startsWith "live:fail"
    let changed := probes.any fun p => p.endsWith "/0"
    if outs.any (· == "ok:idignored") then ("CALLER-CHOSEN-ID-IGNORED", "")
    else if didKeyDiffers then ("ID-DERIVED-FROM-DID-KEY-IS-NOT-THE-KEY-ID", "")
    else if lost then ("KEY-LOST-AFTER-REOPEN", "")
    else if changed then ("KEY-MATERIAL-CHANGED-AFTER-REOPEN", "")
    else if notThumb then ("=", "id-not-thumbprint")     -- judged against the input by the caller
    else ("=", "")
  | _ => ("bad-output", "")

def judge06 (input impl : String) : String × String × String :=
  let model := handle06 input
  let modelCol := if model == impl then "=" else model
  let (verdict, note) := oracle06 impl
  -- a named import whose existence probe met a read fault must not go ahead (it would overwrite the key that holds the id)
  let lastOut := ((((impl.splitOn " || ").headD "").splitOn " ").getLast?).getD ""
  if input.endsWith "|rfault=1" && lastOut.startsWith "ok" then
    (modelCol, "IMPORT-WENT-AHEAD-ALTHOUGH-THE-STORE-COULD-NOT-BE-READ (an existing key under that id is replaced)", "")
  else if verdict != "=" then (modelCol, verdict, "")
  else if note == "id-not-thumbprint" then
    -- which ops returned ok:0 ? named imports are the caller's choice; un-named imports are C06-F2
    match parse input with
    | some (ops, _) =>
      let outs := ((impl.splitOn " || ").headD "").splitOn " "
      let bad := (ops.zip outs).filter fun (op, o) => (o == "ok:0" || o.startsWith "ok:0d") &&
        !(op.startsWith "import" && (op.endsWith " id" || op.endsWith " dupid"))
      let badCreate := bad.any fun (op, _) => op.startsWith "create"
      if badCreate then (modelCol, "CREATED-KEY-ID-IS-NOT-THE-THUMBPRINT", "")
      else if !bad.isEmpty then (modelCol, "expected ok:1 for an import without caller-chosen id", "C06-F2")
      else (modelCol, "=", "")
    | none => (modelCol, "bad-input", "")
  else (modelCol, "=", "")

/-- C05: per-call prediction plus the oracle on scan / wrong-master results -/
def judge05 (input impl : String) : String × String × String :=
  match parse input, impl.splitOn " || " with
  | some (ops, _), [opsS, tail] =>
    let model := " ".intercalate (runOps false ops none).2
    let modelCol := if model == opsS then "=" else model
    let words := tail.splitOn " "
    let scanClean := words.contains "scan=clean"
    let allFail := words.contains "wrongmaster=allfail"
    let lockOk := words.contains "lock=ok"
    if !scanClean then (modelCol, "KEY-MATERIAL-FOUND " ++ tail, "")
    else if !lockOk then (modelCol, "SECRET-LOCK-REUSES-ITS-KEY-STREAM " ++ tail, "")
    else if !allFail then (modelCol, "WRONG-MASTER-KEY-YIELDS-A-KEY " ++ tail, "")
    else (modelCol, "=", "")
  | _, _ => ("bad", "bad", "")

end Kms.Drv
