import AriesVerif.C13.Spec
/-! # C13 — the atomic-section theorem: why "the whole operation runs under the lock" gives linearizability.

An object whose every operation applies the sequential step at ONE moment between its invocation and its return (the
moment it holds the lock: `pt`), no two operations at the same moment, produces only linearizable histories — the
order of those moments is the witness. This is what the critical-section table of `Locks.lean`
(`multi_step_in_one_section`) buys for the operations it lists; `Interleave.lean` shows what goes wrong for the same
operations when the section is split. -/
namespace Lin

/-- `w` lists the operations (indexes into `h`) in the order in which they held the lock; `pt i` is that moment for
    operation `i`: inside the operation's extent and strictly increasing along `w` -/
def LockOrder (h : Array Ev) (pt : Nat → Nat) (w : List Nat) : Prop :=
  (∀ i ∈ w, ∃ e, h[i]? = some e ∧ e.inv ≤ pt i ∧ pt i ≤ e.ret) ∧ w.Pairwise (fun i j => pt i < pt j)

theorem respectsTime_go_of_lockOrder (h : Array Ev) (pt : Nat → Nat) (w : List Nat) (hw : LockOrder h pt w) :
    respectsTime.go h w = true := by
  induction w with
  | nil => simp [respectsTime.go]
  | cons i rest ih =>
    obtain ⟨hin, hpw⟩ := hw
    rw [List.pairwise_cons] at hpw
    simp only [respectsTime.go, Bool.and_eq_true, List.all_eq_true]
    refine ⟨?_, ih ⟨fun j hj => hin j (List.mem_cons_of_mem _ hj), hpw.2⟩⟩
    intro j hj
    obtain ⟨a, ha, hai, _⟩ := hin i (List.mem_cons_self ..)
    obtain ⟨b, hb, _, hbr⟩ := hin j (List.mem_cons_of_mem _ hj)
    have hlt := hpw.1 j hj
    simp only [ha, hb, Bool.not_eq_true', decide_eq_false_iff_not, Nat.not_lt]
    omega

/-- **atomic sections are linearizable**: if the operations of a history took effect one at a time, each at a moment
    inside its own extent, and the recorded results are what the sequential specification yields in that order, the
    history is linearizable (for every specification, every number of operations and goroutines) -/
theorem atomic_sections_linearizable {σ : Type} (sp : Spec σ) (h : Array Ev) (pt : Nat → Nat) (w : List Nat)
    (hperm : isPerm h.size w = true) (hlock : LockOrder h pt w)
    (hres : replay sp sp.init (w.filterMap (h[·]?)) = true) : Linearizable sp h :=
  ⟨w, hperm, by unfold respectsTime; exact respectsTime_go_of_lockOrder h pt w hlock, hres⟩

/-- a register with two writes and a read, for the examples (string equality reduces in the kernel, `splitOn` does not) -/
def regSpec : Spec String where
  init := "-"
  step s op := if op == "wa" then ("a", "ok") else if op == "wb" then ("b", "ok") else (s, s)

/-- non-vacuity: two overlapping writers and a later reader; the lock was held at 2, 3 and 6 -/
example : Linearizable regSpec #[⟨0, "wa", 1, 4, "ok"⟩, ⟨1, "wb", 1, 5, "ok"⟩, ⟨0, "r", 6, 7, "b"⟩] := by
  refine atomic_sections_linearizable regSpec _ (fun i => [2, 3, 6].getD i 0) [0, 1, 2] (by decide) ⟨?_, by decide⟩ (by decide)
  intro i hi
  simp only [List.mem_cons, List.not_mem_nil, or_false] at hi
  rcases hi with rfl | rfl | rfl <;> exact ⟨_, rfl, by decide, by decide⟩

/-- and a history that no order explains is rejected by the validator for every order (a read that returns a value
    written only AFTER the read returned) -/
example : ∀ w ∈ [[0, 1], [1, 0]], validate regSpec #[⟨0, "r", 1, 2, "a"⟩, ⟨1, "wa", 3, 4, "ok"⟩] w = false := by
  decide

end Lin
