import Batteries.Data.List.Perm
import AriesVerif.C13.Spec
/-! # C13 — what the validator's verdict means in textbook terms.

`Lin.Linearizable` is phrased with the index lists the validator computes on. Here it is shown to imply the usual
definition over lists of events: some PERMUTATION of the history, in which nobody who returned before another was
invoked comes after it, replays through the sequential specification with exactly the recorded results.
(Proof file only: Batteries for `Subperm`; not linked into the driver.) -/
namespace Lin

/-- Herlihy–Wing linearizability of a complete history against a deterministic sequential specification -/
def LinearizableTextbook {σ : Type} (sp : Spec σ) (h : List Ev) : Prop :=
  ∃ l : List Ev, l.Perm h ∧ l.Pairwise (fun a b => ¬ b.ret < a.inv) ∧ replay sp sp.init l = true

theorem perm_range_of_isPerm (n : Nat) (w : List Nat) (hp : isPerm n w = true) : w.Perm (List.range n) := by
  unfold isPerm at hp
  simp only [Bool.and_eq_true, beq_iff_eq, List.all_eq_true, List.mem_range, List.contains_eq_mem,
    decide_eq_true_eq] at hp
  obtain ⟨⟨hlen, hall⟩, _⟩ := hp
  have hsub : List.range n ⊆ w := fun i hi => hall i (List.mem_range.mp hi)
  have hsp : (List.range n).Subperm w := List.subperm_of_subset List.nodup_range hsub
  exact (hsp.perm_of_length_le (by simp [hlen])).symm

theorem filterMap_range_getElem? {α : Type} (l : List α) : (List.range l.length).filterMap (l[·]?) = l := by
  induction l with
  | nil => simp
  | cons x l ih =>
    rw [List.length_cons, List.range_succ_eq_map, List.filterMap_cons]
    simp only [List.getElem?_cons_zero, List.filterMap_map]
    have : ((fun i => (x :: l)[i]?) ∘ Nat.succ) = (fun i => l[i]?) := by
      funext i; simp
    rw [this, ih]

theorem pairwise_of_respectsTime_go (h : Array Ev) (w : List Nat) (hg : respectsTime.go h w = true) :
    w.Pairwise (fun i j => ∀ a ∈ h[i]?, ∀ b ∈ h[j]?, ¬ b.ret < a.inv) := by
  induction w with
  | nil => exact List.Pairwise.nil
  | cons i rest ih =>
    simp only [respectsTime.go, Bool.and_eq_true, List.all_eq_true] at hg
    refine List.Pairwise.cons ?_ (ih hg.2)
    intro j hj a ha b hb
    have := hg.1 j hj
    simp only [Option.mem_def] at ha hb
    simpa [ha, hb] using this

/-- **a witness accepted by the validator is a linearization in the textbook sense** -/
theorem linearizable_textbook {σ : Type} (sp : Spec σ) (h : Array Ev) (hl : Linearizable sp h) :
    LinearizableTextbook sp h.toList := by
  obtain ⟨w, hperm, htime, hrep⟩ := hl
  refine ⟨w.filterMap (h[·]?), ?_, ?_, hrep⟩
  · have hp := (perm_range_of_isPerm h.size w hperm).filterMap (fun i => h[i]?)
    have hr : (List.range h.size).filterMap (fun i => h[i]?) = h.toList := by
      have := filterMap_range_getElem? h.toList
      simpa using this
    rw [hr] at hp; exact hp
  · rw [List.pairwise_filterMap]
    unfold respectsTime at htime
    exact pairwise_of_respectsTime_go h w htime

end Lin
