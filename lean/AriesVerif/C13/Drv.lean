import AriesVerif.C13.Spec
/-! C13 driver glue (format of harness/cmd/corr/c13.go): the proposed linearization is VALIDATED here. -/
namespace Lin.Drv
open Lin

def parseEv (s : String) : Option Ev :=
  -- <g>:<op>@<inv>-<ret>=<res>
  match s.splitOn "@" with
  | [left, right] =>
    match left.splitOn ":", right.splitOn "=" with
    | g :: opParts, [times, res] =>
      match times.splitOn "-" with
      | [i, r] => do
        let g ← g.toNat?
        let i ← i.toNat?
        let r ← r.toNat?
        pure ⟨g, ":".intercalate opParts, i, r, res⟩
      | _ => none
    | _, _ => none
  | _ => none

def check (target : String) (h : Array Ev) (w : List Nat) : Bool :=
  match target with
  | "kms" => validate kmsSpec h w
  | "kms2" => validate kmsSpec h w
  | "session" => validate sessionSpec h w
  | "pickup" => validate pickupSpec h w
  | "wsave" => validate walletSpec h w
  | _ => validate kvSpec h w

def judge (input impl : String) : String × String × String :=
  let target := (input.splitOn "|").headD ""
  match impl.splitOn " lin=" with
  | [hs, lin] =>
    if !hs.startsWith "h=" then ("=", "NO-HISTORY: " ++ impl, "")
    else
      match ((hs.drop 2).toString.splitOn ";").mapM parseEv with
      | none => ("=", "unparsable history", "")
      | some evs =>
        if lin == "GAVE-UP" then ("=", "=", "")   -- the witness search ran out of budget: no verdict on this history
        else if lin == "NONE" then ("=", "NOT-LINEARIZABLE (the search found no sequential order)", "")
        else
          match (lin.splitOn ",").mapM (·.toNat?) with
          | none => ("=", "unparsable witness", "")
          | some w =>
            if check target evs.toArray w then ("=", "=", "")
            else ("=", "WITNESS-REJECTED: the proposed order does not explain the history", "")
  | _ => ("=", "NO-HISTORY: " ++ impl, "")

end Lin.Drv
