import AriesVerif.Generated.Locks
/-! # C13 — lock discipline, checked on facts REGENERATED from the source on every run (`Generated/Locks.lean`).

For every struct type of the anchored packages that owns a mutex, the translator lists every access of a method to a
receiver field that is written somewhere after construction, with the locks held at that point. -/
namespace C13

/-- unexported helpers that run with the lock already held by every caller (the callers' own rows, with the helper
    inlined, show the lock) -/
def lockHeldHelpers : List (String × String) :=
  [("batchedstore.store", "flush"), ("formattedstore.FormattedProvider", "openStore"),
   ("formattedstore.FormattedProvider", "storeStoreConfig"), ("wallet.contentStore", "updateStoreHandles")]

def guarded (a : Generated.Access) : Bool :=
  a.anyLock || lockHeldHelpers.contains (a.typ, a.method)

def writeGuarded (a : Generated.Access) : Bool :=
  a.rw != "W" || a.writeLock || lockHeldHelpers.contains (a.typ, a.method)

/-- no field that is written after construction is touched without a lock -/
theorem no_unguarded_access : Generated.accesses.all guarded = true := by decide +kernel

/-- no write happens under a read lock only -/
theorem no_write_under_read_lock : Generated.accesses.all writeGuarded = true := by decide +kernel

/-- the inventory is not empty: the types the property names are in it -/
theorem inventory_covers :
    (Generated.accesses.any fun a => a.typ == "mem.Provider") = true ∧
    (Generated.accesses.any fun a => a.typ == "mem.memStore") = true ∧
    (Generated.accesses.any fun a => a.typ == "cachedstore.CachedProvider") = true ∧
    (Generated.accesses.any fun a => a.typ == "batchedstore.store") = true ∧
    (Generated.accesses.any fun a => a.typ == "messagepickup.Service") = true ∧
    (Generated.accesses.any fun a => a.typ == "formattedstore.FormattedProvider") = true ∧
    (Generated.accesses.any fun a => a.typ == "wallet.contentStore") = true := by decide +kernel

/-- The two halves of a multi-step operation must sit in ONE critical section. For each (type, method, call through a
    receiver field): the call is still there, and on every path on which the walker sees it, it is made under a write
    lock. These are the shapes `Interleave.lean` proves correct for every schedule (and incorrect without the lock). -/
def mustBeLocked : List (String × String × String) :=
  [("cachedstore.store", "Put", "mainStore.Put"), ("cachedstore.store", "Put", "cacheStore.Put"),
   ("cachedstore.store", "Delete", "mainStore.Delete"), ("cachedstore.store", "Delete", "cacheStore.Delete"),
   ("cachedstore.store", "Batch", "mainStore.Batch"), ("cachedstore.store", "Batch", "cacheStore.Batch"),
   ("cachedstore.store", "Get", "mainStore.Get"), ("cachedstore.store", "Get", "cacheStore.Put"),
   ("messagepickup.Service", "AddMessage", "msgStore.Get"), ("messagepickup.Service", "AddMessage", "msgStore.Put"),
   ("messagepickup.Service", "handleBatchPickup", "msgStore.Get"),
   ("messagepickup.Service", "handleBatchPickup", "msgStore.Put"),
   ("messagepickup.Service", "handleStatusRequest", "msgStore.Get"),
   ("wallet.walletSessionManager", "createSession", "gstore.GetALL"),
   ("wallet.walletSessionManager", "createSession", "gstore.SetWithExpire"),
   ("wallet.walletSessionManager", "getSession", "gstore.Get"),
   ("wallet.walletSessionManager", "getSession", "gstore.SetWithExpire"),
   ("wallet.walletSessionManager", "closeSession", "gstore.GetALL"),
   ("wallet.walletSessionManager", "closeSession", "gstore.Remove"),
   ("batchedstore.store", "Put", "underlyingStore.Batch"), ("batchedstore.store", "Delete", "underlyingStore.Batch"),
   ("batchedstore.store", "Flush", "underlyingStore.Batch"),
   ("formattedstore.FormattedProvider", "OpenStore", "provider.OpenStore"),
   -- the batch leaves the inbox only if it was delivered: take, send and put back are one critical section
   ("messagepickup.Service", "handleBatchPickup", "outbound.SendToDID")]

def lockedCall (r : String × String × String) : Bool :=
  let rows := Generated.calls.filter fun a => a.typ == r.1 && a.method == r.2.1 && a.field == r.2.2
  !rows.isEmpty && rows.all (·.writeLock)

theorem multi_step_in_one_section : mustBeLocked.all lockedCall = true := by decide +kernel

/-- look-up-then-register of `OpenStore`: every access of a provider's `OpenStore` to its table of open stores — the
    look-up as well as the registration — is made under the WRITE lock (one critical section; `Interleave.lean`:
    `open_store_one_object_per_name` for every schedule, `open_store_unlocked_two_objects` without). A look-up under the read
    lock followed by a registration under the write lock (seeded change C13-5) fails this. -/
def openStoreTables : List (String × String) :=
  [("mem.Provider", "dbs"), ("cachedstore.CachedProvider", "openStores"), ("batchedstore.Provider", "openStores"),
   ("formattedstore.FormattedProvider", "openStores")]

def openStoreLocked (r : String × String) : Bool :=
  let rows := Generated.accesses.filter fun a => a.typ == r.1 && a.method == "OpenStore" && a.field == r.2
  rows.any (·.rw == "R") && rows.any (·.rw == "W") && rows.all (·.writeLock)

theorem open_store_lookup_and_register_in_one_section : openStoreTables.all openStoreLocked = true := by decide +kernel

/-- sync.Mutex / RWMutex are not reentrant: no path of a method takes a lock it already holds (Lock under Lock or RLock
    blocks for ever, RLock under RLock blocks as soon as a writer queues in between) -/
theorem no_recursive_lock : Generated.relocks = [] := by decide +kernel

end C13
