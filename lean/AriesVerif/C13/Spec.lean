import AriesVerif.Base.Util
/-! # C13 — sequential specifications and the linearization witness validator.

A history is a list of completed operations with logical invoke / return times; it is linearizable when some order of
ALL its operations (i) keeps every pair `a, b` with `ret a < inv b` in that order and (ii) replayed on the sequential
specification yields exactly the recorded results. The harness proposes an order; `validate` checks (i) and (ii). -/
namespace Lin

structure Ev where
  g : Nat
  op : String
  inv : Nat
  ret : Nat
  res : String
deriving DecidableEq, Repr

/-- a sequential specification: state, initial state, step -/
structure Spec (σ : Type) where
  init : σ
  step : σ → String → σ × String

def replay {σ : Type} (sp : Spec σ) : σ → List Ev → Bool
  | _, [] => true
  | s, e :: es => let r := sp.step s e.op; r.2 == e.res && replay sp r.1 es

/-- is `w` (indexes into `h`) a permutation of all indexes? -/
def isPerm (n : Nat) (w : List Nat) : Bool :=
  w.length == n && (List.range n).all (fun i => w.contains i) && w.all (· < n)

/-- real-time order: whoever returned before another was invoked comes first -/
def respectsTime (h : Array Ev) (w : List Nat) : Bool :=
  let rec go : List Nat → Bool
    | [] => true
    | i :: rest =>
      rest.all (fun j => match h[i]?, h[j]? with
        | some a, some b => !(b.ret < a.inv)       -- b (later in w) must not have returned before a was invoked
        | _, _ => false) && go rest
  go w

def validate {σ : Type} (sp : Spec σ) (h : Array Ev) (w : List Nat) : Bool :=
  isPerm h.size w && respectsTime h w && replay sp sp.init (w.filterMap (h[·]?))

/-- the definition the validator decides -/
def Linearizable {σ : Type} (sp : Spec σ) (h : Array Ev) : Prop :=
  ∃ w : List Nat, isPerm h.size w = true ∧ respectsTime h w = true ∧ replay sp sp.init (w.filterMap (h[·]?)) = true

theorem validate_sound {σ : Type} (sp : Spec σ) (h : Array Ev) (w : List Nat) (hv : validate sp h w = true) :
    Linearizable sp h := by
  unfold validate at hv
  simp only [Bool.and_eq_true] at hv
  exact ⟨w, hv.1.1, hv.1.2, hv.2⟩

/-! ## the sequential specifications -/

/-- key-value store: put k v | get k | del k | cfg n (provider level call, no effect on the data) -/
def kvSpec : Spec (List (String × String)) where
  init := []
  step s op :=
    match op.splitOn " " with
    | ["put", k, v] => ((k, v) :: s.filter (·.1 != k), "ok")
    | ["del", k] => (s.filter (·.1 != k), "ok")
    | ["get", k] => (s, match s.find? (·.1 == k) with | some (_, v) => v | none => "notfound")
    | "cfg" :: _ => (s, "ok")
    | ["query"] =>
      -- every entry carries the queried tag: the keys present, sorted
      let ks := Util.sortStrings (s.map (·.1))
      (s, if ks.isEmpty then "-" else "+".intercalate ks)
    | _ => (s, "?")

/-- key manager ids: import id (refused when taken) | get id; an optional third word names the key manager instance that
    served the operation (two instances over one store share ONE id space: the word does not enter the specification) -/
def kmsSpec : Spec (List String) where
  init := []
  step s op :=
    match op.splitOn " " with
    | ["import", id] | ["import", id, _] => if s.contains id then (s, "err") else (id :: s, "ok")
    | ["get", id] | ["get", id, _] => (s, if s.contains id then "ok" else "err")
    | _ => (s, "?")

/-- session manager, one user; the state is the number of the live token. `open#n` (refused while open) makes token n
    live | `close` (true iff open) | `use#n`: is token n the live one? (a token is dead once its session was closed) -/
def sessionSpec : Spec (Option String) where
  init := none
  step s op :=
    match op.splitOn "#" with
    | ["open", n] => (match s with | some _ => (s, "err") | none => (some n, "ok"))
    | ["use", n] => (s, if s == some n then "live" else "dead")
    | _ => (match s with | some _ => (none, "true") | none => (s, "false"))

/-- wallet contents of one type: add id name (refused when the id is taken) | rm id | get id -/
def walletSpec : Spec (List (String × String)) where
  init := []
  step s op :=
    match op.splitOn " " with
    | ["add", k, v] => if s.any (·.1 == k) then (s, "err") else ((k, v) :: s, "ok")
    | ["rm", k] => (s.filter (·.1 != k), "ok")
    | ["get", k] => (s, match s.find? (·.1 == k) with | some (_, v) => v | none => "notfound")
    | _ => (s, "?")

/-- inbox: add m | pick n (the first n held messages, FIFO) -/
def pickupSpec : Spec (List String) where
  init := []
  step s op :=
    match op.splitOn " " with
    | ["add", m] => (s ++ [m], "ok")
    | ["pick", n] =>
      let k := min (n.toNat?.getD 0) s.length
      let out := s.take k
      (s.drop k, if out.isEmpty then "-" else "+".intercalate out)
    | ["pickf", _] => (s, "fail")     -- the delivery fails: nothing leaves the inbox
    | _ => (s, "?")

end Lin
