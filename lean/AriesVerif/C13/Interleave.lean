/-! # C13 — why the locks are where they are: interleaving models of the three multi-step operations the property
names (scan-then-insert of the session manager, id-check-then-write of the key manager, the two-store write of the
cached store). A schedule is a list of thread ids; each thread has a program of atomic steps; with the lock the whole
program is ONE atomic step. The invariant is proved for EVERY schedule with the lock, and a concrete schedule breaks it
without. -/
namespace Interleave

/-! ## scan-then-insert (sessions of one user) -/

/-- thread-local state of an unlocked `createSession`: not started, has scanned (remembering whether it saw a session),
    done -/
inductive Pc | start | scanned (sawNone : Bool) | done
deriving DecidableEq, Repr

structure SessSt where
  sessions : Nat            -- number of live sessions of the user
  pcs : List Pc             -- per thread

/-- one atomic step of thread `t` WITHOUT the lock: first the scan, later the insert -/
def stepUnlocked (s : SessSt) (t : Nat) : SessSt :=
  match s.pcs[t]? with
  | some .start => { s with pcs := s.pcs.set t (.scanned (s.sessions == 0)) }
  | some (.scanned true) => { sessions := s.sessions + 1, pcs := s.pcs.set t .done }
  | some (.scanned false) => { s with pcs := s.pcs.set t .done }
  | _ => s

/-- one atomic step WITH the lock: scan and insert together -/
def stepLocked (s : SessSt) (t : Nat) : SessSt :=
  match s.pcs[t]? with
  | some .start => { sessions := if s.sessions == 0 then 1 else s.sessions, pcs := s.pcs.set t .done }
  | _ => s

def run (step : SessSt → Nat → SessSt) (s : SessSt) (sched : List Nat) : SessSt := sched.foldl step s

theorem stepLocked_le_one (s : SessSt) (t : Nat) (h : s.sessions ≤ 1) : (stepLocked s t).sessions ≤ 1 := by
  unfold stepLocked
  split
  · simp only; split <;> omega
  · exact h

/-- **with the lock, every schedule of any number of threads leaves at most one session per user** -/
theorem locked_at_most_one (s : SessSt) (sched : List Nat) (h : s.sessions ≤ 1) :
    (run stepLocked s sched).sessions ≤ 1 := by
  induction sched generalizing s with
  | nil => simpa [run] using h
  | cons t rest ih => exact ih (stepLocked s t) (stepLocked_le_one s t h)

/-- without it, two threads that both scan before either inserts create two sessions -/
theorem unlocked_two_sessions :
    (run stepUnlocked ⟨0, [.start, .start]⟩ [0, 1, 0, 1]).sessions = 2 := by decide

/-! ## look up a token and renew it (wallet `getSession`) against `closeSession` -/

/-- the gcache entry of one token (`live`), the sessions that were closed and never re-opened must stay dead;
    per thread: `0` use not started, `1` use has read the entry as live, `2` done; thread ids ≥ `users` close -/
structure TokSt where
  live : Bool
  closed : Bool          -- a close has completed
  pcs : List Nat

/-- WITHOUT the mutex a use is two steps: read the entry, later write it back with a new expiry. `closer = true`: the
    thread is a `closeSession` (one step). -/
def tokUnlocked (closers : List Nat) (s : TokSt) (t : Nat) : TokSt :=
  if closers.contains t then { s with live := false, closed := true }
  else match s.pcs[t]? with
    | some 0 => if s.live then { s with pcs := s.pcs.set t 1 } else { s with pcs := s.pcs.set t 2 }
    | some 1 => { s with live := true, pcs := s.pcs.set t 2 }      -- SetWithExpire puts the entry back
    | _ => s

/-- WITH the mutex the read and the write-back are one step -/
def tokLocked (closers : List Nat) (s : TokSt) (t : Nat) : TokSt :=
  if closers.contains t then { s with live := false, closed := true }
  else match s.pcs[t]? with
    | some 0 => { s with pcs := s.pcs.set t 2 }                     -- live stays what it is
    | _ => s

theorem tokLocked_dead (closers : List Nat) (s : TokSt) (t : Nat) (h : s.closed = true → s.live = false) :
    (tokLocked closers s t).closed = true → (tokLocked closers s t).live = false := by
  unfold tokLocked
  split
  · intro _; rfl
  · split <;> exact h

/-- **with the mutex, whatever the schedule and the number of users and closers: once a close has completed the token
    is dead** (no open is in the model: the token is never issued again) -/
theorem locked_closed_stays_dead (closers : List Nat) (s : TokSt) (sched : List Nat)
    (h : s.closed = true → s.live = false) :
    (sched.foldl (tokLocked closers) s).closed = true → (sched.foldl (tokLocked closers) s).live = false := by
  induction sched generalizing s with
  | nil => simpa using h
  | cons t rest ih => exact ih (tokLocked closers s t) (tokLocked_dead closers s t h)

/-- without it: a use reads the live entry, the close completes, the use writes the entry back — the closed session is
    live again -/
theorem unlocked_session_resurrected :
    let s := [0, 1, 0].foldl (tokUnlocked [1]) ⟨true, false, [0, 0]⟩
    s.closed = true ∧ s.live = true := by decide

/-! ## two-store write (cachedstore: main store, then cache) -/

structure TwoSt where
  main : Nat
  cache : Nat
  pcs : List Nat        -- 0: not started, 1: main written, 2: done

/-- writer `t` writes the value `t + 1`, first to the main store, then to the cache -/
def writeUnlocked (s : TwoSt) (t : Nat) : TwoSt :=
  match s.pcs[t]? with
  | some 0 => { s with main := t + 1, pcs := s.pcs.set t 1 }
  | some 1 => { s with cache := t + 1, pcs := s.pcs.set t 2 }
  | _ => s

def writeLocked (s : TwoSt) (t : Nat) : TwoSt :=
  match s.pcs[t]? with
  | some 0 => { main := t + 1, cache := t + 1, pcs := s.pcs.set t 2 }
  | _ => s

theorem writeLocked_coherent (s : TwoSt) (t : Nat) (h : s.main = s.cache) :
    (writeLocked s t).main = (writeLocked s t).cache := by
  unfold writeLocked
  split
  · rfl
  · exact h

/-- **with the lock, after every schedule the cache holds what the main store holds** -/
theorem locked_coherent (s : TwoSt) (sched : List Nat) (h : s.main = s.cache) :
    (sched.foldl writeLocked s).main = (sched.foldl writeLocked s).cache := by
  induction sched generalizing s with
  | nil => simpa using h
  | cons t rest ih => exact ih (writeLocked s t) (writeLocked_coherent s t h)

/-- without it: main := 1, main := 2, cache := 2, cache := 1 — both writers are done, the cache is stale for good -/
theorem unlocked_stale_cache :
    let s := [0, 1, 1, 0].foldl writeUnlocked ⟨0, 0, [0, 0]⟩
    s.main = 2 ∧ s.cache = 1 ∧ s.pcs = [2, 2] := by decide

/-! ## `Provider.OpenStore`: look the name up, register a new store when it is absent

The same shape as scan-then-insert: `sessions` counts the store OBJECTS made for one name (every thread that saw the name
absent makes its own and registers it; the last registration wins, the others stay in the hands of their openers: writes
through them are invisible to everybody else — seeded change C13-5). With lookup and registration in one critical section
(`mem.Provider.OpenStore` holds the provider lock across both) every schedule yields one object per name. -/

theorem open_store_one_object_per_name (s : SessSt) (sched : List Nat) (h : s.sessions ≤ 1) :
    (run stepLocked s sched).sessions ≤ 1 := locked_at_most_one s sched h

/-- lookup under the read lock, registration under the write lock, no re-check: two first opens give two stores -/
theorem open_store_unlocked_two_objects :
    (run stepUnlocked ⟨0, [.start, .start]⟩ [0, 1, 0, 1]).sessions = 2 := unlocked_two_sessions

end Interleave
