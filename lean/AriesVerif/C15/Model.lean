import AriesVerif.C15.Spec
/-! # C15 — Model: `pkg/didcomm/protocol/messagepickup/service.go` step by step.

Each handler is the sequence of storage calls / JSON steps / send the Go code performs, with a call counter so
that "the i-th storage call fails" means the same thing as in the harness. The stored inbox document carries the
message list *and* the `message_count` field the code maintains separately (`EncodeMessages`). -/
namespace C15.Model
open C15

structure Doc where
  msgs : List Msg
  count : Nat            -- `message_count`, written by EncodeMessages
deriving DecidableEq, Repr

abbrev Store := Did → Option Doc

def put (s : Store) (d : Did) (doc : Doc) : Store := fun d' => if d' = d then some doc else s d'

/-- does the storage call with index `i` of the current operation fail? -/
def fails (f : Fault) (i : Nat) : Bool := f == .store i

/-- `EncodeMessages`: sets the list and recomputes the count -/
def encode (ms : List Msg) : Doc := ⟨ms, ms.length⟩

/-- `AddMessage`: createInbox (get; when absent put an empty document) → decode → append → encode → putInbox -/
def addMessage (s : Store) (d : Did) (m : Msg) (f : Fault) : Store × Out :=
  if fails f 0 then (s, .err) else                          -- getInbox: msgStore.Get
  match s d with
  | none =>
      if fails f 1 then (s, .err) else                      -- createInbox: msgStore.Put(empty inbox)
      let s1 := put s d ⟨[], 0⟩
      if fails f 2 then (s1, .err) else                     -- putInbox
      (put s1 d (encode ([] ++ [m])), .ok)
  | some doc =>
      if fails f 1 then (s, .err) else                      -- putInbox
      (put s d (encode (doc.msgs ++ [m])), .ok)

/-- `handleStatusRequest`: getInbox → status{message_count} (+ ~thread when the request has one) → SendToDID -/
def statusRequest (s : Store) (d : Did) (_thread : Bool) (f : Fault) : Store × Out :=
  if fails f 0 then (s, .err) else
  match s d with
  | none => (s, .err)
  | some doc => if f == .send then (s, .err) else (s, .count doc.count)

/-- `handleBatchPickup`: getInbox → decode → end = min(size, len) clamped at 0 → encode(msgs[end:]) → putInbox →
    SendToDID(msgs[:end]) → on a failed send the original list is encoded and put back -/
def batchPickup (s : Store) (d : Did) (n : Int) (f : Fault) : Store × Out :=
  if fails f 0 then (s, .err) else
  match s d with
  | none => (s, .err)
  | some doc =>
      let len : Int := doc.msgs.length
      let e0 : Int := if n < len then n else len
      let e : Int := if e0 < 0 then 0 else e0
      let k := e.toNat
      if fails f 1 then (s, .err) else                      -- putInbox (rewritten inbox)
      let s1 := put s d (encode (doc.msgs.drop k))
      if f == .send then
        -- restore: EncodeMessages(msgs); putInbox   (storage call 2; cannot fail under a single fault)
        if fails f 2 then (s1, .err) else (put s1 d (encode doc.msgs), .err)
      else (s1, .batch (doc.msgs.take k))

def step (s : Store) : Op → Store × Out
  | .add d m f => addMessage s d m f
  | .status d t f => statusRequest s d t f
  | .pickup d n f => batchPickup s d n f

def run (s : Store) : List Op → Store × List Out
  | [] => (s, [])
  | op :: ops => let r := step s op; let r' := run r.1 ops; (r'.1, r.2 :: r'.2)

def init : Store := fun _ => none

end C15.Model
