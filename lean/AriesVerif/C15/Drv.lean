import AriesVerif.C15.Model
import AriesVerif.Base.Util
/-! C15 driver glue (same line format as harness/cmd/corr/c15.go). -/
namespace C15.Drv
open C15 Util

def parseFault (s : String) : Option Fault :=
  if s == "-" then some .none
  else if s == "x" then some .send
  else match s.toList with
    | 's' :: d => (String.ofList d).toNat?.map .store
    | _ => none

def parseInt (s : String) : Option Int :=
  match s.toList with
  | '-' :: d => (String.ofList d).toNat?.map fun k => -(k : Int)
  | _ => s.toNat?.map fun k => (k : Int)

def parseOp (line : String) : Option Op :=
  match line.splitOn " " with
  | ["add", d, m, f] => do let m ← m.toNat?; let f ← parseFault f; pure (.add d m f)
  | ["status", d, t, f] => do let f ← parseFault f; pure (.status d (t == "1") f)
  | ["pickup", d, n, f] => do let n ← parseInt n; let f ← parseFault f; pure (.pickup d n f)
  | _ => none

/-- one input op may stand for several model ops: `opick D N M -` = a pickup of N whose delivery fails FOLLOWED BY a
    pickup of M (the second arrives while the first delivery is under way; removal and hand-out being one step, it can
    only act after the first one has put its batch back) -/
def parseOps (line : String) : Option (List Op) :=
  match line.splitOn " " with
  | ["opick", d, n, m, _] => do
    let n ← parseInt n
    let m ← parseInt m
    pure [.pickup d n .send, .pickup d m .none]
  | _ => (parseOp line).map fun o => [o]

def parseAll (input : String) : Option (List Op) :=
  (((input.splitOn ";").filter (· != "")).mapM parseOps).map List.flatten

def showMsgs (ms : List Msg) : String := if ms.isEmpty then "-" else ",".intercalate (ms.map toString)

def showOut : Out → String
  | .ok => "ok" | .err => "err"
  | .count n => s!"ok:count {n}"
  | .batch ms => s!"ok:batch {showMsgs ms}"

def opDid : Op → Did
  | .add d _ _ => d | .status d _ _ => d | .pickup d _ _ => d

def dids (ops : List Op) : List Did := sortStrings (ops.map opDid).eraseDups

def handle (input : String) : String :=
  match parseAll input with
  | none => "bad-op"
  | some ops =>
    let r := Model.run Model.init ops
    let dump := (dids ops).map fun d => match r.1 d with
      | none => s!"{d}=none"
      | some doc => s!"{d}={showMsgs doc.msgs}#{doc.count}"
    "|".intercalate (r.2.map showOut ++ [",".intercalate dump])

def handleSpec (input : String) : String :=
  match parseAll input with
  | none => "bad-op"
  | some ops =>
    let r := run (fun _ => none) ops
    let dump := (dids ops).map fun d => match r.1 d with
      | none => s!"{d}=none"
      | some q => s!"{d}={showMsgs q}#{q.length}"
    "|".intercalate (r.2.map showOut ++ [",".intercalate dump])

end C15.Drv
