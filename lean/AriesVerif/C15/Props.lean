import AriesVerif.C15.Model
/-! # C15 — property theorems -/
namespace C15

/-! ## the code (Model) implements the contract (Spec) on every history, faults included -/

def Model.Inv (st : Model.Store) : Prop := ∀ d doc, st d = some doc → doc.count = doc.msgs.length
def Model.abs (st : Model.Store) : Inboxes := fun d => (st d).map (·.msgs)

theorem model_abs_put (st : Model.Store) (d : Did) (doc : Model.Doc) :
    Model.abs (Model.put st d doc) = upd (Model.abs st) d doc.msgs := by
  funext d'
  simp only [Model.abs, Model.put, upd]
  split <;> rfl

theorem model_inv_put {st : Model.Store} (h : Model.Inv st) (d : Did) (ms : List Msg) :
    Model.Inv (Model.put st d (Model.encode ms)) := by
  intro d' doc hd
  simp only [Model.put] at hd
  split at hd
  · cases hd; rfl
  · exact h d' doc hd

theorem model_inv_put' {st : Model.Store} (h : Model.Inv st) (d : Did) (doc : Model.Doc)
    (hc : doc.count = doc.msgs.length) : Model.Inv (Model.put st d doc) := by
  intro d' doc' hd
  simp only [Model.put] at hd
  split at hd
  · cases hd; exact hc
  · exact h d' doc' hd

theorem fault_cases (f : Fault) (i : Nat) : Model.fails f i = true ↔ f = .store i := by
  simp [Model.fails]

theorem model_step_refines (st : Model.Store) (hi : Model.Inv st) (op : Op) :
    (Model.step st op).2 = (step (Model.abs st) op).2 ∧
    Model.abs (Model.step st op).1 = (step (Model.abs st) op).1 ∧ Model.Inv (Model.step st op).1 := by
  cases op with
  | add d m f =>
    simp only [Model.step, Model.addMessage, step]
    cases hd : st d with
    | none =>
      have ha : Model.abs st d = none := by simp [Model.abs, hd]
      simp only [ha]
      cases f with
      | none => simp [Model.fails, model_abs_put, Model.encode, upd, model_inv_put, hi]
                refine ⟨?_, model_inv_put (model_inv_put hi d []) d [m]⟩
                funext d'; simp only [upd]; split <;> rfl
      | send => simp [Model.fails, model_abs_put, Model.encode, upd]
                refine ⟨?_, model_inv_put (model_inv_put hi d []) d [m]⟩
                funext d'; simp only [upd]; split <;> rfl
      | store i =>
        match i with
        | 0 => simp [Model.fails]; exact hi
        | 1 => simp [Model.fails]; exact hi
        | 2 => simp [Model.fails, model_abs_put]; exact model_inv_put hi d []
        | (n+3) =>
          simp [Model.fails, model_abs_put, Model.encode, upd]
          refine ⟨?_, model_inv_put (model_inv_put hi d []) d [m]⟩
          funext d'; simp only [upd]; split <;> rfl
    | some doc =>
      have ha : Model.abs st d = some doc.msgs := by simp [Model.abs, hd]
      simp only [ha]
      cases f with
      | none => simp [Model.fails, model_abs_put, Model.encode]; exact model_inv_put' hi d _ (by simp)
      | send => simp [Model.fails, model_abs_put, Model.encode]; exact model_inv_put' hi d _ (by simp)
      | store i =>
        match i with
        | 0 => simp [Model.fails]; exact hi
        | 1 => simp [Model.fails]; exact hi
        | (n+2) => simp [Model.fails, model_abs_put, Model.encode]; exact model_inv_put' hi d _ (by simp)
  | status d t f =>
    simp only [Model.step, Model.statusRequest, step]
    cases hd : st d with
    | none =>
      have ha : Model.abs st d = none := by simp [Model.abs, hd]
      simp only [ha]
      by_cases h0 : Model.fails f 0 = true <;> simp [h0, hi]
    | some doc =>
      have ha : Model.abs st d = some doc.msgs := by simp [Model.abs, hd]
      have hc := hi d doc hd
      simp only [ha]
      cases f with
      | none => simp [Model.fails, hc, hi]
      | send => simp [Model.fails, hi]
      | store i =>
        match i with
        | 0 => simp [Model.fails, hi]
        | (n+1) => simp [Model.fails, hc, hi]
  | pickup d n f =>
    simp only [Model.step, Model.batchPickup, step]
    cases hd : st d with
    | none =>
      have ha : Model.abs st d = none := by simp [Model.abs, hd]
      simp only [ha]
      by_cases h0 : Model.fails f 0 = true <;> simp [h0, hi]
    | some doc =>
      have ha : Model.abs st d = some doc.msgs := by simp [Model.abs, hd]
      simp only [ha]
      have hk : (if (if n < (doc.msgs.length : Int) then n else (doc.msgs.length : Int)) < 0 then (0 : Int)
            else (if n < (doc.msgs.length : Int) then n else (doc.msgs.length : Int))).toNat
          = takeCount n doc.msgs.length := by
        unfold takeCount
        split <;> split <;> omega
      cases f with
      | none => simp [Model.fails, model_abs_put, Model.encode, hk]; exact model_inv_put' hi d _ (by simp)
      | send =>
        simp only [Model.fails, beq_self_eq_true, if_true]
        simp
        refine ⟨?_, model_inv_put (model_inv_put hi d _) d _⟩
        rw [model_abs_put, model_abs_put]
        funext d'
        simp only [upd, Model.encode]
        split
        · rename_i h; subst h; simp [Model.abs, hd]
        · rfl
      | store i =>
        match i with
        | 0 => simp [Model.fails]; exact hi
        | 1 => simp [Model.fails]; exact hi
        | (j+2) => simp [Model.fails, model_abs_put, Model.encode, hk]; exact model_inv_put' hi d _ (by simp)

/-- **every history, any faults**: the handlers as written return exactly what the contract prescribes -/
theorem C15_model_refines_spec (ops : List Op) (st : Model.Store) (hi : Model.Inv st) :
    (Model.run st ops).2 = (run (Model.abs st) ops).2 ∧
    Model.abs (Model.run st ops).1 = (run (Model.abs st) ops).1 := by
  induction ops generalizing st with
  | nil => exact ⟨rfl, rfl⟩
  | cons op ops ih =>
    obtain ⟨h1, h2, h3⟩ := model_step_refines st hi op
    obtain ⟨i1, i2⟩ := ih _ h3
    simp only [Model.run, run]
    rw [h1, i1, i2, h2]
    exact ⟨rfl, rfl⟩

/-! ## the contract gives FIFO, exactly-once, conservation and an exact count, for every history and every fault -/

def GInv (g : Ghost) : Prop := ∀ d, g.delivered d ++ held g.s d = g.added d

theorem held_upd (s : Inboxes) (d d' : Did) (q : List Msg) :
    held (upd s d q) d' = if d' = d then q else held s d' := by
  simp only [held, upd]; split <;> rfl

theorem gstep_inv (g : Ghost) (h : GInv g) (op : Op) : GInv (gstep g op) := by
  intro d0
  have h0 := h d0
  cases op with
  | add d m f =>
    simp only [gstep, step]
    cases hs : g.s d with
    | none =>
      have hh : held g.s d = [] := by simp [held, hs]
      by_cases c1 : f = .store 0 ∨ f = .store 1
      · simp only [c1, if_true]; exact h0
      · simp only [c1, if_false]
        by_cases c2 : f = .store 2
        · simp only [c2, if_true]
          show g.delivered d0 ++ held (upd g.s d []) d0 = g.added d0
          rw [held_upd]; split
          · rename_i e; subst e; rw [← h0, hh]
          · exact h0
        · simp only [c2, if_false]
          show g.delivered d0 ++ held (upd g.s d [m]) d0 = app g.added d [m] d0
          rw [held_upd]; simp only [app]; split
          · rename_i e; subst e; rw [← h0, hh]; simp
          · exact h0
    | some q =>
      have hh : held g.s d = q := by simp [held, hs]
      by_cases c1 : f = .store 0 ∨ f = .store 1
      · simp only [c1, if_true]; exact h0
      · simp only [c1, if_false]
        show g.delivered d0 ++ held (upd g.s d (q ++ [m])) d0 = app g.added d [m] d0
        rw [held_upd]; simp only [app]; split
        · rename_i e; subst e; rw [← h0, hh]; simp
        · exact h0
  | status d t f =>
    simp only [gstep, step]
    cases hs : g.s d with
    | none => exact h0
    | some q => dsimp only; split <;> exact h0
  | pickup d n f =>
    simp only [gstep, step]
    cases hs : g.s d with
    | none => exact h0
    | some q =>
      have hh : held g.s d = q := by simp [held, hs]
      dsimp only
      by_cases c1 : f = .store 0 ∨ f = .store 1 ∨ f = .send
      · simp only [c1, if_true]; exact h0
      · simp only [c1, if_false]
        show app g.delivered d (q.take _) d0 ++ held (upd g.s d (q.drop _)) d0 = g.added d0
        rw [held_upd]; simp only [app]; split
        · rename_i e; subst e; rw [← h0, hh, List.append_assoc, List.take_append_drop]
        · exact h0

def grun (g : Ghost) : List Op → Ghost
  | [] => g
  | op :: ops => grun (gstep g op) ops

/-- **conservation, order and exactly-once in one statement**, for every history of adds, status requests and
    pickups of any size, for any number of recipients, with any fault on any operation:
    what was handed out, followed by what is still held, is exactly what was accepted — in that order. -/
theorem C15_conservation (ops : List Op) (d : Did) :
    (grun ginit ops).delivered d ++ held (grun ginit ops).s d = (grun ginit ops).added d := by
  have : ∀ (g : Ghost), GInv g → GInv (grun g ops) := by
    induction ops with
    | nil => intro g h; exact h
    | cons op ops ih => intro g h; exact ih _ (gstep_inv g h op)
  exact this ginit (fun _ => rfl) d

/-- FIFO: what has been delivered is a prefix of what was accepted (so: in order, nothing skipped) -/
theorem C15_fifo (ops : List Op) (d : Did) :
    (grun ginit ops).delivered d <+: (grun ginit ops).added d :=
  ⟨_, C15_conservation ops d⟩

/-- exactly once: if the accepted messages are pairwise distinct, no message is delivered twice and no delivered
    message is still held -/
theorem C15_exactly_once (ops : List Op) (d : Did) (hnd : ((grun ginit ops).added d).Nodup) :
    ((grun ginit ops).delivered d).Nodup ∧ ∀ m ∈ (grun ginit ops).delivered d, m ∉ held (grun ginit ops).s d := by
  rw [← C15_conservation ops d] at hnd
  have := List.nodup_append.mp hnd
  exact ⟨this.1, fun m hm hh => (this.2.2 m hm m hh) rfl⟩

/-- never lost: every accepted message is either delivered or still held — whatever failed in between -/
theorem C15_no_loss (ops : List Op) (d : Did) (m : Msg) (hm : m ∈ (grun ginit ops).added d) :
    m ∈ (grun ginit ops).delivered d ∨ m ∈ held (grun ginit ops).s d := by
  rw [← C15_conservation ops d] at hm
  exact List.mem_append.mp hm

/-- the reported count is the number of messages held -/
theorem C15_count (s : Inboxes) (d : Did) (t : Bool) (f : Fault) (n : Nat)
    (h : (step s (.status d t f)).2 = .count n) : n = (held s d).length := by
  simp only [step] at h
  cases hs : s d with
  | none => simp [hs] at h
  | some q =>
    simp only [hs] at h
    split at h
    · cases h
    · cases h; simp [held, hs]

/-- a failed pickup (storage read/write or send failure) changes nothing and hands out nothing -/
theorem C15_failed_pickup_noop (s : Inboxes) (d : Did) (n : Int) (f : Fault)
    (h : (step s (.pickup d n f)).2 = .err) : (step s (.pickup d n f)).1 = s := by
  simp only [step] at h ⊢
  cases hs : s d with
  | none => rfl
  | some q =>
    simp only [hs] at h ⊢
    split
    · rfl
    · rename_i hc; simp [hc] at h

/-- any batch size: negative and zero take nothing, oversize takes everything -/
theorem C15_takeCount (n : Int) (len : Nat) :
    takeCount n len ≤ len ∧ (n ≤ 0 → takeCount n len = 0) ∧ ((len : Int) ≤ n → takeCount n len = len) := by
  unfold takeCount
  refine ⟨by omega, fun h => by omega, fun h => by omega⟩

/-! ## non-vacuity: the histories that failed on the unrepaired code (C15-F1, C03-F5) -/

/-- send failure during a pickup of 2 out of 3: nothing is lost (before the `fix:` commit messages 0 and 1 were gone) -/
example : (Model.run Model.init [.add "a" 0 .none, .add "a" 1 .none, .add "a" 2 .none, .pickup "a" 2 .send,
    .pickup "a" 5 .none]).2 = [.ok, .ok, .ok, .err, .batch [0, 1, 2]] := by decide

/-- negative batch size -/
example : (Model.run Model.init [.add "a" 0 .none, .pickup "a" (-1) .none, .status "a" false .none]).2
    = [.ok, .batch [], .count 1] := by decide

end C15
