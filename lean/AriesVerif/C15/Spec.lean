/-! # C15 — Spec: per-recipient FIFO inbox of the mediator (message pickup), with single faults.

A fault is attached to one operation: either the i-th call that operation makes on the inbox store fails, or
the hand-over to the outbound dispatcher fails (the property quantifies over *single* failures). -/
namespace C15

abbrev Did := String
abbrev Msg := Nat            -- a message is identified by the number the harness gave it

inductive Fault
  | none
  | store (i : Nat)          -- the i-th storage call of this operation fails (0-based)
  | send                     -- SendToDID fails
deriving DecidableEq, Repr

inductive Op
  | add (d : Did) (m : Msg) (f : Fault)
  | status (d : Did) (thread : Bool) (f : Fault)     -- `thread`: the request carries the optional ~thread decorator
  | pickup (d : Did) (n : Int) (f : Fault)           -- any batch size: 0, negative, larger than the inbox
deriving Repr

inductive Out
  | ok
  | err                                -- the operation reported an error; nothing was handed out
  | count (n : Nat)                    -- a status message with this count was handed to the outbound dispatcher
  | batch (ms : List Msg)              -- a batch with these messages was handed to the outbound dispatcher
deriving DecidableEq, Repr

/-- `none` = no inbox document exists yet for the recipient -/
abbrev Inboxes := Did → Option (List Msg)

def upd (s : Inboxes) (d : Did) (q : List Msg) : Inboxes := fun d' => if d' = d then some q else s d'

/-- number of messages a pickup of size `n` takes from a queue of length `len` -/
def takeCount (n : Int) (len : Nat) : Nat := (min n (len : Int)).toNat

/-- the contract. A message leaves the inbox only when it has been handed out successfully; any failure leaves the
    queue as it was (the only trace a failed `add` may leave is an empty inbox for a new recipient). -/
def step (s : Inboxes) : Op → Inboxes × Out
  | .add d m f =>
      match s d with
      | none =>       -- storage calls: get (not found), put (create empty inbox), put (inbox with the message)
          if f = .store 0 ∨ f = .store 1 then (s, .err)
          else if f = .store 2 then (upd s d [], .err)
          else (upd s d [m], .ok)
      | some q =>     -- storage calls: get, put
          if f = .store 0 ∨ f = .store 1 then (s, .err) else (upd s d (q ++ [m]), .ok)
  | .status d _ f =>
      match s d with
      | none => (s, .err)
      | some q => if f = .store 0 ∨ f = .send then (s, .err) else (s, .count q.length)
  | .pickup d n f =>
      match s d with
      | none => (s, .err)
      | some q =>
          if f = .store 0 ∨ f = .store 1 ∨ f = .send then (s, .err)
          else let k := takeCount n q.length; (upd s d (q.drop k), .batch (q.take k))

def run (s : Inboxes) : List Op → Inboxes × List Out
  | [] => (s, [])
  | op :: ops => let r := step s op; let r' := run r.1 ops; (r'.1, r.2 :: r'.2)

def held (s : Inboxes) (d : Did) : List Msg := (s d).getD []

/-! ## what was delivered / accepted so far, as ghost state next to the inboxes -/
structure Ghost where
  s : Inboxes
  delivered : Did → List Msg        -- concatenation of all batches handed out for the recipient, in order
  added : Did → List Msg            -- messages whose `add` succeeded, in order

def app (f : Did → List Msg) (d : Did) (ms : List Msg) : Did → List Msg :=
  fun d' => if d' = d then f d' ++ ms else f d'

def gstep (g : Ghost) (op : Op) : Ghost :=
  let r := step g.s op
  match op, r.2 with
  | .add d m _, .ok => { s := r.1, delivered := g.delivered, added := app g.added d [m] }
  | .pickup d _ _, .batch ms => { s := r.1, delivered := app g.delivered d ms, added := g.added }
  | _, _ => { s := r.1, delivered := g.delivered, added := g.added }

def ginit : Ghost := ⟨fun _ => none, fun _ => [], fun _ => []⟩

end C15
