import AriesVerif.C16.Model
import AriesVerif.Base.Util
/-! C16 driver glue (format of harness/cmd/corr/c16.go). -/
namespace Codec.Drv
open Codec Base Util

def keyExpect : String → String
  | "ed25519" => "back=same fp=same jwk=same"
  | "x25519" => "back=same fp=err jwk=na"            -- vdr/key does not resolve an X25519 did:key (limitation, no loss)
  | "bls" => "back=same fp=same jwk=na"
  | "k256" => "back=same fp=na jwk=same"               -- secp256k1 has no did:key codec; only the JWK form is driven
  | _ => "back=same fp=same jwk=same"

def hasBigNumber (ds : List (String × String × Bool)) : Bool := ds.all (·.2.2) && !ds.isEmpty

/-- JWT form: the `vc` claim with `iss/sub/jti/nbf/exp` folded back must be the credential -/
def judgeDoc (kind flags inS outS : String) : String × String :=
  match J.parse inS, J.parse outS with
  | some i, some o =>
    let norm := if kind == "vp" || kind == "jwtp" then normVP else if kind == "did" then id else normVC
    -- the proof of a credential that went through the JWT form is the JWT's signature, `jwt` is not a member of the source
    let strip (j : J) : J := match j with
      | .obj kvs => .obj (kvs.filter fun (k, _) => !((kind == "jwt" || kind == "jwtp") && (k == "jwt")))
      | x => x
    let a := canon 32 (norm (strip i))
    let b := canon 32 (norm (strip o))
    let ds := firstDiff "" a b
    if ds.isEmpty then ("=", "")
    else
      let d := ds.headD ("?", "?", false)
      let tag := if hasBigNumber ds then "C16-F1" else if flags.contains 's' then "C16-F2" else ""
      (s!"{d.1} {d.2.1} ({ds.length} differences)", tag)
  | _, _ => ("unparsable JSON", "")

def judge (input impl : String) : String × String × String :=
  match input.splitOn "|" with
  | "key" :: kt :: _ =>
    let exp := keyExpect kt
    let obs := " ".intercalate ((impl.splitOn " ").drop 1)
    let w := obs.splitOn " "
    let good := w.contains "back=same" && (w.contains "jwk=same" || w.contains "jwk=na") && !w.contains "fp=differs"
    (if obs == exp then "=" else "model: " ++ exp, if good then "=" else "KEY-IDENTIFIER-DOES-NOT-DECODE-BACK", "")
  | kind :: flags :: rest =>
    let inS := "|".intercalate rest
    match impl.splitOn "|" with
    | "ok" :: outS :: again :: _ =>
      let modelCol := "="
      if again != "again=same" then (modelCol, "SECOND-ROUND-TRIP-DIFFERS", "")
      else
        let (v, tag) := judgeDoc kind flags inS outS
        (modelCol, v, tag)
    | "err" :: cls :: _ =>
      -- with validation on, and for shadowing member names, a refusal is an answer; with validation off every generated
      -- document is admitted by the data model and must parse
      if flags.contains 'v' || flags.contains 's' then ("=", "=", "")
      else ("model: ok", "=", "") |> fun r => (r.1 ++ " (" ++ cls ++ ")", r.2.1, r.2.2)
    | _ => ("unparsable-output", "=", "")
  | _ => ("bad-input", "bad-input", "")

end Codec.Drv
