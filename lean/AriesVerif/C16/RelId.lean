/-! # C16 — relative ids of DID documents (`component/models/did/doc.go`).

`resolveRelativeDIDURL(didID, baseURI, id)` = `base ++ id` with `base = baseURI` unless that is empty, then `didID`;
`makeRelativeDIDURL(didURL, baseURI, didID)` = `strings.Replace(didURL, base, "", 1)`: the FIRST occurrence of `base`
is cut out, wherever it is. A relative id (`"#key-1"`) read by `ParseDocument` and written by `JSONBytes` goes through
both. Strings are lists of characters. -/
namespace Codec.RelId

/-- `strings.Replace(s, old, "", 1)` -/
def cutFirst (old : List Char) : List Char → List Char
  | [] => []            -- (an empty `old` matches at once below; an empty `s` has nothing else to offer)
  | c :: cs => if old.isPrefixOf (c :: cs) then (c :: cs).drop old.length else c :: cutFirst old cs

def base (baseURI didID : List Char) : List Char := if baseURI.isEmpty then didID else baseURI

def resolve (didID baseURI id : List Char) : List Char := base baseURI didID ++ id

def makeRelative (didURL baseURI didID : List Char) : List Char := cutFirst (base baseURI didID) didURL

theorem isPrefixOf_append_self (b f : List Char) : b.isPrefixOf (b ++ f) = true := by
  induction b with
  | nil => simp [List.isPrefixOf]
  | cons x xs ih => simp [ih]

theorem cutFirst_prefix (b f : List Char) : cutFirst b (b ++ f) = f := by
  cases h : b ++ f with
  | nil =>
    have hb : b = [] := (List.append_eq_nil_iff.mp h).1
    have hf : f = [] := (List.append_eq_nil_iff.mp h).2
    subst hb; subst hf; rfl
  | cons c cs =>
    unfold cutFirst
    have hp := isPrefixOf_append_self b f
    rw [h] at hp
    simp only [hp, if_true]
    rw [← h]
    simp

/-- **a relative id survives parse → serialize, for every DID, every `@base` (also none) and every id text**: what
    `JSONBytes` writes for a method / service / key reference that was relative in the source is the source text -/
theorem C16_relative_id_roundtrip (didID baseURI id : List Char) :
    makeRelative (resolve didID baseURI id) baseURI didID = id := by
  unfold makeRelative resolve
  exact cutFirst_prefix _ _

/-- the seeded change C16-6 in one line: resolving against the DID while the document has another `@base` does NOT come
    back (witness) -/
theorem C16_wrong_base_witness :
    makeRelative (resolve "did:a:1".toList [] "#k".toList) "https://b".toList "did:a:1".toList ≠ "#k".toList := by
  decide

end Codec.RelId
