import AriesVerif.C16.Model
/-! # C16 — property theorems. -/
namespace Codec

open Base

namespace CustomFields

theorem mem_keys_of_mem {o : Obj} {kv : String × J} (h : kv ∈ o) : kv.1 ∈ keys o :=
  List.mem_map.mpr ⟨kv, h, rfl⟩

/-- with distinct member names, a name determines its member -/
theorem eq_of_key (o : Obj) (hn : (keys o).Nodup) (a b : String × J) (ha : a ∈ o) (hb : b ∈ o) (hk : a.1 = b.1) :
    a = b := by
  induction o with
  | nil => cases ha
  | cons x xs ih =>
    simp only [keys, List.map_cons, List.nodup_cons] at hn
    rcases List.mem_cons.mp ha with rfl | ha'
    · rcases List.mem_cons.mp hb with rfl | hb'
      · rfl
      · exact absurd (hk ▸ mem_keys_of_mem hb') hn.1
    · rcases List.mem_cons.mp hb with rfl | hb'
      · exact absurd (hk ▸ mem_keys_of_mem ha') hn.1
      · exact ih hn.2 ha' hb'

/-- **C16 (custom fields), every object and every struct.** Whatever members the struct knows and whatever `omitempty`
    drops, parsing into struct + custom fields and serializing again yields exactly the members of the source: nothing
    is lost (a known member that the struct does not write back is captured as custom) and nothing is invented. -/
theorem C16_custom_fields (known : String → Bool) (keep : String → J → Bool) (o : Obj) (hn : (keys o).Nodup)
    (kv : String × J) : kv ∈ roundTrip known keep o ↔ kv ∈ o := by
  unfold roundTrip merge capture structFields
  simp only [List.mem_append, List.mem_filter]
  constructor
  · rintro (⟨h, _⟩ | ⟨⟨h, _⟩, _⟩) <;> exact h
  · intro h
    by_cases hp : (known kv.1 && keep kv.1 kv.2) = true
    · exact Or.inl ⟨h, hp⟩
    · right
      have hnot : ¬ kv.1 ∈ keys (o.filter fun kv => known kv.1 && keep kv.1 kv.2) := by
        intro hmem
        obtain ⟨kv', hkv', hk⟩ := List.mem_map.mp hmem
        have hin := (List.mem_filter.mp hkv')
        have : kv' = kv := eq_of_key o hn kv' kv hin.1 h hk
        rw [this] at hin
        exact hp hin.2
      exact ⟨⟨h, by simpa using hnot⟩, by simpa using hnot⟩

/-- and no member name appears twice in the output -/
theorem C16_custom_fields_nodup (known : String → Bool) (keep : String → J → Bool) (o : Obj) (hn : (keys o).Nodup) :
    (keys (roundTrip known keep o)).Nodup := by
  unfold roundTrip merge capture structFields
  unfold keys at hn ⊢
  rw [List.map_append, List.nodup_append]
  refine ⟨?_, ?_, ?_⟩
  · exact List.Nodup.sublist (List.Sublist.map _ List.filter_sublist) hn
  · exact List.Nodup.sublist (List.Sublist.map _ ((List.filter_sublist).trans List.filter_sublist)) hn
  · intro a ha b hb hab
    obtain ⟨kv, hkv, rfl⟩ := List.mem_map.mp hb
    have := (List.mem_filter.mp hkv).2
    subst hab
    simp only [Bool.not_eq_true', List.contains_eq_mem, decide_eq_false_iff_not, keys] at this
    exact this ha

example : keys (roundTrip (fun k => k == "id" || k == "type") (fun _ v => match v with | .str "" => false | _ => true)
    [("id", .str ""), ("custom", .num 1), ("type", .str "T")]) = ["type", "id", "custom"] := by decide

end CustomFields

namespace Varint

/-- **multicodec prefix**: every code decodes back, whatever key bytes follow -/
theorem decode_encode (n : Nat) (rest : List Nat) : decode (encode n ++ rest) = some (n, rest) := by
  induction n using encode.induct with
  | case1 n h => rw [encode, dif_pos h]; simp [decode, h]
  | case2 n h ih =>
    rw [encode, dif_neg h]
    simp only [List.cons_append, decode]
    have : ¬ (n % 128 + 128 < 128) := by omega
    rw [if_neg this, ih]
    simp only [Option.some.injEq, Prod.mk.injEq, and_true]
    omega

example : encode 0xed = [0xed, 0x01] ∧ encode 0x1200 = [0x80, 0x24] := by
  constructor <;> simp [encode]

end Varint

theorem oneOrMany_idem (x : J) : oneOrMany (oneOrMany x) = oneOrMany x := by
  cases x <;> rfl

theorem idOnly_idem (x : J) : idOnly (idOnly x) = idOnly x := by
  by_cases h : ∃ s, x = .obj [("id", .str s)]
  · obtain ⟨s, rfl⟩ := h; rfl
  · have hx : idOnly x = x := by
      unfold idOnly
      split
      · rename_i s; exact absurd ⟨s, rfl⟩ h
      · rfl
    rw [hx, hx]

end Codec
