import AriesVerif.Base.Json
/-! # C16 — Model.

* `CustomFields`: the capture / merge scheme of `util/json/json.go` (`UnmarshalWithCustomFields`,
  `MarshalWithCustomFields`) on JSON objects as member lists.
* `Varint`: the multicodec prefix of key fingerprints (`binary.PutUvarint` / `Uvarint`).
* `normalize`: the equivalences of the data model under which a re-serialized document is compared with its source
  (`@context`, `type`, `credentialSubject`, `credentialSchema`, `termsOfUse`, `evidence`, `refreshService`, `proof`,
  `verifiableCredential`: one value ≡ one-element array; `issuer` / subject `{"id": x}` ≡ `x`). -/
namespace Codec

open Base

/-! ## custom fields -/
namespace CustomFields

abbrev Obj := List (String × J)

def keys (o : Obj) : List String := o.map (·.1)

/-- `json.Unmarshal(data, v)` followed by `json.Marshal(v)`: the struct keeps the members it knows (`known`), and
    `omitempty` drops those whose value is empty (`keep` says which survive) -/
def structFields (known : String → Bool) (keep : String → J → Bool) (o : Obj) : Obj :=
  o.filter fun kv => known kv.1 && keep kv.1 kv.2

/-- `UnmarshalWithCustomFields`: every member of the input whose name is not in the re-marshalled struct is custom -/
def capture (vf o : Obj) : Obj := o.filter fun kv => !(keys vf).contains kv.1

/-- `MergeCustomFields`: the struct's members, supplemented with the custom ones whose name is not taken -/
def merge (vf cf : Obj) : Obj := vf ++ cf.filter fun kv => !(keys vf).contains kv.1

def roundTrip (known : String → Bool) (keep : String → J → Bool) (o : Obj) : Obj :=
  let vf := structFields known keep o
  merge vf (capture vf o)

end CustomFields

/-! ## multicodec varint -/
namespace Varint

/-- `binary.PutUvarint` -/
def encode (n : Nat) : List Nat :=
  if h : n < 128 then [n] else (n % 128 + 128) :: encode (n / 128)
termination_by n
decreasing_by omega

/-- `binary.Uvarint` on a byte list: value and the rest (no 64-bit overflow check: the model is unbounded) -/
def decode : List Nat → Option (Nat × List Nat)
  | [] => none
  | b :: rest =>
    if b < 128 then some (b, rest)
    else match decode rest with
      | some (v, r) => some (b - 128 + 128 * v, r)
      | none => none

end Varint

/-! ## the data model's equivalences -/

def oneOrMany : J → J
  | .arr l => .arr l
  | x => .arr [x]

/-- `{"id": x}` ≡ `x` -/
def idOnly : J → J
  | .obj [("id", .str s)] => .str s
  | x => x

def manyKeys : List String :=
  ["@context", "type", "credentialSubject", "credentialSchema", "termsOfUse", "evidence", "refreshService", "proof",
   "verifiableCredential"]

def normMember (k : String) (v : J) : J :=
  let v := if manyKeys.contains k then oneOrMany v else v
  if k == "issuer" then idOnly v
  else if k == "credentialSubject" then (match v with | .arr l => .arr (l.map idOnly) | x => x)
  else v

def normVC : J → J
  | .obj kvs => .obj (kvs.map fun (k, v) => (k, normMember k v))
  | x => x

def normVP : J → J
  | .obj kvs => .obj (kvs.map fun (k, v) =>
      let v' := normMember k v
      (k, if k == "verifiableCredential" then (match v' with | .arr l => .arr (l.map normVC) | x => x) else v'))
  | x => x

/-- key order is not part of JSON: members sorted by name, recursively (fuel bounds the depth) -/
def canon : Nat → J → J
  | 0, j => j
  | n + 1, .obj kvs => .obj (J.sortKeys (kvs.map fun (k, v) => (k, canon n v)))
  | n + 1, .arr l => .arr (l.map (canon n))
  | _, j => j

/-- first difference between two canonical documents: (kind, path, is it a number beyond 2^53?) -/
partial def firstDiff (path : String) : J → J → List (String × String × Bool)
  | .obj a, .obj b =>
    let ka := a.map (·.1); let kb := b.map (·.1)
    (ka.filter (!kb.contains ·)).map (fun k => ("LOST", path ++ "/" ++ k, false)) ++
    (kb.filter (!ka.contains ·)).map (fun k => ("INVENTED", path ++ "/" ++ k, false)) ++
    a.flatMap fun (k, v) => match b.find? (·.1 == k) with
      | some (_, w) => firstDiff (path ++ "/" ++ k) v w
      | none => []
  | .arr a, .arr b =>
    if a.length != b.length then [("LENGTH", path, false)]
    else (a.zip b).flatMap fun (x, y) => firstDiff (path ++ "/#") x y
  | .num x, .num y => if x == y then [] else [("CHANGED", path, x.natAbs > 9007199254740992)]
  | x, y => if J.render x == J.render y then [] else [("CHANGED", path, false)]

end Codec
