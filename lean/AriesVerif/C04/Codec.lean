/-! # C04 — signature codecs of `secp256k1/subtle/encoding.go` (the shape Tink's ECDSA uses too).

`ieeeP1363Encode` / `ieeeP1363Decode` on natural numbers and byte lists (bytes are naturals below 256);
`big.Int.Bytes` is the minimal big-endian representation, `SetBytes` the big-endian value. -/
namespace P1363

/-- `big.Int.SetBytes` -/
def fromBytes (bs : List Nat) : Nat := bs.foldl (fun acc b => acc * 256 + b) 0

/-- `big.Int.Bytes`: minimal big-endian, empty for zero -/
def toBytes (x : Nat) : List Nat :=
  if h : x = 0 then [] else toBytes (x / 256) ++ [x % 256]
termination_by x
decreasing_by omega

def padLeft (n : Nat) (bs : List Nat) : List Nat := List.replicate (n - bs.length) 0 ++ bs

/-- `ieeeP1363Encode` for scalars that fit in `half` bytes -/
def encode (r s half : Nat) : List Nat := padLeft half (toBytes r) ++ padLeft half (toBytes s)

/-- `ieeeP1363Decode`: any even length up to 132 is taken -/
def decode (bs : List Nat) : Option (Nat × Nat) :=
  if bs.length = 0 ∨ bs.length > 132 ∨ bs.length % 2 ≠ 0 then none
  else some (fromBytes (bs.take (bs.length / 2)), fromBytes (bs.drop (bs.length / 2)))

/-- what the verifier does after the repair: exactly two scalars of the curve's size -/
def decodeExact (half : Nat) (bs : List Nat) : Option (Nat × Nat) :=
  if bs.length = 2 * half then decode bs else none

def Bytes (bs : List Nat) : Prop := ∀ b ∈ bs, b < 256

theorem foldl_acc (bs : List Nat) (acc : Nat) :
    bs.foldl (fun acc b => acc * 256 + b) acc = acc * 256 ^ bs.length + bs.foldl (fun acc b => acc * 256 + b) 0 := by
  induction bs generalizing acc with
  | nil => simp
  | cons x xs ih =>
    simp only [List.foldl_cons, List.length_cons]
    rw [ih (acc * 256 + x), ih (0 * 256 + x)]
    rw [Nat.pow_succ]
    simp only [Nat.zero_mul, Nat.zero_add]
    rw [Nat.add_mul, Nat.mul_assoc, Nat.mul_comm 256 (256 ^ xs.length), Nat.add_assoc]

theorem fromBytes_append (a b : List Nat) : fromBytes (a ++ b) = fromBytes a * 256 ^ b.length + fromBytes b := by
  unfold fromBytes
  rw [List.foldl_append, foldl_acc]

theorem fromBytes_cons (x : Nat) (xs : List Nat) : fromBytes (x :: xs) = x * 256 ^ xs.length + fromBytes xs := by
  have := fromBytes_append [x] xs
  simpa [fromBytes] using this

theorem fromBytes_toBytes (x : Nat) : fromBytes (toBytes x) = x := by
  induction x using toBytes.induct with
  | case1 => simp [toBytes, fromBytes]
  | case2 x hx ih =>
    rw [toBytes, dif_neg hx, fromBytes_append, ih]
    simp [fromBytes]
    omega

theorem fromBytes_zeros (k : Nat) : fromBytes (List.replicate k 0) = 0 := by
  induction k with
  | zero => rfl
  | succ k ih => rw [List.replicate_succ, fromBytes_cons, ih]; simp

theorem fromBytes_padLeft (n : Nat) (bs : List Nat) : fromBytes (padLeft n bs) = fromBytes bs := by
  unfold padLeft
  rw [fromBytes_append, fromBytes_zeros]; simp

theorem toBytes_length (x n : Nat) (h : x < 256 ^ n) : (toBytes x).length ≤ n := by
  induction x using toBytes.induct generalizing n with
  | case1 => simp [toBytes]
  | case2 x hx ih =>
    rw [toBytes, dif_neg hx]
    cases n with
    | zero => simp at h; omega
    | succ n =>
      have : x / 256 < 256 ^ n := by
        rw [Nat.pow_succ] at h
        exact Nat.div_lt_of_lt_mul (by rw [Nat.mul_comm]; exact h)
      have := ih n this
      simp; omega

theorem padLeft_length (n : Nat) (bs : List Nat) (h : bs.length ≤ n) : (padLeft n bs).length = n := by
  simp [padLeft]; omega

/-- **round trip**, every scalar that fits (leading-zero scalars included), every scalar size up to the 66 bytes of
    P-521 -/
theorem decode_encode (r s half : Nat) (hh : 0 < half) (h66 : half ≤ 66) (hr : r < 256 ^ half) (hs : s < 256 ^ half) :
    decode (encode r s half) = some (r, s) := by
  have lr := padLeft_length half (toBytes r) (toBytes_length r half hr)
  have ls := padLeft_length half (toBytes s) (toBytes_length s half hs)
  unfold decode encode
  have hlen : (padLeft half (toBytes r) ++ padLeft half (toBytes s)).length = 2 * half := by
    rw [List.length_append, lr, ls]; omega
  rw [hlen]
  have : ¬(2 * half = 0 ∨ 2 * half > 132 ∨ 2 * half % 2 ≠ 0) := by omega
  rw [if_neg this]
  have hdiv : 2 * half / 2 = half := by omega
  rw [hdiv]
  have ht : (padLeft half (toBytes r) ++ padLeft half (toBytes s)).take half = padLeft half (toBytes r) := by
    rw [List.take_append_of_le_length (by omega), List.take_of_length_le (by omega)]
  have hd : (padLeft half (toBytes r) ++ padLeft half (toBytes s)).drop half = padLeft half (toBytes s) := by
    rw [List.drop_append_of_le_length (by omega), List.drop_of_length_le (by omega)]; simp
  rw [ht, hd, fromBytes_padLeft, fromBytes_padLeft, fromBytes_toBytes, fromBytes_toBytes]

theorem decodeExact_encode (r s half : Nat) (hh : 0 < half) (h66 : half ≤ 66) (hr : r < 256 ^ half)
    (hs : s < 256 ^ half) : decodeExact half (encode r s half) = some (r, s) := by
  have lr := padLeft_length half (toBytes r) (toBytes_length r half hr)
  have ls := padLeft_length half (toBytes s) (toBytes_length s half hs)
  have hlen : (encode r s half).length = 2 * half := by
    unfold encode; rw [List.length_append, lr, ls]; omega
  rw [decodeExact, if_pos hlen, decode_encode r s half hh h66 hr hs]

/-- **the decoder alone is malleable**: a zero byte in front of both halves decodes to the same scalars (why the
    verifier has to insist on the exact size; Tink's own ECDSA verifier does not) -/
theorem decode_padded (a b : List Nat) (hab : a.length = b.length) (ha : 0 < a.length) (h : 2 * a.length + 2 ≤ 132) :
    decode (0 :: a ++ 0 :: b) = decode (a ++ b) := by
  unfold decode
  have l1 : (0 :: a ++ 0 :: b).length = 2 * (a.length + 1) := by simp; omega
  have l2 : (a ++ b).length = 2 * a.length := by simp; omega
  rw [l1, l2]
  rw [if_neg (by omega), if_neg (by omega)]
  have d1 : 2 * (a.length + 1) / 2 = a.length + 1 := by omega
  have d2 : 2 * a.length / 2 = a.length := by omega
  rw [d1, d2]
  have t1 : (0 :: a ++ 0 :: b).take (a.length + 1) = 0 :: a := by
    rw [show (0 :: a ++ 0 :: b) = (0 :: a) ++ (0 :: b) from rfl]
    rw [List.take_append_of_le_length (by simp), List.take_of_length_le (by simp)]
  have t2 : (0 :: a ++ 0 :: b).drop (a.length + 1) = 0 :: b := by
    rw [show (0 :: a ++ 0 :: b) = (0 :: a) ++ (0 :: b) from rfl]
    rw [List.drop_append_of_le_length (by simp), List.drop_of_length_le (by simp)]; simp
  have t3 : (a ++ b).take a.length = a := by
    rw [List.take_append_of_le_length (by omega), List.take_of_length_le (by omega)]
  have t4 : (a ++ b).drop a.length = b := by
    rw [List.drop_append_of_le_length (by omega), List.drop_of_length_le (by omega)]; simp
  rw [t1, t2, t3, t4, fromBytes_cons, fromBytes_cons]; simp

theorem fromBytes_lt (bs : List Nat) (h : Bytes bs) : fromBytes bs < 256 ^ bs.length := by
  induction bs with
  | nil => simp [fromBytes]
  | cons x xs ih =>
    rw [fromBytes_cons, List.length_cons, Nat.pow_succ]
    have hx := h x (by simp)
    have := ih (fun b hb => h b (by simp [hb]))
    have hp : 0 < 256 ^ xs.length := Nat.pow_pos (by omega)
    calc x * 256 ^ xs.length + fromBytes xs < x * 256 ^ xs.length + 256 ^ xs.length := by omega
      _ = (x + 1) * 256 ^ xs.length := by rw [Nat.add_mul]; simp
      _ ≤ 256 * 256 ^ xs.length := Nat.mul_le_mul_right _ (by omega)
      _ = 256 ^ xs.length * 256 := Nat.mul_comm _ _

/-- fixed-length big-endian is injective -/
theorem fromBytes_injective (a b : List Nat) (ha : Bytes a) (hb : Bytes b) (hl : a.length = b.length)
    (h : fromBytes a = fromBytes b) : a = b := by
  induction a generalizing b with
  | nil => cases b with
    | nil => rfl
    | cons y ys => simp at hl
  | cons x xs ih => cases b with
    | nil => simp at hl
    | cons y ys =>
      have hl' : xs.length = ys.length := by simpa using hl
      rw [fromBytes_cons, fromBytes_cons, hl'] at h
      have hx := fromBytes_lt xs (fun c hc => ha c (by simp [hc]))
      have hy := fromBytes_lt ys (fun c hc => hb c (by simp [hc]))
      rw [hl'] at hx
      have hp : 0 < 256 ^ ys.length := Nat.pow_pos (by omega)
      have hxy : x = y := by
        have h1 : (x * 256 ^ ys.length + fromBytes xs) / 256 ^ ys.length = x := by
          rw [Nat.mul_comm, Nat.mul_add_div hp, Nat.div_eq_of_lt hx]; simp
        have h2 : (y * 256 ^ ys.length + fromBytes ys) / 256 ^ ys.length = y := by
          rw [Nat.mul_comm, Nat.mul_add_div hp, Nat.div_eq_of_lt hy]; simp
        rw [← h1, ← h2, h]
      subst hxy
      have : fromBytes xs = fromBytes ys := by omega
      rw [ih ys (fun c hc => ha c (by simp [hc])) (fun c hc => hb c (by simp [hc])) hl' this]

/-- **with the exact size check the encoding is unique**: two byte strings accepted as the same pair of scalars are the
    same byte string — no other text verifies as the same signature -/
theorem decodeExact_injective (half : Nat) (a b : List Nat) (ha : Bytes a) (hb : Bytes b) (rs : Nat × Nat)
    (h1 : decodeExact half a = some rs) (h2 : decodeExact half b = some rs) : a = b := by
  unfold decodeExact at h1 h2
  by_cases la : a.length = 2 * half
  case neg => rw [if_neg la] at h1; simp at h1
  by_cases lb : b.length = 2 * half
  case neg => rw [if_neg lb] at h2; simp at h2
  rw [if_pos la] at h1
  rw [if_pos lb] at h2
  unfold decode at h1 h2
  by_cases ca : a.length = 0 ∨ a.length > 132 ∨ a.length % 2 ≠ 0
  case pos => rw [if_pos ca] at h1; simp at h1
  by_cases cb : b.length = 0 ∨ b.length > 132 ∨ b.length % 2 ≠ 0
  case pos => rw [if_pos cb] at h2; simp at h2
  rw [if_neg ca] at h1
  rw [if_neg cb] at h2
  simp only [Option.some.injEq] at h1 h2
  have hda : a.length / 2 = half := by omega
  have hdb : b.length / 2 = half := by omega
  rw [hda] at h1; rw [hdb] at h2
  have e1 : fromBytes (a.take half) = fromBytes (b.take half) := by rw [← h2] at h1; exact congrArg Prod.fst h1
  have e2 : fromBytes (a.drop half) = fromBytes (b.drop half) := by rw [← h2] at h1; exact congrArg Prod.snd h1
  have t := fromBytes_injective (a.take half) (b.take half)
    (fun c hc => ha c (List.mem_of_mem_take hc)) (fun c hc => hb c (List.mem_of_mem_take hc))
    (by simp; omega) e1
  have d := fromBytes_injective (a.drop half) (b.drop half)
    (fun c hc => ha c (List.mem_of_mem_drop hc)) (fun c hc => hb c (List.mem_of_mem_drop hc))
    (by simp; omega) e2
  rw [← List.take_append_drop half a, ← List.take_append_drop half b, t, d]

/-- non-vacuity: a scalar with two leading zero bytes (3-byte scalars) -/
example : decode [0, 0, 5, 1, 0, 1] = some (5, 65537) ∧ decodeExact 3 [0, 0, 5, 1, 0, 1] = some (5, 65537) := by decide
example : decode (encode 5 65537 3) = some (5, 65537) := decode_encode 5 65537 3 (by omega) (by omega) (by omega) (by omega)
example : decode [0, 0, 0, 5, 0, 1, 0, 1] = some (5, 65537) ∧ decodeExact 3 [0, 0, 0, 5, 0, 1, 0, 1] = none := by decide

end P1363
