/-! # C04 — `tinkcrypto.Encrypt` / `Decrypt` over a keyset with several keys.

Tink's AEAD wrapper writes `prefix(primary) ++ nonce ++ body`; aries strips prefix and nonce on `Encrypt` (it returns
`cipher`, `nonce`) and, on `Decrypt`, re-attaches the nonce and EVERY prefix of the keyset in turn. The body is ideal:
`body k nonce m aad` opens only with key `k`, that nonce and that associated data. -/
namespace Aead

inductive Sym
  | byte (b : Nat)
  | body (key : Nat) (nonce : List Nat) (msg aad : Nat)
deriving DecidableEq, Repr

structure Key where
  id : Nat
  raw : Bool            -- RAW output prefix (no key prefix), e.g. AES256GCMNoPrefix
  nsz : Nat             -- nonce size of the primitive (12, 24; 16 for CBC+HMAC)
deriving DecidableEq, Repr

/-- Tink prefix: 0x01 followed by the big-endian key id; empty for RAW keys -/
def prefixOf (k : Key) : List Nat :=
  if k.raw then [] else [1, k.id / 16777216 % 256, k.id / 65536 % 256, k.id / 256 % 256, k.id % 256]

def bytes (l : List Nat) : List Sym := l.map Sym.byte

/-- the primitive: nonce ++ body -/
def rawEncrypt (k : Key) (nonce : List Nat) (m aad : Nat) : List Sym := bytes nonce ++ [Sym.body k.id nonce m aad]

def rawDecrypt (k : Key) (ct : List Sym) (aad : Nat) : Option Nat :=
  match ct.drop k.nsz with
  | [Sym.body kid n m a] =>
      if kid = k.id ∧ a = aad ∧ ct.take k.nsz = bytes n ∧ n.length = k.nsz then some m else none
  | _ => none

/-- Tink's wrapped `Decrypt`: the keys whose prefix the ciphertext starts with, then the RAW keys on the whole text -/
def tinkDecrypt (ks : List Key) (ct : List Sym) (aad : Nat) : Option Nat :=
  let tinkTry := (ks.filter fun k => !k.raw && decide (ct.take 5 = bytes (prefixOf k))).filterMap
    fun k => rawDecrypt k (ct.drop 5) aad
  let rawTry := (ks.filter fun k => k.raw).filterMap fun k => rawDecrypt k ct aad
  (tinkTry ++ rawTry).head?

/-- `Crypto.Encrypt`: wrapped encrypt with the primary, prefix and nonce cut off -/
def encrypt (p : Key) (nonce : List Nat) (m aad : Nat) : List Sym × List Sym :=
  let full := bytes (prefixOf p) ++ rawEncrypt p nonce m aad
  let pl := (prefixOf p).length
  (full.drop (pl + p.nsz), (full.drop pl).take p.nsz)

/-- `Crypto.Decrypt`: every prefix of the keyset is tried -/
def decrypt (ks : List Key) (cipher nonce : List Sym) (aad : Nat) : Option Nat :=
  ((ks.map prefixOf).filterMap fun pre => tinkDecrypt ks (bytes pre ++ nonce ++ cipher) aad).head?

end Aead
