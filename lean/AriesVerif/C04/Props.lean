import AriesVerif.C04.Aead
import AriesVerif.C04.Codec
/-! # C04 — property theorems about `Crypto.Encrypt` / `Crypto.Decrypt` (every keyset, every primary). -/
namespace Aead

theorem bytes_length (l : List Nat) : (bytes l).length = l.length := by simp [bytes]

theorem bytes_append (a b : List Nat) : bytes (a ++ b) = bytes a ++ bytes b := by simp [bytes]

theorem bytes_injective (a b : List Nat) (h : bytes a = bytes b) : a = b := by
  induction a generalizing b with
  | nil => cases b with
    | nil => rfl
    | cons y ys => simp [bytes] at h
  | cons x xs ih => cases b with
    | nil => simp [bytes] at h
    | cons y ys =>
      simp only [bytes, List.map_cons, List.cons.injEq, Sym.byte.injEq] at h
      rw [h.1, ih ys h.2]

/-- a successful primitive decryption of a text that ends in one body returns that body's message, under that body's
    key, nonce and associated data, and everything in front of the body is the nonce -/
theorem rawDecrypt_sound (k : Key) (front : List Sym) (kid : Nat) (n : List Nat) (m a aad m' : Nat)
    (h : rawDecrypt k (front ++ [Sym.body kid n m a]) aad = some m') :
    m' = m ∧ kid = k.id ∧ a = aad ∧ front = bytes n ∧ n.length = k.nsz := by
  unfold rawDecrypt at h
  by_cases hle : k.nsz ≤ front.length
  · rw [List.drop_append_of_le_length hle] at h
    cases hd : front.drop k.nsz with
    | nil =>
      rw [hd] at h
      simp only [List.nil_append] at h
      split at h
      · rename_i hc
        simp at h
        have hlen : front.length ≤ k.nsz := by
          have := congrArg List.length hd; simp at this; omega
        have htake : (front ++ [Sym.body kid n m a]).take k.nsz = front := by
          rw [List.take_append_of_le_length hle, List.take_of_length_le hlen]
        rw [htake] at hc
        exact ⟨h.symm, hc.1, hc.2.1, hc.2.2.1, hc.2.2.2⟩
      · simp at h
    | cons x xs =>
      rw [hd] at h
      simp at h
  · have : (front ++ [Sym.body kid n m a]).drop k.nsz = [] := by
      apply List.drop_of_length_le; simp; omega
    rw [this] at h; simp at h

theorem rawDecrypt_complete (k : Key) (n : List Nat) (m aad : Nat) (hn : n.length = k.nsz) :
    rawDecrypt k (bytes n ++ [Sym.body k.id n m aad]) aad = some m := by
  unfold rawDecrypt
  have hl : k.nsz ≤ (bytes n).length := by rw [bytes_length]; omega
  rw [List.drop_append_of_le_length hl, List.drop_of_length_le (by rw [bytes_length]; omega)]
  simp only [List.nil_append]
  rw [List.take_append_of_le_length hl, List.take_of_length_le (by rw [bytes_length]; omega)]
  simp [hn]

/-- `Encrypt` hands back exactly the body and the nonce, whatever prefix the primary has -/
theorem encrypt_parts (p : Key) (n : List Nat) (m aad : Nat) (hn : n.length = p.nsz) :
    encrypt p n m aad = ([Sym.body p.id n m aad], bytes n) := by
  unfold encrypt rawEncrypt
  have hpl : (bytes (prefixOf p)).length = (prefixOf p).length := bytes_length _
  have hnl : (bytes n).length = p.nsz := by rw [bytes_length, hn]
  have h1 : (bytes (prefixOf p) ++ (bytes n ++ [Sym.body p.id n m aad])).drop ((prefixOf p).length + p.nsz)
      = [Sym.body p.id n m aad] := by
    rw [← hpl, List.drop_append, List.drop_of_length_le (by omega)]
    simp only [List.nil_append]
    have : (bytes (prefixOf p)).length + p.nsz - (bytes (prefixOf p)).length = p.nsz := by omega
    rw [this, List.drop_append_of_le_length (by omega), List.drop_of_length_le (by omega)]; simp
  have h2 : ((bytes (prefixOf p) ++ (bytes n ++ [Sym.body p.id n m aad])).drop (prefixOf p).length).take p.nsz
      = bytes n := by
    rw [← hpl, List.drop_append_of_le_length (by omega), List.drop_of_length_le (by omega)]
    simp only [List.nil_append]
    rw [List.take_append_of_le_length (by omega), List.take_of_length_le (by omega)]
  simp only [h1, h2]

theorem head?_of_all {α : Type} (l : List α) (m : α) (hne : l ≠ []) (h : ∀ x ∈ l, x = m) : l.head? = some m := by
  cases l with
  | nil => exact absurd rfl hne
  | cons x xs => simp [h x (by simp)]

theorem exists_head? {α : Type} (l : List α) (hne : l ≠ []) : ∃ x, l.head? = some x := by
  cases l with
  | nil => exact absurd rfl hne
  | cons x xs => exact ⟨x, rfl⟩

/-- whatever is put in front, a successful wrapped decryption of `front ++ [body]` returns the body's message, and
    the body's associated data and key are the ones used -/
theorem tinkDecrypt_sound (ks : List Key) (front : List Sym) (kid : Nat) (n : List Nat) (m a aad m' : Nat)
    (h : tinkDecrypt ks (front ++ [Sym.body kid n m a]) aad = some m') :
    m' = m ∧ a = aad ∧ ∃ k ∈ ks, k.id = kid := by
  unfold tinkDecrypt at h
  have hmem := List.mem_of_head? h
  rcases List.mem_append.mp hmem with ht | hr
  · obtain ⟨k, hk, hd⟩ := List.mem_filterMap.mp ht
    have hkin : k ∈ ks := (List.mem_filter.mp hk).1
    by_cases h5 : 5 ≤ front.length
    · rw [List.drop_append_of_le_length h5] at hd
      obtain ⟨e1, e2, e3, _, _⟩ := rawDecrypt_sound k _ kid n m a aad m' hd
      exact ⟨e1, e3, k, hkin, e2.symm⟩
    · have : (front ++ [Sym.body kid n m a]).drop 5 = [] := by
        apply List.drop_of_length_le; simp; omega
      rw [this] at hd
      simp [rawDecrypt] at hd
  · obtain ⟨k, hk, hd⟩ := List.mem_filterMap.mp hr
    have hkin : k ∈ ks := (List.mem_filter.mp hk).1
    obtain ⟨e1, e2, e3, _, _⟩ := rawDecrypt_sound k _ kid n m a aad m' hd
    exact ⟨e1, e3, k, hkin, e2.symm⟩

theorem prefixOf_length (k : Key) : (prefixOf k).length = if k.raw then 0 else 5 := by
  unfold prefixOf; split <;> simp

/-- with the primary's own prefix in front, the wrapped decryption succeeds -/
theorem tinkDecrypt_complete (ks : List Key) (p : Key) (hp : p ∈ ks) (n : List Nat) (m aad : Nat)
    (hn : n.length = p.nsz) :
    ∃ m', tinkDecrypt ks (bytes (prefixOf p) ++ bytes n ++ [Sym.body p.id n m aad]) aad = some m' := by
  unfold tinkDecrypt
  have hne : ((ks.filter fun k => !k.raw && decide ((bytes (prefixOf p) ++ bytes n ++ [Sym.body p.id n m aad]).take 5 =
        bytes (prefixOf k))).filterMap
      (fun k => rawDecrypt k ((bytes (prefixOf p) ++ bytes n ++ [Sym.body p.id n m aad]).drop 5) aad) ++
      (ks.filter fun k => k.raw).filterMap
        fun k => rawDecrypt k (bytes (prefixOf p) ++ bytes n ++ [Sym.body p.id n m aad]) aad) ≠ [] := by
    intro hnil
    have hboth := List.append_eq_nil_iff.mp hnil
    by_cases hraw : p.raw = true
    · -- RAW primary: it is among the RAW keys and opens the whole text
      have hpre : prefixOf p = [] := by simp [prefixOf, hraw]
      have hmem : m ∈ (ks.filter fun k => k.raw).filterMap
          fun k => rawDecrypt k (bytes (prefixOf p) ++ bytes n ++ [Sym.body p.id n m aad]) aad := by
        apply List.mem_filterMap.mpr
        refine ⟨p, List.mem_filter.mpr ⟨hp, hraw⟩, ?_⟩
        rw [hpre]; simp only [bytes, List.map_nil, List.nil_append]
        exact rawDecrypt_complete p n m aad hn
      rw [hboth.2] at hmem; simp at hmem
    · -- TINK primary: the text starts with its prefix, the rest opens under it
      have hraw' : p.raw = false := by simpa using hraw
      have hpl : (bytes (prefixOf p)).length = 5 := by rw [bytes_length, prefixOf_length]; simp [hraw']
      have htake : (bytes (prefixOf p) ++ bytes n ++ [Sym.body p.id n m aad]).take 5 = bytes (prefixOf p) := by
        rw [List.append_assoc, List.take_append_of_le_length (by omega), List.take_of_length_le (by omega)]
      have hdrop : (bytes (prefixOf p) ++ bytes n ++ [Sym.body p.id n m aad]).drop 5 =
          bytes n ++ [Sym.body p.id n m aad] := by
        rw [List.append_assoc, List.drop_append_of_le_length (by omega), List.drop_of_length_le (by omega)]; simp
      have hmem : m ∈ (ks.filter fun k => !k.raw && decide ((bytes (prefixOf p) ++ bytes n ++
            [Sym.body p.id n m aad]).take 5 = bytes (prefixOf k))).filterMap
          (fun k => rawDecrypt k ((bytes (prefixOf p) ++ bytes n ++ [Sym.body p.id n m aad]).drop 5) aad) := by
        apply List.mem_filterMap.mpr
        refine ⟨p, List.mem_filter.mpr ⟨hp, ?_⟩, ?_⟩
        · simp only [hraw', Bool.not_false, Bool.true_and, decide_eq_true_eq]; exact htake
        · rw [hdrop]
          exact rawDecrypt_complete p n m aad hn
      rw [hboth.1] at hmem; simp at hmem
  exact exists_head? _ hne

/-- **C04 (AEAD round trip), every keyset.** For any set of keys (TINK-prefixed and RAW, any nonce sizes, any number
    of keys, any primary — so also after any number of rotations), what `Encrypt` returns under the primary decrypts
    under the whole keyset to the message. -/
theorem C04_aead_roundtrip (ks : List Key) (p : Key) (hp : p ∈ ks) (n : List Nat) (m aad : Nat)
    (hn : n.length = p.nsz) :
    decrypt ks (encrypt p n m aad).1 (encrypt p n m aad).2 aad = some m := by
  rw [encrypt_parts p n m aad hn]
  unfold decrypt
  apply head?_of_all
  · intro hnil
    obtain ⟨m', hm'⟩ := tinkDecrypt_complete ks p hp n m aad hn
    have : m' ∈ (ks.map prefixOf).filterMap
        fun pre => tinkDecrypt ks (bytes pre ++ bytes n ++ [Sym.body p.id n m aad]) aad :=
      List.mem_filterMap.mpr ⟨prefixOf p, List.mem_map.mpr ⟨p, hp, rfl⟩, hm'⟩
    rw [hnil] at this; simp at this
  · intro x hx
    obtain ⟨pre, _, hd⟩ := List.mem_filterMap.mp hx
    exact (tinkDecrypt_sound ks (bytes pre ++ bytes n) p.id n m aad aad x hd).1

/-- **C04 (AEAD rejection).** Whatever the keyset and whatever nonce is handed in: other associated data never
    decrypts, and neither does a keyset that lacks the encrypting key. -/
theorem C04_aead_other_aad (ks : List Key) (pid : Nat) (n : List Nat) (nonce' : List Sym) (m aad aad' : Nat)
    (h : aad' ≠ aad) : decrypt ks [Sym.body pid n m aad] nonce' aad' = none := by
  cases hd : decrypt ks [Sym.body pid n m aad] nonce' aad' with
  | none => rfl
  | some x =>
    unfold decrypt at hd
    obtain ⟨pre, _, ht⟩ := List.mem_filterMap.mp (List.mem_of_head? hd)
    have := (tinkDecrypt_sound ks (bytes pre ++ nonce') pid n m aad aad' x (by simpa using ht)).2.1
    exact absurd this.symm h

theorem C04_aead_other_key (ks : List Key) (pid : Nat) (n : List Nat) (nonce' : List Sym) (m aad aad' : Nat)
    (h : ∀ k ∈ ks, k.id ≠ pid) : decrypt ks [Sym.body pid n m aad] nonce' aad' = none := by
  cases hd : decrypt ks [Sym.body pid n m aad] nonce' aad' with
  | none => rfl
  | some x =>
    unfold decrypt at hd
    obtain ⟨pre, _, ht⟩ := List.mem_filterMap.mp (List.mem_of_head? hd)
    obtain ⟨k, hk, hid⟩ := (tinkDecrypt_sound ks (bytes pre ++ nonce') pid n m aad aad' x (by simpa using ht)).2.2
    exact absurd hid (h k hk)

/-- a successful decryption never returns another message than the encrypted one (so an altered nonce either fails or
    — it cannot — yields the original) -/
theorem C04_aead_never_wrong (ks : List Key) (pid : Nat) (n : List Nat) (nonce' : List Sym) (m aad aad' x : Nat)
    (hd : decrypt ks [Sym.body pid n m aad] nonce' aad' = some x) : x = m := by
  unfold decrypt at hd
  obtain ⟨pre, _, ht⟩ := List.mem_filterMap.mp (List.mem_of_head? hd)
  exact (tinkDecrypt_sound ks (bytes pre ++ nonce') pid n m aad aad' x (by simpa using ht)).1

/-- non-vacuity: a RAW primary next to two TINK keys, one of them with a longer nonce -/
example : decrypt [⟨7, false, 12⟩, ⟨9, true, 12⟩, ⟨11, false, 24⟩]
    (encrypt ⟨9, true, 12⟩ [1,2,3,4,5,6,7,8,9,10,11,12] 42 5).1 (encrypt ⟨9, true, 12⟩ [1,2,3,4,5,6,7,8,9,10,11,12] 42 5).2 5
    = some 42 := by decide

end Aead
