import AriesVerif.Generated.KeyTypes
/-! # C04 — obligations on the key-type table REGENERATED from the code on every run (`Generated/KeyTypes.lean`):
for every signing key type the KMS creates, the public key another party rebuilds from the exported bytes is the same
Tink key (type URL, serialized parameters and coordinates) under the same output prefix, and a signature by the created
key verifies under it. -/
namespace C04

def consistent (r : Generated.Row) : Bool :=
  r.createdPrefix == r.reimportedPrefix && r.sameTypeURL && r.sameKeyValue && r.signVerifies

theorem keytypes_consistent : Generated.rows.all consistent = true := by decide

/-- the table is the whole domain: the 8 creatable signing key types (secp256k1 DER is refused by `Create`) -/
theorem keytypes_complete : Generated.rows.length = 8 ∧ (Generated.rows.filter (·.signing)).length = 8 := by decide

end C04
