import AriesVerif.C04.Aead
import AriesVerif.C04.Codec
import AriesVerif.Base.Util
/-! C04 driver glue (format of harness/cmd/corr/c04.go). -/
namespace C04.Drv
open Util

def sigLen : String → String
  | "ed25519" => "64" | "p256" => "64" | "p384" => "96" | "p521" => "132" | "k256" => "64" | _ => "der"

def isDer (kt : String) : Bool := kt.endsWith "der"

/-- (expected neg outcome as the code behaves, as the contract demands) -/
def sigNeg (kt how neg : String) : String × String :=
  match (neg.splitOn ":").headD "" with
  | "none" => ("na", "na")
  | "pad" =>
    if isDer kt || kt == "ed25519" then ("na", "na")
    else if kt == "p521" then ("fail", "fail")              -- 134 bytes: beyond the decoder's 132-byte limit
    else if kt == "k256" then ("fail", "fail")              -- exact-size check of the secp256k1 verifier
    else if how == "pkv" then ("fail", "fail")              -- the framework's own verifier: longer than 2·size is DER
    else ("ok", "fail")                                      -- Tink's ECDSA verifier decodes leniently (C04-F3)
  | _ => ("fail", "fail")

def hexNat (s : String) : Option Nat :=
  s.toList.foldlM (fun acc c => (hexDigit c).map fun d => acc * 16 + d) 0

def derInt (x : Nat) : List Nat :=
  let b := P1363.toBytes x
  let b' := match b with
    | [] => [0]
    | h :: _ => if h ≥ 128 then 0 :: b else b
  [2, b'.length] ++ b'

def derSeq (r s : Nat) : List Nat :=
  let c := derInt r ++ derInt s
  [48, c.length] ++ c

def hexOf (bs : List Nat) : String := toHex (bs.map fun n => UInt8.ofNat n)

def aeadKey (kt : String) (id : Nat) : Aead.Key :=
  ⟨id, kt == "a256gcmnp", if kt == "xchacha" then 24 else 12⟩

def nonceOf (k : Aead.Key) (seed : Nat) : List Nat := (List.range k.nsz).map fun i => (i * 7 + seed) % 256

def showDec (r : Option Nat) (m : Nat) : String :=
  match r with | none => "fail" | some x => if x == m then "ok" else "wrong"

def predict (input : String) : Option (String × String × String) :=   -- (model line, spec neg, model neg)
  match input.splitOn "|" with
  | ["sig", kt, src, _, how, neg] =>
    if kt == "k256der" then some ("key=err", "-", "-")
    else if src == "import" && (kt == "k256") then some ("key=err", "-", "-")
    else
      let (m, sp) := sigNeg kt how neg
      some (s!"sign=ok len={sigLen kt} honest=ok neg={m}", sp, m)
  | ["bls", nS, _, neg] => do
    -- BLS12-381 G2 multi-message signature (112 bytes): any other message vector, key or signature is refused
    let n ← nS.toNat?
    let negF := neg.splitOn ":"
    let arg (i : Nat) : Nat := ((negF.getD i "0").toNat?).getD 0
    let applies : Bool := match negF.headD "" with
      | "none" => false
      | "chg" => arg 1 < n
      | "swap" => arg 1 < n && arg 2 < n && arg 1 != arg 2
      | "drop" => n > 1
      | "app" => true | "key" => true | "flip" => true
      | _ => false
    let m := if applies then "fail" else "na"
    pure (s!"sign=ok len=112 honest=ok neg={m}", m, m)
  | ["mac", _, neg] =>
    let m := if neg == "none" then "na" else "fail"
    some (s!"sign=ok len=37 honest=ok neg={m}", m, m)   -- HMAC-SHA256 tag behind the 5-byte Tink key prefix
  | ["aead", kt, _, _, rotS, neg] => do
    let rotTypes : List String := match rotS.toNat? with
      | some n => List.replicate n kt
      | none => rotS.splitOn ","
    let p := aeadKey kt 100
    let ks := p :: rotTypes.zipIdx.map fun (t, i) => aeadKey t (101 + i)
    let n := nonceOf p 1
    let (cipher, nonce) := Aead.encrypt p n 42 5
    let honest := showDec (Aead.decrypt ks cipher nonce 5) 42
    let negF := neg.splitOn ":"
    let m : String := match negF.headD "" with
      | "none" => "na"
      | "ct" => showDec (Aead.decrypt ks [Aead.Sym.byte 0] nonce 5) 42          -- an altered body is no body
      | "nonce" => showDec (Aead.decrypt ks cipher (Aead.bytes ((n.headD 0 + 1) % 256 :: n.drop 1)) 5) 42
      | "aad" => showDec (Aead.decrypt ks cipher nonce 6) 42
      | "key" => showDec (Aead.decrypt [aeadKey kt 999] cipher nonce 5) 42
      | "swapnonce" => showDec (Aead.decrypt ks cipher (Aead.bytes (nonceOf p 2)) 5) 42
      | "emptyn" => showDec (Aead.decrypt ks cipher [] 5) 42
      | _ => "?"
    let sp := if m == "na" then "na" else "fail"
    pure (s!"enc=ok noncelen={p.nsz} ctlen=16 dec={honest} neg={m}", sp, m)
  | ["enc", rS, sS, _] => do
    let r ← hexNat rS
    let s ← hexNat sS
    let p := P1363.encode r s 32
    let back := if P1363.decode p == some (r, s) then "same" else "other"
    let padded := match P1363.decode (0 :: p.take 32 ++ 0 :: p.drop 32) with
      | some rs => if rs == (r, s) then "same" else "other"
      | none => "rej"
    let short := if p.headD 1 == 0 && (p.drop 32).headD 1 == 0 then
        (match P1363.decode ((p.take 32).drop 1 ++ (p.drop 32).drop 1) with
         | some rs => if rs == (r, s) then "same" else "other"
         | none => "rej")
      else "na"
    pure (s!"p1363={hexOf p} back={back} padded={padded} short={short} der={hexOf (derSeq r s)} derback=same dertrail=rej derpad=rej",
      "-", "-")
  | _ => none

def judge (input impl : String) : String × String × String :=
  match predict input with
  | none => ("bad-input", "bad-input", "")
  | some (line, specNeg, modelNeg) =>
    let modelCol := if line == impl then "=" else line
    let words := impl.splitOn " "
    if specNeg == "-" then (modelCol, if line == impl then "=" else "codec / key outcome differs", "")
    else
      let honestOk := words.contains "honest=ok" || words.contains "dec=ok"
      let negObs := ((words.find? (·.startsWith "neg=")).map fun w => (w.drop 4).toString).getD "?"
      if !honestOk then (modelCol, "HONEST-OUTPUT-NOT-ACCEPTED", "")
      else if negObs == specNeg then (modelCol, "=", "")
      else (modelCol, s!"contract demands neg={specNeg}",
        if specNeg == "fail" && negObs == "ok" && modelNeg == "ok" then "C04-F3" else "")

end C04.Drv
