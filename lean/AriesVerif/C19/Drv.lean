import AriesVerif.C19.Model
import AriesVerif.Base.Util
/-! C19 driver glue (line format of harness/cmd/corr/c19.go). Token `t<i>` is the i-th token issued so far in the
    history; an index that has not been issued (yet) is a string that is not a token. -/
namespace C19.Drv
open C19 Util

def parseTok (issued : Nat) (s : String) : Option Token :=
  match s.toList with
  | 't' :: d => match (String.ofList d).toNat? with
      | some i => if i < issued then some i else none
      | none => none
  | _ => none

def parseOp (issued : Nat) (line : String) : Option Op :=
  match line.splitOn " " with
  | ["create", u] => some (.create u)
  | ["open", u] => some (.open_ u false)
  | ["openshort", u] => some (.open_ u true)
  | ["openbad", u] => some (.openBad u)
  | ["close", u] => some (.close u)
  | ["expire"] => some .expire
  | ["expirep"] => some .expire      -- the same, while the tokens keep being presented to other wallets (all refused)
  | ["add", w, t, id, v] => some (.add w (parseTok issued t) id v)
  | ["get", w, t, id] => some (.get w (parseTok issued t) id)
  | ["getall", w, t] => some (.getAll w (parseTok issued t))
  | ["remove", w, t, id] => some (.remove w (parseTok issued t) id)
  | ["keypair", w, t] => some (.keyPair w (parseTok issued t))
  | _ => none

def showOut : Out → String
  | .ok => "ok" | .exists_ => "exists" | .noProfile => "noprofile" | .already => "already" | .err => "err"
  | .locked => "locked" | .notFound => "notfound"
  | .token t => s!"tok{t}" | .bool b => toString b | .val v => s!"val {v}"
  | .ids l => if l.isEmpty then "ids -" else "ids " ++ ",".intercalate (sortStrings l)

/-- run with the token table threaded through (the number of issued tokens is the model's `next`) -/
def runLines {σ : Type} (stp : σ → Op → σ × Out) (nextOf : σ → Nat) : σ → List String → List String
  | _, [] => []
  | s, l :: ls =>
    match parseOp (nextOf s) l with
    | none => ["bad-op"]
    | some op => let r := stp s op; showOut r.2 :: runLines stp nextOf r.1 ls

def lines (input : String) : List String := (input.splitOn ";").filter (· != "")

def handle (input : String) : String :=
  "|".intercalate (runLines Model.step (·.next) Model.init (lines input))
def handleSpec (input : String) : String :=
  "|".intercalate (runLines step (·.next) init (lines input))

end C19.Drv
