/-! # C19 — Spec: wallet auth tokens are capabilities for exactly one profile.

`w` is the profile whose wallet an operation is invoked on, `t` the token presented. The whole property is the
single guard `authorised`: the token is live and was returned by opening that very profile. -/
namespace C19

abbrev User := String
abbrev Token := Nat             -- tokens are numbered in the order they were issued
abbrev ContentId := String

structure St where
  profiles : List User
  live : List (Token × User × Bool)     -- live tokens (not closed, not expired); Bool = opened with the short expiry
  contents : User → List (ContentId × String)
  next : Token

inductive Op
  | create (u : User)
  | open_ (u : User) (short : Bool)
  | openBad (u : User)                          -- wrong passphrase
  | close (u : User)
  | expire                                       -- enough time passes for every short-lived token to expire
  | add (w : User) (t : Option Token) (id : ContentId) (v : String)     -- `none` = a string that never was a token
  | get (w : User) (t : Option Token) (id : ContentId)
  | getAll (w : User) (t : Option Token)
  | remove (w : User) (t : Option Token) (id : ContentId)
  | keyPair (w : User) (t : Option Token)
deriving Repr

inductive Out
  | ok | exists_ | noProfile | already | err | locked | notFound
  | token (t : Token) | bool (b : Bool) | val (v : String) | ids (l : List ContentId)
deriving DecidableEq, Repr

def authorised (s : St) (w : User) (t : Option Token) : Bool :=
  match t with
  | none => false
  | some t => s.live.any fun x => x.1 == t && x.2.1 == w

def setC (c : User → List (ContentId × String)) (u : User) (l : List (ContentId × String)) :
    User → List (ContentId × String) := fun v => if v = u then l else c v

def step (s : St) : Op → St × Out
  | .create u =>
      if s.profiles.contains u then (s, .exists_) else ({ s with profiles := u :: s.profiles }, .ok)
  | .open_ u short =>
      if !s.profiles.contains u then (s, .noProfile)
      else if s.live.any (·.2.1 == u) then (s, .already)
      else ({ s with live := (s.next, u, short) :: s.live, next := s.next + 1 }, .token s.next)
  | .openBad u => if !s.profiles.contains u then (s, .noProfile) else (s, .err)
  | .close u =>
      if !s.profiles.contains u then (s, .noProfile)
      else ({ s with live := s.live.filter (·.2.1 != u) }, .bool (s.live.any (·.2.1 == u)))
  | .expire => ({ s with live := s.live.filter (!·.2.2) }, .ok)
  | .add w t id v =>
      if !s.profiles.contains w then (s, .noProfile)
      else if !authorised s w t then (s, .locked)
      else if (s.contents w).any (·.1 == id) then (s, .exists_)
      else ({ s with contents := setC s.contents w ((id, v) :: s.contents w) }, .ok)
  | .get w t id =>
      if !s.profiles.contains w then (s, .noProfile)
      else if !authorised s w t then (s, .locked)
      else match (s.contents w).find? (·.1 == id) with
        | some (_, v) => (s, .val v)
        | none => (s, .notFound)
  | .getAll w t =>
      if !s.profiles.contains w then (s, .noProfile)
      else if !authorised s w t then (s, .locked)
      else (s, .ids ((s.contents w).map (·.1)))
  | .remove w t id =>
      if !s.profiles.contains w then (s, .noProfile)
      else if !authorised s w t then (s, .locked)
      else ({ s with contents := setC s.contents w ((s.contents w).filter (·.1 != id)) }, .ok)
  | .keyPair w t =>
      if !s.profiles.contains w then (s, .noProfile)
      else if !authorised s w t then (s, .locked)
      else (s, .ok)

def init : St := ⟨[], [], fun _ => [], 0⟩

def run (s : St) : List Op → St × List Out
  | [] => (s, [])
  | op :: ops => let r := step s op; let r' := run r.1 ops; (r'.1, r.2 :: r'.2)

end C19
