import AriesVerif.C19.Spec
/-! # C19 — Model: `pkg/wallet` as written.

One process-wide session cache (`sessionManager().gstore`: token ↦ session{user}), one process-wide cache of opened
content stores (`storeManager()`: profile ↦ store), a wallet instance created per request (`wallet.New`) whose content
store handle is open iff the store cache has an entry for the profile. Every operation first runs
`checkTokenOwner` (a live token of another profile is refused), then the code path that was there before:
the content store handle opens for any live session, the key operations look the session up by token. -/
namespace C19.Model
open C19

structure St where
  profiles : List User
  sessions : List (Token × User × Bool)      -- sessionManager().gstore
  storeCached : List (User × Bool)           -- storeManager(): profile ↦ opened store (Bool = short expiry)
  contents : User → List (ContentId × String)
  next : Token

def live (s : St) (t : Option Token) : Bool :=
  match t with
  | none => false
  | some t => s.sessions.any (·.1 == t)

/-- `Wallet.checkTokenOwner`: refuse a live session that belongs to a different user -/
def ownerOK (s : St) (w : User) (t : Option Token) : Bool :=
  match t with
  | none => true
  | some t => !(s.sessions.any fun x => x.1 == t && x.2.1 != w)

/-- `contentStore.open(auth)` on a fresh wallet instance: the handle exists iff the store is cached; then ANY live
    session is accepted (as written in contents.go) -/
def contentAuth (s : St) (w : User) (t : Option Token) : Bool :=
  ownerOK s w t && s.storeCached.any (·.1 == w) && live s t

/-- key operations: `sessionManager().getSession(token)` after the owner check -/
def keyAuth (s : St) (w : User) (t : Option Token) : Bool := ownerOK s w t && live s t

def step (s : St) : Op → St × Out
  | .create u =>
      if s.profiles.contains u then (s, .exists_) else ({ s with profiles := u :: s.profiles }, .ok)
  | .open_ u short =>
      if !s.profiles.contains u then (s, .noProfile)                      -- wallet.New: profile not found
      else if s.sessions.any (·.2.1 == u) then (s, .already)              -- createSession: ErrAlreadyUnlocked
      else ({ s with sessions := (s.next, u, short) :: s.sessions, next := s.next + 1,
                     storeCached := (u, short) :: s.storeCached.filter (·.1 != u) }, .token s.next)
  | .openBad u => if !s.profiles.contains u then (s, .noProfile) else (s, .err)   -- createKeyManager fails first
  | .close u =>
      if !s.profiles.contains u then (s, .noProfile)
      -- Wallet.Close = closeSession(user) && contents.Close(): the store cache is only cleared if a session was found
      else if s.sessions.any (·.2.1 == u)
      then ({ s with sessions := s.sessions.filter (·.2.1 != u), storeCached := s.storeCached.filter (·.1 != u) }, .bool true)
      else (s, .bool false)
  | .expire => ({ s with sessions := s.sessions.filter (!·.2.2), storeCached := s.storeCached.filter (!·.2) }, .ok)
  | .add w t id v =>
      if !s.profiles.contains w then (s, .noProfile)
      else if !contentAuth s w t then (s, .locked)
      else if (s.contents w).any (·.1 == id) then (s, .exists_)
      else ({ s with contents := setC s.contents w ((id, v) :: s.contents w) }, .ok)
  | .get w t id =>
      if !s.profiles.contains w then (s, .noProfile)
      else if !contentAuth s w t then (s, .locked)
      else match (s.contents w).find? (·.1 == id) with
        | some (_, v) => (s, .val v)
        | none => (s, .notFound)
  | .getAll w t =>
      if !s.profiles.contains w then (s, .noProfile)
      else if !contentAuth s w t then (s, .locked)
      else (s, .ids ((s.contents w).map (·.1)))
  | .remove w t id =>
      if !s.profiles.contains w then (s, .noProfile)
      else if !contentAuth s w t then (s, .locked)
      else ({ s with contents := setC s.contents w ((s.contents w).filter (·.1 != id)) }, .ok)
  | .keyPair w t =>
      if !s.profiles.contains w then (s, .noProfile)
      else if !keyAuth s w t then (s, .locked)
      else (s, .ok)

def init : St := ⟨[], [], [], fun _ => [], 0⟩

def run (s : St) : List Op → St × List Out
  | [] => (s, [])
  | op :: ops => let r := step s op; let r' := run r.1 ops; (r'.1, r.2 :: r'.2)

/-- the code before the `fix:` commit: no owner check -/
def contentAuthOld (s : St) (w : User) (t : Option Token) : Bool := s.storeCached.any (·.1 == w) && live s t

end C19.Model
