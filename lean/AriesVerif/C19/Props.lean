import AriesVerif.C19.Model
/-! # C19 — property theorems -/
namespace C19

macro "fin2" : tactic =>
  `(tactic| first | exact ⟨rfl, rfl⟩ | exact ⟨trivial, trivial⟩ | exact ⟨trivial, rfl⟩ | exact ⟨rfl, trivial⟩)

/-! ## the Spec: what "requires a live token of that very wallet" means -/

/-- which wallet an operation is invoked on, and with which token -/
def Op.target : Op → Option (User × Option Token)
  | .add w t _ _ => some (w, t) | .get w t _ => some (w, t) | .getAll w t => some (w, t)
  | .remove w t _ => some (w, t) | .keyPair w t => some (w, t) | _ => none

/-- **auth**: a content or key operation on an existing profile is refused (`locked`) exactly when the token is not a
    live token of that very profile — garbage, foreign, closed and expired tokens alike -/
theorem C19_auth (s : St) (op : Op) (w : User) (t : Option Token) (ht : op.target = some (w, t))
    (hp : s.profiles.contains w = true) :
    (step s op).2 = .locked ↔ authorised s w t = false := by
  cases op with
  | add w' t' id v =>
    simp only [Op.target, Option.some.injEq, Prod.mk.injEq] at ht
    obtain ⟨h1, h2⟩ := ht; subst h1 h2
    simp only [step, hp, Bool.not_true, Bool.false_eq_true, if_false]
    cases ha : authorised s w' t' <;> simp
    split <;> simp
  | get w' t' id =>
    simp only [Op.target, Option.some.injEq, Prod.mk.injEq] at ht
    obtain ⟨h1, h2⟩ := ht; subst h1 h2
    simp only [step, hp, Bool.not_true, Bool.false_eq_true, if_false]
    cases ha : authorised s w' t' <;> simp
    split <;> simp
  | getAll w' t' =>
    simp only [Op.target, Option.some.injEq, Prod.mk.injEq] at ht
    obtain ⟨h1, h2⟩ := ht; subst h1 h2
    simp only [step, hp, Bool.not_true, Bool.false_eq_true, if_false]
    cases ha : authorised s w' t' <;> simp
  | remove w' t' id =>
    simp only [Op.target, Option.some.injEq, Prod.mk.injEq] at ht
    obtain ⟨h1, h2⟩ := ht; subst h1 h2
    simp only [step, hp, Bool.not_true, Bool.false_eq_true, if_false]
    cases ha : authorised s w' t' <;> simp
  | keyPair w' t' =>
    simp only [Op.target, Option.some.injEq, Prod.mk.injEq] at ht
    obtain ⟨h1, h2⟩ := ht; subst h1 h2
    simp only [step, hp, Bool.not_true, Bool.false_eq_true, if_false]
    cases ha : authorised s w' t' <;> simp
  | create _ => simp [Op.target] at ht
  | open_ _ _ => simp [Op.target] at ht
  | openBad _ => simp [Op.target] at ht
  | close _ => simp [Op.target] at ht
  | expire => simp [Op.target] at ht

/-- **a refused operation reads and changes nothing** -/
theorem C19_failed_noop (s : St) (op : Op) (h : (step s op).2 = .locked) : (step s op).1 = s := by
  cases op <;> simp only [step] at h ⊢
  all_goals (repeat' split) <;> simp_all

/-- **isolation**: whatever is invoked on wallet `w` (with whatever token) leaves the contents of every other profile
    untouched; operations that are not content operations touch no contents at all -/
theorem C19_isolation (s : St) (op : Op) (q : User) (hq : ∀ w t, op.target = some (w, t) → w ≠ q) :
    (step s op).1.contents q = s.contents q := by
  cases op <;> simp only [step]
  all_goals (repeat' split) <;> try rfl
  all_goals
    simp only [setC]
    split
    · rename_i h; exact absurd h.symm (hq _ _ rfl)
    · rfl

/-- what a read returns comes from the wallet it was invoked on -/
theorem C19_read_own (s : St) (w : User) (t : Option Token) (id : ContentId) (v : String)
    (h : (step s (.get w t id)).2 = .val v) : authorised s w t = true ∧ (id, v) ∈ s.contents w := by
  simp only [step] at h
  split at h; · cases h
  split at h; · cases h
  rename_i ha
  split at h
  · rename_i i v' hf
    cases h
    have hm := List.mem_of_find?_eq_some hf
    have hk := List.find?_some hf
    simp only [beq_iff_eq] at hk
    subst hk
    exact ⟨by simpa using ha, hm⟩
  · cases h

/-! ## the code (Model) implements the Spec on every history -/

structure Inv (m : Model.St) : Prop where
  uniq : ∀ x ∈ m.sessions, ∀ y ∈ m.sessions, x.1 = y.1 → x = y
  fresh : ∀ x ∈ m.sessions, x.1 < m.next
  cached : ∀ x ∈ m.sessions, (x.2.1, x.2.2) ∈ m.storeCached

def abs (m : Model.St) : St := ⟨m.profiles, m.sessions, m.contents, m.next⟩

theorem contentAuth_eq (m : Model.St) (hi : Inv m) (w : User) (t : Option Token) :
    Model.contentAuth m w t = authorised (abs m) w t := by
  cases t with
  | none => simp [Model.contentAuth, Model.live, authorised]
  | some t =>
    simp only [Model.contentAuth, Model.ownerOK, Model.live, authorised, abs]
    by_cases ha : (m.sessions.any fun x => x.1 == t && x.2.1 == w) = true
    · rw [ha]
      obtain ⟨x, hx, hxt⟩ := List.any_eq_true.mp ha
      simp only [Bool.and_eq_true, beq_iff_eq] at hxt
      have h1 : (m.sessions.any fun x => x.1 == t && x.2.1 != w) = false := by
        apply Bool.eq_false_iff.mpr
        intro hc
        obtain ⟨y, hy, hyt⟩ := List.any_eq_true.mp hc
        simp only [Bool.and_eq_true, beq_iff_eq, bne_iff_ne, ne_eq] at hyt
        have := hi.uniq x hx y hy (by rw [hxt.1, hyt.1])
        subst this
        exact hyt.2 hxt.2
      have h2 : (m.storeCached.any (·.1 == w)) = true := by
        apply List.any_eq_true.mpr
        exact ⟨_, hi.cached x hx, by simp [hxt.2]⟩
      have h3 : (m.sessions.any (·.1 == t)) = true :=
        List.any_eq_true.mpr ⟨x, hx, by simp [hxt.1]⟩
      simp [h1, h2, h3]
    · have ha' : (m.sessions.any fun x => x.1 == t && x.2.1 == w) = false := Bool.eq_false_iff.mpr ha
      rw [ha']
      apply Bool.eq_false_iff.mpr
      intro hc
      simp only [Bool.and_eq_true, Bool.not_eq_true', ] at hc
      obtain ⟨⟨h1, _⟩, h3⟩ := hc
      obtain ⟨x, hx, hxt⟩ := List.any_eq_true.mp h3
      simp only [beq_iff_eq] at hxt
      have hne : ¬ (x.2.1 != w) = true := by
        intro hh
        have : (m.sessions.any fun x => x.1 == t && x.2.1 != w) = true :=
          List.any_eq_true.mpr ⟨x, hx, by simp [hxt, hh]⟩
        rw [this] at h1; cases h1
      have hw : x.2.1 = w := by simpa using hne
      exact ha (List.any_eq_true.mpr ⟨x, hx, by simp [hxt, hw]⟩)

theorem keyAuth_eq (m : Model.St) (hi : Inv m) (w : User) (t : Option Token) :
    Model.keyAuth m w t = authorised (abs m) w t := by
  cases t with
  | none => simp [Model.keyAuth, Model.live, authorised]
  | some t =>
    -- same argument without the store cache
    have := contentAuth_eq m hi w (some t)
    simp only [Model.contentAuth, Model.keyAuth] at this ⊢
    by_cases ha : authorised (abs m) w (some t) = true
    · rw [ha] at this ⊢
      simp only [Bool.and_eq_true] at this ⊢
      exact ⟨this.1.1, this.2⟩
    · have ha' : authorised (abs m) w (some t) = false := Bool.eq_false_iff.mpr ha
      rw [ha']
      apply Bool.eq_false_iff.mpr
      intro hc
      simp only [Bool.and_eq_true] at hc
      -- a live token accepted by the owner check belongs to w
      simp only [Model.live] at hc
      obtain ⟨x, hx, hxt⟩ := List.any_eq_true.mp hc.2
      simp only [beq_iff_eq] at hxt
      have hown := hc.1
      simp only [Model.ownerOK, Bool.not_eq_true'] at hown
      have hw : x.2.1 = w := by
        apply Classical.byContradiction
        intro hne
        have : (m.sessions.any fun x => x.1 == t && x.2.1 != w) = true :=
          List.any_eq_true.mpr ⟨x, hx, by simp [hxt, hne]⟩
        rw [this] at hown; cases hown
      exact ha (by
        simp only [authorised, abs]
        exact List.any_eq_true.mpr ⟨x, hx, by simp [hxt, hw]⟩)

theorem inv_filter_sessions {m : Model.St} (hi : Inv m) (p : Token × User × Bool → Bool) (sc : List (User × Bool))
    (hc : ∀ x ∈ m.sessions, p x = true → (x.2.1, x.2.2) ∈ sc) :
    Inv { m with sessions := m.sessions.filter p, storeCached := sc } :=
  ⟨fun x hx y hy h => hi.uniq x (List.mem_filter.mp hx).1 y (List.mem_filter.mp hy).1 h,
   fun x hx => hi.fresh x (List.mem_filter.mp hx).1,
   fun x hx => hc x (List.mem_filter.mp hx).1 (List.mem_filter.mp hx).2⟩

theorem step_out_abs (m : Model.St) (hi : Inv m) (op : Op) :
    (Model.step m op).2 = (step (abs m) op).2 ∧ abs (Model.step m op).1 = (step (abs m) op).1 := by
  have hca := contentAuth_eq m hi
  have hka := keyAuth_eq m hi
  have e1 : (abs m).profiles = m.profiles := rfl
  have e2 : (abs m).live = m.sessions := rfl
  have e3 : (abs m).contents = m.contents := rfl
  have e4 : (abs m).next = m.next := rfl
  cases op with
  | close u =>
    simp only [Model.step, step, e1, e2]
    cases hp : m.profiles.contains u
    · simp only [Bool.not_false, if_true]; fin2
    · simp only [Bool.not_true, Bool.false_eq_true, if_false]
      cases hs : (m.sessions.any (·.2.1 == u))
      · simp only [Bool.false_eq_true, if_false]
        have : m.sessions.filter (·.2.1 != u) = m.sessions := by
          apply List.filter_eq_self.mpr
          intro x hx
          have := List.any_eq_false.mp hs x hx
          simpa using this
        rw [this]; fin2
      · simp only [if_true]; fin2
  | add w t id v =>
    simp only [Model.step, step, hca w t, e1, e3]
    cases hp : m.profiles.contains w <;> cases ha : authorised (abs m) w t <;>
      simp only [Bool.not_true, Bool.not_false, Bool.false_eq_true, if_true, if_false]
    all_goals first | fin2 | (split <;> fin2)
  | get w t id =>
    simp only [Model.step, step, hca w t, e1, e3]
    cases hp : m.profiles.contains w <;> cases ha : authorised (abs m) w t <;>
      simp only [Bool.not_true, Bool.not_false, Bool.false_eq_true, if_true, if_false]
    any_goals fin2
    cases hf : List.find? (fun x => x.fst == id) (m.contents w) with
    | none => fin2
    | some p => obtain ⟨a, b⟩ := p; fin2
  | getAll w t =>
    simp only [Model.step, step, hca w t, e1, e3]
    cases hp : m.profiles.contains w <;> cases ha : authorised (abs m) w t <;>
      simp only [Bool.not_true, Bool.not_false, Bool.false_eq_true, if_true, if_false]
    all_goals fin2
  | remove w t id =>
    simp only [Model.step, step, hca w t, e1, e3]
    cases hp : m.profiles.contains w <;> cases ha : authorised (abs m) w t <;>
      simp only [Bool.not_true, Bool.not_false, Bool.false_eq_true, if_true, if_false]
    all_goals fin2
  | keyPair w t =>
    simp only [Model.step, step, hka w t, e1, e3]
    cases hp : m.profiles.contains w <;> cases ha : authorised (abs m) w t <;>
      simp only [Bool.not_true, Bool.not_false, Bool.false_eq_true, if_true, if_false]
    all_goals fin2
  | create u =>
    simp only [Model.step, step, e1]
    cases hp : m.profiles.contains u <;> simp only [Bool.false_eq_true, if_true, if_false] <;> fin2
  | open_ u short =>
    simp only [Model.step, step, e1, e2, e4]
    cases hp : m.profiles.contains u <;> cases hs : (m.sessions.any (·.2.1 == u)) <;>
      simp only [Bool.not_true, Bool.not_false, Bool.false_eq_true, if_true, if_false] <;> fin2
  | openBad u =>
    simp only [Model.step, step, e1]
    cases hp : m.profiles.contains u <;>
      simp only [Bool.not_true, Bool.not_false, Bool.false_eq_true, if_true, if_false] <;> fin2
  | expire => simp only [Model.step, step]; fin2

theorem step_inv (m : Model.St) (hi : Inv m) (op : Op) : Inv (Model.step m op).1 := by
  cases op with
  | create u =>
    simp only [Model.step]
    split
    · exact hi
    · exact ⟨hi.uniq, hi.fresh, hi.cached⟩
  | open_ u short =>
    simp only [Model.step]
    split
    · exact hi
    · split
      · exact hi
      · rename_i hno
        refine ⟨?_, ?_, ?_⟩
        · intro x hx y hy hxy
          rcases List.mem_cons.mp hx with h1 | h1 <;> rcases List.mem_cons.mp hy with h2 | h2
          · rw [h1, h2]
          · have hlt := hi.fresh y h2
            have : y.1 = m.next := by rw [h1] at hxy; exact hxy.symm
            exact absurd this (Nat.ne_of_lt hlt)
          · have hlt := hi.fresh x h1
            have : x.1 = m.next := by rw [h2] at hxy; exact hxy
            exact absurd this (Nat.ne_of_lt hlt)
          · exact hi.uniq x h1 y h2 hxy
        · intro x hx
          rcases List.mem_cons.mp hx with h1 | h1
          · rw [h1]; simp
          · exact Nat.lt_succ_of_lt (hi.fresh x h1)
        · intro x hx
          rcases List.mem_cons.mp hx with h1 | h1
          · rw [h1]; simp
          · have hxu : x.2.1 ≠ u := by
              intro he
              apply hno
              exact List.any_eq_true.mpr ⟨x, h1, by simp [he]⟩
            apply List.mem_cons_of_mem
            exact List.mem_filter.mpr ⟨hi.cached x h1, by simp [hxu]⟩
  | openBad u => simp only [Model.step]; split <;> exact hi
  | close u =>
    simp only [Model.step]
    split
    · exact hi
    · split
      · apply inv_filter_sessions hi
        intro x hx hp
        exact List.mem_filter.mpr ⟨hi.cached x hx, by simpa using hp⟩
      · exact hi
  | expire =>
    simp only [Model.step]
    apply inv_filter_sessions hi
    intro x hx hp
    exact List.mem_filter.mpr ⟨hi.cached x hx, by simpa using hp⟩
  | add w t id v =>
    simp only [Model.step]
    (repeat' split) <;> first | exact hi | exact ⟨hi.uniq, hi.fresh, hi.cached⟩
  | get w t id =>
    simp only [Model.step]
    (repeat' split) <;> exact hi
  | getAll w t =>
    simp only [Model.step]
    (repeat' split) <;> exact hi
  | remove w t id =>
    simp only [Model.step]
    (repeat' split) <;> first | exact hi | exact ⟨hi.uniq, hi.fresh, hi.cached⟩
  | keyPair w t =>
    simp only [Model.step]
    (repeat' split) <;> exact hi

theorem step_refines (m : Model.St) (hi : Inv m) (op : Op) :
    (Model.step m op).2 = (step (abs m) op).2 ∧ abs (Model.step m op).1 = (step (abs m) op).1 ∧
    Inv (Model.step m op).1 :=
  ⟨(step_out_abs m hi op).1, (step_out_abs m hi op).2, step_inv m hi op⟩

theorem inv_init : Inv Model.init :=
  ⟨(by intro x hx; cases hx), (by intro x hx; cases hx), (by intro x hx; cases hx)⟩

/-- **every history**: the wallet code answers every operation — with every token ever issued, garbage included — exactly
    as the Spec does -/
theorem C19_model_refines_spec (ops : List Op) :
    (Model.run Model.init ops).2 = (run init ops).2 := by
  have gen : ∀ (m : Model.St), Inv m → (Model.run m ops).2 = (run (abs m) ops).2 := by
    induction ops with
    | nil => intro m _; rfl
    | cons op ops ih =>
      intro m hi
      obtain ⟨h1, h2, h3⟩ := step_refines m hi op
      simp only [Model.run, run]
      rw [h1, ih _ h3, h2]
  exact gen Model.init inv_init

/-! ## the defect that was repaired (C19-F1), and non-vacuity -/

/-- without the owner check (the code before the `fix:` commit) Bob's live token opened Alice's content store -/
example : let m : Model.St := ⟨["alice", "bob"], [(1, "bob", false), (0, "alice", false)],
      [("bob", false), ("alice", false)], fun u => if u = "alice" then [("secret", "v")] else [], 2⟩
    Model.contentAuthOld m "alice" (some 1) = true ∧ Model.contentAuth m "alice" (some 1) = false := by decide

/-- the replayed two-tenant history, on the model of the repaired code -/
example : (Model.run Model.init [.create "alice", .create "bob", .open_ "alice" false, .open_ "bob" false,
    .add "alice" (some 0) "secret" "v", .get "alice" (some 1) "secret", .get "alice" (some 0) "secret",
    .close "alice", .get "alice" (some 0) "secret", .keyPair "alice" (some 1), .keyPair "bob" (some 1)]).2
    = [.ok, .ok, .token 0, .token 1, .ok, .locked, .val "v", .bool true, .locked, .locked, .ok] := by decide

end C19
