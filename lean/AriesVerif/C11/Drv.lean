import AriesVerif.C11.Model
import AriesVerif.Base.Util
/-! C11 driver glue: `<stack>|<pre ops>|<ops>` ↦ outcomes joined by `|` (same format as harness/cmd/corr/c11.go). -/
namespace C11.Drv
open C11 Util

/-- recursive-descent parser on characters; `fuel` bounds the nesting depth -/
def parseStackL : Nat → List Char → Option (Stack × List Char)
  | 0, _ => none
  | fuel + 1, cs =>
    let name := String.ofList (cs.takeWhile fun c => c != '(' && c != ',' && c != ')')
    let rest := cs.dropWhile fun c => c != '(' && c != ',' && c != ')'
    let arg1 (r : List Char) : Option (Stack × List Char) :=
      match r with
      | '(' :: r => match parseStackL fuel r with
          | some (u, ')' :: r') => some (u, r')
          | _ => none
      | _ => none
    if name == "mem" then some (.mem, rest)
    else if name == "ldb" then some (.ldb, rest)
    else if name == "cached" then
      match rest with
      | '(' :: r => match parseStackL fuel r with
          | some (m, ',' :: r') => match parseStackL fuel r' with
              | some (c, ')' :: r'') => some (.cached m c, r'')
              | _ => none
          | _ => none
      | _ => none
    else if name == "fdet" || name == "fnon" then
      (arg1 rest).map fun (u, r) => (.formatted (name == "fdet") u, r)
    -- formattedstore with the EDV encrypted formatter (deterministic / random document ids): the formatter is a parameter
    -- of the wrapper model, the key-value behaviour is the same
    else if name == "edet" || name == "enon" then
      (arg1 rest).map fun (u, r) => (.formatted (name == "edet") u, r)
    else if name.startsWith "batched" then
      let a := String.ofList (name.toList.drop 7)
      let n : Option Int :=
        match a.toList with
        | 'm' :: d => (String.ofList d).toNat?.map fun k => -(k : Int)
        | _ => a.toNat?.map fun k => (k : Int)
      match n, arg1 rest with
      | some n, some (u, r) => some (.batched n u, r)
      | _, _ => none
    else none

def parseStack (s : String) : Option (Stack × String) :=
  (parseStackL 16 s.toList).map fun (st, r) => (st, String.ofList r)

def parseKey (s : String) : Key := if s == "_" then "" else s
def parseVal (s : String) : Option (Option Val) :=
  if s == "nil" then some none else if s == "e" then some (some []) else (parseHex s).map some
def parseTags (s : String) : List Tag :=
  if s == "-" then [] else (s.splitOn ",").map fun t =>
    match t.splitOn "=" with
    | [n] => ⟨n, ""⟩
    | n :: rest => ⟨n, "=".intercalate rest⟩
    | [] => ⟨"", ""⟩

def parseCrit (c : String) : Option Crit :=
  match c.splitOn "=" with
  | [n] => some (.name n)
  | [n, v] => if v == "" then some (.name n) else some (.nameValue n v)
  | _ => none

/-- expression language of the provider: with `conj` the expression is split on `&&` first -/
def parseQuery (conj : Bool) (s : String) : Option Query :=
  if s == "!" then none
  else if conj then (s.splitOn "&&").mapM parseCrit
  else (parseCrit s).map fun c => [c]

def parseBatchOp (s : String) : Option BatchOp :=
  match s.splitOn "/" with
  | [k, v, t] => (parseVal v).map fun v => ⟨parseKey k, v, parseTags t⟩
  | _ => none

def parseOp (conj : Bool) (line : String) : Option Op :=
  match line.splitOn " " with
  | ["put", k, v, ts] => (parseVal v).map fun v => .put (parseKey k) v (parseTags ts)
  | ["get", k] => some (.get (parseKey k))
  | ["gettags", k] => some (.getTags (parseKey k))
  | ["getbulk", ks] => some (.getBulk (if ks == "-" then [] else (ks.splitOn ",").map parseKey))
  | ["query", q] => some (.query (parseQuery conj q))
  | ["delete", k] => some (.delete (parseKey k))
  | ["batch", ops] => if ops == "-" then some (.batch []) else ((ops.splitOn "+").mapM parseBatchOp).map .batch
  | ["flush"] => some .flush
  | ["reopen"] => some .reopen
  | _ => none

def showVal (v : Val) : String := if v.isEmpty then "e" else toHex v
def showTags (ts : List Tag) : String :=
  if ts.isEmpty then "-" else ",".intercalate (sortStrings (ts.map fun t => s!"{t.name}={t.value}"))
def showOut : Out → String
  | .ok => "ok" | .notFound => "notfound" | .invalid => "invalid"
  | .val v => s!"val {showVal v}"
  | .tags ts => s!"tags {showTags ts}"
  | .vals vs => "vals " ++ ",".intercalate (vs.map fun | some v => showVal v | none => "nil")
  | .rows es =>
      if es.isEmpty then "rows -" else
      "rows " ++ "/".intercalate (sortStrings (es.map fun e => s!"{e.key}~{showVal e.val}~{showTags e.tags}"))

/-- state of the full stack after the wrapped provider was pre-populated behind the outermost wrapper's back -/
def initWith : (st : Stack) → List Op → st.machine.σ
  | .mem, pre => (run Mem.step [] pre).1
  | .ldb, pre => (run Ldb.step [] pre).1
  | .cached m c, pre => ((run m.machine.step m.machine.init (pre ++ [.flush])).1, c.machine.init)
  | .batched _ u, pre => ⟨(run u.machine.step u.machine.init (pre ++ [.flush])).1, []⟩
  | .formatted d u, pre => (run (Formatted.machine u.machine d).step u.machine.init (pre ++ [.flush])).1

def splitOps (s : String) : List String := if s == "" then [] else s.splitOn ";"

/-- model outcome line -/
def handle (input : String) : String :=
  match input.splitOn "|" with
  | [stack, pre, ops] =>
    match parseStack stack with
    | some (st, "") =>
      let innerConj := match st with
        | .cached m _ => m.conj | .batched _ u => u.conj | s => s.conj
      match (splitOps pre).mapM (parseOp innerConj), (splitOps ops).mapM (parseOp st.conj) with
      | some pre, some ops =>
        "|".intercalate ((run st.machine.step (initWith st pre) ops).2.map showOut)
      | _, _ => "bad-op"
    | _ => "bad-stack"
  | _ => "bad-input"

/-- the Spec's outcome for the same case (what the contract prescribes for the stack's provider parameters) -/
def handleSpec (input : String) : String :=
  match input.splitOn "|" with
  | [stack, pre, ops] =>
    match parseStack stack with
    | some (st, "") =>
      match (splitOps pre).mapM (parseOp true), (splitOps ops).mapM (parseOp st.conj) with
      | some pre, some ops =>
        let s0 := (run (step st.volatile) [] pre).1
        "|".intercalate ((run (step st.volatile) s0 ops).2.map showOut)
      | _, _ => "bad-op"
    | _ => "bad-stack"
  | _ => "bad-input"

end C11.Drv
