/-! # C11 — formattedstore with NON-deterministic key formatting under a formatter that embeds the key
(`component/storageutil/formattedstore`: `storeUsingNonDeterministicKey`, `createFormattedPutOperationUsingExistingFormattedKey`;
`component/storage/edv`: the encrypted formatter puts the key it is GIVEN into the encrypted document and hands it back
from `Deformat`; query iterators return that as `Key()` and strip the internal key tag by comparing with it).

The underlying store holds documents under formatted keys (random document ids, here: fresh numbers). A document carries
the key the formatter was given (`embedded`), the value, and — as an index — the internal key tag (`ktag`: the caller's key).
A `Put` looks the caller's key up through the key tag: absent, a fresh formatted key is made; present, the document under
the FOUND formatted key is replaced. The question is which key the formatter is given in the second case. -/
namespace C11.NonDet

structure Doc where
  embedded : String      -- what Deformat returns as the key
  ktag : String          -- the internal key tag (the caller's key)
  val : Nat
deriving DecidableEq, Repr

/-- the underlying store: (formatted key, document); `next` = source of fresh formatted keys -/
structure St where
  docs : List (Nat × Doc)
  next : Nat
deriving Repr

def fkeyText (f : Nat) : String := "doc-" ++ toString f

def replaceAt (f : Nat) (d : Doc) : List (Nat × Doc) → List (Nat × Doc)
  | [] => []
  | (g, e) :: rest => if g = f then (g, d) :: rest else (g, e) :: replaceAt f d rest

/-- `Put`; `fixed = false` is the code before the repair of C11-F7 (the formatter is given the FOUND formatted key) -/
def put (fixed : Bool) (s : St) (k : String) (v : Nat) : St :=
  match s.docs.find? (fun p => p.2.ktag == k) with
  | none => { docs := (s.next, ⟨k, k, v⟩) :: s.docs, next := s.next + 1 }
  | some (f, _) =>
    let given := if fixed then k else fkeyText f
    { s with docs := replaceAt f ⟨given, k, v⟩ s.docs }

/-- what a query iterator reports for a stored document: its key, and whether the internal key tag is still among the tags
    (it is stripped by comparison with the deformatted key) -/
def reported (d : Doc) : String × Bool := (d.embedded, d.embedded != d.ktag)

/-- every document hands back the caller's key -/
def Inv (s : St) : Prop := ∀ p ∈ s.docs, p.2.embedded = p.2.ktag

theorem mem_replaceAt {f : Nat} {d : Doc} {l : List (Nat × Doc)} {p : Nat × Doc} (h : p ∈ replaceAt f d l) :
    p ∈ l ∨ p.2 = d := by
  induction l with
  | nil => cases h
  | cons x xs ih =>
    unfold replaceAt at h
    split at h
    · rcases List.mem_cons.mp h with rfl | h'
      · exact Or.inr rfl
      · exact Or.inl (List.mem_cons_of_mem _ h')
    · rcases List.mem_cons.mp h with rfl | h'
      · exact Or.inl (List.mem_cons_self)
      · rcases ih h' with h'' | h''
        · exact Or.inl (List.mem_cons_of_mem _ h'')
        · exact Or.inr h''

theorem put_inv (s : St) (k : String) (v : Nat) (h : Inv s) : Inv (put true s k v) := by
  unfold put
  split
  · intro p hp
    rcases List.mem_cons.mp hp with rfl | hp'
    · rfl
    · exact h p hp'
  · intro p hp
    rcases mem_replaceAt hp with hp' | hp'
    · exact h p hp'
    · rw [hp']; simp

/-- **C11 over an embedding formatter, every history**: after any sequence of writes (new keys, repeated keys, in any
    order) every stored document reports the caller's key and no internal key tag -/
theorem C11_nondet_reports_caller_key (ops : List (String × Nat)) :
    ∀ p ∈ (ops.foldl (fun s o => put true s o.1 o.2) ⟨[], 0⟩).docs, reported p.2 = (p.2.ktag, false) := by
  have hinv : ∀ (s : St), Inv s → Inv (ops.foldl (fun s o => put true s o.1 o.2) s) := by
    induction ops with
    | nil => intro s h; exact h
    | cons o rest ih => intro s h; exact ih _ (put_inv s o.1 o.2 h)
  intro p hp
  have := hinv ⟨[], 0⟩ (by intro p hp; cases hp) p hp
  unfold reported
  rw [this]
  simp

/-- the code before the repair: the second write of a key makes its document report the formatted key and leak the
    internal key tag (finding C11-F7; the replay is `enon(mem)|put k1 ..|put k1 ..;query ..`) -/
theorem C11_F7_old_reports_formatted_key :
    ((put false (put false ⟨[], 0⟩ "k1" 1) "k1" 2).docs.map fun p => reported p.2) = [("doc-0", true)] := by
  decide

example : ((put true (put true ⟨[], 0⟩ "k1" 1) "k1" 2).docs.map fun p => reported p.2) = [("k1", false)] := by decide

end C11.NonDet
