import AriesVerif.C11.Model
namespace C11
end C11
