import AriesVerif.C11.Lemmas
/-! # C11 — property theorems

`Refines vol istep inv abs` is "behaves like the documented key-value store on every operation"; by
`Refines.run_eq` it extends to every history. The wrapper theorems assume nothing about the wrapped
provider except `Refines` — "over any conforming provider", including one that already holds data
(the start state is any state satisfying the invariant). -/
namespace C11

/-! ## the in-memory provider -/

theorem noDup_inj {s : Store} (h : NoDup s) {e e' : Entry} (he : e ∈ s) (he' : e' ∈ s) (hk : e.key = e'.key) :
    e = e' := by
  induction s with
  | nil => simp at he
  | cons x xs ih =>
    unfold NoDup at h
    simp only [List.map_cons, List.nodup_cons, List.mem_map, not_exists, not_and] at h
    rcases List.mem_cons.mp he with h1 | h1 <;> rcases List.mem_cons.mp he' with h2 | h2
    · rw [h1, h2]
    · subst h1; exact absurd hk.symm (h.1 e' h2)
    · subst h2; exact absurd hk (h.1 e h1)
    · exact ih h.2 h1 h2

theorem length_filter_eq_iff {α : Type} (p : α → Bool) (l : List α) :
    ((l.filter p).length == l.length) = l.all p := by
  induction l with
  | nil => simp
  | cons a l ih =>
    by_cases ha : p a = true
    · simp only [List.filter_cons, ha, if_true, List.length_cons, List.all_cons, Bool.true_and]
      rw [← ih]
      by_cases h : (List.filter p l).length = l.length <;> simp [h]
    · have hle := List.length_filter_le p l
      have : ¬ (List.filter p l).length = l.length + 1 := by omega
      simp [List.filter_cons, ha, this]

theorem Mem.contains_matching {s : Store} (h : NoDup s) {e : Entry} (he : e ∈ s) (c : Crit) :
    (Mem.matching s c).contains e.key = c.sat e.tags := by
  unfold Mem.matching
  by_cases hs : c.sat e.tags = true
  · rw [hs]
    simp only [List.contains_iff_mem, List.mem_map, List.mem_filter]
    exact ⟨e, ⟨he, hs⟩, rfl⟩
  · have hs' : c.sat e.tags = false := by simpa using hs
    rw [hs']
    apply Bool.eq_false_iff.mpr
    intro hc
    simp only [List.contains_iff_mem, List.mem_map, List.mem_filter] at hc
    obtain ⟨e', ⟨he', hsat⟩, hk⟩ := hc
    have := noDup_inj h he' he hk
    subst this
    exact hs hsat

/-- `commonDBEntries` computes the conjunction: an entry is returned iff it satisfies every criterion -/
theorem Mem.common_eq {s : Store} (h : NoDup s) (q : Query) :
    Mem.common s q = s.filter fun e => q.all (·.sat e.tags) := by
  unfold Mem.common
  apply List.filter_congr
  intro e he
  rw [length_filter_eq_iff]
  congr 1
  funext c
  exact Mem.contains_matching h he c

/-- **mem refines the contract** (from any state with pairwise distinct keys, e.g. the empty one) -/
theorem mem_refines : Refines true Mem.step NoDup id := by
  have key : ∀ s op, NoDup s → Mem.step s op = step true s op := by
    intro s op h
    cases op with
    | query q =>
      cases q with
      | none => rfl
      | some q => simp only [Mem.step, step, Mem.common_eq h]
    | _ => rfl
  refine ⟨?_, ?_, ?_⟩
  · intro s op h _; rw [key s op h]; rfl
  · intro s op h _; rw [key s op h]; rfl
  · intro s op h _; rw [key s op h]; exact step_noDup true h op

/-- LevelDB (observational model) -/
theorem ldb_refines : Refines false Ldb.step (fun _ => True) id :=
  ⟨fun _ _ _ _ => rfl, fun _ _ _ _ => rfl, fun _ _ _ _ => trivial⟩

/-! ## the caching wrapper over ANY conforming main and cache provider -/
namespace Cached
variable {M C : Machine} {volM volC : Bool} {invM : M.σ → Prop} {invC : C.σ → Prop}
  {absM : M.σ → Store} {absC : C.σ → Store}

/-- invariant: both providers are in valid states, stored tags are well formed, the cache is coherent.
    It holds for ANY pre-populated main store as long as the cache starts empty (`Inv.of_empty_cache`). -/
def Inv (invM : M.σ → Prop) (invC : C.σ → Prop) (absM : M.σ → Store) (absC : C.σ → Store) (s : M.σ × C.σ) : Prop :=
  invM s.1 ∧ invC s.2 ∧ TagsOK (absM s.1) ∧ Coherent (absM s.1) (absC s.2)

theorem Inv.of_empty_cache (m : M.σ) (c : C.σ) (hm : invM m) (hc : invC c) (ht : TagsOK (absM m)) (he : absC c = []) :
    Inv invM invC absM absC (m, c) := ⟨hm, hc, ht, by rw [he]; exact coherent_nil _⟩

theorem step_ok (hM : Refines volM M.step invM absM) (hC : Refines volC C.step invC absC)
    (hvol : volM = true → volC = true) (s : M.σ × C.σ) (hi : Inv invM invC absM absC s) (op : Op) (hw : op.wf = true) :
    (Cached.step M C s op).2 = (C11.step volM (absM s.1) op).2 ∧
    absM (Cached.step M C s op).1.1 = (C11.step volM (absM s.1) op).1 ∧
    Inv invM invC absM absC (Cached.step M C s op).1 := by
  obtain ⟨him, hic, hto, hco⟩ := hi
  have mo := fun o (h : Op.wf o = true) => hM.out_eq s.1 o him h
  have ma := fun o (h : Op.wf o = true) => hM.abs_eq s.1 o him h
  have mi := fun o (h : Op.wf o = true) => hM.inv_pres s.1 o him h
  have co := fun o (h : Op.wf o = true) => hC.out_eq s.2 o hic h
  have ca := fun o (h : Op.wf o = true) => hC.abs_eq s.2 o hic h
  have ci := fun o (h : Op.wf o = true) => hC.inv_pres s.2 o hic h
  cases op with
  | put k v ts =>
    have mo := mo (.put k v ts) rfl; have ma := ma (.put k v ts) rfl; have mi := mi (.put k v ts) rfl
    have co := co (.put k v ts) rfl; have ca := ca (.put k v ts) rfl; have ci := ci (.put k v ts) rfl
    simp only [Cached.step]
    by_cases htv : tagsValid ts = true
    · simp only [htv, Bool.not_true, Bool.false_eq_true, if_false]
      cases v with
      | none =>
        simp only [C11.step] at mo ma ⊢
        rw [mo]; dsimp only
        exact ⟨rfl, ma, mi, hic, by rw [ma]; exact hto, by rw [ma]; exact hco⟩
      | some v =>
        by_cases hkb : (k == "") = true
        · simp only [C11.step, hkb, Bool.true_or, if_true] at mo ma ⊢
          rw [mo]; dsimp only
          exact ⟨rfl, ma, mi, hic, by rw [ma]; exact hto, by rw [ma]; exact hco⟩
        · have hkb : (k == "") = false := by simpa using hkb
          simp only [C11.step, hkb, htv, Bool.not_true, Bool.or_self, Bool.false_eq_true, if_false] at mo ma co ca ⊢
          rw [mo]; dsimp only
          refine ⟨rfl, ma, mi, ci, ?_, ?_⟩
          · rw [ma]; exact tagsOK_insert hto _ htv
          · rw [ma, ca]; exact coherent_insert hco _
    · have htv' : tagsValid ts = false := by simpa using htv
      simp only [htv', Bool.not_false, if_true]
      refine ⟨?_, ?_, him, hic, hto, hco⟩
      · cases v <;> simp [C11.step, htv']
      · cases v <;> simp [C11.step, htv']
  | get k =>
    have co := co (.get k) rfl; have ca := ca (.get k) rfl; have ci := ci (.get k) rfl
    have mo := mo (.get k) rfl; have ma := ma (.get k) rfl; have mi := mi (.get k) rfl
    simp only [Cached.step]
    by_cases hkb : (k == "") = true
    · simp only [C11.step, hkb, if_true] at co ca ⊢
      rw [co]; dsimp only
      exact ⟨rfl, rfl, him, ci, hto, by rw [ca]; exact hco⟩
    · have hkb : (k == "") = false := by simpa using hkb
      simp only [C11.step, hkb, Bool.false_eq_true, if_false] at co ca mo ma ⊢
      cases hb : lookup (absC s.2) k with
      | some e =>
        have hae := hco k e hb
        simp only [hb] at co ca
        simp only [hae]
        rw [co]; dsimp only
        exact ⟨rfl, rfl, him, ci, hto, by rw [ca]; exact hco⟩
      | none =>
        simp only [hb] at co ca
        rw [co]; dsimp only
        cases hal : lookup (absM s.1) k with
        | none =>
          simp only [hal] at mo ma
          rw [mo]; dsimp only
          exact ⟨rfl, ma, mi, ci, by rw [ma]; exact hto, by rw [ma, ca]; exact hco⟩
        | some e =>
          simp only [hal] at mo ma
          rw [mo]; dsimp only
          -- GetTags on the main store
          have to := hM.out_eq _ (.getTags k) mi rfl
          have ta := hM.abs_eq _ (.getTags k) mi rfl
          have ti := hM.inv_pres _ (.getTags k) mi rfl
          simp only [C11.step, hkb, Bool.false_eq_true, if_false, ma, hal] at to ta
          rw [to]; dsimp only
          -- Put into the cache
          have hte : tagsValid e.tags = true := hto e (lookup_mem hal)
          have po := hC.out_eq _ (.put k (some e.val) e.tags) ci rfl
          have pa := hC.abs_eq _ (.put k (some e.val) e.tags) ci rfl
          have pi := hC.inv_pres _ (.put k (some e.val) e.tags) ci rfl
          simp only [C11.step, hkb, hte, Bool.not_true, Bool.or_self, Bool.false_eq_true, if_false, ca] at po pa
          rw [po]; dsimp only
          refine ⟨rfl, ta, ti, pi, by rw [ta]; exact hto, ?_⟩
          rw [ta, pa]
          have hek := lookup_key hal
          have : (⟨k, e.val, e.tags⟩ : Entry) = e := by cases e; simp_all
          rw [this]
          exact coherent_fill hco hal
  | getTags k =>
    have co := co (.getTags k) rfl; have ca := ca (.getTags k) rfl; have ci := ci (.getTags k) rfl
    have mo := mo (.getTags k) rfl; have ma := ma (.getTags k) rfl; have mi := mi (.getTags k) rfl
    simp only [Cached.step]
    by_cases hkb : (k == "") = true
    · simp only [C11.step, hkb, if_true] at co ca ⊢
      rw [co]; dsimp only
      exact ⟨rfl, rfl, him, ci, hto, by rw [ca]; exact hco⟩
    · have hkb : (k == "") = false := by simpa using hkb
      simp only [C11.step, hkb, Bool.false_eq_true, if_false] at co ca mo ma ⊢
      cases hb : lookup (absC s.2) k with
      | some e =>
        have hae := hco k e hb
        simp only [hb] at co ca
        simp only [hae]
        rw [co]; dsimp only
        exact ⟨rfl, rfl, him, ci, hto, by rw [ca]; exact hco⟩
      | none =>
        simp only [hb] at co ca
        rw [co]; dsimp only
        refine ⟨mo, ?_, mi, ci, ?_, ?_⟩
        · rw [ma]
        · rw [ma]; cases lookup (absM s.1) k <;> exact hto
        · rw [ma, ca]; cases lookup (absM s.1) k <;> exact hco
  | getBulk ks =>
    have mo := mo (.getBulk ks) rfl; have ma := ma (.getBulk ks) rfl; have mi := mi (.getBulk ks) rfl
    simp only [Cached.step]
    have hst : (C11.step volM (absM s.1) (.getBulk ks)).1 = absM s.1 := by simp only [C11.step]; split <;> rfl
    exact ⟨mo, ma, mi, hic, by rw [ma, hst]; exact hto, by rw [ma, hst]; exact hco⟩
  | query q =>
    have mo := mo (.query q) rfl; have ma := ma (.query q) rfl; have mi := mi (.query q) rfl
    simp only [Cached.step]
    have hst : (C11.step volM (absM s.1) (.query q)).1 = absM s.1 := by cases q <;> rfl
    exact ⟨mo, ma, mi, hic, by rw [ma, hst]; exact hto, by rw [ma, hst]; exact hco⟩
  | delete k =>
    have mo := mo (.delete k) rfl; have ma := ma (.delete k) rfl; have mi := mi (.delete k) rfl
    have co := co (.delete k) rfl; have ca := ca (.delete k) rfl; have ci := ci (.delete k) rfl
    simp only [Cached.step]
    by_cases hkb : (k == "") = true
    · simp only [C11.step, hkb, if_true] at mo ma ⊢
      rw [mo]; dsimp only
      exact ⟨rfl, ma, mi, hic, by rw [ma]; exact hto, by rw [ma]; exact hco⟩
    · have hkb : (k == "") = false := by simpa using hkb
      simp only [C11.step, hkb, Bool.false_eq_true, if_false] at mo ma co ca ⊢
      rw [mo]; dsimp only
      exact ⟨rfl, ma, mi, ci, by rw [ma]; exact tagsOK_erase hto _, by rw [ma, ca]; exact coherent_erase hco _⟩
  | batch ops =>
    have mo := mo (.batch ops) hw; have ma := ma (.batch ops) hw; have mi := mi (.batch ops) hw
    have co := co (.batch ops) hw; have ca := ca (.batch ops) hw; have ci := ci (.batch ops) hw
    simp only [Cached.step]
    by_cases hv : batchValid ops = true
    · simp only [C11.step, hv, if_true] at mo ma co ca ⊢
      rw [mo]; dsimp only
      exact ⟨rfl, ma, mi, ci, by rw [ma]; exact tagsOK_foldl hto _ hw, by rw [ma, ca]; exact coherent_foldl hco _⟩
    · simp only [C11.step, hv, Bool.false_eq_true, if_false] at mo ma ⊢
      rw [mo]; dsimp only
      exact ⟨rfl, ma, mi, hic, by rw [ma]; exact hto, by rw [ma]; exact hco⟩
  | flush =>
    have ma := ma .flush rfl; have mi := mi .flush rfl
    have ca := ca .flush rfl; have ci := ci .flush rfl
    simp only [Cached.step]
    simp only [C11.step] at ma ca ⊢
    exact ⟨trivial, ma, mi, ci, by rw [ma]; exact hto, by rw [ma, ca]; exact hco⟩
  | reopen =>
    have ma := ma .reopen rfl; have mi := mi .reopen rfl
    have ca := ca .reopen rfl; have ci := ci .reopen rfl
    simp only [Cached.step]
    simp only [C11.step] at ma ca ⊢
    refine ⟨trivial, ma, mi, ci, ?_, ?_⟩
    · rw [ma]; split
      · intro e he; simp at he
      · exact hto
    · rw [ma, ca]
      cases hvm : volM with
      | true => rw [hvol hvm]; exact coherent_nil _
      | false =>
        cases volC with
        | true => exact coherent_nil _
        | false => exact hco

/-- **the caching wrapper refines the contract over any conforming providers**, provided the cache is not more
    durable than the main provider (otherwise it would outlive the data it mirrors) -/
theorem cached_refines (hM : Refines volM M.step invM absM) (hC : Refines volC C.step invC absC)
    (hvol : volM = true → volC = true) :
    Refines volM (Cached.step M C) (Inv invM invC absM absC) (fun s => absM s.1) :=
  ⟨fun s op hi hw => (step_ok hM hC hvol s hi op hw).1,
   fun s op hi hw => (step_ok hM hC hvol s hi op hw).2.1,
   fun s op hi hw => (step_ok hM hC hvol s hi op hw).2.2⟩

end Cached

/-! ## the batching wrapper over ANY conforming provider, for any size limit (including ≤ 0) -/
namespace Batched
variable {U : Machine} {vol : Bool} {invU : U.σ → Prop} {absU : U.σ → Store}

def opOK (o : BatchOp) : Bool := o.key != "" && tagsValid o.tags

/-- invariant: the wrapped provider is in a valid state and every queued operation passed the input checks -/
def Inv (invU : U.σ → Prop) (s : St U) : Prop := invU s.under ∧ s.pending.all opOK = true

/-- what the store *means*: the wrapped provider's content with the queued operations applied in order -/
def abs (absU : U.σ → Store) (s : St U) : Store := s.pending.foldl applyBatchOp (absU s.under)

theorem all_opOK_split {ops : List BatchOp} (h : ops.all opOK = true) :
    ops.all (fun o => o.key != "") = true ∧ ops.all (fun o => tagsValid o.tags) = true := by
  simp only [List.all_eq_true, opOK, Bool.and_eq_true] at h ⊢
  exact ⟨fun o ho => (h o ho).1, fun o ho => (h o ho).2⟩

theorem flush_ok (hU : Refines vol U.step invU absU) (s : St U) (hi : Inv invU s) :
    (flush U s).2 = true ∧ abs absU (flush U s).1 = abs absU s ∧ Inv invU (flush U s).1 ∧
    (s.pending ≠ [] → (flush U s).1.pending = []) ∧ (s.pending = [] → (flush U s).1 = s) := by
  obtain ⟨hiu, hp⟩ := hi
  unfold flush
  cases hpe : s.pending with
  | nil => simp [hpe, Inv, hiu]
  | cons o os =>
    have hsp := all_opOK_split hp
    rw [hpe] at hsp
    have hwf : (Op.batch (o :: os)).wf = true := hsp.2
    have hbv : batchValid (o :: os) = true := by
      simp only [batchValid, List.isEmpty_cons, Bool.not_false, Bool.true_and]; exact hsp.1
    have uo := hU.out_eq s.under (.batch (o :: os)) hiu hwf
    have ua := hU.abs_eq s.under (.batch (o :: os)) hiu hwf
    have ui := hU.inv_pres s.under (.batch (o :: os)) hiu hwf
    simp only [C11.step, hbv, if_true] at uo ua
    simp only [List.isEmpty_cons, Bool.false_eq_true, if_false]
    rw [uo]; dsimp only
    refine ⟨rfl, ?_, ⟨ui, by simp⟩, fun _ => rfl, fun h => by simp at h⟩
    simp only [abs, List.foldl_nil, ua, hpe]

theorem enqueue_ok (hU : Refines vol U.step invU absU) (limit : Int) (s : St U) (hi : Inv invU s) (o : BatchOp)
    (ho : opOK o = true) :
    (enqueue U limit s o).2 = true ∧ abs absU (enqueue U limit s o).1 = applyBatchOp (abs absU s) o ∧
    Inv invU (enqueue U limit s o).1 := by
  have hi' : Inv invU (⟨s.under, s.pending ++ [o]⟩ : St U) := ⟨hi.1, by simp [List.all_append, hi.2, ho]⟩
  have habs : abs absU (⟨s.under, s.pending ++ [o]⟩ : St U) = applyBatchOp (abs absU s) o := by
    simp [abs, List.foldl_append]
  unfold enqueue
  dsimp only
  split
  · obtain ⟨h1, h2, h3, _⟩ := flush_ok hU _ hi'
    exact ⟨h1, by rw [h2, habs], h3⟩
  · exact ⟨rfl, habs, hi'⟩

theorem enqueueAll_ok (hU : Refines vol U.step invU absU) (limit : Int) (s : St U) (hi : Inv invU s)
    (ops : List BatchOp) (ho : ops.all opOK = true) :
    (enqueueAll U limit s ops).2 = true ∧ abs absU (enqueueAll U limit s ops).1 = ops.foldl applyBatchOp (abs absU s) ∧
    Inv invU (enqueueAll U limit s ops).1 := by
  induction ops generalizing s with
  | nil => exact ⟨rfl, rfl, hi⟩
  | cons o os ih =>
    simp only [List.all_cons, Bool.and_eq_true] at ho
    obtain ⟨e1, e2, e3⟩ := enqueue_ok hU limit s hi o ho.1
    simp only [enqueueAll, e1, if_true, List.foldl_cons]
    obtain ⟨a1, a2, a3⟩ := ih _ e3 ho.2
    exact ⟨a1, by rw [a2, e2], a3⟩

theorem step_ok (hU : Refines vol U.step invU absU) (limit : Int) (s : St U) (hi : Inv invU s) (op : Op)
    (hw : op.wf = true) :
    (Batched.step U limit s op).2 = (C11.step vol (abs absU s) op).2 ∧
    abs absU (Batched.step U limit s op).1 = (C11.step vol (abs absU s) op).1 ∧
    Inv invU (Batched.step U limit s op).1 := by
  -- reads: flush, then ask the wrapped provider
  have read : ∀ o : Op, o.wf = true → (C11.step vol (abs absU s) o).1 = abs absU s →
      (let r := flush U s; if r.2 then let u := U.step r.1.under o; ((⟨u.1, r.1.pending⟩ : St U), u.2) else (r.1, Out.invalid)).2
          = (C11.step vol (abs absU s) o).2 ∧
      abs absU (let r := flush U s; if r.2 then let u := U.step r.1.under o; ((⟨u.1, r.1.pending⟩ : St U), u.2) else (r.1, Out.invalid)).1
          = (C11.step vol (abs absU s) o).1 ∧
      Inv invU (let r := flush U s; if r.2 then let u := U.step r.1.under o; ((⟨u.1, r.1.pending⟩ : St U), u.2) else (r.1, Out.invalid)).1 := by
    intro o how hst
    obtain ⟨f1, f2, f3, f4, f5⟩ := flush_ok hU s hi
    have hpend : (flush U s).1.pending = [] := by
      by_cases hp : s.pending = []
      · rw [f5 hp]; exact hp
      · exact f4 hp
    have habs : absU (flush U s).1.under = abs absU s := by
      rw [← f2]; simp [abs, hpend]
    dsimp only
    simp only [f1, if_true]
    have uo := hU.out_eq _ o f3.1 how
    have ua := hU.abs_eq _ o f3.1 how
    have ui := hU.inv_pres _ o f3.1 how
    rw [habs] at uo ua
    refine ⟨uo, ?_, ui, by simp [hpend]⟩
    simp only [abs, hpend, List.foldl_nil]
    exact ua
  cases op with
  | put k v ts =>
    cases v with
    | none => exact ⟨rfl, rfl, hi⟩
    | some v =>
      simp only [Batched.step, C11.step]
      by_cases hc : (k == "" || !tagsValid ts) = true
      · simp only [hc, if_true]; exact ⟨trivial, trivial, hi⟩
      · have hc' : (k == "" || !tagsValid ts) = false := by simpa using hc
        simp only [hc', Bool.false_eq_true, if_false]
        have ho : opOK ⟨k, some v, ts⟩ = true := by
          simp only [Bool.or_eq_false_iff, Bool.not_eq_false', beq_eq_false_iff_ne] at hc'
          simp [opOK, hc'.1, hc'.2]
        obtain ⟨e1, e2, e3⟩ := enqueue_ok hU limit s hi ⟨k, some v, ts⟩ ho
        exact ⟨by simp [e1, okOr], by rw [e2]; rfl, e3⟩
  | delete k =>
    simp only [Batched.step, C11.step]
    by_cases hc : (k == "") = true
    · simp only [hc, if_true]; exact ⟨trivial, trivial, hi⟩
    · have hc' : (k == "") = false := by simpa using hc
      simp only [hc', Bool.false_eq_true, if_false]
      have ho : opOK ⟨k, none, []⟩ = true := by
        simp only [beq_eq_false_iff_ne] at hc'
        simp [opOK, hc', tagsValid]
      obtain ⟨e1, e2, e3⟩ := enqueue_ok hU limit s hi ⟨k, none, []⟩ ho
      exact ⟨by simp [e1, okOr], by rw [e2]; rfl, e3⟩
  | batch ops =>
    simp only [Batched.step, C11.step]
    by_cases hv : batchValid ops = true
    · simp only [hv, if_true]
      have ho : ops.all opOK = true := by
        simp only [batchValid, Bool.and_eq_true] at hv
        simp only [Op.wf] at hw
        simp only [List.all_eq_true, opOK, Bool.and_eq_true] at hv hw ⊢
        exact fun o hm => ⟨hv.2 o hm, hw o hm⟩
      obtain ⟨a1, a2, a3⟩ := enqueueAll_ok hU limit s hi ops ho
      exact ⟨by simp [a1, okOr], a2, a3⟩
    · simp only [hv, Bool.false_eq_true, if_false]; exact ⟨trivial, trivial, hi⟩
  | flush =>
    obtain ⟨f1, f2, f3, _⟩ := flush_ok hU s hi
    simp only [Batched.step, C11.step]
    exact ⟨by simp [f1, okOr], f2, f3⟩
  | reopen =>
    obtain ⟨f1, f2, f3, f4, f5⟩ := flush_ok hU s hi
    have hpend : (flush U s).1.pending = [] := by
      by_cases hp : s.pending = []
      · rw [f5 hp]; exact hp
      · exact f4 hp
    have habs : absU (flush U s).1.under = abs absU s := by
      rw [← f2]; simp [abs, hpend]
    simp only [Batched.step, C11.step, f1, if_true]
    have ua := hU.abs_eq _ .reopen f3.1 rfl
    have ui := hU.inv_pres _ .reopen f3.1 rfl
    simp only [C11.step, habs] at ua
    refine ⟨trivial, ?_, ui, by simp [hpend]⟩
    simp only [abs, hpend, List.foldl_nil]
    exact ua
  | get k => exact read (.get k) rfl (by simp only [C11.step]; split; rfl; split <;> rfl)
  | getTags k => exact read (.getTags k) rfl (by simp only [C11.step]; split; rfl; split <;> rfl)
  | getBulk ks => exact read (.getBulk ks) rfl (by simp only [C11.step]; split <;> rfl)
  | query q => exact read (.query q) rfl (by cases q <;> rfl)

/-- **the batching wrapper refines the contract over any conforming provider, for every size limit** -/
theorem batched_refines (hU : Refines vol U.step invU absU) (limit : Int) :
    Refines vol (Batched.step U limit) (Inv invU) (abs absU) :=
  ⟨fun s op hi hw => (step_ok hU limit s hi op hw).1,
   fun s op hi hw => (step_ok hU limit s hi op hw).2.1,
   fun s op hi hw => (step_ok hU limit s hi op hw).2.2⟩

end Batched

/-! ## the formatting wrapper (observational model) -/
namespace Formatted
variable {U : Machine} {vol : Bool} {invU : U.σ → Prop} {absU : U.σ → Store}

theorem bulkByGets_ok (hU : Refines vol U.step invU absU) (s : U.σ) (hi : invU s) (ks : List Key)
    (hk : ks.any (· == "") = false) :
    (bulkByGets U s ks).2 = ks.map (fun k => (lookup (absU s) k).map (·.val)) ∧
    absU (bulkByGets U s ks).1 = absU s ∧ invU (bulkByGets U s ks).1 := by
  induction ks generalizing s with
  | nil => exact ⟨rfl, rfl, hi⟩
  | cons k ks ih =>
    simp only [List.any_cons, Bool.or_eq_false_iff] at hk
    have go := hU.out_eq s (.get k) hi rfl
    have ga := hU.abs_eq s (.get k) hi rfl
    have gi := hU.inv_pres s (.get k) hi rfl
    simp only [C11.step, hk.1, Bool.false_eq_true, if_false] at go ga
    have ga' : absU (U.step s (.get k)).1 = absU s := by rw [ga]; cases lookup (absU s) k <;> rfl
    obtain ⟨i1, i2, i3⟩ := ih _ gi hk.2
    simp only [bulkByGets, List.map_cons]
    refine ⟨?_, by rw [i2, ga'], i3⟩
    rw [i1, ga', go]
    cases lookup (absU s) k <;> rfl

/-- over a conforming provider the (observational) formatting wrapper is conforming, in both key modes -/
theorem formatted_refines (hU : Refines vol U.step invU absU) (det : Bool) :
    Refines vol (Formatted.step U det) invU absU := by
  have key : ∀ s op, invU s → op.wf = true →
      (Formatted.step U det s op).2 = (C11.step vol (absU s) op).2 ∧
      absU (Formatted.step U det s op).1 = (C11.step vol (absU s) op).1 ∧ invU (Formatted.step U det s op).1 := by
    intro s op hi hw
    cases op with
    | getBulk ks =>
      simp only [Formatted.step]
      cases det with
      | true => simp only [if_true]; exact ⟨hU.out_eq s _ hi hw, hU.abs_eq s _ hi hw, hU.inv_pres s _ hi hw⟩
      | false =>
        simp only [Bool.false_eq_true, if_false, C11.step]
        by_cases hc : (ks.isEmpty || ks.any (· == "")) = true
        · simp only [hc, if_true]; exact ⟨trivial, trivial, hi⟩
        · have hc' : (ks.isEmpty || ks.any (· == "")) = false := Bool.eq_false_iff.mpr hc
          simp only [hc', Bool.false_eq_true, if_false]
          simp only [Bool.or_eq_false_iff] at hc'
          obtain ⟨b1, b2, b3⟩ := bulkByGets_ok hU s hi ks hc'.2
          exact ⟨by rw [b1], b2, b3⟩
    | _ => exact ⟨hU.out_eq s _ hi hw, hU.abs_eq s _ hi hw, hU.inv_pres s _ hi hw⟩
  exact ⟨fun s op hi hw => (key s op hi hw).1, fun s op hi hw => (key s op hi hw).2.1, fun s op hi hw => (key s op hi hw).2.2⟩

end Formatted

/-! ## every stack of wrappers, of every depth -/

/-- a cache must not be more durable than the provider it caches (a persistent cache over a volatile main
    provider would outlive the data) -/
def Stack.WF : Stack → Prop
  | .mem => True
  | .ldb => True
  | .cached m c => m.WF ∧ c.WF ∧ (m.volatile = true → c.volatile = true)
  | .batched _ u => u.WF
  | .formatted _ u => u.WF

def Stack.abs : (st : Stack) → st.machine.σ → Store
  | .mem => id
  | .ldb => id
  | .cached m _ => fun s => m.abs s.1
  | .batched _ u => Batched.abs u.abs
  | .formatted _ u => u.abs

def Stack.inv : (st : Stack) → st.machine.σ → Prop
  | .mem => NoDup
  | .ldb => fun _ => True
  | .cached m c => Cached.Inv m.inv c.inv m.abs c.abs
  | .batched _ u => Batched.Inv u.inv
  | .formatted _ u => u.inv

/-- **every well-formed stack of wrappers over mem / LevelDB refines the contract** — induction on the stack, so
    every depth (not "up to 3") -/
theorem stack_refines : ∀ st : Stack, st.WF → Refines st.volatile st.machine.step st.inv st.abs
  | .mem, _ => mem_refines
  | .ldb, _ => ldb_refines
  | .cached m c, h => Cached.cached_refines (stack_refines m h.1) (stack_refines c h.2.1) h.2.2
  | .batched n u, h => Batched.batched_refines (stack_refines u h) n
  | .formatted d u, h => Formatted.formatted_refines (stack_refines u h) d

/-- a freshly opened stack is empty, and its invariant holds -/
theorem stack_init : ∀ st : Stack, st.inv st.machine.init ∧ st.abs st.machine.init = [] ∧ TagsOK (st.abs st.machine.init)
  | .mem => ⟨by simp [Stack.inv, Stack.machine, Mem.machine, NoDup], rfl, by intro e he; cases he⟩
  | .ldb => ⟨trivial, rfl, by intro e he; cases he⟩
  | .cached m c => by
      obtain ⟨m1, m2, m3⟩ := stack_init m
      obtain ⟨c1, c2, _⟩ := stack_init c
      exact ⟨Cached.Inv.of_empty_cache _ _ m1 c1 m3 c2, m2, m3⟩
  | .batched n u => by
      obtain ⟨u1, u2, u3⟩ := stack_init u
      refine ⟨⟨u1, rfl⟩, ?_, ?_⟩
      · simpa [Stack.abs, Batched.abs, Stack.machine, Batched.machine] using u2
      · intro e he
        have : Stack.abs (.batched n u) (Stack.machine (.batched n u)).init = [] := by
          simpa [Stack.abs, Batched.abs, Stack.machine, Batched.machine] using u2
        rw [this] at he; cases he
  | .formatted d u => stack_init u

/-- **C11, for every history**: any sequence of in-contract operations on any well-formed stack returns exactly
    what the documented contract prescribes, starting from the empty store -/
theorem C11_stack_history (st : Stack) (hwf : st.WF) (ops : List Op) (hw : ∀ op ∈ ops, op.wf = true) :
    (run st.machine.step st.machine.init ops).2 = (run (step st.volatile) [] ops).2 := by
  have h := (stack_refines st hwf).run_eq st.machine.init (stack_init st).1 ops hw
  rw [(stack_init st).2.1] at h
  exact h

/-- **"including when the wrapped provider already holds data"**: a caching wrapper with an empty cache over ANY
    valid state `m` of ANY conforming main provider answers every history like the Spec started from `m`'s content -/
theorem C11_cached_prepopulated {M C : Machine} {volM volC : Bool} {invM : M.σ → Prop} {invC : C.σ → Prop}
    {absM : M.σ → Store} {absC : C.σ → Store}
    (hM : Refines volM M.step invM absM) (hC : Refines volC C.step invC absC) (hvol : volM = true → volC = true)
    (m : M.σ) (c : C.σ) (hm : invM m) (hc : invC c) (ht : TagsOK (absM m)) (he : absC c = [])
    (ops : List Op) (hw : ∀ op ∈ ops, op.wf = true) :
    (run (Cached.step M C) (m, c) ops).2 = (run (step volM) (absM m) ops).2 :=
  (Cached.cached_refines hM hC hvol).run_eq (m, c) (Cached.Inv.of_empty_cache m c hm hc ht he) ops hw

/-- likewise for the batching wrapper: any valid state of any conforming provider, nothing queued yet -/
theorem C11_batched_prepopulated {U : Machine} {vol : Bool} {invU : U.σ → Prop} {absU : U.σ → Store}
    (hU : Refines vol U.step invU absU) (limit : Int) (u : U.σ) (hu : invU u)
    (ops : List Op) (hw : ∀ op ∈ ops, op.wf = true) :
    (run (Batched.step U limit) ⟨u, []⟩ ops).2 = (run (step vol) (absU u) ops).2 :=
  (Batched.batched_refines hU limit).run_eq ⟨u, []⟩ ⟨hu, rfl⟩ ops hw

/-! ## non-vacuity and the repaired defects as closed examples -/

/-- the history of C11-F1 (read fills the cache, then a tag read) now agrees with the Spec -/
example : (run (Cached.step Mem.machine Mem.machine) ([⟨"k", [1], [⟨"a", "1"⟩]⟩], []) [.get "k", .getTags "k"]).2
    = [.val [1], .tags [⟨"a", "1"⟩]] := by decide

/-- C11-F2: two criteria on one tag name -/
example : (run Mem.step [⟨"k", [1], [⟨"a", "2"⟩]⟩] [.query (some [.nameValue "a" "1", .nameValue "a" "2"])]).2
    = [.rows []] := by decide

/-- a depth-3 stack satisfies the hypotheses -/
example : (Stack.cached (.batched 2 (.cached .mem .mem)) .mem).WF := by simp [Stack.WF, Stack.volatile]

/-- a put queued behind a delete in a batch of limit 5 is visible to the next read -/
example : (run (Stack.batched 5 .mem).machine.step (Stack.batched 5 .mem).machine.init
    [.put "k" (some [1]) [], .delete "k", .put "k" (some [2]) [], .get "k"]).2 = [.ok, .ok, .ok, .val [2]] := by decide

end C11
