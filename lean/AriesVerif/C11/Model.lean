import AriesVerif.C11.Spec
/-! # C11 — Models: `mem`, `leveldb` (observational), `cachedstore`, `batchedstore`, `formattedstore` (observational)

Wrapper models are written against an **abstract underlying machine** `(σ, step)`; nothing about the
wrapped provider is assumed except what the `Refines` hypothesis of the theorems says. -/
namespace C11

/-- a storage implementation as a state machine over the contract's operations -/
structure Machine where
  σ : Type
  init : σ
  step : σ → Op → σ × Out

/-! ## `mem` (component/storageutil/mem/mem.go) -/
namespace Mem

/-- `getMatchingKeysAndDBEntries`: keys of the entries that have a tag matching one criterion -/
def matching (s : Store) (c : Crit) : List Key := (s.filter fun e => c.sat e.tags).map (·.key)

/-- `commonDBEntries`: a key is returned iff it occurs in the result of every criterion
    (counted per criterion — see the `fix:` commit for C11-F2; before it results were keyed by tag name) -/
def common (s : Store) (q : Query) : List Entry :=
  s.filter fun e => (q.filter fun c => (matching s c).contains e.key).length == q.length

def step (s : Store) : Op → Store × Out
  | .query (some q) => (s, .rows (common s q))
  | op => C11.step true s op

def machine : Machine := ⟨Store, [], step⟩
end Mem

/-! ## LevelDB (component/storage/leveldb/leveldb.go) — observational model
    Persistent (closing a store keeps its data); one criterion per query expression. After the `fix:` commits for
    C11-F3a (stale tag index) and C11-F3b (empty value read back as nil) it is the Spec with `vol = false`. -/
namespace Ldb
def step (s : Store) (op : Op) : Store × Out := C11.step false s op
def machine : Machine := ⟨Store, [], step⟩
end Ldb

/-! ## `cachedstore` (component/storageutil/cachedstore/cachedstore.go) -/
namespace Cached
variable (M C : Machine)

def step (s : M.σ × C.σ) : Op → (M.σ × C.σ) × Out
  | .put k v ts =>
      if !tagsValid ts then (s, .invalid) else
      let rm := M.step s.1 (.put k v ts)
      match rm.2 with
      | .ok => ((rm.1, (C.step s.2 (.put k v ts)).1), .ok)
      | o => ((rm.1, s.2), o)
  | .get k =>
      let rc := C.step s.2 (.get k)
      match rc.2 with
      | .val v => ((s.1, rc.1), .val v)                    -- cache hit
      | .notFound =>                                        -- cache miss
          let rm := M.step s.1 (.get k)
          match rm.2 with
          | .val v =>
              -- the cache is filled with the main store's value AND tags (C11-F1 repaired)
              let rt := M.step rm.1 (.getTags k)
              match rt.2 with
              | .tags ts =>
                  let rp := C.step rc.1 (.put k (some v) ts)
                  match rp.2 with
                  | .ok => ((rt.1, rp.1), .val v)
                  | _ => ((rt.1, rp.1), .invalid)      -- "failed to put the newly retrieved data into the cache store"
              | _ => ((rt.1, rc.1), .invalid)
          | o => ((rm.1, rc.1), o)
      | _ => ((s.1, rc.1), .invalid)
  | .getTags k =>
      let rc := C.step s.2 (.getTags k)
      match rc.2 with
      | .tags ts => ((s.1, rc.1), .tags ts)
      | .notFound => let rm := M.step s.1 (.getTags k); ((rm.1, rc.1), rm.2)
      | _ => ((s.1, rc.1), .invalid)
  | .getBulk ks => let rm := M.step s.1 (.getBulk ks); ((rm.1, s.2), rm.2)
  | .query q => let rm := M.step s.1 (.query q); ((rm.1, s.2), rm.2)
  | .delete k =>
      let rm := M.step s.1 (.delete k)
      match rm.2 with
      | .ok => ((rm.1, (C.step s.2 (.delete k)).1), .ok)
      | o => ((rm.1, s.2), o)
  | .batch ops =>
      let rm := M.step s.1 (.batch ops)
      match rm.2 with
      | .ok => ((rm.1, (C.step s.2 (.batch ops)).1), .ok)
      | o => ((rm.1, s.2), o)
  | .flush => (((M.step s.1 .flush).1, (C.step s.2 .flush).1), .ok)
  | .reopen => (((M.step s.1 .reopen).1, (C.step s.2 .reopen).1), .ok)

def machine : Machine := ⟨M.σ × C.σ, (M.init, C.init), step M C⟩
end Cached

/-! ## `batchedstore` (component/storageutil/batchedstore/batchedstore.go) -/
namespace Batched
variable (U : Machine)

structure St where
  under : U.σ
  pending : List BatchOp

/-- `flush`: hand the pending list to the underlying `Batch`; nothing to do when it is empty.
    A failing underlying `Batch` leaves the pending list in place (and the error is reported). -/
def flush (s : St U) : St U × Bool :=
  if s.pending.isEmpty then (s, true) else
  let r := U.step s.under (.batch s.pending)
  match r.2 with
  | .ok => (⟨r.1, []⟩, true)
  | _ => (⟨r.1, s.pending⟩, false)

/-- append one operation, flush when the limit is reached (`len >= limit`, so any limit ≤ 1 flushes at once) -/
def enqueue (limit : Int) (s : St U) (o : BatchOp) : St U × Bool :=
  let s' : St U := ⟨s.under, s.pending ++ [o]⟩
  if (s'.pending.length : Int) ≥ limit then flush U s' else (s', true)

def enqueueAll (limit : Int) : St U → List BatchOp → St U × Bool
  | s, [] => (s, true)
  | s, o :: os => let r := enqueue U limit s o; if r.2 then enqueueAll limit r.1 os else (r.1, false)

def okOr (b : Bool) : Out := if b then .ok else .invalid

def step (limit : Int) (s : St U) : Op → St U × Out
  | .put k v ts =>
      match v with
      | none => (s, .invalid)
      | some v => if k == "" || !tagsValid ts then (s, .invalid) else
          let r := enqueue U limit s ⟨k, some v, ts⟩; (r.1, okOr r.2)
  | .delete k => if k == "" then (s, .invalid) else
      let r := enqueue U limit s ⟨k, none, []⟩; (r.1, okOr r.2)
  | .batch ops => if batchValid ops then let r := enqueueAll U limit s ops; (r.1, okOr r.2) else (s, .invalid)
  | .flush => let r := flush U s; (r.1, okOr r.2)
  | .reopen =>
      let r := flush U s
      if r.2 then (⟨(U.step r.1.under .reopen).1, r.1.pending⟩, .ok) else (r.1, .invalid)
  | op =>    -- Get / GetTags / GetBulk / Query: flush, then ask the underlying store
      let r := flush U s
      if r.2 then let u := U.step r.1.under op; (⟨u.1, r.1.pending⟩, u.2) else (r.1, .invalid)

def machine (limit : Int) : Machine := ⟨St U, ⟨U.init, []⟩, step U limit⟩
end Batched

/-! ## `formattedstore` with the base64 example formatter — observational model: the wrapper is transparent
    (its `&&`-less expression language is handled where expressions are parsed), except that with
    non-deterministic keys `GetBulk` is a sequence of single look-ups through the `Key` tag. -/
namespace Formatted
variable (U : Machine)

def bulkByGets : U.σ → List Key → U.σ × List (Option Val)
  | s, [] => (s, [])
  | s, k :: ks =>
      let r := U.step s (.get k)
      let r' := bulkByGets r.1 ks
      (r'.1, (match r.2 with | .val v => some v | _ => none) :: r'.2)

def step (det : Bool) (s : U.σ) : Op → U.σ × Out
  | .getBulk ks =>
      if det then U.step s (.getBulk ks)
      else if ks.isEmpty || ks.any (· == "") then (s, .invalid)
      else let r := bulkByGets U s ks; (r.1, .vals r.2)
  | op => U.step s op

def machine (det : Bool) : Machine := ⟨U.σ, U.init, step U det⟩
end Formatted

/-! ## stacks -/
inductive Stack
  | mem
  | ldb
  | cached (main cache : Stack)
  | batched (limit : Int) (u : Stack)
  | formatted (det : Bool) (u : Stack)
deriving Repr

def Stack.machine : Stack → Machine
  | .mem => Mem.machine
  | .ldb => Ldb.machine
  | .cached m c => Cached.machine m.machine c.machine
  | .batched n u => Batched.machine u.machine n
  | .formatted d u => Formatted.machine u.machine d

/-- is closing a store of this stack destructive? (decided by the provider the data finally lives in) -/
def Stack.volatile : Stack → Bool
  | .mem => true
  | .ldb => false
  | .cached m _ => m.volatile
  | .batched _ u => u.volatile
  | .formatted _ u => u.volatile

/-- does the stack's `Query` understand `&&`? (`mem` does; `formattedstore` and LevelDB take one criterion) -/
def Stack.conj : Stack → Bool
  | .mem => true
  | .ldb => false
  | .cached m _ => m.conj
  | .batched _ u => u.conj
  | .formatted _ _ => false

end C11
