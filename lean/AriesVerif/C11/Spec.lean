/-! # C11 — Spec: the documented key-value contract of `spi/storage` as a finite map.

The state is an association list with at most one entry per key (`insert` erases first).
Expression parsing lives in the driver glue (it is provider specific: `&&` is optional in the SPI);
the Spec evaluates a parsed conjunction of criteria. -/
namespace C11

abbrev Key := String
abbrev Val := List UInt8

structure Tag where
  name : String
  value : String
deriving DecidableEq, Repr

structure Entry where
  key : Key
  val : Val
  tags : List Tag
deriving DecidableEq, Repr

abbrev Store := List Entry

inductive Crit
  | name (n : String)
  | nameValue (n v : String)
deriving DecidableEq, Repr

/-- a query is a conjunction of criteria (`a`, `a:1`, `a&&b:2` …) -/
abbrev Query := List Crit

structure BatchOp where
  key : Key
  val : Option Val          -- none = delete
  tags : List Tag
deriving DecidableEq, Repr

inductive Op
  | put (k : Key) (v : Option Val) (ts : List Tag)     -- `none` models a nil value
  | get (k : Key)
  | getTags (k : Key)
  | getBulk (ks : List Key)
  | query (q : Option Query)      -- `none` = malformed / empty expression
  | delete (k : Key)
  | batch (ops : List BatchOp)
  | flush
  | reopen                         -- Store.Close followed by Provider.OpenStore
deriving Repr

inductive Out
  | ok
  | val (v : Val)
  | tags (ts : List Tag)
  | vals (vs : List (Option Val))
  | rows (es : List Entry)          -- canonicalised (sorted) before comparison with the implementation
  | notFound
  | invalid
deriving DecidableEq, Repr

def hasColon (s : String) : Bool := s.toList.contains ':'
def tagsValid (ts : List Tag) : Bool := ts.all fun t => !hasColon t.name && !hasColon t.value

def lookup (s : Store) (k : Key) : Option Entry := s.find? (·.key == k)
def erase (s : Store) (k : Key) : Store := s.filter (·.key != k)
def insert (s : Store) (e : Entry) : Store := e :: erase s e.key

def Crit.sat (c : Crit) (ts : List Tag) : Bool :=
  match c with
  | .name n => ts.any (·.name == n)
  | .nameValue n v => ts.any fun t => t.name == n && t.value == v

def applyBatchOp (s : Store) (o : BatchOp) : Store :=
  match o.val with
  | none => erase s o.key
  | some v => insert s ⟨o.key, v, o.tags⟩

def batchValid (ops : List BatchOp) : Bool := !ops.isEmpty && ops.all (·.key != "")

/-- one operation of the contract. `vol` = the provider is volatile (closing a store deletes its data). -/
def step (vol : Bool) (s : Store) : Op → Store × Out
  | .put k v ts =>
      match v with
      | none => (s, .invalid)
      | some v => if k == "" || !tagsValid ts then (s, .invalid) else (insert s ⟨k, v, ts⟩, .ok)
  | .get k => if k == "" then (s, .invalid) else
      match lookup s k with | some e => (s, .val e.val) | none => (s, .notFound)
  | .getTags k => if k == "" then (s, .invalid) else
      match lookup s k with | some e => (s, .tags e.tags) | none => (s, .notFound)
  | .getBulk ks => if ks.isEmpty || ks.any (· == "") then (s, .invalid) else
      (s, .vals (ks.map fun k => (lookup s k).map (·.val)))
  | .query q =>
      match q with
      | none => (s, .invalid)
      | some q => (s, .rows (s.filter fun e => q.all (·.sat e.tags)))
  | .delete k => if k == "" then (s, .invalid) else (erase s k, .ok)
  | .batch ops => if batchValid ops then (ops.foldl applyBatchOp s, .ok) else (s, .invalid)
  | .flush => (s, .ok)
  | .reopen => (if vol then [] else s, .ok)

def run {σ : Type} (stp : σ → Op → σ × Out) : σ → List Op → σ × List Out
  | s, [] => (s, [])
  | s, op :: ops => let r := stp s op; let r' := run stp r.1 ops; (r'.1, r.2 :: r'.2)

/-- inputs the contract defines: `Batch` follows the rules of `Put` ("The Puts and Deletes here follow the same rules
    as described in the Put and Delete method documentation"), so a batch carrying a tag with a `:` is outside it
    (the in-memory provider does not reject it, other providers do). Everything else is inside. -/
def Op.wf : Op → Bool
  | .batch ops => ops.all fun o => tagsValid o.tags
  | _ => true

/-- "conforming provider": an implementation `istep` with invariant `inv` and abstraction `abs` whose every
    step yields the Spec's output and commutes with `abs`. -/
structure Refines (vol : Bool) {σ : Type} (istep : σ → Op → σ × Out) (inv : σ → Prop) (abs : σ → Store) : Prop where
  out_eq : ∀ s op, inv s → op.wf = true → (istep s op).2 = (step vol (abs s) op).2
  abs_eq : ∀ s op, inv s → op.wf = true → abs (istep s op).1 = (step vol (abs s) op).1
  inv_pres : ∀ s op, inv s → op.wf = true → inv (istep s op).1

/-- a refinement carries over to every history -/
theorem Refines.run_eq {vol : Bool} {σ : Type} {istep : σ → Op → σ × Out} {inv : σ → Prop} {abs : σ → Store}
    (h : Refines vol istep inv abs) (s : σ) (hi : inv s) (ops : List Op) (hw : ∀ op ∈ ops, op.wf = true) :
    (run istep s ops).2 = (run (step vol) (abs s) ops).2 := by
  induction ops generalizing s with
  | nil => rfl
  | cons op ops ih =>
    have hop : op.wf = true := hw op (by simp)
    have hrest : ∀ o ∈ ops, o.wf = true := fun o ho => hw o (by simp [ho])
    simp only [run]
    rw [h.out_eq s op hi hop, ih _ (h.inv_pres s op hi hop) hrest, h.abs_eq s op hi hop]

/-! non-vacuity: closed examples evaluate in the kernel -/
example : (run (step true) [] [.put "k" (some [1]) [⟨"a","1"⟩],
    .query (some [.nameValue "a" "1", .nameValue "a" "2"]), .query (some [.name "a"]), .reopen, .get "k"]).2
    = [.ok, .rows [], .rows [⟨"k", [1], [⟨"a","1"⟩]⟩], .ok, .notFound] := by decide

end C11
