import AriesVerif.C11.Model
/-! C11 — helper lemmas about the association-list Spec (no property statements here). -/
namespace C11

theorem lookup_key {s : Store} {k : Key} {e : Entry} (h : lookup s k = some e) : e.key = k := by
  unfold lookup at h
  have := List.find?_some h
  simpa using this

theorem lookup_mem {s : Store} {k : Key} {e : Entry} (h : lookup s k = some e) : e ∈ s :=
  List.mem_of_find?_eq_some h

theorem lookup_erase (s : Store) (k k' : Key) :
    lookup (erase s k) k' = if k' = k then none else lookup s k' := by
  unfold lookup erase
  rw [List.find?_filter]
  by_cases hk : k' = k
  · subst hk
    simp only [if_true]
    rw [List.find?_eq_none]
    intro e _
    by_cases he : e.key = k' <;> simp [he]
  · simp only [hk, if_false]
    congr 1
    funext e
    by_cases he : e.key = k'
    · have : e.key ≠ k := fun h => hk (he ▸ h)
      simp [he, this]
      exact fun h => hk h
    · simp [he]

theorem lookup_insert (s : Store) (e : Entry) (k' : Key) :
    lookup (insert s e) k' = if k' = e.key then some e else lookup s k' := by
  unfold insert
  by_cases hk : k' = e.key
  · subst hk; simp [lookup]
  · have h := lookup_erase s e.key k'
    simp only [hk, if_false] at h ⊢
    unfold lookup at h ⊢
    rw [List.find?_cons]
    have : (e.key == k') = false := by simp; exact fun h => hk h.symm
    simp [this, h]

/-- keys are pairwise distinct -/
def NoDup (s : Store) : Prop := (s.map (·.key)).Nodup

theorem noDup_erase {s : Store} (h : NoDup s) (k : Key) : NoDup (erase s k) := by
  unfold NoDup erase at *
  exact List.Nodup.sublist (List.Sublist.map _ (List.filter_sublist)) h

theorem not_mem_keys_erase (s : Store) (k : Key) : k ∉ (erase s k).map (·.key) := by
  unfold erase
  simp

theorem noDup_insert {s : Store} (h : NoDup s) (e : Entry) : NoDup (insert s e) := by
  unfold insert NoDup
  simp only [List.map_cons, List.nodup_cons]
  exact ⟨not_mem_keys_erase s e.key, noDup_erase h e.key⟩

theorem noDup_applyBatchOp {s : Store} (h : NoDup s) (o : BatchOp) : NoDup (applyBatchOp s o) := by
  unfold applyBatchOp
  split
  · exact noDup_erase h _
  · exact noDup_insert h _

theorem noDup_foldl {s : Store} (h : NoDup s) (ops : List BatchOp) : NoDup (ops.foldl applyBatchOp s) := by
  induction ops generalizing s with
  | nil => exact h
  | cons o os ih => exact ih (noDup_applyBatchOp h o)

/-- every stored tag is well-formed (no `:`) -/
def TagsOK (s : Store) : Prop := ∀ e ∈ s, tagsValid e.tags = true

theorem tagsOK_erase {s : Store} (h : TagsOK s) (k : Key) : TagsOK (erase s k) := by
  intro e he
  unfold erase at he
  exact h e (List.mem_filter.mp he).1

theorem tagsOK_insert {s : Store} (h : TagsOK s) (e : Entry) (he : tagsValid e.tags = true) : TagsOK (insert s e) := by
  intro e' he'
  unfold insert at he'
  rcases List.mem_cons.mp he' with h1 | h1
  · subst h1; exact he
  · exact tagsOK_erase h _ e' h1

theorem tagsOK_foldl {s : Store} (h : TagsOK s) (ops : List BatchOp)
    (hw : ops.all (fun o => tagsValid o.tags) = true) : TagsOK (ops.foldl applyBatchOp s) := by
  induction ops generalizing s with
  | nil => exact h
  | cons o os ih =>
    simp only [List.all_cons, Bool.and_eq_true] at hw
    apply ih _ hw.2
    unfold applyBatchOp
    split
    · exact tagsOK_erase h _
    · exact tagsOK_insert h _ hw.1

/-- the Spec preserves both invariants -/
theorem step_noDup (vol : Bool) {s : Store} (h : NoDup s) (op : Op) : NoDup (step vol s op).1 := by
  cases op with
  | put k v ts =>
    cases v with
    | none => exact h
    | some v => simp only [step]; split; exact h; exact noDup_insert h _
  | get k => simp only [step]; split; exact h; split <;> exact h
  | getTags k => simp only [step]; split; exact h; split <;> exact h
  | getBulk ks => simp only [step]; split <;> exact h
  | query q => cases q <;> exact h
  | delete k => simp only [step]; split; exact h; exact noDup_erase h _
  | batch ops => simp only [step]; split; exact noDup_foldl h _; exact h
  | flush => exact h
  | reopen => simp only [step]; split; simp [NoDup]; exact h

theorem step_tagsOK (vol : Bool) {s : Store} (h : TagsOK s) (op : Op) (hw : op.wf = true) :
    TagsOK (step vol s op).1 := by
  cases op with
  | put k v ts =>
    cases v with
    | none => exact h
    | some v =>
      simp only [step]
      split
      · exact h
      · rename_i hc
        simp only [Bool.or_eq_true, Bool.not_eq_true', not_or, Bool.not_eq_false] at hc
        exact tagsOK_insert h _ (by simpa using hc.2)
  | get k => simp only [step]; split; exact h; split <;> exact h
  | getTags k => simp only [step]; split; exact h; split <;> exact h
  | getBulk ks => simp only [step]; split <;> exact h
  | query q => cases q <;> exact h
  | delete k => simp only [step]; split; exact h; exact tagsOK_erase h _
  | batch ops => simp only [step]; split; exact tagsOK_foldl h _ hw; exact h
  | flush => exact h
  | reopen => simp only [step]; split; (intro e he; simp at he); exact h

/-! cache coherence: whatever the cache holds for a key is exactly what the main store holds -/
def Coherent (A B : Store) : Prop := ∀ k e, lookup B k = some e → lookup A k = some e

theorem coherent_nil (A : Store) : Coherent A [] := by
  intro k e h; simp [lookup] at h

theorem coherent_insert {A B : Store} (h : Coherent A B) (e : Entry) : Coherent (insert A e) (insert B e) := by
  intro k e' hb
  rw [lookup_insert] at hb ⊢
  by_cases hk : k = e.key
  · simpa [hk] using hb
  · simp only [hk, if_false] at hb ⊢; exact h k e' hb

theorem coherent_erase {A B : Store} (h : Coherent A B) (k : Key) : Coherent (erase A k) (erase B k) := by
  intro k' e' hb
  rw [lookup_erase] at hb ⊢
  by_cases hk : k' = k
  · simp [hk] at hb
  · simp only [hk, if_false] at hb ⊢; exact h k' e' hb

theorem coherent_foldl {A B : Store} (h : Coherent A B) (ops : List BatchOp) :
    Coherent (ops.foldl applyBatchOp A) (ops.foldl applyBatchOp B) := by
  induction ops generalizing A B with
  | nil => exact h
  | cons o os ih =>
    apply ih
    unfold applyBatchOp
    split
    · exact coherent_erase h _
    · exact coherent_insert h _

/-- filling the cache with the main store's own entry keeps it coherent -/
theorem coherent_fill {A B : Store} (h : Coherent A B) {k : Key} {e : Entry} (ha : lookup A k = some e) :
    Coherent A (insert B e) := by
  intro k' e' hb
  rw [lookup_insert] at hb
  have hek := lookup_key ha
  by_cases hk : k' = e.key
  · simp only [hk, if_true] at hb
    cases hb
    rw [hk, hek]; exact ha
  · simp only [hk, if_false] at hb; exact h k' e' hb

end C11
