import Lean.Data.Json
/-! JSON values as a plain inductive (objects as association lists sorted by key when they come from the parser).
    Numbers are integers (the generators only emit integers; anything else is kept as its literal text). -/
namespace Base

inductive J where
  | null
  | bool (b : Bool)
  | num (n : Int)
  | lit (s : String)          -- non-integer number literal, kept verbatim
  | str (s : String)
  | arr (l : List J)
  | obj (kvs : List (String × J))
deriving Repr, Inhabited

namespace J

partial def ofLean : Lean.Json → J
  | .null => .null
  | .bool b => .bool b
  | .num n => if n.exponent == 0 then .num n.mantissa else .lit (toString n)
  | .str s => .str s
  | .arr a => .arr (a.toList.map ofLean)
  | .obj o => .obj (o.toList.map fun (k, v) => (k, ofLean v))

def parse (s : String) : Option J :=
  match Lean.Json.parse s with
  | .ok j => some (ofLean j)
  | .error _ => none

def escape (s : String) : String := Lean.Json.renderString s

/-- canonical text (keys in list order; parsed objects are sorted by key) -/
partial def render : J → String
  | .null => "null"
  | .bool b => if b then "true" else "false"
  | .num n => toString n
  | .lit s => s
  | .str s => escape s
  | .arr l => "[" ++ ",".intercalate (l.map render) ++ "]"
  | .obj kvs => "{" ++ ",".intercalate (kvs.map fun (k, v) => escape k ++ ":" ++ render v) ++ "}"

def get? (j : J) (k : String) : Option J :=
  match j with
  | .obj kvs => (kvs.find? (·.1 == k)).map (·.2)
  | _ => none

def sortKeys (kvs : List (String × J)) : List (String × J) :=
  (kvs.toArray.qsort fun a b => a.1 < b.1).toList

end J
end Base
