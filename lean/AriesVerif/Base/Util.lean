/-! Shared driver glue: hex, splitting, canonical sorting. Nothing here is used by a theorem. -/
namespace Util

def hexDigit (c : Char) : Option Nat :=
  if '0' ≤ c ∧ c ≤ '9' then some (c.toNat - '0'.toNat)
  else if 'a' ≤ c ∧ c ≤ 'f' then some (c.toNat - 'a'.toNat + 10)
  else if 'A' ≤ c ∧ c ≤ 'F' then some (c.toNat - 'A'.toNat + 10) else none

def parseHexL : List Char → Option (List UInt8)
  | [] => some []
  | a :: b :: r => do
      let x ← hexDigit a; let y ← hexDigit b; let t ← parseHexL r
      pure (UInt8.ofNat (16 * x + y) :: t)
  | _ => none

def parseHex (s : String) : Option (List UInt8) := parseHexL s.toList

def hexChars : Array Char := "0123456789abcdef".toList.toArray

def toHex (v : List UInt8) : String :=
  String.ofList (v.flatMap fun (x : UInt8) => [hexChars[(x >>> 4).toNat]!, hexChars[(x &&& 15).toNat]!])

def sortStrings (xs : List String) : List String := (xs.toArray.qsort (· < ·)).toList

def joinWith (sep : String) (xs : List String) : String := sep.intercalate xs

/-- strip trailing newline / carriage return -/
def chomp (s : String) : String :=
  String.ofList (s.toList.reverse.dropWhile (fun c => c == '\n' || c == '\r')).reverse

end Util
