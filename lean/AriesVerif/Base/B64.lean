/-! # base64url without padding, as `encoding/base64.RawURLEncoding` implements it.

`decodeLenient` is the decoder of the Go standard library in its default (non-strict) mode: line breaks are skipped and
the unused low bits of the last character are ignored, so several texts decode to the same bytes.
`decodeCanon` accepts only the text an encoder produces (this is what `jose.decodeSegment` does after the repair of
C08-F1). Bytes are natural numbers below 256. -/
namespace B64

def alphabet : List Char := "ABCDEFGHIJKLMNOPQRSTUVWXYZabcdefghijklmnopqrstuvwxyz0123456789-_".toList

def encChar (n : Nat) : Char := alphabet.getD n 'A'

def decChar (c : Char) : Option Nat :=
  let i := alphabet.idxOf c
  if i < 64 then some i else none

/-- the 6-bit groups of a byte string; a final group is padded with zero bits -/
def sextets : List Nat → List Nat
  | a :: b :: c :: rest => a / 4 :: (a % 4 * 16 + b / 16) :: (b % 16 * 4 + c / 64) :: c % 64 :: sextets rest
  | [a, b] => [a / 4, a % 4 * 16 + b / 16, b % 16 * 4]
  | [a] => [a / 4, a % 4 * 16]
  | [] => []

def encode (bs : List Nat) : List Char := (sextets bs).map encChar

/-- 6-bit groups back to bytes; the unused bits of a final group are dropped without being looked at -/
def fromSextets : List Nat → Option (List Nat)
  | a :: b :: c :: d :: rest =>
      (fromSextets rest).map fun t => (a * 4 + b / 16) :: (b % 16 * 16 + c / 4) :: (c % 4 * 64 + d) :: t
  | [a, b, c] => some [a * 4 + b / 16, b % 16 * 16 + c / 4]
  | [a, b] => some [a * 4 + b / 16]
  | [_] => none
  | [] => some []

def isBreak (c : Char) : Bool := c == '\n' || c == '\r'

def decodeLenient (s : List Char) : Option (List Nat) :=
  ((s.filter fun c => !isBreak c).mapM decChar).bind fromSextets

def decodeCanon (s : List Char) : Option (List Nat) :=
  match decodeLenient s with
  | some bs => if encode bs = s then some bs else none
  | none => none

def Bytes (bs : List Nat) : Prop := ∀ b ∈ bs, b < 256

/-! ## lemmas -/

theorem decChar_encChar : ∀ n, n < 64 → decChar (encChar n) = some n := by decide +kernel

theorem encChar_not_break : ∀ n, n < 64 → isBreak (encChar n) = false := by decide +kernel

theorem sextets_lt (bs : List Nat) (h : Bytes bs) : ∀ x ∈ sextets bs, x < 64 := by
  induction bs using sextets.induct with
  | case1 a b c rest ih =>
    have ha := h a (by simp); have hb := h b (by simp); have hc := h c (by simp)
    have hr : Bytes rest := fun x hx => h x (by simp [hx])
    intro x hx
    simp only [sextets, List.mem_cons] at hx
    rcases hx with rfl | rfl | rfl | rfl | hx
    · omega
    · omega
    · omega
    · omega
    · exact ih hr x hx
  | case2 a b =>
    have ha := h a (by simp); have hb := h b (by simp)
    intro x hx
    simp only [sextets, List.mem_cons, List.not_mem_nil, or_false] at hx
    rcases hx with rfl | rfl | rfl <;> omega
  | case3 a =>
    have ha := h a (by simp)
    intro x hx
    simp only [sextets, List.mem_cons, List.not_mem_nil, or_false] at hx
    rcases hx with rfl | rfl <;> omega
  | case4 => intro x hx; simp [sextets] at hx

theorem fromSextets_sextets (bs : List Nat) (h : Bytes bs) : fromSextets (sextets bs) = some bs := by
  induction bs using sextets.induct with
  | case1 a b c rest ih =>
    have ha := h a (by simp); have hb := h b (by simp); have hc := h c (by simp)
    have hr : Bytes rest := fun x hx => h x (by simp [hx])
    simp only [sextets, fromSextets, ih hr, Option.map_some]
    congr 1
    have e1 : a / 4 * 4 + (a % 4 * 16 + b / 16) / 16 = a := by omega
    have e2 : (a % 4 * 16 + b / 16) % 16 * 16 + (b % 16 * 4 + c / 64) / 4 = b := by omega
    have e3 : (b % 16 * 4 + c / 64) % 4 * 64 + c % 64 = c := by omega
    rw [e1, e2, e3]
  | case2 a b =>
    have ha := h a (by simp); have hb := h b (by simp)
    simp only [sextets, fromSextets]
    have e1 : a / 4 * 4 + (a % 4 * 16 + b / 16) / 16 = a := by omega
    have e2 : (a % 4 * 16 + b / 16) % 16 * 16 + b % 16 * 4 / 4 = b := by omega
    rw [e1, e2]
  | case3 a =>
    have ha := h a (by simp)
    simp only [sextets, fromSextets]
    have e1 : a / 4 * 4 + a % 4 * 16 / 16 = a := by omega
    rw [e1]
  | case4 => rfl

theorem mapM_decChar_encChar (xs : List Nat) (h : ∀ x ∈ xs, x < 64) :
    (xs.map encChar).mapM decChar = some xs := by
  induction xs with
  | nil => rfl
  | cons x xs ih =>
    have hx := h x (by simp)
    have hr : ∀ y ∈ xs, y < 64 := fun y hy => h y (by simp [hy])
    simp [List.mapM_cons, decChar_encChar x hx, ih hr]

theorem filter_encChar (xs : List Nat) (h : ∀ x ∈ xs, x < 64) :
    (xs.map encChar).filter (fun c => !isBreak c) = xs.map encChar := by
  apply List.filter_eq_self.mpr
  intro c hc
  rcases List.mem_map.mp hc with ⟨x, hx, rfl⟩
  simp [encChar_not_break x (h x hx)]

/-- **round trip**: what an encoder writes decodes to the bytes it was given (every length). -/
theorem decodeLenient_encode (bs : List Nat) (h : Bytes bs) : decodeLenient (encode bs) = some bs := by
  have hs := sextets_lt bs h
  unfold decodeLenient encode
  rw [filter_encChar _ hs, mapM_decChar_encChar _ hs]
  simpa using fromSextets_sextets bs h

theorem decodeCanon_encode (bs : List Nat) (h : Bytes bs) : decodeCanon (encode bs) = some bs := by
  simp [decodeCanon, decodeLenient_encode bs h]

/-- **canonical decoding pins the text**: an accepted text is the encoding of what it decodes to. -/
theorem decodeCanon_text (s : List Char) (bs : List Nat) (h : decodeCanon s = some bs) : s = encode bs := by
  unfold decodeCanon at h
  split at h
  · rename_i bs' _
    split at h
    · rename_i he; simp at h; subst h; exact he.symm
    · simp at h
  · simp at h

/-- hence two accepted texts with the same bytes are the same text: no malleability -/
theorem decodeCanon_injective (s t : List Char) (bs : List Nat)
    (hs : decodeCanon s = some bs) (ht : decodeCanon t = some bs) : s = t := by
  rw [decodeCanon_text s bs hs, decodeCanon_text t bs ht]

theorem encode_injective (a b : List Nat) (ha : Bytes a) (hb : Bytes b) (h : encode a = encode b) : a = b := by
  have := decodeLenient_encode a ha
  rw [h, decodeLenient_encode b hb] at this
  exact (Option.some.inj this).symm

/-- the lenient decoder IS malleable: unused bits and line breaks (the defect C08-F1 was about) -/
theorem lenient_malleable_bits : decodeLenient "QQ".toList = decodeLenient "QR".toList ∧ "QQ" ≠ "QR" := by decide
theorem lenient_malleable_break : decodeLenient "QUJD".toList = decodeLenient "QU\nJD".toList := by decide
theorem canon_rejects : decodeCanon "QR".toList = none ∧ decodeCanon "QU\nJD".toList = none := by decide

end B64
