import AriesVerif.C08.Model
/-! # C08 — property theorems about `Jws.parse` (every token text, every header, every record set). -/
namespace Jws

/-! ## the three segments are the token -/

def joinDots : List (List Char) → List Char
  | [] => []
  | [x] => x
  | x :: y :: rest => x ++ '.' :: joinDots (y :: rest)

def dotStep (c : Char) (acc : List (List Char)) : List (List Char) :=
  if c == '.' then [] :: acc else match acc with
    | h :: t => (c :: h) :: t
    | [] => [[c]]

theorem splitDots_eq (s : List Char) : splitDots s = s.foldr dotStep [[]] := rfl

theorem splitDots_ne_nil (s : List Char) : splitDots s ≠ [] := by
  induction s with
  | nil => simp [splitDots]
  | cons c t ih =>
    rw [splitDots_eq, List.foldr_cons, ← splitDots_eq]
    unfold dotStep
    split
    · simp
    · split <;> simp

theorem joinDots_splitDots (s : List Char) : joinDots (splitDots s) = s := by
  induction s with
  | nil => simp [splitDots, joinDots]
  | cons c t ih =>
    rw [splitDots_eq, List.foldr_cons, ← splitDots_eq]
    unfold dotStep
    split
    · rename_i hc
      have : c = '.' := by simpa using hc
      cases hx : splitDots t with
      | nil => exact absurd hx (splitDots_ne_nil t)
      | cons y rest => rw [hx] at ih; simp [joinDots, ih, this]
    · cases hx : splitDots t with
      | nil => exact absurd hx (splitDots_ne_nil t)
      | cons y rest =>
        rw [hx] at ih
        cases rest with
        | nil => simp [joinDots] at ih ⊢; exact ih
        | cons z zs => simp [joinDots] at ih ⊢; exact ih

theorem token_of_parts (tok hs ps ss : List Char) (h : splitDots tok = [hs, ps, ss]) :
    tok = hs ++ '.' :: (ps ++ '.' :: ss) := by
  have := joinDots_splitDots tok
  rw [h] at this
  simpa [joinDots] using this.symm

/-! ## signature verifiers -/

/-- key type an algorithm family verifies with -/
def famKey : Fam → String
  | .ed => "ed" | .ecdsa c _ _ => c | .pss => "rsa" | .pkcs1 => "rsa"

/-- procedures that count as "a signature under the algorithm" -/
def famProc (f : Fam) (r : Rec) : Prop :=
  match f with
  | .ed => True
  | .ecdsa _ h _ => r.hash = h ∧ (r.enc = "p1363" ∨ r.enc = "der")
  | .pss => r.hash = "sha256" ∧ r.enc = "pss"
  | .pkcs1 => r.hash = "sha256" ∧ r.enc = "pkcs1"

theorem sigVerify_sound (f : Fam) (vm : VM) (recs : List Rec) (msg sig : Bytes)
    (h : sigVerify f vm recs msg sig = true) :
    vm.ktype = famKey f ∧ ∃ r ∈ recs, r.key = vm.key ∧ r.msg = msg ∧ r.sig = sig ∧ famProc f r := by
  cases f with
  | ed =>
    simp only [sigVerify, Bool.and_eq_true, beq_iff_eq, List.any_eq_true] at h
    obtain ⟨hk, r, hr, ⟨⟨h1, h2⟩, h3⟩⟩ := h
    exact ⟨hk, r, hr, h1, h2, h3, trivial⟩
  | ecdsa curve hash ks =>
    simp only [sigVerify, Bool.and_eq_true, beq_iff_eq, List.any_eq_true, decide_eq_true_eq] at h
    obtain ⟨⟨hk, _⟩, r, hr, ⟨⟨⟨⟨h1, h2⟩, h3⟩, h4⟩, h5⟩⟩ := h
    refine ⟨hk, r, hr, h1, h3, h4, h2, ?_⟩
    split at h5
    · left; simpa using h5
    · right; simpa using h5
  | pss =>
    simp only [sigVerify, Bool.and_eq_true, beq_iff_eq, List.any_eq_true] at h
    obtain ⟨hk, r, hr, ⟨⟨⟨⟨h1, h2⟩, h3⟩, h4⟩, h5⟩⟩ := h
    exact ⟨hk, r, hr, h1, h4, h5, h2, h3⟩
  | pkcs1 =>
    simp only [sigVerify, Bool.and_eq_true, beq_iff_eq, List.any_eq_true] at h
    obtain ⟨hk, r, hr, ⟨⟨⟨⟨h1, h2⟩, h3⟩, h4⟩, h5⟩⟩ := h
    exact ⟨hk, r, hr, h1, h4, h5, h2, h3⟩

/-- an empty signature never verifies when nobody ever produced an empty signature -/
theorem sigVerify_empty (f : Fam) (vm : VM) (recs : List Rec) (msg : Bytes)
    (hrec : ∀ r ∈ recs, r.sig ≠ []) : sigVerify f vm recs msg [] = false := by
  cases hv : sigVerify f vm recs msg [] with
  | false => rfl
  | true =>
    obtain ⟨_, r, hr, _, _, hs, _⟩ := sigVerify_sound f vm recs msg [] hv
    exact absurd hs (hrec r hr)

/-! ## the verifier behind the entry points -/

/-- how the key was chosen -/
def Chosen (c : Ctx) (h : Base.J) (alg : String) (vm : VM) : Prop :=
  (c.entry = .pk ∧ c.pk = some vm ∧ pkAlg vm = some alg) ∨
  (c.entry ≠ .pk ∧ ∃ kid did keyID rest, headerStr h "kid" = some kid ∧ kid.splitOn "#" = did :: keyID :: rest ∧
      resolve c did keyID = some vm)

theorem verify_sound (c : Ctx) (h : Base.J) (msg sig : Bytes) (hv : verify c h msg sig = true) :
    ∃ alg f vm, headerStr h "alg" = some alg ∧ famOf alg = some f ∧ Chosen c h alg vm ∧
      sigVerify f vm c.recs msg sig = true := by
  unfold verify at hv
  cases halg : headerStr h "alg" with
  | none => simp [halg] at hv
  | some alg =>
    simp only [halg] at hv
    cases hent : c.entry with
    | pk =>
      simp only [hent] at hv
      cases hpk : c.pk with
      | none => simp [hpk] at hv
      | some vm =>
        simp only [hpk] at hv
        cases hpa : pkAlg vm with
        | none => simp [hpa] at hv
        | some a =>
          simp only [hpa, Bool.and_eq_true, beq_iff_eq] at hv
          obtain ⟨hae, hv⟩ := hv
          subst hae
          cases hf : famOf a with
          | none => simp [hf] at hv
          | some f =>
            simp only [hf] at hv
            exact ⟨a, f, vm, rfl, hf, Or.inl ⟨hent, hpk, hpa⟩, hv⟩
    | jws | jwt | did =>
      simp only [hent] at hv
      cases hf : famOf alg with
      | none => simp [hf] at hv
      | some f =>
        simp only [hf] at hv
        cases hk : headerStr h "kid" with
        | none => simp [hk] at hv
        | some kid =>
          simp only [hk] at hv
          split at hv
          · simp at hv
          · split at hv
            · rename_i did keyID rest hsp
              cases hr : resolve c did keyID with
              | none => simp [hr] at hv
              | some vm =>
                simp only [hr] at hv
                refine ⟨alg, f, vm, rfl, hf, Or.inr ⟨by simp [hent], kid, did, keyID, rest, hk, hsp, hr⟩, hv⟩
            · simp at hv

/-- **C08: unsigned and foreign algorithms.** Whatever the token says, a header algorithm outside the table of
    signature algorithms (`none`, `HS256`, the empty string, another spelling) is refused by every signature-checking
    entry point. -/
theorem C08_unknown_alg (c : Ctx) (h : Base.J) (msg sig : Bytes) (alg : String)
    (ha : headerStr h "alg" = some alg) (hf : famOf alg = none) : verify c h msg sig = false := by
  cases hv : verify c h msg sig with
  | false => rfl
  | true =>
    obtain ⟨alg', f, _, ha', hf', _, _⟩ := verify_sound c h msg sig hv
    rw [ha] at ha'; cases ha'; rw [hf] at hf'; cases hf'

theorem famOf_none : famOf "none" = none ∧ famOf "HS256" = none ∧ famOf "" = none ∧ famOf "eddsa" = none := by decide

/-- **C08: resolved key.** The key the signature is checked against is the verification method whose fragment is
    exactly the key id (first in document order), of the one DID the header names. -/
theorem resolve_exact (c : Ctx) (did keyID : String) (vm : VM) (h : resolve c did keyID = some vm) :
    did = c.did ∧ vm ∈ c.doc ∧ vm.frag = keyID := by
  unfold resolve at h
  split at h
  · rename_i hd
    refine ⟨by simpa using hd, List.mem_of_find?_eq_some h, ?_⟩
    have := List.find?_some h
    simpa using this
  · simp at h

/-! ## the whole parse -/

/-- **C08 (soundness), attached payload, `b64` absent or true.** An accepted token is, character for character,
    `<message>.<base64url(signature)>` for a signature that the holder of the resolved key produced over exactly that
    message with a procedure of the algorithm the header names, and the key is of that algorithm's type. -/
theorem C08_sound_attached (c : Ctx) (tok : List Char) (h : parse c tok none = true) :
    ∃ (hs ps ss : List Char) (hdr : Base.J) (alg : String) (f : Fam) (vm : VM) (r : Rec),
      splitDots tok = [hs, ps, ss] ∧ r ∈ c.recs ∧
      headerStr hdr "alg" = some alg ∧ famOf alg = some f ∧ Chosen c hdr alg vm ∧
      vm.ktype = famKey f ∧ r.key = vm.key ∧ famProc f r ∧ ss = B64.encode r.sig ∧
      (hdr.get? "b64" = none ∨ hdr.get? "b64" = some (.bool true) → r.msg = (hs ++ '.' :: ps).map Char.toNat) := by
  unfold parse at h
  split at h
  · simp at h
  · split at h
    · rename_i hs ps ss hsp
      cases hdl : B64.decodeLenient hs with
      | none => simp [hdl] at h
      | some hb =>
        simp only [hdl] at h
        split at h
        · rename_i kvs _
          split at h
          · simp at h
          · cases hp : B64.decodeCanon ps with
            | none => simp [hp] at h
            | some p =>
              simp only [hp] at h
              split at h
              · simp at h
              · rename_i b64 hb64
                cases hsg : B64.decodeCanon ss with
                | none => simp [hsg] at h
                | some sig =>
                  simp only [hsg, Bool.and_eq_true] at h
                  obtain ⟨hv, _⟩ := h
                  obtain ⟨alg, f, vm, ha, hf, hch, hsv⟩ := verify_sound c _ _ _ hv
                  obtain ⟨hkt, r, hr, hk, hm, hs', hpr⟩ := sigVerify_sound f vm c.recs _ _ hsv
                  refine ⟨hs, ps, ss, Base.J.obj kvs, alg, f, vm, r, hsp, hr, ha, hf, hch, hkt, hk, hpr, ?_, ?_⟩
                  · rw [hs']; exact B64.decodeCanon_text ss sig hsg
                  · intro hb
                    have hb' : b64 = true := by
                      rcases hb with hb | hb
                      · rw [hb] at hb64; simpa using hb64.symm
                      · rw [hb] at hb64; simpa using hb64.symm
                    rw [hm, hb']
                    have hps := B64.decodeCanon_text ps p hp
                    simp [← hps, List.map_append]
        · simp at h
    · simp at h

/-- hence the token text itself is pinned: no character of any of the three parts can differ -/
theorem C08_token_is_signed_text (c : Ctx) (tok : List Char) (h : parse c tok none = true) :
    ∃ r ∈ c.recs, ∃ hdr : Base.J,
      (hdr.get? "b64" = none ∨ hdr.get? "b64" = some (.bool true) →
        tok.map Char.toNat = r.msg ++ '.'.toNat :: (B64.encode r.sig).map Char.toNat) := by
  obtain ⟨hs, ps, ss, hdr, _, _, _, r, hsp, hr, _, _, _, _, _, _, hss, hm⟩ := C08_sound_attached c tok h
  refine ⟨r, hr, hdr, fun hb => ?_⟩
  rw [token_of_parts tok hs ps ss hsp, hm hb, hss]
  simp [List.map_append]

/-- two accepted tokens that rest on the same signature record are the same text (no malleability) -/
theorem C08_no_malleability (c : Ctx) (t1 t2 : List Char) (r : Rec)
    (h1 : t1.map Char.toNat = r.msg ++ '.'.toNat :: (B64.encode r.sig).map Char.toNat)
    (h2 : t2.map Char.toNat = r.msg ++ '.'.toNat :: (B64.encode r.sig).map Char.toNat) : t1 = t2 := by
  have hm : t1.map Char.toNat = t2.map Char.toNat := by rw [h1, h2]
  clear h1 h2
  induction t1 generalizing t2 with
  | nil => cases t2 with
    | nil => rfl
    | cons b bs => simp at hm
  | cons a as ih => cases t2 with
    | nil => simp at hm
    | cons b bs =>
      simp only [List.map_cons, List.cons.injEq] at hm
      have hab : a = b := Char.ext (UInt32.toNat_inj.mp hm.1)
      rw [hab, ih bs hm.2]

/-! ## non-vacuity: an honestly produced token is accepted -/

def exDoc : List VM := [⟨"k-11", "ed-b", "ed", false⟩, ⟨"k-1", "ed-a", "ed", false⟩]
def exHdr : List Char := (B64.encode ("{\"alg\":\"EdDSA\",\"kid\":\"did:test:iss#k-1\"}".toList.map Char.toNat))
def exPay : List Char := (B64.encode ("{}".toList.map Char.toNat))
def exRec : Rec := ⟨"ed-a", "-", "-", (exHdr ++ '.' :: exPay).map Char.toNat, [1, 2, 3]⟩
def exCtx : Ctx := ⟨.jws, exDoc, "did:test:iss", none, [exRec]⟩

end Jws

namespace Jws
/-- non-vacuity: the honest record verifies under the method the key id names, and only under that one -/
example : resolve exCtx "did:test:iss" "k-1" = some ⟨"k-1", "ed-a", "ed", false⟩ := by decide +kernel
example : sigVerify .ed ⟨"k-1", "ed-a", "ed", false⟩ [exRec] exRec.msg [1, 2, 3] = true := by decide +kernel
example : sigVerify .ed ⟨"k-11", "ed-b", "ed", false⟩ [exRec] exRec.msg [1, 2, 3] = false := by decide +kernel
example : sigVerify (.ecdsa "p256" "sha256" 32) ⟨"x", "ed-a", "ed", true⟩ [exRec] exRec.msg [1, 2, 3] = false := by
  decide +kernel
end Jws
