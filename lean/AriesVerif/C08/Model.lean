import AriesVerif.Base.B64
import AriesVerif.Base.Json
/-! # C08 — Model: `jose.parseCompacted`, `jwt.NewVerifier` / `jwt.GetVerifier`, `didsignjwt` key resolution, the
signature verifiers of `signature/verifier/public_key_verifier.go`.

Signatures are ideal: `sig` is a valid signature of `msg` under key `k` with procedure `(hash, enc)` exactly when the
signer produced it — the set of produced signatures is the list of `Rec`ords (EUF-CMA; ECDSA's `(r, n-s)` twin is outside
the model). Everything else is computed on the received characters. -/
namespace Jws

abbrev Bytes := List Nat

structure Rec where
  key : String          -- name of the signing key
  hash : String         -- sha256 | sha384 | sha512 | -
  enc : String          -- p1363 | der | pss | pkcs1 | -
  msg : Bytes
  sig : Bytes
deriving DecidableEq, Repr

structure VM where
  frag : String
  key : String          -- name of the key the method carries
  ktype : String        -- ed | p256 | p384 | p521 | k256 | rsa
  jwk : Bool
deriving DecidableEq, Repr

/-- the algorithm table of `jwt.NewVerifier` (public_key_verifier.go constructors) -/
inductive Fam
  | ed
  | ecdsa (curve hash : String) (keySize : Nat)
  | pss
  | pkcs1
deriving DecidableEq, Repr

def algTable : List (String × Fam) :=
  [("ES256", .ecdsa "p256" "sha256" 32), ("ES384", .ecdsa "p384" "sha384" 48), ("ES521", .ecdsa "p521" "sha512" 66),
   ("EdDSA", .ed), ("ES256K", .ecdsa "k256" "sha256" 32), ("PS256", .pss), ("RS256", .pkcs1)]

def famOf (alg : String) : Option Fam := (algTable.find? (·.1 == alg)).map (·.2)

/-- `SignatureVerifier.Verify(pubKey, msg, sig)` for the key carried by `vm` -/
def sigVerify (f : Fam) (vm : VM) (recs : List Rec) (msg sig : Bytes) : Bool :=
  match f with
  | .ed => vm.ktype == "ed" && recs.any fun r => r.key == vm.key && r.msg == msg && r.sig == sig
  | .ecdsa curve hash ks =>
      vm.ktype == curve && decide (2 * ks ≤ sig.length) &&
      recs.any fun r => r.key == vm.key && r.hash == hash && r.msg == msg && r.sig == sig &&
        (if sig.length == 2 * ks then r.enc == "p1363" else r.enc == "der")
  | .pss => vm.ktype == "rsa" && recs.any fun r =>
      r.key == vm.key && r.hash == "sha256" && r.enc == "pss" && r.msg == msg && r.sig == sig
  | .pkcs1 => vm.ktype == "rsa" && recs.any fun r =>
      r.key == vm.key && r.hash == "sha256" && r.enc == "pkcs1" && r.msg == msg && r.sig == sig

/-- `jwt.GetVerifier`: the single algorithm derived from the JWK's key type (RSA keys map to PS256 only) -/
def pkAlg (vm : VM) : Option String :=
  match vm.ktype with
  | "ed" => some "EdDSA" | "p256" => some "ES256" | "p384" => some "ES384" | "p521" => some "ES521"
  | "k256" => some "ES256K" | "rsa" => some "PS256" | _ => none

def bytesToString (bs : Bytes) : Option String :=
  if bs.all (· < 128) then some (String.ofList (bs.map Char.ofNat)) else none

def splitDots (s : List Char) : List (List Char) :=
  (s.foldr (fun c acc => if c == '.' then [] :: acc else match acc with
    | h :: t => (c :: h) :: t
    | [] => [[c]]) [[]])

inductive Entry | jws | jwt | did | pk
deriving DecidableEq, Repr

structure Ctx where
  entry : Entry
  doc : List VM            -- verification methods of the one resolvable DID, in document order
  did : String
  pk : Option VM           -- the fixed key of the `pk` entry
  recs : List Rec

/-- `didsignjwt.VDRKeyResolver`: the method whose fragment is the key id (first in document order) -/
def resolve (c : Ctx) (did keyID : String) : Option VM :=
  if did == c.did then c.doc.find? (·.frag == keyID) else none

def headerStr (h : Base.J) (k : String) : Option String :=
  match h.get? k with | some (.str s) => some s | _ => none

/-- `verifier.Verify(joseHeaders, payload, signingInput, signature)` -/
def verify (c : Ctx) (h : Base.J) (msg sig : Bytes) : Bool :=
  match headerStr h "alg" with
  | none => false
  | some alg =>
    match c.entry with
    | .pk =>
      match c.pk with
      | none => false
      | some vm => match pkAlg vm with
        | none => false
        | some a => a == alg && (match famOf a with | some f => sigVerify f vm c.recs msg sig | none => false)
    | _ =>
      match famOf alg with
      | none => false                                   -- "no verifier found for <alg> algorithm": none, HS256, ...
      | some f =>
        match headerStr h "kid" with
        | none => false                                 -- `kid, _ := KeyID()`: "" is not a DID
        | some kid =>
          if !kid.startsWith "did:" then false else
          match kid.splitOn "#" with
          | did :: keyID :: _ =>
            match resolve c did keyID with
            | some vm => sigVerify f vm c.recs msg sig
            | none => false
          | _ => false

/-- `jose.ParseJWS` (compact form) followed, for the JWT entries, by `mapJWSToJWT` -/
def parse (c : Ctx) (tok : List Char) (det : Option Bytes) : Bool :=
  if tok.head? == some '{' then false else
  match splitDots tok with
  | [hs, ps, ss] =>
    match B64.decodeLenient hs with
    | none => false
    | some hb =>
      match (bytesToString hb).bind Base.J.parse with
      | some (.obj kvs) =>
        let h := Base.J.obj kvs
        if (h.get? "alg").isNone then false else
        let payload : Option Bytes := match det with
          | some d => if d.isEmpty then B64.decodeCanon ps else (if ps.isEmpty then some d else none)
          | none => B64.decodeCanon ps
        match payload with
        | none => false
        | some p =>
          let b64 : Option Bool := match h.get? "b64" with
            | none => some true
            | some (.bool b) => some b
            | some _ => none
          match b64 with
          | none => false
          | some b64 =>
            let payloadText : Bytes := if b64 then (B64.encode p).map Char.toNat else p
            let msg := hs.map Char.toNat ++ ['.'.toNat] ++ payloadText
            match B64.decodeCanon ss with
            | none => false
            | some sig =>
              verify c h msg sig &&
              (match c.entry with
               | .did =>                                  -- claims must decode into a map; `cty: JWT` is refused
                 (match (bytesToString p).bind Base.J.parse with | some (.obj _) => true | _ => false)
               | _ => true)
      | _ => false
  | _ => false

end Jws
