import AriesVerif.C08.Model
import AriesVerif.Base.Util
/-! C08 driver glue (format of harness/cmd/corr/c08.go). -/
namespace Jws.Drv
open Jws Util

def keyTypes : List String := ["ed", "p256", "p384", "p521", "k256", "rsa"]

/-- the DID document of the harness, in document order -/
def doc : List VM :=
  [⟨"k-11", "ed-b", "ed", false⟩, ⟨"k-1", "ed-a", "ed", false⟩] ++
  keyTypes.flatMap fun t => ["raw", "jwk"].flatMap fun rep => ["a", "b"].map fun n =>
    ⟨s!"{t}-{rep}-{n}", s!"{t}-{n}", t, rep == "jwk"⟩

/-- a second DID whose document has the SAME fragments, each bound to the other key of its type (a ↔ b): a verifier that
    remembers keys by fragment alone confuses the two -/
def swapAB (k : String) : String :=
  if k.endsWith "-a" then (k.dropEnd 2).toString ++ "-b" else if k.endsWith "-b" then (k.dropEnd 2).toString ++ "-a" else k

def otherDoc : List VM := doc.map fun v => { v with key := swapAB v.key }

/-- the DID named by the token's `kid` -/
def kidDid (tok : List Char) : Option String :=
  match splitDots tok with
  | hs :: _ =>
    match (B64.decodeLenient hs).bind fun hb => (bytesToString hb).bind Base.J.parse with
    | some h => (headerStr h "kid").bind fun k => (k.splitOn "#").head?
    | none => none
  | _ => none

/-- did:key documents: one verification method, whose fragment is the fingerprint the DID consists of. `dk` lists the
    fingerprints of the harness keys (`name:fingerprint`, from the output line) -/
def didKeyDoc (dk : List (String × String)) (did : String) : Option (List VM) :=
  if did.startsWith "did:key:" then
    let fp := (did.drop 8).toString
    (dk.find? (·.2 == fp)).map fun (name, _) => [⟨fp, name, "ed", false⟩]
  else none

def docOf (did : String) (dk : List (String × String) := []) : Option (List VM) :=
  if did == "did:test:iss" then some doc else if did == "did:test:other" then some otherDoc else didKeyDoc dk did

def parseDK (s : String) : List (String × String) :=
  (s.splitOn ",").filterMap fun e => match e.splitOn ":" with | [n, fp] => some (n, fp) | _ => none

def hexToNats (s : String) : Option (List Nat) := (parseHex s).map fun bs => bs.map (·.toNat)

def natsToHex (bs : List Nat) : String := toHex (bs.map fun n => UInt8.ofNat n)

def unescapeNl : List Char → List Char
  | '\\' :: 'n' :: rest => '\n' :: unescapeNl rest
  | c :: rest => c :: unescapeNl rest
  | [] => []

def field (words : List String) (k : String) : Option String :=
  (words.find? (·.startsWith (k ++ "="))).map fun w => (w.drop (k.length + 1)).toString

def parseRec (s : String) : Option Rec :=
  match s.splitOn "," with
  | [key, hash, enc, msg, sig] => do
    let m ← B64.decodeLenient msg.toList
    let g ← B64.decodeLenient sig.toList
    pure ⟨key, hash, enc, m, g⟩
  | _ => none

def entryOf : String → Option Entry
  | "jws" => some .jws | "jwt" => some .jwt | "did" => some .did | "pk" => some .pk
  -- a JWT credential through verifiable.ParseCredential: jwt.Parse with the signature verifier underneath
  | "vc" => some .jwt | "vcn" => some .jwt | _ => none

/-- the conclusion of `C08_sound`, evaluated on what was accepted -/
def specAccepts (entry : Entry) (pk : Option VM) (recs : List Rec) (tok : List Char) (det : Option Bytes)
    (dk : List (String × String) := []) : Bool :=
  match splitDots tok with
  | [hs, ps, ss] =>
    match (B64.decodeLenient hs).bind fun hb => (bytesToString hb).bind Base.J.parse with
    | some h =>
      match headerStr h "alg" with
      | none => false
      | some alg =>
        match famOf alg with
        | none => false
        | some f =>
          let vm : Option VM := match entry with
            | .pk => pk
            | _ => match (headerStr h "kid").map (·.splitOn "#") with
              | some (did :: frag :: _) => (docOf did dk).bind fun d => d.find? (·.frag == frag)
              | _ => none
          match vm with
          | none => false
          | some vm =>
            let b64 := match h.get? "b64" with | some (.bool false) => false | _ => true
            let text : Option Bytes := match det with
              | none => some (ps.map Char.toNat)
              | some d => if ps.isEmpty then some (if b64 then (B64.encode d).map Char.toNat else d) else none
            match text with
            | none => false
            | some text =>
              let msg := hs.map Char.toNat ++ ['.'.toNat] ++ text
              let keyOk : Bool := match f with
                | .ed => vm.ktype == "ed" | .ecdsa c _ _ => vm.ktype == c | _ => vm.ktype == "rsa"
              keyOk && recs.any fun r =>
                r.key == vm.key && r.msg == msg && B64.encode r.sig == ss &&
                (match f with
                 | .ed => true
                 | .ecdsa _ hh _ => r.hash == hh && (r.enc == "p1363" || r.enc == "der")
                 | .pss => r.hash == "sha256" && r.enc == "pss"
                 | .pkcs1 => r.hash == "sha256" && r.enc == "pkcs1")
    | none => false
  | _ => false

def judge (input impl : String) : String × String :=
  match input.splitOn "|" with
  | ["b64", hx] =>
    match hexToNats hx with
    | none => ("bad-input", "bad-input")
    | some raw =>
      let chars := raw.map Char.ofNat
      let d := match B64.decodeLenient chars with
        | none => "err"
        | some bs => if bs.isEmpty then "-" else natsToHex bs
      (s!"dec={d} enc={String.ofList (B64.encode raw)}", "=")
  | ["tok", entry, _alg, vmS, _proc, _claims, _form, _mut] =>
    match entryOf entry with
    | none => ("bad-input", "bad-input")
    | some e =>
      let words := impl.splitOn " "
      match field words "tok", field words "det", field words "rec", field words "res" with
      | some tokS, some detS, some recS, some res =>
        let tok := unescapeNl tokS.toList
        let det : Option Bytes := if detS == "-" then none else hexToNats detS
        let recs := if recS == "-" then [] else (parseRec recS).toList
        let pk := doc.find? (·.frag == vmS)
        let dk := ((field words "dk").map parseDK).getD []
        let ctx : Ctx := match kidDid tok with
          | some "did:test:other" => ⟨e, otherDoc, "did:test:other", pk, recs⟩
          | some d => match didKeyDoc dk d with
            | some dd => ⟨e, dd, d, pk, recs⟩
            | none => ⟨e, doc, "did:test:iss", pk, recs⟩
          | _ => ⟨e, doc, "did:test:iss", pk, recs⟩
        let m := if parse ctx tok det then "acc" else "rej"
        let modelCol := if m == res then "=" else s!"model: res={m}"
        let specCol := if res == "acc" && !specAccepts e pk recs tok det dk
          then "ACCEPTED-WITHOUT-A-VALID-SIGNATURE-BY-THE-RESOLVED-KEY-OVER-THE-RECEIVED-BYTES" else "="
        (modelCol, specCol)
      | _, _, _, _ => (if impl == "bad-input" then "=" else "unparsable-output", "=")
  | _ => ("bad-input", "bad-input")

end Jws.Drv
