import AriesVerif.C09.Model
import AriesVerif.Generated.States
/-! # C09 — property theorems

Part 1: obligations on the transition tables REGENERATED from the code on every run (`Generated/States.lean`):
a relaxed `CanTransitionTo` breaks one of these `decide` proofs at the next `lake build`.
Part 2: the engine — whatever the tables are, as long as they are within the published graph. -/
namespace C09

/-! ## Part 1 — the regenerated tables are within the published graphs -/

theorem graphs_wellFormed :
    didexchange.wellFormed ∧ legacyconnection.wellFormed ∧ issuecredential.wellFormed ∧ presentproof.wellFormed ∧
    introduce.wellFormed := by decide

theorem didexchange_table_ok :
    tableWithin didexchange Gen.didexchange_can ∧ terminalAbsorbing didexchange Gen.didexchange_can ∧
    noRoleSwitch didexchange Gen.didexchange_can ∧ targetsDeclared Gen.didexchange_states Gen.didexchange_target := by
  decide

theorem legacyconnection_table_ok :
    tableWithin legacyconnection Gen.legacyconnection_can ∧ terminalAbsorbing legacyconnection Gen.legacyconnection_can ∧
    noRoleSwitch legacyconnection Gen.legacyconnection_can ∧
    targetsDeclared Gen.legacyconnection_states Gen.legacyconnection_target := by
  decide

theorem issuecredentialV2_table_ok :
    tableWithin issuecredential Gen.issuecredentialV2_can ∧ terminalAbsorbing issuecredential Gen.issuecredentialV2_can ∧
    noRoleSwitch issuecredential Gen.issuecredentialV2_can ∧
    targetsDeclared Gen.issuecredentialV2_states Gen.issuecredentialV2_target := by
  decide

theorem issuecredentialV3_table_ok :
    tableWithin issuecredential Gen.issuecredentialV3_can ∧ terminalAbsorbing issuecredential Gen.issuecredentialV3_can ∧
    noRoleSwitch issuecredential Gen.issuecredentialV3_can ∧
    targetsDeclared Gen.issuecredentialV3_states Gen.issuecredentialV3_target := by
  decide

theorem presentproofV2_table_ok :
    tableWithin presentproof Gen.presentproofV2_can ∧ terminalAbsorbing presentproof Gen.presentproofV2_can ∧
    noRoleSwitch presentproof Gen.presentproofV2_can ∧
    targetsDeclared Gen.presentproofV2_states Gen.presentproofV2_target := by
  decide

theorem presentproofV3_table_ok :
    tableWithin presentproof Gen.presentproofV3_can ∧ terminalAbsorbing presentproof Gen.presentproofV3_can ∧
    noRoleSwitch presentproof Gen.presentproofV3_can ∧
    targetsDeclared Gen.presentproofV3_states Gen.presentproofV3_target := by
  decide

theorem introduce_table_ok :
    tableWithin introduce Gen.introduce_can ∧ terminalAbsorbing introduce Gen.introduce_can ∧
    noRoleSwitch introduce Gen.introduce_can ∧ targetsDeclared Gen.introduce_states Gen.introduce_target := by
  decide

/-! ## Part 2 — the engine -/

/-- `Within P g`: every transition the protocol's `CanTransitionTo` allows is an edge of the graph -/
def Within (P : Proto) (g : Graph) : Prop := ∀ a b, P.can a b = true → edge g a b = true

/-- a table that passed `tableWithin` gives `Within` for the engine instantiated with it -/
theorem within_of_table (g : Graph) (tbl : List (String × String)) (h : tableWithin g tbl = true)
    (P : Proto) (hP : ∀ a b, P.can a b = tbl.contains (a, b)) : Within P g := by
  intro a b hab
  rw [hP] at hab
  unfold tableWithin at h
  rw [List.all_eq_true] at h
  exact h (a, b) (List.contains_iff_mem.mp hab)

theorem isPathFrom_append (g : Graph) (a : String) (xs ys : List String) (h1 : isPathFrom g a xs = true)
    (h2 : isPathFrom g (xs.getLast?.getD a) ys = true) : isPathFrom g a (xs ++ ys) = true := by
  induction xs generalizing a with
  | nil => simpa using h2
  | cons x xs ih =>
    simp only [isPathFrom, Bool.and_eq_true] at h1
    simp only [List.cons_append, isPathFrom, Bool.and_eq_true]
    refine ⟨h1.1, ih x h1.2 ?_⟩
    cases xs with
    | nil => simpa using h2
    | cons y ys' =>
      have hne : (y :: ys').getLast? ≠ none := by simp
      cases hl : (y :: ys').getLast? with
      | none => exact absurd hl hne
      | some z =>
        have e1 : (x :: y :: ys').getLast? = some z := by rw [List.getLast?_cons_cons]; exact hl
        rw [e1] at h2
        simpa using h2

/-- **the execution loop only walks edges**: the states announced by one `handle` run starting in `s` form a path, for
    every `Execute` behaviour, every context and every fuel — because each follow-up is re-checked with `CanTransitionTo` -/
theorem chain_isPath (P : Proto) (g : Graph) (hW : Within P g) (ctx : Ctx) (fuel : Nat) (s0 s : String)
    (h0 : edge g s0 s = true) : isPathFrom g s0 (chain P ctx fuel s).1 = true := by
  induction fuel generalizing s0 s with
  | zero => simp [chain, isPathFrom]
  | succ n ih =>
    unfold chain
    by_cases hn : (s == "noop") = true
    · simp [hn, isPathFrom]
    · simp only [hn, Bool.false_eq_true, if_false]
      cases he : P.exec s ctx with
      | none => simp [isPathFrom, h0]
      | some next =>
        simp only
        by_cases hc : (next != "noop" && !P.can s next) = true
        · simp [hc, isPathFrom, h0]
        · simp only [hc, Bool.false_eq_true, if_false, isPathFrom, h0, Bool.true_and]
          by_cases hnn : (next == "noop") = true
          · have : next = "noop" := by simpa using hnn
            subst this
            cases n <;> simp [chain, isPathFrom]
          · have hcan : P.can s next = true := by
              simp only [Bool.and_eq_true, Bool.not_eq_true', not_and, Bool.not_eq_false, bne_iff_ne, ne_eq] at hc
              exact hc (by simpa using hnn)
            exact ih s next (hW s next hcan)

/-- **a message that is not allowed in the thread's current state is rejected and changes nothing** -/
theorem reject_noop (P : Proto) (st : St) (tid m : String) (wc : Bool) (nxt : String)
    (ht : P.target m false = some nxt) (hc : P.can (cur st tid) nxt = false) :
    step P st (.inbound tid m wc) = (st, ⟨false, false, 0, []⟩) := by
  simp [step, ht, hc]

theorem reject_noop_outbound (P : Proto) (st : St) (tid m : String) (wc : Bool) (nxt : String)
    (ht : P.target m true = some nxt) (hc : P.can (cur st tid) nxt = false) :
    step P st (.outbound tid m wc) = (st, ⟨false, false, 0, []⟩) := by
  simp [step, ht, hc]

/-- **terminal states are never left by a message**: when the table has no edge out of terminal states, every message
    for a thread whose persisted state is terminal is rejected without any change -/
theorem terminal_absorbing (P : Proto) (g : Graph) (tbl : List (String × String))
    (hP : ∀ a b, P.can a b = tbl.contains (a, b)) (hT : terminalAbsorbing g tbl = true)
    (st : St) (tid m : String) (wc : Bool) (hterm : g.terminal.contains (cur st tid) = true) :
    step P st (.inbound tid m wc) = (st, ⟨false, false, 0, []⟩) := by
  cases ht : P.target m false with
  | none => simp [step, ht]
  | some nxt =>
    apply reject_noop P st tid m wc nxt ht
    rw [hP]
    apply Bool.eq_false_iff.mpr
    intro hc
    unfold terminalAbsorbing at hT
    rw [List.all_eq_true] at hT
    have := hT (cur st tid, nxt) (List.contains_iff_mem.mp hc)
    simp only [Bool.not_eq_true', ] at this
    rw [hterm] at this
    cases this

/-- with the re-check (present-proof after the `fix:` commit) a stale callback is dropped without any effect on the thread -/
theorem stale_callback_dropped (P : Proto) (st : St) (k i : Nat) (opt : String) (p : Parked)
    (hp : parkedAt st k = some (i, p)) (hr : P.recheck = true)
    (hc : P.can (cur st p.tid) p.nxt = false) :
    (step P st (.continue_ k opt)).2.announced = [] ∧
    (step P st (.continue_ k opt)).1.persisted = st.persisted := by
  have hcur : cur { st with parked := st.parked.set i { p with decided := true } } p.tid = cur st p.tid := rfl
  simp [step, hp, hr, hcur, hc]

/-! ## the defects as closed examples (C09-F1 repaired in present-proof, C09-F2 open in issue-credential) -/

def ppT : Proto :=
  ⟨fun a b => Gen.presentproofV2_can.contains (a, b),
   fun m ob => match Gen.presentproofV2_target.find? (fun t => t.1 == m && t.2.1 == ob) with
     | some t => some t.2.2 | none => none,
   (· != "2.0/ack"), ppExec, true, "abandoned", true, ["done", "abandoned"]⟩

def runAll (P : Proto) : St → List Op → List (List (String × List String))
  | _, [] => []
  | st, op :: ops => let r := step P st op; r.2.announced :: runAll P r.1 ops

/-- duplicate request-presentation while the first is parked: with the re-check the second callback is dropped -/
example : runAll ppT init [.inbound "t" "2.0/request-presentation" false, .inbound "t" "2.0/request-presentation" false,
    .continue_ 0 "pres", .continue_ 0 "pres"]
    = [[], [], [("t", ["request-received", "presentation-sent", "done"])], []] := by decide

/-- the same history without the re-check (the code before the fix, and issue-credential today): `done` is left -/
example : (runAll { ppT with recheck := false } init [.inbound "t" "2.0/request-presentation" false,
    .inbound "t" "2.0/request-presentation" false, .continue_ 0 "pres", .continue_ 0 "pres"]).flatten.flatMap (·.2)
    = ["request-received", "presentation-sent", "done", "request-received", "presentation-sent", "done"] ∧
    validTrace presentproof ["request-received", "presentation-sent", "done", "request-received", "presentation-sent", "done"]
      = false := by decide

end C09
